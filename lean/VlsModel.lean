-- Root of the `VlsModel` library: models, lemmas and property theorems.
import VlsModel.Prim.U64
import VlsModel.Model.Velocity
