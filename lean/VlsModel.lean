-- Root of the `VlsModel` library.  Property theorem modules (VlsModel/Props/Cxx.lean) are built
-- explicitly by bin/setup and bin/check; this root only pulls in the shared primitives.
import VlsModel.Prim.U64
