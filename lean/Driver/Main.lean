import VlsModel.Drv.Common
import VlsModel.Drv.C01
import VlsModel.Drv.C02
import VlsModel.Drv.C03
import VlsModel.Drv.C04
import VlsModel.Drv.C05
import VlsModel.Drv.C06
import VlsModel.Drv.C07
import VlsModel.Drv.C08
import VlsModel.Drv.C09
import VlsModel.Drv.C10
import VlsModel.Drv.C11
import VlsModel.Drv.C12
import VlsModel.Drv.C13
import VlsModel.Drv.C14
import VlsModel.Drv.C15
import VlsModel.Drv.C16
import VlsModel.Drv.C17
import VlsModel.Drv.C18
import VlsModel.Drv.C19
import VlsModel.Drv.C20
import VlsModel.Drv.FnGen
/-
`vlsmodel <model>`: reads one operation per line from stdin and prints one result line per
operation.  A line `case <id>` resets the model to its initial state and is echoed, so that the
harness can align the two output streams per case.
-/
open VlsModel.Drv

def registry : List (String × Model) :=
  C01.models ++
  C02.models ++
  C03.models ++
  C04.models ++
  C05.models ++
  C06.models ++
  C07.models ++
  C08.models ++
  C09.models ++
  C10.models ++
  C11.models ++
  C12.models ++
  C13.models ++
  C14.models ++
  C15.models ++
  C16.models ++
  C17.models ++
  C18.models ++
  C19.models ++
  C20.models ++
  FnGen.models

partial def loop (m : Model) (h : IO.FS.Stream) (out : IO.FS.Stream) (s : m.σ) : IO Unit := do
  let line ← h.getLine
  if line.isEmpty then return ()
  let toks := tokens line
  match toks with
  | [] => loop m h out s
  | "case" :: _ =>
    out.putStrLn (" ".intercalate toks)
    loop m h out m.init
  | _ =>
    let (s', o) := m.step s toks
    out.putStrLn o
    loop m h out s'

def main (args : List String) : IO UInt32 := do
  match args with
  | [name] =>
    match registry.lookup name with
    | some m =>
      let out ← IO.getStdout
      loop m (← IO.getStdin) out m.init
      out.flush
      return 0
    | none => IO.eprintln s!"unknown model {name}"; return 2
  | _ => IO.eprintln "usage: vlsmodel <model>"; return 2
