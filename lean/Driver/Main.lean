import VlsModel.Drv.Common
import VlsModel.Drv.Velocity
/-
`vlsmodel <model>`: reads one operation per line from stdin and prints one result line per
operation.  A line `case <id>` resets the model to its initial state and is echoed, so that the
harness can align the two output streams per case.
-/
open VlsModel.Drv

def registry : List (String × Model) :=
  [ ("velocity", Velocity.model),
    ("velocity_node", Velocity.nodeModel) ]

partial def loop (m : Model) (h : IO.FS.Stream) (out : IO.FS.Stream) (s : m.σ) : IO Unit := do
  let line ← h.getLine
  if line.isEmpty then return ()
  let toks := tokens line
  match toks with
  | [] => loop m h out s
  | "case" :: _ =>
    out.putStrLn (" ".intercalate toks)
    loop m h out m.init
  | _ =>
    let (s', o) := m.step s toks
    out.putStrLn o
    loop m h out s'

def main (args : List String) : IO UInt32 := do
  match args with
  | [name] =>
    match registry.lookup name with
    | some m =>
      let out ← IO.getStdout
      loop m (← IO.getStdin) out m.init
      out.flush
      return 0
    | none => IO.eprintln s!"unknown model {name}"; return 2
  | _ => IO.eprintln "usage: vlsmodel <model>"; return 2
