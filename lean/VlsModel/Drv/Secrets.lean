import VlsModel.Model.Secrets
import VlsModel.Drv.Common
/- Line-protocol driver for the compact secret store (property C03). -/
namespace VlsModel.Drv.Secrets
open VlsModel VlsModel.Secrets VlsModel.Drv

def storeDigest (st : Store Bytes) : String :=
  "[" ++ ",".intercalate (st.map fun e => toHex e.1 ++ ":" ++ toString e.2) ++ "]"

def digest (st : Store Bytes) : String :=
  s!"{st.length} {minSeen st} {storeDigest st}"

def step (st : Store Bytes) (toks : List String) : Store Bytes × String :=
  match toks with
  | ["new"] => ([], "ok " ++ digest [])
  | ["provide", idx, sec] =>
    match nat? idx, hex? sec with
    | some idx, some sec =>
      match provide shaF st idx sec with
      | some st' => (st', "ok " ++ digest st')
      | none => (st, "err " ++ digest st)
    | _, _ => (st, "bad-op")
  | ["get", idx] =>
    match nat? idx with
    | some idx =>
      match get shaF st idx with
      | .some s => (st, "some " ++ toHex s)
      | .none => (st, "none")
      | .panic => (st, "panic")
    | none => (st, "bad-op")
  | ["place", idx] =>
    match nat? idx with
    | some idx => (st, toString (place idx))
    | none => (st, "bad-op")
  | ["derive", sec, bits, idx] =>
    match hex? sec, nat? bits, nat? idx with
    | some sec, some bits, some idx => (st, toHex (derive shaF sec bits idx))
    | _, _, _ => (st, "bad-op")
  | _ => (st, "bad-op")

def model : Model := { σ := Store Bytes, init := [], step := step }

end VlsModel.Drv.Secrets
