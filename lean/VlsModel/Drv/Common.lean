/-
Shared plumbing of the line-protocol driver: a model is a state type, an initial state and a
step function from one tokenised input line to a new state and one output line.
-/
namespace VlsModel.Drv

structure Model where
  σ : Type
  init : σ
  step : σ → List String → σ × String

def natList (l : List Nat) : String := "[" ++ ",".intercalate (l.map toString) ++ "]"

def tokens (line : String) : List String :=
  (line.trimAscii.toString.splitOn " ").filter (fun s => !s.isEmpty)

def nat? (s : String) : Option Nat := s.toNat?

def hexDigit? (c : Char) : Option Nat :=
  if '0' ≤ c ∧ c ≤ '9' then some (c.toNat - '0'.toNat)
  else if 'a' ≤ c ∧ c ≤ 'f' then some (c.toNat - 'a'.toNat + 10)
  else if 'A' ≤ c ∧ c ≤ 'F' then some (c.toNat - 'A'.toNat + 10)
  else none

/-- hex string → bytes; `none` on odd length or non-hex characters. "-" denotes the empty string. -/
def hex? (s : String) : Option (List UInt8) :=
  if s == "-" then some [] else
  let rec go : List Char → List UInt8 → Option (List UInt8)
    | [], acc => some acc.reverse
    | [_], _ => none
    | a :: b :: rest, acc =>
      match hexDigit? a, hexDigit? b with
      | some x, some y => go rest (UInt8.ofNat (x * 16 + y) :: acc)
      | _, _ => none
  go s.toList []

def hexChar (n : Nat) : Char :=
  if n < 10 then Char.ofNat (n + '0'.toNat) else Char.ofNat (n - 10 + 'a'.toNat)

def toHex (b : List UInt8) : String :=
  if b.isEmpty then "-" else
  String.ofList (b.flatMap (fun x => [hexChar (x.toNat / 16), hexChar (x.toNat % 16)]))

end VlsModel.Drv
