import VlsModel.Drv.Common
import VlsModel.Drv.Hmac
/- Line-protocol models serving property C17. -/
namespace VlsModel.Drv.C17
open VlsModel.Drv

def models : List (String × Model) := [ ("hmac", Hmac.model) ]

end VlsModel.Drv.C17
