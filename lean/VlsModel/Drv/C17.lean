import VlsModel.Drv.Common
/- Line-protocol models serving property C17 (none yet). -/
namespace VlsModel.Drv.C17
open VlsModel.Drv

def models : List (String × Model) := []

end VlsModel.Drv.C17
