import VlsModel.Drv.Common
import VlsModel.Drv.Velocity
/- Line-protocol models serving property C12. -/
namespace VlsModel.Drv.C12
open VlsModel.Drv

def models : List (String × Model) :=
  [ ("velocity", Velocity.model), ("velocity_node", Velocity.nodeModel) ]

end VlsModel.Drv.C12
