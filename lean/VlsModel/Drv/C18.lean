import VlsModel.Drv.Common
/- Line-protocol models serving property C18 (none yet). -/
namespace VlsModel.Drv.C18
open VlsModel.Drv

def models : List (String × Model) := []

end VlsModel.Drv.C18
