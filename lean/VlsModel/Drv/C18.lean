import VlsModel.Drv.Common
import VlsModel.Drv.Keys
/- Line-protocol models serving property C18. -/
namespace VlsModel.Drv.C18
open VlsModel.Drv

def models : List (String × Model) := [ ("keys", Keys.model) ]

end VlsModel.Drv.C18
