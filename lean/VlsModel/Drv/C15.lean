import VlsModel.Drv.Common
/- Line-protocol models serving property C15 (none yet). -/
namespace VlsModel.Drv.C15
open VlsModel.Drv

def models : List (String × Model) := []

end VlsModel.Drv.C15
