import VlsModel.Drv.Common
import VlsModel.Drv.Chain
/- Line-protocol models serving property C15. -/
namespace VlsModel.Drv.C15
open VlsModel.Drv

def models : List (String × Model) := [ ("prune", Chain.pruneModel) ]

end VlsModel.Drv.C15
