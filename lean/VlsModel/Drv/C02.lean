import VlsModel.Drv.Common
/- Line-protocol models serving property C02 (none yet). -/
namespace VlsModel.Drv.C02
open VlsModel.Drv

def models : List (String × Model) := []

end VlsModel.Drv.C02
