import VlsModel.Drv.Common
/- Line-protocol models serving property C13 (none yet). -/
namespace VlsModel.Drv.C13
open VlsModel.Drv

def models : List (String × Model) := []

end VlsModel.Drv.C13
