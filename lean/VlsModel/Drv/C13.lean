import VlsModel.Drv.Common
import VlsModel.Drv.Chain
/- Line-protocol models serving property C13. -/
namespace VlsModel.Drv.C13
open VlsModel.Drv

def models : List (String × Model) := [ ("tracker", Chain.trackerModel) ]

end VlsModel.Drv.C13
