import VlsModel.Drv.Common
/- Line-protocol models serving property C05 (none yet). -/
namespace VlsModel.Drv.C05
open VlsModel.Drv

def models : List (String × Model) := []

end VlsModel.Drv.C05
