import VlsModel.Drv.Common
import VlsModel.Drv.Policy
/- Line-protocol models serving property C05. -/
namespace VlsModel.Drv.C05
open VlsModel.Drv

def models : List (String × Model) := [ ("policy", Policy.model) ]

end VlsModel.Drv.C05
