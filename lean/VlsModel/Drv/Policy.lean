import VlsModel.Model.Policy
import VlsModel.Model.MutualClose
import VlsModel.Drv.Common
/-
Line-protocol driver for the policy / mutual-close model (properties C05 and C07).

All tokens are decimal integers.
  policy  <onchain> <minDelay> <maxDelay> <maxChan> <eps> <maxHtlcs> <maxHtlcValue> <useChain> <minFee> <maxFee> <maxRoutingFee> <warnmask> [<k> (<idx> <kind> <action>)*k]
  setup   <outbound> <value> <pushMsat> <holderDelay> <cpDelay> <ctype 0..3> <upfrontSid (0=none)> <upfrontSpendable> <upfrontAllowlisted> [<permanentId 0|1> [<gapBlocks>]]
  allow <sid>* | allow_add <sid>* | allow_rm <sid>*       (allowlist set / add / remove; model: no-op, the flags on the close ops follow)
  restart                                                 (node restored from the real persister; state digest must be unchanged)
  chain   <height> <fundingDepth> <closingDepth>          (monitor state forced; for u32-edge heights)
  blk     <kind 0..7> <height> <fundingDepth> <closingDepth>   (a real block through the tracker: unrelated /
                                                          with the funding tx / with a spend of the funding outpoint)
  unblk   <height> <fundingDepth> <closingDepth>          (the tip block disconnected)
          for blk/unblk the numbers are the chain state the generator's chain simulation expects afterwards;
          the implementation side prints what `Channel::get_chain_state` really returns, so the simulation is
          checked against the real ChainMonitor on every op.  `chain` and `blk`/`unblk` are not mixed in a case.
  cp      <n> <pointVariant + 2*phase1> <feerate> <toHolder> <toCp> <k> (<value> <expiry>)*k <m> (<value> <expiry>)*m
  hold    <n> <feerate> <toHolder> <toCp> <k> (..)*k <m> (..)*m <sigsOk + 2*phase1>
  revoke  <n>
  cprevoke <n>
  close2  <toHolder> <toCp> <hPresent> <sid> <len> <rank> <canSpend> <allowlisted> <cPresent> <sid> <len> <rank> <canSpend> <allowlisted>
  close1  <npaths> <version> <locktime> <sequence> <outpoint (1 = the funding outpoint)> <nouts> (<value> <sid> <len> <rank> <canSpend> <allowlisted>)*nouts
          on success the close ops also print ` tx=<version>/<locktime>/<sequence>/<outpoint>/[<value>@<sid>,..]`, the
          structured rendering of the transaction that is signed (`canonClose`); the harness prints the rendering of
          the transaction it built from scratch and against which the returned signature verified
Output: `<result> <digest>` with result ∈ ok | err:<class> | panic, or `nochan` / `dead` / `bad-op`.
`warnmask` bit k downgrades the k-th tag of `maskTags` to a warning (exact-match rule); bit 30 prepends
the permissive rule.
-/
namespace VlsModel.Drv.Policy
open VlsModel VlsModel.Policy VlsModel.MutualClose VlsModel.Drv
open VlsModel.Gen.Policy (Action Rule CType RawPolicy)

def maskTags : List Tag :=
  [ .channelSafeType, .delayHolder, .delayCounterparty, .fundingMax, .outputsTrimmed, .htlcCountLimit,
    .htlcCltvRange, .htlcInflightLimit, .commitmentFeeRange, .firstNoHtlcs, .initialFundingValue,
    .spendsActiveUtxo, .mutualDestinationAllowlisted, .mutualNoPendingHtlcs, .mutualFeeRange,
    .mutualValueMatches, .previousRevoked, .retrySame, .holderNotRevoked, .revokeNewCommitmentSigned,
    .revokeNotClosed, .onchainFormatStandard, .mutualOther, .policyOther ]

def filterOfMask (mask : Nat) : List Rule :=
  let specific := (maskTags.zipIdx.filter (fun (_, k) => mask.testBit k)).map (fun (t, _) => (⟨t.name, false, .warn⟩ : Rule))
  -- bit 29: exact-match rules whose tags are proper prefixes of real tags (must downgrade nothing)
  let nearMiss : List Rule := if mask.testBit 29 then
    ["policy-commitment-fee", "policy-commitment-htlc", "policy-commitment", "policy-mutual",
     "policy-channel-contest-delay-range"].map (fun t => (⟨t, false, .warn⟩ : Rule)) else []
  if mask.testBit 30 then permissiveFilter ++ nearMiss ++ specific else nearMiss ++ specific

/-- prefixes used by explicit prefix rules on the op line (same table as `PREFIXES` in c05_world.rs) -/
def prefixTable : List String :=
  ["policy-commitment-", "policy-mutual-", "policy-", "policy-channel-", "policy-commitment-htlc-",
   "policy-commitment-fee", "", "policy-onchain-", "policy-revoke-", "policy-funding-",
   -- longer than the real tags they extend: as prefix rules they match no real tag
   "policy-commitment-fee-range-x", "policy-commitment-outputs-trimmed-more", "policy-mutual-fee-range-x",
   "policy-commitment-htlc-count-limit2"]

/-- explicit, ORDERED rules that precede the mask-derived ones: triples `<idx> <kind> <action>`;
    kind 0 = exact rule on the idx-th tag of `maskTags`, kind 1 = prefix rule on the idx-th entry of
    `prefixTable`; action 0 = error, 1 = warn -/
def explicitRules? : List Nat → Option (List Rule)
  | [] => some []
  | idx :: kind :: act :: rest => do
    let tag ← if kind = 0 then (maskTags[idx]?).map Tag.name else prefixTable[idx]?
    let tail ← explicitRules? rest
    pure ((⟨tag, kind != 0, if act = 0 then .error else .warn⟩ : Rule) :: tail)
  | _ => none

structure St where
  policy : Policy
  setup : Setup
  chain : ChainState
  es : EState
  ready : Bool
  dead : Bool
  /-- 0 = chain untouched, 1 = forced by `chain`, 2 = real blocks (`blk`/`unblk`); not mixed in one case -/
  mode : Nat

def defaultPolicy : Policy := { Gen.Policy.defaultTestnet with onchain := false }

def St.init : St :=
  { policy := defaultPolicy,
    setup := ⟨true, 0, 0, 0, 0, .staticRemoteKey, none, false, false⟩,
    chain := ⟨0, 0, 0⟩, es := EState.init, ready := false, dead := false, mode := 0 }

def b (n : Nat) : Bool := n != 0

def ctypeOf : Nat → Option CType
  | 0 => some .legacy | 1 => some .staticRemoteKey | 2 => some .anchors | 3 => some .anchorsZeroFeeHtlc
  | _ => none

def nats? (l : List String) : Option (List Nat) := l.mapM nat?

/-- parse `<k> (<value> <expiry>)*k`, hashes are `base + index` -/
def htlcs? (base : Nat) : List Nat → Option (List Htlc × List Nat)
  | [] => none
  | k :: rest =>
    let rec go : Nat → Nat → List Nat → List Htlc → Option (List Htlc × List Nat)
      | 0, _, rest, acc => some (acc.reverse, rest)
      | j + 1, idx, v :: e :: rest, acc => go j (idx + 1) rest (⟨v, e, base + idx⟩ :: acc)
      | _ + 1, _, _, _ => none
    go k 0 rest []

def outs? : Nat → List Nat → List Out → Option (List Out × List Nat)
  | 0, rest, acc => some (acc.reverse, rest)
  | j + 1, v :: sid :: len :: rk :: cs :: al :: rest, acc => outs? j rest (⟨v, sid, len, rk, b cs, b al⟩ :: acc)
  | _ + 1, _, _ => none

/-- can the harness build a real commitment transaction from these values (so that the phase-1 entry
    points can be exercised)?  Same predicate on the Rust side (`c05_world.rs::buildable`). -/
def buildable (s : Setup) (n th tc : Nat) (hs : List Htlc) : Bool :=
  decide (n ≤ 281474976710655) && decide (th ≤ 2100000000000000) && decide (tc ≤ 2100000000000000) &&
  hs.all (fun h => decide (h.value ≤ 2100000000000000) && decide (h.expiry ≤ 2147483647)) && decide (s.holderDelay ≤ 2016) && decide (s.cpDelay ≤ 2016) &&
  (s.ctype == .staticRemoteKey || s.ctype == .anchorsZeroFeeHtlc)

def digest (e : EState) : String :=
  s!"h={e.nextHolder} c={e.nextCp} r={e.nextRevoke} closed={if e.closed then 1 else 0} pend={if e.nextHolderInfo.isSome then 1 else 0}"

def resStr : Except Kind α → String
  | .ok _ => "ok"
  | .error .panic => "panic"
  | .error k => "err:" ++ k.name

def renderTx (t : ClosingTx) : String :=
  let outs := ",".intercalate (t.outputs.map (fun o => s!"{o.value}@{o.sid}"))
  s!"tx={t.version}/{t.locktime}/{t.sequence}/{t.outpoint}/[{outs}]"

/-- the channel's funding outpoint (opaque id used on the op lines) -/
def fundingId : Nat := 1

/-- result of a close: new state + the transaction that is signed -/
def applyClose (st : St) (r : Except Kind (EState × ClosingTx)) : St × String :=
  match r with
  | .ok (e', tx) => ({ st with es := e' }, "ok " ++ digest e' ++ " " ++ renderTx tx)
  | .error .panic => ({ st with dead := true }, "panic")
  | .error k => (st, "err:" ++ k.name ++ " " ++ digest st.es)

/-- apply the result of an entry point that returns a new enforcement state -/
def applyRes (st : St) (r : Except Kind EState) : St × String :=
  match r with
  | .ok e' => ({ st with es := e' }, "ok " ++ digest e')
  | .error .panic => ({ st with dead := true }, "panic")
  | .error k => (st, "err:" ++ k.name ++ " " ++ digest st.es)

def step (st : St) (toks : List String) : St × String :=
  if st.dead then (st, "dead") else
  match toks with
  | [] => (st, "bad-op")
  | op :: args =>
    match nats? args with
    | none => (st, "bad-op")
    | some a =>
      match op, a with
      | "policy", oc :: mind :: maxd :: maxc :: eps :: maxh :: maxhv :: uc :: minf :: maxf :: mrf :: mask :: extra =>
        -- optional tail: `<k> (<idx> <kind> <action>)*k`, explicit ordered rules evaluated before the mask rules
        let explicit : Option (List Rule) := match extra with
          | [] => some []
          | k :: triples => if triples.length = 3 * k then explicitRules? triples else none
        match explicit with
        | none => (st, "bad-op")
        | some ex =>
          let raw : RawPolicy :=
            { minDelay := mind, maxDelay := maxd, maxChannelSize := maxc, epsilon := eps, maxHtlcs := maxh,
              maxHtlcValue := maxhv, useChainState := b uc, minFeerate := minf, maxFeerate := maxf,
              maxRoutingFeeMsat := mrf, enforceBalance := false, filter := ex ++ filterOfMask mask }
          ({ st with policy := { raw with onchain := b oc } }, "ok")
      | "allow", _ => (st, "ok")
      | "allow_add", _ => (st, "ok")
      | "allow_rm", _ => (st, "ok")
      -- the node is dropped and restored from its persister: the enforcement state must come back as it was
      | "restart", [] => (st, if st.ready then "ok " ++ digest st.es else "ok")
      -- optional tail `<perm> <gap>`: a permanent channel id is supplied (invisible to the model: one channel);
      -- `gap` blocks arrive between the creation of the stub and setup_channel: the channel's monitor starts at
      -- the tracker's height at setup time, 3 seed headers + gap
      | "setup", ob :: v :: push :: hd :: cd :: ct :: up :: ups :: upa :: extra =>
        if extra.length > 2 || extra[1]?.getD 0 > 50 then (st, "bad-op") else
        if st.ready then (st, "already") else
        match ctypeOf ct with
        | none => (st, "bad-op")
        | some ct =>
          let s : Setup := ⟨b ob, v, push, hd, cd, ct, if up = 0 then none else some up, b ups, b upa⟩
          match setupChannel st.policy s with
          | .ok () => ({ st with setup := s, ready := true, es := EState.init, mode := 0,
                                 chain := ⟨3 + extra[1]?.getD 0, 0, 0⟩ }, "ok")
          | .error .panic => ({ st with dead := true }, "panic")
          | .error k => (st, "err:" ++ k.name)
      | "chain", [h, fd, cd] =>
        if !st.ready then (st, "nochan") else
        if st.mode = 2 then (st, "bad-op") else
        ({ st with chain := ⟨h, fd, cd⟩, mode := 1 }, s!"ok {h} {fd} {cd}")
      -- real blocks: the op line carries the chain state the generator's chain simulation expects
      -- afterwards; the implementation prints what `get_chain_state` really returns
      | "blk", [_, h, fd, cd] =>
        if !st.ready then (st, "nochan") else
        if st.mode = 1 then (st, "bad-op") else
        ({ st with chain := ⟨h, fd, cd⟩, mode := 2 }, s!"ok {h} {fd} {cd}")
      | "unblk", [h, fd, cd] =>
        if !st.ready then (st, "nochan") else
        if st.mode ≠ 2 then (st, "bad-op") else
        ({ st with chain := ⟨h, fd, cd⟩ }, s!"ok {h} {fd} {cd}")
      | "cp", n :: pv :: fr :: th :: tc :: rest =>
        if !st.ready then (st, "nochan") else
        match htlcs? 0 rest with
        | none => (st, "bad-op")
        | some (off, rest) =>
          match htlcs? 1000 rest with
          | some (recv, []) =>
            let i : Info := Info.new true th tc off recv fr
            -- phase 1 is used exactly when requested (pv ≥ 2) and the harness can build the transaction
            let ph1 := decide (pv ≥ 2) && buildable st.setup n th tc (off ++ recv)
            applyRes st (signCounterparty st.policy st.setup st.chain st.es n (2 * n + pv % 2) i ph1)
          | _ => (st, "bad-op")
      | "hold", n :: fr :: th :: tc :: rest =>
        if !st.ready then (st, "nochan") else
        match htlcs? 0 rest with
        | none => (st, "bad-op")
        | some (off, rest) =>
          match htlcs? 1000 rest with
          | some (recv, [flag]) =>
            let i : Info := Info.new false tc th off recv fr
            -- bit 0: good signatures; bit 1: phase-1 entry point (used only when the harness can build the tx)
            -- the harness cannot produce counterparty HTLC signatures when the HTLC transaction itself cannot
            -- be built (value below its fee): then it always hands over bad signatures
            let sigsOk := b (flag % 2) && !htlcTxUnderflow st.setup i
            if flag ≥ 2 && buildable st.setup n th tc (off ++ recv) && !htlcTxUnderflow st.setup i then
              applyRes st (validateHolderPhase1 st.policy st.setup st.chain st.es n i sigsOk)
            else
              applyRes st (validateHolderPhase2 st.policy st.setup st.chain st.es n i sigsOk)
          | _ => (st, "bad-op")
      | "revoke", [n] =>
        if !st.ready then (st, "nochan") else applyRes st (revokeHolder st.policy st.es n)
      | "cprevoke", [n] =>
        if !st.ready then (st, "nochan") else applyRes st (cpRevoke st.policy st.es n (2 * n))
      | "close2", [hv, cv, hp, hsid, hlen, hrk, hcs, hal, cp, csid, clen, crk, ccs, cal] =>
        if !st.ready then (st, "nochan") else
        let hs : Option Out := if b hp then some ⟨hv, hsid, hlen, hrk, b hcs, b hal⟩ else none
        let cs : Option Out := if b cp then some ⟨cv, csid, clen, crk, b ccs, b cal⟩ else none
        applyClose st (signClose2 st.policy st.setup st.es fundingId ⟨hv, cv, hs, cs⟩)
      | "close1", np :: ver :: lt :: sq :: op :: k :: rest =>
        if !st.ready then (st, "nochan") else
        match outs? k rest [] with
        | some (outs, []) =>
          applyClose st ((signClose1 st.policy st.setup st.es fundingId ⟨ver, lt, sq, op, outs⟩ np).map
            (fun r => (r.1, r.2.2)))
        | _ => (st, "bad-op")
      | _, _ => (st, "bad-op")

def model : Model := { σ := St, init := St.init, step := step }

end VlsModel.Drv.Policy
