import VlsModel.Model.Enforcement
import VlsModel.Drv.Common
import VlsModel.Drv.Secrets
/- Line-protocol driver for the enforcement state machine (properties C01, C02, C03). -/
namespace VlsModel.Drv.Enforcement
open VlsModel VlsModel.Enforcement VlsModel.Drv

def optNat : Option Nat → String
  | none => "-"
  | some n => toString n

def resStr : Res → String
  | .ok => "ok" | .errPolicy => "err:policy" | .errInvalid => "err:invalid"
  | .errInternal => "err:internal" | .panic => "panic"

def outStr (o : Out) : String :=
  resStr o.res ++ (match o.secret with | some k => s!" secret={k}" | none => "")
    ++ (match o.signed with | some k => s!" signed={k}" | none => "")

def digest (c : Chan) : String :=
  let slot := match c.slot with | .stub => "stub" | .ready => "ready"
  let store := match c.secrets with
    | none => "nostore"
    | some st => s!"{st.length} {Secrets.minSeen st} {Secrets.storeDigest st}"
  s!"{slot} h={c.next} cur={optNat c.cur} nx={optNat c.nextInfo} closed={if c.closed then 1 else 0} " ++
  s!"cc={c.cpCommit} cr={c.cpRevoke} cpt={optNat c.curPt} ppt={optNat c.prevPt} " ++
  s!"ci={optNat c.curInfo} pi={optNat c.prevInfo} st={store}"

def bits? (s : String) : Option (List Bool) :=
  s.toList.mapM (fun ch => if ch = '1' then some true else if ch = '0' then some false else none)

/-- the signature fact of a validate request: either the digest `1|0|2|3` (corpus lines, replays of earlier rounds)
    or the RAW per-signature facts `r<commitOk>:<nHtlc>:<bit per supplied HTLC signature>:<payOk>`, from which the
    model computes the fact itself (`Enforcement.sigFactOf` = the loop of `check_holder_tx_signatures`) -/
def sig? : String → Option SigFact
  | "1" => some .valid | "0" => some .invalid | "2" => some .oob | "3" => some .validUnpaid
  | s =>
    match s.splitOn ":" with
    | [c, n, b, p] => do
      let c ← (match c with | "r1" => some true | "r0" => some false | _ => none)
      let n ← nat? n
      let b ← bits? b
      let p ← (match p with | "1" => some true | "0" => some false | _ => none)
      pure (sigFactOf c n b p)
    | _ => none

def bool? : String → Option Bool
  | "1" => some true | "0" => some false | _ => none

/-- op line → model op; trailing tokens the model does not need (entry-point variant) are ignored -/
def parse (toks : List String) : Option Op :=
  match toks with
  | ["setup"] => some .setup
  | ["restart"] => some .restart
  | ["activate"] => some .activate
  | ["signrecovery"] => some .signRecovery
  | ["getpoint", n] => (nat? n).map .getPoint
  | ["getsecret", n] => (nat? n).map .getSecret
  | ["getsecretnone", n] => (nat? n).map .getSecretOrNone
  | "revoke" :: n :: rest => do
    let n ← nat? n
    let po ← (match rest with | [] => some true | p :: _ => bool? p)
    pure (.revoke n po)
  | ["signholder", n] => (nat? n).map .signHolder
  | "validate" :: n :: c :: s :: p :: _ => do
    let n ← nat? n; let c ← nat? c; let s ← sig? s; let p ← bool? p
    pure (.validate n c s p)
  | ["signredundant", n, c, p] => do
    let n ← nat? n; let c ← nat? c; let p ← bool? p
    pure (.signRedundant n c p)
  | "mutualclose" :: p :: _ => (bool? p).map .signMutualClose
  | "signcp" :: n :: pt :: c :: p :: _ => do
    let n ← nat? n; let pt ← nat? pt; let c ← nat? c; let p ← bool? p
    pure (.signCp n pt c p)
  | ["revokecp", n, sec, pt] => do
    let n ← nat? n; let sec ← hex? sec; let pt ← nat? pt
    pure (.revokeCp n sec pt)
  | "hvalidate" :: v :: n :: c :: s :: p :: _ => do
    let v ← nat? v; let n ← nat? n; let c ← nat? c; let s ← sig? s; let p ← bool? p
    pure (.hValidate v n c s p)
  | "hrevoke" :: v :: n :: rest => do
    let v ← nat? v; let n ← nat? n
    let po ← (match rest with | [] => some true | p :: _ => bool? p)
    pure (.hRevoke v n po)
  | ["hgetpoint", v, n] => do let v ← nat? v; let n ← nat? n; pure (.hGetPoint v n)
  | ["hgetpoint2", n] => (nat? n).map .hGetPoint2
  | _ => none

def stepLine (s : Sys) (toks : List String) : Sys × String :=
  match parse toks with
  | none => (s, "bad-op")
  | some op =>
    let (s', o) := step Secrets.shaF s op
    -- did the request write the channel entry?  (`persisted` of the channel method; a restart writes nothing)
    let w := match op with
      | .restart => false
      | op => (chanStep Secrets.shaF s.mem op).persisted
    (s', outStr o ++ " | " ++ digest s'.mem ++ (if w then " w=1" else " w=0"))

def model : Model := { σ := Sys, init := init, step := stepLine }

end VlsModel.Drv.Enforcement
