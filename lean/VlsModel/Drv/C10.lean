import VlsModel.Drv.Common
/- Line-protocol models serving property C10 (none yet). -/
namespace VlsModel.Drv.C10
open VlsModel.Drv

def models : List (String × Model) := []

end VlsModel.Drv.C10
