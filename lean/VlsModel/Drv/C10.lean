import VlsModel.Drv.Common
import VlsModel.Drv.NodeReq
/- Line-protocol models serving properties C10 and C11. -/
namespace VlsModel.Drv.C10
open VlsModel.Drv

def models : List (String × Model) := [ ("nodereq", NodeReq.model) ]

end VlsModel.Drv.C10
