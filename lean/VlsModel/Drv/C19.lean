import VlsModel.Drv.Common
import VlsModel.Drv.Wire
/- Line-protocol models serving property C19. -/
namespace VlsModel.Drv.C19
open VlsModel.Drv

def models : List (String × Model) := [ ("wire", Wire.model) ]

end VlsModel.Drv.C19
