import VlsModel.Drv.Common
/- Line-protocol models serving property C19 (none yet). -/
namespace VlsModel.Drv.C19
open VlsModel.Drv

def models : List (String × Model) := []

end VlsModel.Drv.C19
