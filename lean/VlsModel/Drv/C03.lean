import VlsModel.Drv.Common
/- Line-protocol models serving property C03 (none yet). -/
namespace VlsModel.Drv.C03
open VlsModel.Drv

def models : List (String × Model) := []

end VlsModel.Drv.C03
