import VlsModel.Drv.Common
import VlsModel.Drv.Secrets
/- Line-protocol models serving property C03. -/
namespace VlsModel.Drv.C03
open VlsModel.Drv

def models : List (String × Model) :=
  [ ("secrets", Secrets.model) ]

end VlsModel.Drv.C03
