import VlsModel.Model.Monitor
import VlsModel.Model.Tracker
import VlsModel.Model.Prune
import VlsModel.Drv.Common
/- Line-protocol drivers for the chain models: `monitor` (C14), `tracker` (C13), `prune` (C15). -/
namespace VlsModel.Drv.Chain
open VlsModel VlsModel.Monitor VlsModel.Drv

/-! ### parsing -/

def splitOn1 (s : String) (sep : String) : List String := s.splitOn sep

def natListOf? (s : String) (sep : String) : Option (List Nat) :=
  if s == "-" then some [] else (s.splitOn sep).mapM nat?

def outpoint? (s : String) : Option OutPoint :=
  match s.splitOn "." with
  | [a, b] => do let a ← nat? a; let b ← nat? b; some (a, b)
  | _ => none

def outpoints? (s : String) : Option (List OutPoint) :=
  if s == "-" then some [] else (s.splitOn ";").mapM outpoint?

def kind? (s : String) : Option Kind :=
  if s == "p" then some .plain
  else if s.startsWith "c" then
    match (s.drop 1).toString.splitOn "/" with
    | [o, h] => do
      let our ← if o == "-" then some none else (nat? o).map some
      let hs ← natListOf? h ","
      some (.commit our hs)
    | _ => none
  else none

/-- `T<txid>:<inputs>:<nOut>:<kind>` -/
def tx? (s : String) : Option Tx :=
  if !s.startsWith "T" then none else
  match (s.drop 1).toString.splitOn ":" with
  | [t, i, n, k] => do
    let t ← nat? t; let i ← outpoints? i; let n ← nat? n; let k ← kind? k
    some { txid := t, inputs := i, nOut := n, kind := k }
  | _ => none

def txs? (l : List String) : Option (List Tx) := l.mapM tx?

/-! ### printing -/

def optNat : Option Nat → String
  | none => "-" | some n => toString n

def opStr (o : OutPoint) : String := s!"{o.1}.{o.2}"

def optOp : Option OutPoint → String
  | none => "-" | some o => opStr o

def joinOr (l : List String) (sep : String) : String := if l.isEmpty then "-" else sep.intercalate l

def bit (b : Bool) : String := if b then "1" else "0"

def opLt (a b : OutPoint) : Bool := a.1 < b.1 || (a.1 == b.1 && a.2 < b.2)

def insertSorted (x : OutPoint) : List OutPoint → List OutPoint
  | [] => [x]
  | y :: ys => if x == y then y :: ys else if opLt x y then x :: y :: ys else y :: insertSorted x ys

def sortSet (l : List OutPoint) : List OutPoint := l.foldl (fun acc x => insertSorted x acc) []

def setStr (l : List OutPoint) : String := "[" ++ ",".intercalate ((sortSet l).map opStr) ++ "]"

def closingStr : Option Closing → String
  | none => "-"
  | some c =>
    let our := match c.our with | none => "-" | some (i, b) => s!"{i}+{bit b}"
    let second := joinOr (c.second.map fun (o, b) => s!"{opStr o}+{bit b}") ";"
    s!"{c.txid}/{our}/{joinOr (c.htlcOutputs.map toString) ","}/{joinOr (c.htlcSpents.map bit) ","}/{second}"

def stateStr (s : State) : String :=
  s!"h={s.height} fh={optNat s.fundingHeight} fo={optOp s.fundingOutpoint} ds={optNat s.dsHeight} " ++
  s!"mc={optNat s.mutualHeight} uc={optNat s.uniHeight} co={closingStr s.closing} " ++
  s!"csh={optNat s.closingSweptHeight} osh={optNat s.ourSweptHeight} sb={bit s.sawBlock} sf={bit s.sawForget}"

/-- the views other components read: `funding_depth`, `funding_double_spent_depth`, `closing_depth`, `as_chain_state` -/
def viewStr (s : State) : String :=
  let cs := match s.chainState with
    | none => "panic"
    | some c => s!"{c.currentHeight},{c.fundingDepth},{c.dsDepth},{c.closingDepth}"
  s!"v={s.fundingDepth},{s.dsDepth},{s.closingDepth};{cs}"

def listenerStr (l : Listener) : String :=
  stateStr l.st ++ s!" w={setStr l.slot.watches} seen={setStr l.slot.seen} " ++ viewStr l.st

/-! ### `monitor` (C14): one monitor with its ListenSlot -/

structure MonSt where
  l : Listener
  dead : Bool

/-- do the hypotheses of theorem `C14_roundtrip` hold for adding `txs` to `s`?  (printed so that the
harness can check that they hold for every consensus-valid block it generates) -/
def hypStr (s : State) (txs : List Tx) : String :=
  match addBlock s txs with
  | none => "hyp=-"
  | some (s', _, _) =>
    let stable := detect { s' with sawBlock := true } txs == detect { s with sawBlock := true } txs
    s!"hyp={bit stable}"

def monStep (m : MonSt) (toks : List String) : MonSt × String :=
  if m.dead then (m, "dead") else
  match toks with
  | ["init", h, t, v, i] =>
    match nat? h, nat? t, nat? v, outpoints? i with
    | some h, some t, some v, some i =>
      let l : Listener := { st := State.init h t v i, slot := { txidWatches := [t], watches := i, seen := [] } }
      ({ l, dead := false }, "ok " ++ listenerStr l)
    | _, _, _, _ => (m, "bad-op")
  | "add" :: _ :: rest =>
    match txs? rest with
    | none => (m, "bad-op")
    | some txs =>
      match m.l.add txs with
      | none => ({ m with dead := true }, "panic")
      | some l' => ({ m with l := l' }, "ok " ++ listenerStr l' ++ " " ++ hypStr m.l.st txs)
  | "remove" :: _ :: rest =>
    match txs? rest with
    | none => (m, "bad-op")
    | some txs =>
      match m.l.remove txs with
      | none => ({ m with dead := true }, "panic")
      | some l' => ({ m with l := l' }, "ok " ++ listenerStr l')
  | ["restart"] =>
    -- the monitor state and its ListenSlot are persisted with the tracker entry: restart is the identity
    (m, "ok " ++ listenerStr m.l)
  | [dirn, k] =>
    if dirn == "orphan" then
      let l' : Listener := if k == "s" then { m.l with st := { m.l.st with sawBlock := true } } else m.l
      ({ m with l := l' }, "rej " ++ listenerStr l')
    else if dirn != "addn" && dirn != "removen" then (m, "bad-op") else
    match nat? k with
    | none => (m, "bad-op")
    | some k =>
      let rec go (l : Listener) : Nat → Option Listener
        | 0 => some l
        | j + 1 => match (if dirn == "addn" then l.add [] else l.remove []) with
          | none => none
          | some l' => go l' j
      match go m.l k with
      | none => ({ m with dead := true }, "panic")
      | some l' => ({ m with l := l' }, "ok " ++ listenerStr l')
  | "orphan" :: d :: _ =>
    -- a block the tracker refuses (it does not build on the tip): the monitor is not touched, except that
    -- the chunks of a streamed block set `saw_block` (`on_block_start`)
    let l' : Listener := if d == "s" then { m.l with st := { m.l.st with sawBlock := true } } else m.l
    ({ m with l := l' }, "rej " ++ listenerStr l')
  | ["forget"] =>
    let l' := Prune.setForget m.l
    ({ m with l := l' }, "ok " ++ listenerStr l')
  | _ => (m, "bad-op")

def monitorModel : Model :=
  { σ := MonSt, init := { l := default, dead := false }, step := monStep }

/-! ### `tracker` (C13) -/
open VlsModel.Tracker in
def net? : String → Option Network
  | "t" => some .testnet | "r" => some .regtest | "b" => some .bitcoin | _ => none

open VlsModel.Tracker in
/-- `H<hash>:<prev>:<bits>:<time>:<pow>` -/
def header? (s : String) : Option Header :=
  match (s.drop 1).toString.splitOn ":" with
  | [h, p, b, t, w] => do
    let h ← nat? h; let p ← nat? p; let b ← nat? b; let t ← nat? t; let w ← nat? w
    some { hash := h, prev := p, bits := b, time := t, powOk := w != 0 }
  | _ => none

open VlsModel.Tracker in
/-- `V<hash>:<prev>:<bits>:<time>:<pow>:<fh>` -/
def headers? (s : String) : Option Headers :=
  match (s.drop 1).toString.splitOn ":" with
  | [h, p, b, t, w, f] => do
    let h ← nat? h; let p ← nat? p; let b ← nat? b; let t ← nat? t; let w ← nat? w; let f ← nat? f
    some { hdr := { hash := h, prev := p, bits := b, time := t, powOk := w != 0 }, fh := f }
  | _ => none

open VlsModel.Tracker in
/-- `P<f|b|x>:<verify>:<attested keys>:<fh>:<consistent>` (transactions follow as separate tokens) -/
def proof? (s : String) (txs : List Tx) : Option Proof :=
  match (s.drop 1).toString.splitOn ":" with
  | [ty, v, a, f, c] => do
    let ty ← (match ty with | "f" => some PType.filter | "b" => some .block | "x" => some .external | _ => none)
    let v ← nat? v; let a ← natListOf? a ","; let f ← nat? f; let c ← nat? c
    some { ptype := ty, verifyOk := v != 0, attested := a, fh := f, fhConsistent := c != 0, txs }
  | _ => none

open VlsModel.Tracker in
def errStr : ErrKind → String
  | .invalidChain => "invalid-chain" | .orphan => "orphan" | .invalidBlock => "invalid-block"
  | .decodeError => "decode-error" | .reorgTooDeep => "reorg-too-deep" | .invalidProof => "invalid-proof"

open VlsModel.Tracker in
def outStr : Tracker.Out → String
  | .ok => "ok" | .err k => "err:" ++ errStr k | .panic => "panic"

open VlsModel.Tracker in
def trackerStr (t : Tracker) : String :=
  let hs := joinOr (t.headers.map fun h => s!"{h.hdr.hash}/{h.fh}") ","
  let ls := joinOr (t.listeners.map fun (k, l) => s!"{k}:" ++ listenerStr l) " | "
  s!"h={t.height} tip={t.tip.hdr.hash}/{t.tip.fh} n={t.headers.length} hdrs={hs} L {ls}"

structure TrSt where
  t : Tracker.Tracker
  dead : Bool

open VlsModel.Tracker in
def trStep (m : TrSt) (toks : List String) : TrSt × String :=
  if m.dead then (m, "dead") else
  let fin (r : Tracker × Tracker.Out) : TrSt × String :=
    match r.2 with
    | .panic => ({ t := r.1, dead := true }, "panic")
    | o => ({ t := r.1, dead := false }, outStr o ++ " " ++ trackerStr r.1)
  match toks with
  | ["init", net, h, tip, deep, tr] =>
    match net? net, nat? h, headers? tip, nat? deep, natListOf? tr "," with
    | some net, some h, some tip, some deep, some tr =>
      let t : Tracker := { headers := [], tip, height := h, network := net, listeners := [], decoding := none,
                           ldec := false, trusted := tr, allowDeep := deep != 0 }
      ({ t, dead := false }, "ok")
    | _, _, _, _, _ => (m, "bad-op")
  | "window" :: hs =>
    -- pre-populate the remembered headers (ChainTracker::restore), most recent first
    match hs.mapM headers? with
    | some hs => let t := { m.t with headers := hs }; ({ m with t }, "ok")
    | none => (m, "bad-op")
  | ["listener", k, h, t, v, i] =>
    match nat? k, nat? h, nat? t, nat? v, outpoints? i with
    | some k, some h, some t, some v, some i =>
      let l : Listener := { st := State.init h t v i, slot := { txidWatches := [t], watches := i, seen := [] } }
      let tr := { m.t with listeners := Prune.insert k l m.t.listeners }
      ({ m with t := tr }, "ok")
    | _, _, _, _, _ => (m, "bad-op")
  | ["trusted", tr] =>
    match natListOf? tr "," with
    | some tr => let t := { m.t with trusted := tr }; ({ m with t }, "ok " ++ trackerStr t)
    | none => (m, "bad-op")
  | "add" :: h :: p :: rest =>
    match header? h, txs? rest with
    | some h, some txs =>
      match proof? p txs with
      | some p => fin (addBlock m.t h p)
      | none => (m, "bad-op")
    | _, _ => (m, "bad-op")
  | "remove" :: p :: v :: rest =>
    match headers? v, txs? rest with
    | some v, some txs =>
      match proof? p txs with
      | some p => fin (removeBlock m.t p v)
      | none => (m, "bad-op")
    | _, _ => (m, "bad-op")
  | ["chunk", d, a] =>
    match nat? d, nat? a with
    | some d, some a => fin (blockChunk m.t d a)
    | _, _ => (m, "bad-op")
  | _ => (m, "bad-op")

def trackerModel : Model :=
  { σ := TrSt, init := { t := default, dead := false }, step := trStep }

/-! ### `prune` (C15) -/
open VlsModel.Prune in
def chanStr (l : List (Nat × ChanSlot)) : String :=
  let sorted := l.foldl (fun acc e => (acc.filter (·.1 < e.1)) ++ [e] ++ (acc.filter (·.1 > e.1))) []
  "[" ++ ",".intercalate (sorted.map fun (d, s) =>
    match s with | .stub bh => s!"{d}:s{bh}" | .ready k => s!"{d}:r{k}") ++ "]"

open VlsModel.Prune VlsModel.Gen.Chain in
def lsStr (l : List (Nat × Listener)) : String :=
  let sorted := l.foldl (fun acc e => (acc.filter (·.1 < e.1)) ++ [e] ++ (acc.filter (·.1 > e.1))) []
  "[" ++ ";".intercalate (sorted.map fun (k, x) =>
    s!"{k}:h{x.st.height}:sf{bit x.st.sawForget}:ds{optNat x.st.dsHeight}:mc{optNat x.st.mutualHeight}:" ++
    s!"uc{optNat x.st.uniHeight}:csh{optNat x.st.closingSweptHeight}:done{bit (x.st.isDone minDepth)}") ++ "]"

open VlsModel.Prune in
def nodeStr (n : Node) : String :=
  s!"ch={chanStr n.channels} hwm={n.hwm} h={n.height} L={lsStr n.listeners} " ++
  s!"st:ch={chanStr n.store.channels} hwm={n.store.hwm}"

structure PrSt where
  n : Prune.Node
  dead : Bool

open VlsModel.Prune in
def prStep (m : PrSt) (toks : List String) : PrSt × String :=
  if m.dead then (m, "dead") else
  let fin (r : Node × Prune.Out) : PrSt × String :=
    match r.2 with
    | .panic => ({ n := r.1, dead := true }, "panic")
    | .ok => ({ n := r.1, dead := false }, "ok " ++ nodeStr r.1)
    | .err => ({ n := r.1, dead := false }, "err " ++ nodeStr r.1)
  match toks with
  | ["init", h, r] =>
    match nat? h, nat? r with
    | some h, some r => let n := Node.init h (r != 0); ({ n, dead := false }, "ok " ++ nodeStr n)
    | _, _ => (m, "bad-op")
  -- `init <height> <regtest> <max_channels>`: a node whose policy limits the channel map
  | ["init", h, r, mc] =>
    match nat? h, nat? r, nat? mc with
    | some h, some r, some mc => let n := Node.init h (r != 0) mc; ({ n, dead := false }, "ok " ++ nodeStr n)
    | _, _, _ => (m, "bad-op")
  | ["new", d] => match nat? d with | some d => fin (newChannel m.n d) | none => (m, "bad-op")
  | ["setup", d, k, t, v, i] =>
    match nat? d, nat? k, nat? t, nat? v, outpoints? i with
    | some d, some k, some t, some v, some i => fin (setup m.n d k t v i)
    | _, _, _, _, _ => (m, "bad-op")
  | ["forget", d] => match nat? d with | some d => fin (forget m.n d) | none => (m, "bad-op")
  | ["heartbeat"] => fin (heartbeat m.n)
  | "add" :: rest => match txs? rest with | some txs => fin (Prune.addBlock m.n txs) | none => (m, "bad-op")
  | "remove" :: rest => match txs? rest with | some txs => fin (Prune.removeBlock m.n txs) | none => (m, "bad-op")
  | ["addn", k] =>
    match nat? k with
    | none => (m, "bad-op")
    | some k =>
      let rec go (n : Node) : Nat → Node × Prune.Out
        | 0 => (n, .ok)
        | j + 1 => match Prune.addBlock n [] with
          | (n', .ok) => go n' j
          | r => r
      fin (go m.n k)
  | ["restart"] => fin (restart m.n)
  | _ => (m, "bad-op")

def pruneModel : Model :=
  { σ := PrSt, init := { n := default, dead := false }, step := prStep }

end VlsModel.Drv.Chain
