import VlsModel.Model.Bolt3Parse
import VlsModel.Drv.Common
/-
Line-protocol driver for the witness-script parsers (property C04, model name `wsparse`): the byte-level decoder of one
P2WSH output — `instrs` (rust-bitcoin's instruction iterator), the templates of `Gen/Bolt3.lean` in the order of
`Gen.Bolt3.handleOrder` (`parseWsh`), then the `handle_*_output` checks (`handleParsed`).  The harness runs the real
`decode_commitment_tx` on a one-output transaction whose script_pubkey commits to the same bytes.

ops
  keys <broadcaster funding key> <countersigner funding key>     (hex, canonical 33-byte encodings)      → ok
  parse <anchors 0|1> <value> <witness script hex> {<push hex>=<key hex>}…                               → result
        the pairs list every data push of the script that `PublicKey::from_slice` accepts, with the canonical
        encoding of the key it denotes (curve arithmetic is not modelled)
  result: toBc <value> <delay> | toCs <value> | received <hash hex> <cltv> | offered <hash hex> | anchorB | anchorC | reject
-/
namespace VlsModel.Drv.Bolt3Parse
open VlsModel VlsModel.Bolt3 VlsModel.Drv

structure St where
  bF : Bytes
  cF : Bytes

def init : St := ⟨[], []⟩

def pair? (s : String) : Option (Bytes × Bytes) :=
  match s.splitOn "=" with
  | [a, b] => match hex? a, hex? b with
    | some x, some y => some (x, y)
    | _, _ => none
  | _ => none

def pairs? : List String → Option (List (Bytes × Bytes))
  | [] => some []
  | t :: ts => match pair? t, pairs? ts with
    | some p, some ps => some (p :: ps)
    | _, _ => none

def lookupKey (tab : List (Bytes × Bytes)) (d : Bytes) : Option Bytes :=
  match tab.find? (fun p => p.1 == d) with
  | some p => some p.2
  | none => none

def showResult (role : Role) (p : Parsed) : String :=
  match role, p with
  | .toBc v, .toBroadcaster _ delay _ => s!"toBc {v} {delay}"
  | .toCs v, _ => s!"toCs {v}"
  | .received, .received _ _ h _ cltv => s!"received {toHex h} {cltv}"
  | .offered, .offered _ _ _ h => s!"offered {toHex h}"
  | .anchorB, _ => "anchorB"
  | .anchorC, _ => "anchorC"
  | _, _ => "internal-mismatch"

def step (st : St) (toks : List String) : St × String :=
  match toks with
  | ["keys", b, c] =>
    match hex? b, hex? c with
    | some b, some c => (⟨b, c⟩, "ok")
    | _, _ => (st, "bad-keys")
  | "parse" :: a :: v :: sc :: ks =>
    match a, v.toNat?, hex? sc, pairs? ks with
    | a, some v, some sc, some tab =>
      match parseWsh (a == "1") (instrs sc) with
      | none => (st, "reject")
      | some p =>
        match handleParsed (lookupKey tab) st.bF st.cF v p with
        | none => (st, "reject")
        | some role => (st, showResult role p)
    | _, _, _, _ => (st, "bad-args")
  | _ => (st, "bad-op")

def model : Model := { σ := St, init := init, step := step }

end VlsModel.Drv.Bolt3Parse
