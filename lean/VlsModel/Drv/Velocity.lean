import VlsModel.Model.Velocity
import VlsModel.Drv.Common
/- Line-protocol driver for the velocity-control model (property C12). -/
namespace VlsModel.Drv.Velocity
open VlsModel VlsModel.Velocity VlsModel.Drv

def digest (v : VC) : String :=
  s!"{v.start} {v.bi} {natList v.buckets} {v.limit}"

def itype? : String → Option IntervalType
  | "h" => some .hourly | "d" => some .daily | "u" => some .unlimited | _ => none

def step (v : VC) (toks : List String) : VC × String :=
  match toks with
  | ["new", l, bi, n] =>
    match nat? l, nat? bi, nat? n with
    | some l, some bi, some n => let v' := VC.newWithIntervals l bi n; (v', "ok " ++ digest v')
    | _, _, _ => (v, "bad-op")
  | ["spec", l, t] =>
    match nat? l, itype? t with
    | some l, some t => let v' := VC.ofSpec ⟨l, t⟩; (v', "ok " ++ digest v')
    | _, _ => (v, "bad-op")
  | ["insert", now, amt] =>
    match nat? now, nat? amt with
    | some now, some amt =>
      match v.insert now amt with
      | none => (v, "panic")
      | some (v', ok) => (v', (if ok then "true " else "false ") ++ digest v')
    | _, _ => (v, "bad-op")
  | ["velocity"] => (v, toString v.velocity)
  | ["update_spec", l, t] =>
    match nat? l, itype? t with
    | some l, some t => let v' := v.updateSpec ⟨l, t⟩; (v', "ok " ++ digest v')
    | _, _ => (v, "bad-op")
  | ["restart", l, t] =>
    match nat? l, itype? t with
    | some l, some t => let v' := v.restart ⟨l, t⟩; (v', "ok " ++ digest v')
    | _, _ => (v, "bad-op")
  | ["clear"] => let v' := v.clear; (v', "ok " ++ digest v')
  | _ => (v, "bad-op")

def model : Model := { σ := VC, init := VC.newWithIntervals 0 1 1, step := step }

def nodeStep (n : NodeVC) (toks : List String) : NodeVC × String :=
  match toks with
  | ["spec", l, t] =>
    match nat? l, itype? t with
    | some l, some t => let n' := NodeVC.ofSpec ⟨l, t⟩; (n', "ok " ++ digest n'.mem)
    | _, _ => (n, "bad-op")
  | ["insert", now, amt] =>
    match nat? now, nat? amt with
    | some now, some amt =>
      match n.insert now amt with
      | none => (n, "panic")
      | some (n', ok) => (n', (if ok then "true " else "false ") ++ digest n'.mem)
    | _, _ => (n, "bad-op")
  | ["restart", l, t] =>
    match nat? l, itype? t with
    | some l, some t => let n' := n.restart ⟨l, t⟩; (n', "ok " ++ digest n'.mem)
    | _, _ => (n, "bad-op")
  | _ => (n, "bad-op")

def nodeModel : Model := { σ := NodeVC, init := NodeVC.ofSpec ⟨0, .hourly⟩, step := nodeStep }

end VlsModel.Drv.Velocity
