import VlsModel.Model.Velocity
import VlsModel.Drv.Common
/- Line-protocol driver for the velocity-control model (property C12). -/
namespace VlsModel.Drv.Velocity
open VlsModel VlsModel.Velocity VlsModel.Drv

def digest (v : VC) : String :=
  s!"{v.start} {v.bi} {natList v.buckets} {v.limit}"

def itype? : String → Option IntervalType
  | "h" => some .hourly | "d" => some .daily | "u" => some .unlimited | _ => none

def step (v : VC) (toks : List String) : VC × String :=
  match toks with
  | ["new", l, bi, n] =>
    match nat? l, nat? bi, nat? n with
    | some l, some bi, some n => let v' := VC.newWithIntervals l bi n; (v', "ok " ++ digest v')
    | _, _, _ => (v, "bad-op")
  | ["spec", l, t] =>
    match nat? l, itype? t with
    | some l, some t => let v' := VC.ofSpec ⟨l, t⟩; (v', "ok " ++ digest v')
    | _, _ => (v, "bad-op")
  | ["insert", now, amt] =>
    match nat? now, nat? amt with
    | some now, some amt =>
      match v.insert now amt with
      | none => (v, "panic")
      | some (v', ok) => (v', (if ok then "true " else "false ") ++ digest v')
    | _, _ => (v, "bad-op")
  | ["velocity"] => (v, toString v.velocity)
  | ["update_spec", l, t] =>
    match nat? l, itype? t with
    | some l, some t => let v' := v.updateSpec ⟨l, t⟩; (v', "ok " ++ digest v')
    | _, _ => (v, "bad-op")
  | ["restart", l, t] =>
    match nat? l, itype? t with
    | some l, some t => let v' := v.restart ⟨l, t⟩; (v', "ok " ++ digest v')
    | _, _ => (v, "bad-op")
  | ["clear"] => let v' := v.clear; (v', "ok " ++ digest v')
  | ["approve", now, amt, d] =>
    match nat? now, nat? amt with
    | some now, some amt =>
      match v.approve now amt (d == "1") with
      | none => (v, "panic")
      | some (v', ok, auto) => (v', (if ok then "true " else "false ") ++ (if auto then "auto " else "asked ") ++ digest v')
    | _, _ => (v, "bad-op")
  | _ => (v, "bad-op")

def model : Model := { σ := VC, init := VC.newWithIntervals 0 1 1, step := step }

/-- driver state of the node-level model: the control pair plus the last approval request
    `(amount, approved)` — `add_keysend`/`add_invoice` answer a repeat of an APPROVED request with
    `Ok(true)` without counting it again, while a repeat of a refused one is a fresh attempt. -/
structure NodeDrv where
  n : NodeVC
  last : Option (Nat × Bool) := none

def nodeStep (d : NodeDrv) (toks : List String) : NodeDrv × String :=
  match toks with
  | ["spec", l, t] =>
    match nat? l, itype? t with
    | some l, some t => let n' := NodeVC.ofSpec ⟨l, t⟩; ({ n := n', last := none }, "ok " ++ digest n'.mem)
    | _, _ => (d, "bad-op")
  | ["insert", now, amt] =>
    match nat? now, nat? amt with
    | some now, some amt =>
      match d.n.insert now amt with
      | none => (d, "panic")
      | some (n', ok) => ({ n := n', last := some (amt, ok) }, (if ok then "true " else "false ") ++ digest n'.mem)
    | _, _ => (d, "bad-op")
  | ["dup", now] =>
    match nat? now, d.last with
    | some now, some (amt, approved) =>
      if approved then (d, "true " ++ digest d.n.mem)       -- already have this payment: no insert
      else
        match d.n.insert now amt with
        | none => (d, "panic")
        | some (n', ok) => ({ n := n', last := some (amt, ok) }, (if ok then "true " else "false ") ++ digest n'.mem)
    | _, _ => (d, "bad-op")
  | ["restart", l, t] =>
    match nat? l, itype? t with
    | some l, some t => let n' := d.n.restart ⟨l, t⟩; ({ d with n := n' }, "ok " ++ digest n'.mem)
    | _, _ => (d, "bad-op")
  | _ => (d, "bad-op")

def nodeModel : Model := { σ := NodeDrv, init := { n := NodeVC.ofSpec ⟨0, .hourly⟩ }, step := nodeStep }

end VlsModel.Drv.Velocity
