import VlsModel.Model.Locks
import VlsModel.Gen.LockTable
import VlsModel.Drv.Common
/-
Line-protocol driver of the lock model (property C20).  The harness sends, per case, the scenario
(`setup`, `req <tid> <request> [arg]`, `run <scheduler> <seed>`), then the lock trace observed on
the real code under that schedule (`ev <tid> w|a|r <class> [inst]`, `ev <tid> f`) and `end`.

The trace is replayed on the interleaving semantics of `Model/Locks.lean` (`stepAt`: an acquire is
enabled only if the lock is free) and checked against the generated lock table:
  * `a`: `bad:held` if the model says the lock is not free; `nonconform <held>-><acq>` if a lock held
    by the thread at that moment does not give an edge of the table rows of the thread's request
    kinds; `atomicity:slot-reacquired` if a thread made only of channel requests enters more slot
    critical sections than it has requests; otherwise `ok`;
  * `r`: `bad:not-held` if the thread does not hold it;  `f`: `bad:holding` if it still holds locks;
  * `end`: `done` if every thread finished, else `deadlock <wait-for cycle>` in the canonical form the
    harness derives from shuttle's report.
-/
namespace VlsModel.Drv.Locks
open VlsModel VlsModel.Locks VlsModel.Drv VlsModel.Gen.LockTable

structure DState where
  /-- threads of the model (index = thread id); `todo` is filled with the event being replayed -/
  threads : State Lock
  /-- request kinds per thread -/
  kinds : List (List Kind)
  /-- per thread: the rows of held-while-acquiring edges its requests may use.  A node-level request
  contributes the row of its kind; a protocol-level request (a real handler arm run by the harness)
  contributes the row of ITS arm in the generated front-end table `arms` -/
  rows : List (List (List (Cls × Cls)))
  /-- pending want per thread -/
  wants : List (Option Lock)
  fin : List Bool
  /-- slot critical sections entered per thread -/
  slotAcq : List Nat

def maxThreads : Nat := 4

def init : DState :=
  { threads := List.replicate maxThreads ⟨[], []⟩, kinds := List.replicate maxThreads [],
    rows := List.replicate maxThreads [],
    wants := List.replicate maxThreads none, fin := List.replicate maxThreads false,
    slotAcq := List.replicate maxThreads 0 }

def cls? : String → Option Cls
  | "tracker" => some .tracker | "channels" => some .channels | "slot" => some .slot
  | "monitor" => some .monitor | "monitor_decode" => some .monitorDecode
  | "node_state" => some .nodeState | "validator_factory" => some .validatorFactory
  | "store" => some .store | "approver" => some .approver | _ => none

def clsName : Cls → String
  | .tracker => "tracker" | .channels => "channels" | .slot => "slot" | .monitor => "monitor"
  | .monitorDecode => "monitor_decode" | .nodeState => "node_state"
  | .validatorFactory => "validator_factory" | .store => "store" | .approver => "approver"

def lockName (l : Lock) : String :=
  match l.cls with
  | .slot | .monitor | .monitorDecode => s!"{clsName l.cls} {l.inst}"
  | c => clsName c

def lock? : List String → Option Lock
  | [c] => (cls? c).map (fun c => ⟨c, 0⟩)
  | [c, i] => match cls? c, nat? i with
    | some c, some i => some ⟨c, i⟩
    | _, _ => none
  | _ => none

/-- harness request name ↦ request kind of the generated table -/
def reqKind? : String → Option Kind
  | "validate" | "signholder" | "signcp" | "paycp" | "paycp1" | "payhv" | "hval0" | "hval1" | "refused" | "sweep0" | "sweep1" => some .channel_request
  | "point" => some .channel_base_request
  | "forget" | "forgetdb" => some .forget_channel
  | "balance" => some .channel_balance
  | "chaninfo" => some .chaninfo
  | "heartbeat" => some .get_heartbeat
  | "keysend" => some .add_keysend
  | "invoice" => some .add_invoice
  | "allow" => some .add_allowlist
  | "newchan" => some .new_channel
  | "onchain" => some .check_onchain_tx
  | "setupchan" => some .setup_channel
  | "signonchain" => some .unchecked_sign_onchain_tx
  | "addblock" => some .add_block
  | "rmblock" => some .remove_block
  | "persistall" => some .persist_all
  | "rprekeysend" => some .add_keysend
  | "rpreinvoice" => some .add_invoice
  | "rnewchan" => some .new_channel
  | "rforget" => some .forget_channel
  | "rtipinfo" => some .get_heartbeat
  | "rheartbeat" => some .get_heartbeat
  | "hsignlocal" | "hfuture" => some .channel_request
  | "hpoint" => some .channel_base_request
  | s => Kind.ofString? s

/-- harness request name ↦ program of the generated front-end table (handler arm) it executes -/
def reqArm? : String → Option String
  | "hval0" | "hval1" => some "Channel.ValidateCommitmentTx2"
  | "hsignlocal" => some "Channel.SignLocalCommitmentTx2"
  | "hpoint" => some "Channel.GetPerCommitmentPoint2"
  | "hfuture" => some "Channel.CheckFutureSecret"
  -- `node.with_channel(|chan| chan.sign_delayed_sweep(..))` is the whole lock behaviour of this arm
  | "sweep0" | "sweep1" => some "Channel.SignDelayedPaymentToUs"
  | "rprekeysend" => some "Root.PreapproveKeysend"
  | "rpreinvoice" => some "Root.PreapproveInvoice"
  | "rnewchan" => some "Root.NewChannel"
  | "rforget" => some "Root.ForgetChannel"
  | "rtipinfo" => some "Root.TipInfo"
  | "rheartbeat" => some "Root.GetHeartbeat"
  | _ => none

/-- the row a request may use: its arm's row if it is a protocol-level request whose arm is in the
generated table, the row of its kind otherwise -/
def reqRow (name : String) (k : Kind) : List (Cls × Cls) :=
  match reqArm? name with
  | some a => match arms.lookup a with
    | some row => row
    | none => edges k
  | none => edges k

def allowed (rows : List (List (Cls × Cls))) (h c : Cls) : Bool := rows.any (fun r => r.contains (h, c))

/-- thread that holds `l` -/
def holder (s : State Lock) (l : Lock) : Option Nat :=
  (List.range s.length).find? (fun i => match s[i]? with | some t => t.held.contains l | none => false)

/-- follow want → holder from `cur`; returns the cycle (thread ids) if one is reached -/
def followCycle (d : DState) : Nat → Nat → List Nat → Option (List Nat)
  | 0, _, _ => none
  | fuel + 1, cur, path =>
    match path.idxOf? cur with
    | some p => some (path.drop p)
    | none =>
      match (d.wants[cur]?).join with
      | none => none
      | some l => match holder d.threads l with
        | none => none
        | some nx => followCycle d fuel nx (path ++ [cur])

def rotateToMin (c : List Nat) : List Nat :=
  match c.min? with
  | none => c
  | some m => match c.idxOf? m with
    | some p => c.drop p ++ c.take p
    | none => c

def wantName (d : DState) (t : Nat) : String :=
  match (d.wants[t]?).join with
  | some l => lockName l
  | none => "-"

def endVerdict (d : DState) : String :=
  let active := (List.range maxThreads).filter (fun t => !(d.kinds[t]?.getD []).isEmpty)
  if active.all (fun t => d.fin[t]?.getD false) then "done" else
  let unfinished := active.filter (fun t => !(d.fin[t]?.getD false))
  let start := unfinished.find? (fun t => ((d.wants[t]?).join).isSome)
  let cyc := match start with
    | some s => (followCycle d (maxThreads + 2) s []).getD []
    | none => []
  if cyc.isEmpty then
    "deadlock " ++ " ".intercalate (unfinished.map (fun t =>
      let held := ((d.threads[t]?).map (·.held)).getD []
      s!"t{t}:{"+".intercalate (held.reverse.map lockName)}>{wantName d t}"))
  else
    let c := rotateToMin cyc
    let k := c.length
    "deadlock " ++ " ".intercalate ((List.range k).map (fun i =>
      let t := c[i]?.getD 0
      let pred := c[(i + k - 1) % k]?.getD 0
      s!"t{t}:{wantName d pred}>{wantName d t}"))

def step (d : DState) (toks : List String) : DState × String :=
  match toks with
  | "setup" :: _ => (init, "ok")
  | "req" :: tid :: name :: _ =>
    match nat? tid, reqKind? name with
    | some t, some k =>
      if t < maxThreads then
        ({ d with kinds := d.kinds.set t ((d.kinds[t]?.getD []) ++ [k]),
                  rows := d.rows.set t ((d.rows[t]?.getD []) ++ [reqRow name k]) }, "ok")
      else (d, "bad-op")
    | _, _ => (d, "bad-op")
  | "run" :: _ => (d, "ok")
  | ["ev", tid, "f"] =>
    match nat? tid with
    | some t =>
      let held := ((d.threads[t]?).map (·.held)).getD []
      if held.isEmpty then ({ d with fin := d.fin.set t true }, "ok") else (d, "bad:holding")
    | none => (d, "bad-op")
  | "ev" :: tid :: k :: rest =>
    match nat? tid, lock? rest with
    | some t, some l =>
      if t ≥ maxThreads then (d, "bad-op") else
      let th := (d.threads[t]?).getD ⟨[], []⟩
      match k with
      | "w" => ({ d with wants := d.wants.set t (some l) }, "ok")
      | "a" =>
        -- the model's own enabledness check
        let s1 := d.threads.set t ⟨th.held, [Ev.acq l]⟩
        match stepAt s1 t with
        | none => (d, "bad:held")
        | some s2 =>
          let ks := d.kinds[t]?.getD []
          let bad := th.held.find? (fun h => !allowed (d.rows[t]?.getD []) h.cls l.cls)
          let nacq := (d.slotAcq[t]?.getD 0) + (if l.cls == .slot then 1 else 0)
          let d' := { d with threads := s2, wants := d.wants.set t none, slotAcq := d.slotAcq.set t nacq }
          match bad with
          | some h => (d', s!"nonconform {clsName h.cls}->{clsName l.cls}")
          | none =>
            if l.cls == .slot && ks.all (fun k => singleSection.contains k) && nacq > ks.length then
              (d', "atomicity:slot-reacquired")
            else (d', "ok")
      | "r" =>
        if th.held.contains l then
          let s1 := d.threads.set t ⟨th.held, [Ev.rel l]⟩
          match stepAt s1 t with
          | some s2 => ({ d with threads := s2 }, "ok")
          | none => (d, "bad:stuck")
        else (d, "bad:not-held")
      | _ => (d, "bad-op")
    | _, _ => (d, "bad-op")
  | ["end"] => (d, endVerdict d)
  /- the implementation run aborted the process (no trace): nothing to replay, echoed -/
  | ["end", "abort"] => (d, "abort")
  /- model-only ops: replay a schedule on the canonical paths of the table.
     `sched <k1> <i1> <k2> <i2> : <t> <t> ...` answers the status after the schedule -/
  | "sched" :: k1 :: i1 :: k2 :: i2 :: ":" :: sch =>
    match Kind.ofString? k1, nat? i1, Kind.ofString? k2, nat? i2 with
    | some k1, some i1, some k2, some i2 =>
      let s0 : State Lock := mkState [instPath i1 (path k1), instPath i2 (path k2)]
      match runSched s0 (sch.filterMap nat?) with
      | none => (d, "blocked")
      | some s =>
        if decide (allDone s) then (d, "done")
        else if (List.range s.length).all (fun i => (stepAt s i).isNone) then (d, "deadlock")
        else (d, "running")
    | _, _, _, _ => (d, "bad-op")
  | _ => (d, "bad-op")

def model : Model := { σ := DState, init := init, step := step }

end VlsModel.Drv.Locks
