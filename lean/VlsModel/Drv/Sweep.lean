import VlsModel.Model.Sweep
import VlsModel.Drv.Common
import VlsModel.Drv.Onchain
import VlsModel.Drv.Wallet
/-
Line-protocol driver for the sweep / second-level HTLC signing requests (property C09).  Stateless.

  delayed <destFilter> <ver> <locktime> <nInputs> <seq0> <outs> <input> <commitOk> <height> <cpDelay>
  cphtlc  <destFilter> <ver> <locktime> <nInputs> <seq0> <outs> <input> <script r<cltv>|o|x> <anchors> <height>
  justice <destFilter> <ver> <locktime> <nInputs> <seq0> <outs> <input> <height>
      outs: comma list of two letters  cs ∈ t|f|e, allow ∈ y|n|p   (or -), the facts given directly;  or
            @<style n|l|d>;<wallet path>;<allow items a,b|->;<script descriptors d,d|->   (syntax: Drv/Wallet.lean): the facts
            are computed by the wallet model (`Sweep.outOfScript`)
  htlc <minFeerate> <maxFeerate> <fltLocktime> <fltFeeRange> <ct l|s|a|z> <toSelfDelay> <ver> <locktime>
       <ins txid:vout:seq,..|-> <outs value:script,..|-> <redeem o|r|x> <amountSat>
      script: r<revKey>/<delay>/<delayedKey> | o<id>
  → ok · err:invalid · err:policy · err:format · panic
-/
namespace VlsModel.Drv.Sweep
open VlsModel VlsModel.Sweep VlsModel.Drv
open VlsModel.Drv.Onchain (bool01? splitList mapM?)

def resStr : Res → String
  | .ok => "ok" | .errInvalid => "err:invalid" | .errPolicy => "err:policy"
  | .errFormat => "err:format" | .panic => "panic"

def sweepOut? (s : String) : Option SweepOut :=
  match s.toList with
  | [c, a] =>
    let cs? : Option (Option Bool) := match c with
      | 't' => some (some true) | 'f' => some (some false) | 'e' => some none | _ => none
    let a? : Option AllowRes := match a with
      | 'y' => some .yes | 'n' => some .no | 'p' => some .panic | _ => none
    match cs?, a? with
    | some cs, some a => some ⟨cs, a⟩
    | _, _ => none
  | _ => none

/-- `@style;path;allow;descs`: the outputs as script descriptors, classified by the wallet model -/
def sweepOutsOfDescs? (s : String) : Option (List SweepOut) :=
  match (String.ofList (s.toList.drop 1)).splitOn ";" with
  | [st, p, al, ds] =>
    match Wallet.style? st, Wallet.path? p, mapM? Wallet.allowable? (splitList al ","), mapM? Wallet.script? (splitList ds ",") with
    | some st, some p, some al, some ds => some (ds.map (outOfScript st al p))
    | _, _, _, _ => none
  | _ => none

def sweepOuts? (outs : String) : Option (List SweepOut) :=
  if outs.toList.head? == some '@' then sweepOutsOfDescs? outs else mapM? sweepOut? (splitList outs ",")

def sweepTx? (ver lt nin seq0 outs : String) : Option SweepTx :=
  match nat? ver, nat? lt, nat? nin, nat? seq0, sweepOuts? outs with
  | some ver, some lt, some nin, some seq0, some outs => some ⟨ver, lt, nin, seq0, outs⟩
  | _, _, _, _, _ => none

def htlcScript? (s : String) : Option HtlcScript :=
  match s.toList with
  | ['o'] => some .offered
  | ['x'] => some .invalid
  | 'r' :: '-' :: rest => (String.ofList rest).toNat?.map (fun n => .received (-(n : Int)))
  | 'r' :: rest => (String.ofList rest).toNat?.map (fun n => .received (n : Int))
  | _ => none

def ct? : String → Option CommitmentType
  | "l" => some .legacy | "s" => some .staticRemoteKey | "a" => some .anchors | "z" => some .anchorsZeroFee
  | _ => none

def script? (s : String) : Option Script :=
  match s.toList with
  | 'o' :: rest => (String.ofList rest).toNat?.map .other
  | 'r' :: rest =>
    match (String.ofList rest).splitOn "/" with
    | [a, b, c] => match nat? a, nat? b, nat? c with
      | some a, some b, some c => some (.revokeable a b c)
      | _, _, _ => none
    | _ => none
  | _ => none

def txin? (s : String) : Option TxIn :=
  match s.splitOn ":" with
  | [a, b, c] => match nat? a, nat? b, nat? c with
    | some a, some b, some c => some ⟨a, b, c⟩
    | _, _, _ => none
  | _ => none

def txout? (s : String) : Option TxOut :=
  match s.splitOn ":" with
  | [v, sc] => match nat? v, script? sc with
    | some v, some sc => some ⟨v, sc⟩
    | _, _ => none
  | _ => none

def redeem? : String → Option RedeemKind
  | "o" => some .offered | "r" => some .received | "x" => some .invalid | _ => none

def step (_ : Unit) (toks : List String) : Unit × String :=
  ((), match toks with
  | ["delayed", df, ver, lt, nin, seq0, outs, input, cok, h, d] =>
    match bool01? df, sweepTx? ver lt nin seq0 outs, nat? input, bool01? cok, nat? h, nat? d with
    | some df, some tx, some input, some cok, some h, some d => resStr (signDelayedSweep df tx input cok h d)
    | _, _, _, _, _, _ => "bad-op"
  | ["cphtlc", df, ver, lt, nin, seq0, outs, input, sc, anch, h] =>
    match bool01? df, sweepTx? ver lt nin seq0 outs, nat? input, htlcScript? sc, bool01? anch, nat? h with
    | some df, some tx, some input, some sc, some anch, some h =>
      resStr (signCounterpartyHtlcSweep df tx input sc anch h)
    | _, _, _, _, _, _ => "bad-op"
  | ["justice", df, ver, lt, nin, seq0, outs, input, h] =>
    match bool01? df, sweepTx? ver lt nin seq0 outs, nat? input, nat? h with
    | some df, some tx, some input, some h => resStr (signJusticeSweep df tx input h)
    | _, _, _, _ => "bad-op"
  | ["htlc", minf, maxf, fl, ff, ct, d, ver, lt, ins, outs, rd, amt] =>
    match nat? minf, nat? maxf, bool01? fl, bool01? ff, ct? ct, nat? d, nat? ver, nat? lt with
    | some minf, some maxf, some fl, some ff, some ct, some d, some ver, some lt =>
      match mapM? txin? (splitList ins ","), mapM? txout? (splitList outs ","), redeem? rd, nat? amt with
      | some ins, some outs, some rd, some amt =>
        resStr (signHtlcTx ⟨minf, maxf, fl, ff⟩ ct d ⟨ver, lt, ins, outs⟩ rd amt)
      | _, _, _, _ => "bad-op"
    | _, _, _, _, _, _, _, _ => "bad-op"
  | _ => "bad-op")

def model : Model := { σ := Unit, init := (), step := step }

end VlsModel.Drv.Sweep
