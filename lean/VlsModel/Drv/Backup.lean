import VlsModel.Model.Backup
import VlsModel.Drv.Common
/- Line-protocol driver for the composite-persister model (property C11, harness group `C11Backup`). -/
namespace VlsModel.Drv.Backup
open VlsModel VlsModel.Backup VlsModel.Drv

def emptyStore : Store := { data := fun _ => none }
def init : Comp := { main := emptyStore, backup := emptyStore, restoreDone := false }

def keys : List Nat := [0, 1, 2, 3]

def dump (s : Store) : String :=
  "[" ++ ",".intercalate (keys.map (fun k => match s.data k with | some v => toString v | none => "-")) ++ "]"

def digest (c : Comp) : String := s!"m={dump c.main} b={dump c.backup} ready={c.mainReady}"

def step (c : Comp) (toks : List String) : Comp × String :=
  let fin (c' : Comp) (r : String) : Comp × String := (c', r ++ " " ++ digest c')
  match toks with
  | ["w", k, v] =>
    match nat? k, nat? v with
    | some k, some v =>
      let (c', r) := c.write (k % 4) (some v)
      fin c' (match r with | .ok => "ok" | .err => "err")
    | _, _ => (c, "bad-op")
  | ["r", k] =>
    match nat? k with
    | some k => fin c (match c.read (k % 4) with | some v => s!"val {v}" | none => "none")
    | none => (c, "bad-op")
  | ["failm", b] => fin { c with main := { c.main with failing := b == "1" } } "ok"
  | ["failb", b] => fin { c with backup := { c.backup with failing := b == "1" } } "ok"
  | ["rec", b] => fin { c with main := { c.main with needsRecovery := b == "1" } } "ok"
  | ["lose"] => fin { c with main := { emptyStore with failing := c.main.failing, needsRecovery := true }, restoreDone := false } "ok"
  | ["restored"] => fin c.onInitialRestore "ok"
  | ["restart"] => fin { c with restoreDone := false } "ok"
  | _ => (c, "bad-op")

def model : Model := { σ := Comp, init := init, step := step }

end VlsModel.Drv.Backup
