import VlsModel.Drv.Common
/- Line-protocol models serving property C09 (none yet). -/
namespace VlsModel.Drv.C09
open VlsModel.Drv

def models : List (String × Model) := []

end VlsModel.Drv.C09
