import VlsModel.Drv.Common
import VlsModel.Drv.Sweep
/- Line-protocol models serving property C09. -/
namespace VlsModel.Drv.C09
open VlsModel.Drv

def models : List (String × Model) := [ ("sweep", Sweep.model) ]

end VlsModel.Drv.C09
