import VlsModel.Drv.Common
/- Line-protocol models serving property C14 (none yet). -/
namespace VlsModel.Drv.C14
open VlsModel.Drv

def models : List (String × Model) := []

end VlsModel.Drv.C14
