import VlsModel.Drv.Common
import VlsModel.Drv.Chain
/- Line-protocol models serving property C14. -/
namespace VlsModel.Drv.C14
open VlsModel.Drv

def models : List (String × Model) := [ ("monitor", Chain.monitorModel) ]

end VlsModel.Drv.C14
