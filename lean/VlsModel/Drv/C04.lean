import VlsModel.Drv.Common
import VlsModel.Drv.Bolt3
/- Line-protocol models serving property C04. -/
namespace VlsModel.Drv.C04
open VlsModel.Drv

def models : List (String × Model) := [ ("bolt3", Bolt3.model) ]

end VlsModel.Drv.C04
