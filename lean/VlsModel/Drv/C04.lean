import VlsModel.Drv.Common
/- Line-protocol models serving property C04 (none yet). -/
namespace VlsModel.Drv.C04
open VlsModel.Drv

def models : List (String × Model) := []

end VlsModel.Drv.C04
