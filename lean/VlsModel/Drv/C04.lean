import VlsModel.Drv.Common
import VlsModel.Drv.Bolt3
import VlsModel.Drv.Bolt3Parse
/- Line-protocol models serving property C04. -/
namespace VlsModel.Drv.C04
open VlsModel.Drv

def models : List (String × Model) := [ ("bolt3", Bolt3.model), ("wsparse", Bolt3Parse.model) ]

end VlsModel.Drv.C04
