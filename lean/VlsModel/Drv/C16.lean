import VlsModel.Drv.Common
import VlsModel.Drv.KVV
/- Line-protocol models serving property C16. -/
namespace VlsModel.Drv.C16
open VlsModel.Drv

def models : List (String × Model) :=
  [ ("kvv_pair", KVV.pairModel), ("kvv_cloud", KVV.cloudModel) ]

end VlsModel.Drv.C16
