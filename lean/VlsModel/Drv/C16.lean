import VlsModel.Drv.Common
/- Line-protocol models serving property C16 (none yet). -/
namespace VlsModel.Drv.C16
open VlsModel.Drv

def models : List (String × Model) := []

end VlsModel.Drv.C16
