import VlsModel.Drv.Common
import VlsModel.Prim.Rs
/-
Argument decoders and result encoders of the `fngen` driver model (differential test of the translator
`translate/rs2lean.py`): one line = `<function> <args…>`, the reply = the outcome of the generated definition.

Encoding of arguments (tokens, left to right):  integers: decimal;  bool: `0`/`1`;  string: one token;
`Option T`: `-` or `+` followed by `T`;  `Vec<T>`: the length followed by the elements;  tuples and structs:
their components in order (structs: the fields the generated structure has, in declaration order);
unit enums: the variant index;  opaque types: a natural number.
Encoding of results:  `ok <value>` | `panic` | `overflow` | `err <tag>`, values: decimal, `true`/`false`,
`none`/`some(v)`, `[a,b]`, `(a,b)`, structs `{a b c}`, unit `()`.
The Rust side (`harness/src/props/fn_gen.rs`) prints the same format.
-/
namespace VlsModel.Drv.FnCodec
open VlsModel

abbrev Dec (α : Type) := List String → Option (α × List String)

def decNat : Dec Nat
  | t :: ts => (t.toNat?).map (fun n => (n, ts))
  | [] => none

def decInt : Dec Int
  | t :: ts => (t.toInt?).map (fun n => (n, ts))
  | [] => none

def decBool : Dec Bool
  | "0" :: ts => some (false, ts)
  | "1" :: ts => some (true, ts)
  | _ => none

def decStr : Dec String
  | t :: ts => some (t, ts)
  | [] => none

def decUnit : Dec Unit := fun ts => some ((), ts)

def decOpt {α : Type} (d : Dec α) : Dec (Option α)
  | "-" :: ts => some (none, ts)
  | "+" :: ts => (d ts).map (fun (x, r) => (some x, r))
  | _ => none

def decN {α : Type} (d : Dec α) : Nat → List String → Option (List α × List String)
  | 0, ts => some ([], ts)
  | n + 1, ts =>
    match d ts with
    | none => none
    | some (x, r) => (decN d n r).map (fun (xs, r2) => (x :: xs, r2))

def decList {α : Type} (d : Dec α) : Dec (List α) := fun ts =>
  match decNat ts with
  | none => none
  | some (n, r) => if n > 4096 then none else decN d n r

def decPair {α β : Type} (a : Dec α) (b : Dec β) : Dec (α × β) := fun ts =>
  match a ts with
  | none => none
  | some (x, r) => (b r).map (fun (y, r2) => ((x, y), r2))

def encBool (b : Bool) : String := if b then "true" else "false"
def encOpt {α : Type} (e : α → String) : Option α → String
  | none => "none"
  | some x => "some(" ++ e x ++ ")"
def encList {α : Type} (e : α → String) (l : List α) : String := "[" ++ ",".intercalate (l.map e) ++ "]"
def encPair {α β : Type} (a : α → String) (b : β → String) (p : α × β) : String := "(" ++ a p.1 ++ "," ++ b p.2 ++ ")"
def encUnit (_ : Unit) : String := "()"

/-- maps keyed by an opaque type (instantiated with `Nat` by the dispatch): printed in ascending key order, which is
    how the Rust side prints its `OrderedMap` (the generated definitions do not represent the order) -/
def insKey {α : Type} (p : Nat × α) : List (Nat × α) → List (Nat × α)
  | [] => [p]
  | q :: r => if p.1 ≤ q.1 then p :: q :: r else q :: insKey p r
def sortKey {α : Type} (l : List (Nat × α)) : List (Nat × α) := l.foldr insKey []
def encOmap {α : Type} (e : α → String) (l : List (Nat × α)) : String := encList (encPair toString e) (sortKey l)

def encM {α : Type} (e : α → String) : Rs.M α → String
  | .ok x => "ok " ++ e x
  | .error f => f.show

end VlsModel.Drv.FnCodec
