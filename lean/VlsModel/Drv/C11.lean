import VlsModel.Drv.Common
/- Property C11 uses the `nodereq` model registered in `Drv/C10.lean`. -/
namespace VlsModel.Drv.C11
open VlsModel.Drv

def models : List (String × Model) := []

end VlsModel.Drv.C11
