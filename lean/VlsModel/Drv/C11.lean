import VlsModel.Drv.Common
/- Line-protocol models serving property C11 (none yet). -/
namespace VlsModel.Drv.C11
open VlsModel.Drv

def models : List (String × Model) := []

end VlsModel.Drv.C11
