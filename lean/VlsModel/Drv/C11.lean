import VlsModel.Drv.Common
import VlsModel.Drv.Backup
/- Property C11 uses the `nodereq` model registered in `Drv/C10.lean` and, for the composite persister, `backup`. -/
namespace VlsModel.Drv.C11
open VlsModel.Drv

def models : List (String × Model) := [("backup", Backup.model)]

end VlsModel.Drv.C11
