import VlsModel.Drv.Common
/- Line-protocol models serving property C06 (none yet). -/
namespace VlsModel.Drv.C06
open VlsModel.Drv

def models : List (String × Model) := []

end VlsModel.Drv.C06
