import VlsModel.Drv.Common
import VlsModel.Drv.Payments
/- Line-protocol models serving property C06. -/
namespace VlsModel.Drv.C06
open VlsModel.Drv

def models : List (String × Model) := [ ("payments", Payments.model) ]

end VlsModel.Drv.C06
