import VlsModel.Model.Wire
import VlsModel.Gen.WireSchema
import VlsModel.Drv.Common
/-
Line-protocol driver for the wire codec model (property C19).

Value tokens (type directed, in field order): integers decimal, bool `0|1`, byte strings hex (`-` =
empty), `Array`: count then the elements, `Option`: `N` | `S` + inner, `WithSize`: inner, opaque leaf:
hex of its serialisation.

  enc <Name> <value tokens>      → hex of `as_vec` | `panic` (the real encoder fails) | `bad-op`
  dec <hex> / decdev <hex>       → `ok <Name> <value tokens>` | `unknown <type>` | `err:<class>`
                                   (default registry / registry with feature `developer`)
  typed <Name> <hex>             → `ok <value tokens>` | `err` (typed `DeBolt::from_vec`)
  registry <0|1>                 → `<id>:<Name> …` in match-arm order
  shadowed <0|1>                 → names of the variants whose id dispatches to an earlier variant
  spsbt <n> (<prev_txid> <vout> <sigempty> <witempty> <nwu> <wu>)*   StreamedPSBT decode on the parsed PSBT
        nwu = `-` | `<txid>/<value>:<script>,…`   wu = `-` | `<value>:<script>`
                                 → `ok flags=<bits> wu=<value>:<script>|-,…` | `err`
-/
namespace VlsModel.Drv.Wire
open VlsModel VlsModel.Wire VlsModel.Drv

/-- driver instance of the leaf codec: a leaf value is its serialisation -/
def L : LeafCodec Bytes := { ser := id, de := fun _ b => some b, norm := id, ok := fun _ _ => true }

abbrev V := Val Bytes

def parseArr (p : List String → Option (V × List String)) : Nat → List String → Option (V × List String)
  | 0, ts => some (.unit, ts)
  | n+1, ts =>
    match p ts with
    | none => none
    | some (x, r) =>
      match parseArr p n r with
      | none => none
      | some (xs, r') => some (.pair x xs, r')

def parseVal : Ty → List String → Option (V × List String)
  | .uint _ _, t :: r => (nat? t).map fun n => (.nat n, r)
  | .bool, t :: r => if t == "1" then some (.bool true, r) else if t == "0" then some (.bool false, r) else none
  | .fixed _, t :: r => (hex? t).map fun b => (.bytes b, r)
  | .octets, t :: r => (hex? t).map fun b => (.bytes b, r)
  | .largeOctets, t :: r => (hex? t).map fun b => (.bytes b, r)
  | .wireString, t :: r => (hex? t).map fun b => (.bytes b, r)
  | .array t, c :: r =>
    match nat? c with
    | none => none
    | some n => parseArr (parseVal t) n r
  | .option t, c :: r =>
    if c == "N" then some (.none, r)
    else if c == "S" then
      match parseVal t r with
      | none => none
      | some (v, r') => some (.some v, r')
    else none
  | .withSize t, ts => parseVal t ts
  | .leaf _, t :: r => (hex? t).map fun b => (.leaf b, r)
  | .unit, ts => some (.unit, ts)
  | .pair a b, ts =>
    match parseVal a ts with
    | none => none
    | some (x, r) =>
      match parseVal b r with
      | none => none
      | some (y, r') => some (.pair x y, r')
  | _, [] => none

def renderArr (f : V → List String) : V → List String
  | .pair x xs => f x ++ renderArr f xs
  | _ => []

def render : Ty → V → List String
  | .uint _ _, .nat n => [toString n]
  | .bool, .bool b => [if b then "1" else "0"]
  | .fixed _, .bytes b => [toHex b]
  | .octets, .bytes b => [toHex b]
  | .largeOctets, .bytes b => [toHex b]
  | .wireString, .bytes b => [toHex b]
  | .array t, v => toString (vlen v) :: renderArr (render t) v
  | .option _, .none => ["N"]
  | .option t, .some v => "S" :: render t v
  | .withSize t, v => render t v
  | .leaf _, .leaf b => [toHex b]
  | .pair a b, .pair x y => render a x ++ render b y
  | _, _ => []

def regOf (dev : Bool) : List Entry :=
  if dev then Gen.WireSchema.registryAll else Gen.WireSchema.registry

def findEntry (name : String) : Option Entry :=
  Gen.WireSchema.registryAll.find? (fun e => e.name == name)

def errClass : WireErr → String
  | .shortRead => "err:short" | .tooLarge => "err:large" | .decode => "err:decode" | .trailing => "err:trailing"

def decLine (dev : Bool) (h : String) : String :=
  match hex? h with
  | none => "bad-op"
  | some bs =>
    let reg := regOf dev
    match fromVec L reg Gen.WireSchema.maxMessageSize bs with
    | .error e => errClass e
    | .ok (.unknown id) => s!"unknown {id}"
    | .ok (.msg i v) =>
      match reg[i]? with
      | none => "bad-op"
      | some e => " ".intercalate ("ok" :: e.name :: render e.ty v)

/-- names of the entries whose id dispatches to another (earlier) entry -/
def shadowedNames (reg : List Entry) : List String :=
  (reg.zipIdx.filter (fun (e, i) => dispatch reg e.id != some i)).map (fun (e, _) => e.name)

/-! StreamedPSBT op -/
open Streamed in
def parseTxOut (s : String) : Option TxOut :=
  match s.splitOn ":" with
  | [v, sc] => match nat? v, hex? sc with
    | some v, some sc => some { value := v, script := sc }
    | _, _ => none
  | _ => none

open Streamed in
def parseNwu (s : String) : Option (Option PrevTx) :=
  if s == "-" then some none else
  match s.splitOn "/" with
  | [txid, outs] =>
    match hex? txid with
    | none => none
    | some txid =>
      let parts := if outs.isEmpty then [] else outs.splitOn ","
      let os := parts.map parseTxOut
      if os.all Option.isSome then some (some { txid := txid, outputs := os.filterMap id }) else none
  | _ => none

open Streamed in
def parseInputs : Nat → List String → Option (List TxIn × List PInput)
  | 0, [] => some ([], [])
  | 0, _ :: _ => none
  | n+1, txid :: vout :: se :: we :: nwu :: wu :: r =>
    match hex? txid, nat? vout, parseNwu nwu, (if wu == "-" then some none else (parseTxOut wu).map some),
          parseInputs n r with
    | some txid, some vout, some nwu, some wu, some (tis, pis) =>
      some ({ prevTxid := txid, vout := vout, scriptSigEmpty := se == "1", witnessEmpty := we == "1" } :: tis,
            { nonWitnessUtxo := nwu, witnessUtxo := wu } :: pis)
    | _, _, _, _, _ => none
  | _, _ => none

open Streamed in
def spsbtLine (toks : List String) : String :=
  match toks with
  | n :: r =>
    match nat? n with
    | none => "bad-op"
    | some n =>
      match parseInputs n r with
      | none => "bad-op"
      | some (tis, pis) =>
        match decode { txInputs := tis, txRest := [], inputs := pis } with
        | none => "err"
        | some (p, flags) =>
          let fl := String.ofList (flags.map fun b => if b then '1' else '0')
          let wu := p.inputs.map fun i =>
            match i.witnessUtxo with
            | none => "-"
            | some o => s!"{o.value}:{toHex o.script}"
          s!"ok flags={if fl.isEmpty then "-" else fl} wu={",".intercalate wu}"
  | _ => "bad-op"

def step (_ : Unit) (toks : List String) : Unit × String :=
  match toks with
  | "enc" :: name :: vt =>
    match findEntry name with
    | none => ((), "bad-op")
    | some e =>
      match parseVal e.ty vt with
      | some (v, []) =>
        if !shape e.ty v then ((), "bad-op")
        else if !encOk L e.ty v then ((), "panic")
        else ((), toHex (asVec L e v))
      | _ => ((), "bad-op")
  | ["dec", h] => ((), decLine false h)
  | ["decdev", h] => ((), decLine true h)
  | ["typed", name, h] =>
    match findEntry name, hex? h with
    | some e, some bs =>
      match fromVecTyped L e bs with
      | .err => ((), "err")
      | .panic => ((), "panic")
      | .ok v => ((), " ".intercalate ("ok" :: render e.ty v))
    | _, _ => ((), "bad-op")
  | "fenc" :: name :: vt =>
    match findEntry name with
    | none => ((), "bad-op")
    | some e =>
      match parseVal e.ty vt with
      | some (v, []) =>
        if !shape e.ty v then ((), "bad-op")
        else if !encOk L e.ty v then ((), "panic")
        else ((), toHex (writeVec (asVec L e v)))
      | _ => ((), "bad-op")
  | ["fdec", h] =>
    match hex? h with
    | none => ((), "bad-op")
    | some bs =>
      let reg := regOf false
      match readFrame L reg Gen.WireSchema.maxMessageSize bs with
      | .error e => ((), errClass e)
      | .ok (.unknown id) => ((), s!"unknown {id}")
      | .ok (.msg i v) =>
        match reg[i]? with
        | none => ((), "bad-op")
        | some e => ((), " ".intercalate ("ok" :: e.name :: render e.ty v))
  | ["ftyped", name, h] =>
    match findEntry name, hex? h with
    | some e, some bs =>
      match readMessageTyped L Gen.WireSchema.maxMessageSize e bs with
      | none => ((), "err")
      | some v => ((), " ".intercalate ("ok" :: render e.ty v))
    | _, _ => ((), "bad-op")
  | ["raw", h] =>
    match hex? h with
    | none => ((), "bad-op")
    | some bs =>
      match readRaw bs with
      | none => ((), "err")
      | some b => ((), "ok " ++ toHex b)
  | ["srh", seq, peer, dbid] =>
    match nat? seq, hex? peer, nat? dbid with
    | some seq, some peer, some dbid => ((), toHex (writeSerialRequest seq peer dbid))
    | _, _, _ => ((), "bad-op")
  | ["srhdec", h] =>
    match hex? h with
    | none => ((), "bad-op")
    | some bs =>
      match readSerialRequest bs with
      | none => ((), "err")
      | some (s, p, d) => ((), s!"ok {s} {toHex p} {d}")
  | ["srp", seq] =>
    match nat? seq with
    | some seq => ((), toHex (writeSerialResponse seq))
    | none => ((), "bad-op")
  | ["srpdec", h, exp] =>
    match hex? h, nat? exp with
    | some bs, some exp => ((), if readSerialResponse bs exp then "ok" else "err")
    | _, _ => ((), "bad-op")
  | ["ldk", kind, h] =>
    -- the LDK `Writeable`/`Readable` adaptors of model.rs write exactly the consensus encoding
    match hex? h with
    | none => ((), "bad-op")
    | some b =>
      if kind == "octets" then ((), toHex (enc L .octets (.bytes b)))
      else if kind == "wirestring" then ((), toHex (enc L .wireString (.bytes b)))
      else ((), toHex b)
  | ["registry", d] =>
    ((), " ".intercalate ((regOf (d == "1")).map fun e => s!"{e.id}:{e.name}"))
  | ["shadowed", d] =>
    let l := shadowedNames (regOf (d == "1"))
    ((), if l.isEmpty then "-" else " ".intercalate l)
  | "spsbt" :: r => ((), spsbtLine r)
  | _ => ((), "bad-op")

def model : Model := { σ := Unit, init := (), step := step }

end VlsModel.Drv.Wire
