import VlsModel.Model.Onchain
import VlsModel.Drv.Common
import VlsModel.Drv.Wallet
import VlsModel.Drv.Velocity
/-
Line-protocol driver for the on-chain spend check (property C08).

  node <limit_msat> <h|d|u>
      new node: fee velocity control from the policy spec            → `ok <vc digest>`
  tx <approver 0 = direct check | 1 = approving | 2 = declining> <maxFeerate> <dev 0|1> <flt 10×0/1> <now> <version> <baseSize> <txWeight> <nInputs>
     <segwit 0/1-string|-> <inValues a,b,..|-> <ucks e,e,..|-> <nOpaths> <outs o;o;..|->
      uck entry:  P (index ≥ prev_outs.len) | I (invalid spend type) | N (None) | S<len>
      out:        value:pathLen:cs:sa:xp:chan   cs ∈ t|f|e   sa ∈ 0|1   xp ∈ y|n|p
                  chan = - | value/scriptMatch/outbound/pushMsat/nextHolderCommit
      → `ok [flow=signed] | <vc>` · `unknown [i,..] | <vc>` · `err:<tag> | <vc>` · `panic`
  After a panic the node is considered dead (poisoned locks): every further line answers `dead`.
-/
namespace VlsModel.Drv.Onchain
open VlsModel VlsModel.Onchain VlsModel.Drv

structure St where
  vc : Velocity.VC
  dead : Bool

def vcDigest (v : Velocity.VC) : String := s!"{v.start} {natList v.buckets}"

def bool01? : String → Option Bool
  | "0" => some false | "1" => some true | _ => none

def splitList (s : String) (sep : String) : List String :=
  if s == "-" then [] else s.splitOn sep

def mapM? {α β} (f : α → Option β) : List α → Option (List β)
  | [] => some []
  | a :: as => match f a, mapM? f as with
    | some b, some bs => some (b :: bs)
    | _, _ => none

def filter? (s : String) : Option Filter :=
  match s.toList.map (fun c => if c == '1' then some true else if c == '0' then some false else none) with
  | [some a, some b, some c, some d, some e, some f, some g, some h, some i, some j] =>
    some ⟨a, b, c, d, e, f, g, h, i, j⟩
  | _ => none

def uck? (s : String) : Option Uck :=
  match s.toList with
  | ['P'] => some ⟨false, false, none⟩
  | ['I'] => some ⟨true, false, none⟩
  | ['N'] => some ⟨true, true, none⟩
  | 'S' :: rest => (String.ofList rest).toNat?.map (fun n => ⟨true, true, some n⟩)
  | _ => none

def chan? (s : String) : Option (Option ChanFacts) :=
  if s == "-" then some none else
  match s.splitOn "/" with
  | [v, sm, ob, push, nhc] =>
    match nat? v, bool01? sm, bool01? ob, nat? push, nat? nhc with
    | some v, some sm, some ob, some push, some nhc => some (some ⟨v, sm, ob, push, nhc⟩)
    | _, _, _, _, _ => none
  | _ => none

/-- `V:@style~path~allow~desc:chan`: the output as a script descriptor; the three wallet facts are computed by the
    wallet model (`Onchain.outOfScript`) -/
def outOfDesc? (v w ch : String) : Option Out :=
  match (String.ofList (w.toList.drop 1)).splitOn "~" with
  | [st, p, al, d] =>
    match nat? v, Wallet.style? st, Wallet.path? p, Wallet.mapM? Wallet.allowable? (Wallet.splitList al ","), Wallet.script? d, chan? ch with
    | some v, some st, some p, some al, some d, some ch => some (outOfScript st al v p d ch)
    | _, _, _, _, _, _ => none
  | _ => none

def out? (s : String) : Option Out :=
  match s.splitOn ":" with
  | [v, w, ch] => if w.toList.head? == some '@' then outOfDesc? v w ch else none
  | [v, pl, cs, sa, xp, ch] =>
    let cs? : Option (Option Bool) := match cs with
      | "t" => some (some true) | "f" => some (some false) | "e" => some none | _ => none
    let xp? : Option XpubRes := match xp with
      | "y" => some .yes | "n" => some .no | "p" => some .panic | _ => none
    match nat? v, nat? pl, cs?, bool01? sa, xp?, chan? ch with
    | some v, some pl, some cs, some sa, some xp, some ch => some ⟨v, pl, cs, sa, xp, ch⟩
    | _, _, _, _, _, _ => none
  | _ => none

def segwit? (s : String) : Option (List Bool) :=
  if s == "-" then some [] else mapM? (fun c => if c == '1' then some true else if c == '0' then some false else none) s.toList

/-- `viaApprover`: the request went through `Approve::handle_proposed_onchain`, which turns the
    validation error into a `Status` without the tag -/
def resStr (viaApprover : Bool) : Res → String
  | .ok _ => "ok"
  | .unknown l => s!"unknown {natList l}"
  | .err t => if viaApprover then "err:*" else s!"err:{t.name}"
  | .panic => "panic"

def flowStr : FlowRes → String
  | .signed => "signed" | .declined => "declined" | .refused _ => "refused" | .panic => "panic"

def step (s : St) (toks : List String) : St × String :=
  if s.dead then (s, "dead") else
  match toks with
  | ["node", l, t] =>
    match nat? l, Velocity.itype? t with
    | some l, some t => let v := Velocity.VC.ofSpec ⟨l, t⟩; ({ vc := v, dead := false }, "ok " ++ vcDigest v)
    | _, _ => (s, "bad-op")
  | ["tx", ap, mf, dev, flt, now, ver, bs, w, nin, sw, iv, uck, nop, outs] =>
    match (match ap with | "0" => some (0 : Nat) | "1" => some 1 | "2" => some 2 | _ => none) with
    | none => (s, "bad-op")
    | some apn =>
    let ap := apn != 0
    match nat? mf, bool01? dev, filter? flt, nat? now, nat? ver, nat? bs, nat? w, nat? nin with
    | some mf, some dev, some flt, some now, some ver, some bs, some w, some nin =>
      match segwit? sw, mapM? nat? (splitList iv ","), mapM? uck? (splitList uck ","), nat? nop,
            mapM? out? (splitList outs ";") with
      | some sw, some iv, some ucks, some nop, some outs =>
        let p : Policy := ⟨mf, dev, flt⟩
        let r : Req := ⟨ver, bs, w, nin, sw, iv, ucks, nop, outs⟩
        let (vc', res) := checkOnchain p s.vc now r
        match res with
        | .panic => ({ vc := vc', dead := true }, "panic")
        | _ =>
          -- through the approver (1 = approves, 2 = declines) the line also carries the outcome of the flow
          let flow := if ap then " flow=" ++ flowStr (flowOnchain p s.vc now r (apn == 1)).2 else ""
          ({ s with vc := vc' }, resStr ap res ++ flow ++ " | " ++ vcDigest vc')
      | _, _, _, _, _ => (s, "bad-op")
    | _, _, _, _, _, _, _, _ => (s, "bad-op")
  | _ => (s, "bad-op")

def model : Model :=
  { σ := St, init := { vc := Velocity.VC.ofSpec ⟨0, .hourly⟩, dead := false }, step := step }

end VlsModel.Drv.Onchain
