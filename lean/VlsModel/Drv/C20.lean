import VlsModel.Drv.Common
import VlsModel.Drv.Locks
/- Line-protocol models serving property C20. -/
namespace VlsModel.Drv.C20
open VlsModel.Drv

def models : List (String × Model) := [ ("locks", Locks.model) ]

end VlsModel.Drv.C20
