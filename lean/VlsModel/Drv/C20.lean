import VlsModel.Drv.Common
/- Line-protocol models serving property C20 (none yet). -/
namespace VlsModel.Drv.C20
open VlsModel.Drv

def models : List (String × Model) := []

end VlsModel.Drv.C20
