import VlsModel.Model.Payments
import VlsModel.Gen.Payments
import VlsModel.Drv.Common
/-
Line-protocol driver for the payments model (property C06).

  init <nch> <max_routing_fee_msat> <max_feerate_percentage> <cltv_delta> <velocity limit_msat> h|d|u
       <feerate_per_kw> <htlc_timeout_tx_weight> <htlc_success_tx_weight>     (trim thresholds of the commitments)
       <max_invoices>
  keysend|invoice … neg                           the approver declines (NegativeApprover)
  allowpayee                                      the payee of all invoices/keysends is put on the node's allowlist
  keysend <h> <amount_msat> <now>                 answers: true | false (velocity) | err | panic
  invoice <h> <amount_msat> <now> <expiry> <tag>  a BOLT-11 invoice issued at <now>
  cpsign <c> new|retry <offered> <received>       HTLC lists: `-` or `h:value_sat:cltv,...`
  hval   <c> new|retry <offered> <received>
  issue <h> <amount_msat> <now> <expiry> <tag>    the node issues (signs) a BOLT-11 invoice of its own
  revoke <c>
  cprevoke <c>                                   counterparty revokes its oldest unrevoked commitment
  fulfill <c> <h>
  heartbeat <now>
  restart

Every answer is `<result> <digest>`; the digest lists, for the hashes 0,1,2, the approved amount and the
payment entry (per-channel incoming/outgoing, cltv bounds, preimage flag).  After a `panic` the
implementation is gone (poisoned locks): every further line is answered `dead`.
-/
namespace VlsModel.Drv.Payments
open VlsModel VlsModel.Payments VlsModel.Drv

structure St where
  node : Node
  dead : Bool
  /-- the payee of the harness's invoices / keysends is on the node's allowlist (`allowpayee`; persisted with the node) -/
  allow : Bool := false

def optS : Option Nat → String
  | none => "-"
  | some x => toString x

def payS (nch : Nat) (p : Payment) : String :=
  ",".intercalate ((List.range nch).map (fun c => s!"{p.inc c}/{p.out c}"))
    ++ s!":{optS p.cltvMin}:{optS p.cltvMax}:{if p.pre then 1 else 0}"

def digest (n : Node) : String :=
  s!"v={n.vc.mem.velocity} " ++ " | ".intercalate ([0, 1, 2].map (fun h =>
    let i := match n.invoices h with | some inv => toString inv.amount | none => "-"
    let i := match n.issued h with | some inv => i ++ "+i" ++ toString inv.amount | none => i
    let p := match n.payments h with | some p => payS n.nch p | none => "-"
    s!"{i} {p}"))

def htlc? (s : String) : Option Htlc :=
  match s.splitOn ":" with
  | [h, v, c] => match nat? h, nat? v, nat? c with
    | some h, some v, some c => some ⟨h, v, c⟩
    | _, _, _ => none
  | _ => none

def htlcs? (s : String) : Option (List Htlc) :=
  if s == "-" then some [] else (s.splitOn ",").mapM htlc?

def kind? : String → Option Bool
  | "new" => some false | "retry" => some true | _ => none

def run (s : St) (op : Op) (okS : Bool → String) : St × String :=
  match s.node.step op with
  | none => ({ s with dead := true }, "panic")
  | some (n', acc) => ({ s with node := n' }, okS acc ++ " " ++ digest n')

def commitS (acc : Bool) : String := if acc then "ok" else "err"

def itype? : String → Option Velocity.IntervalType
  | "h" => some .hourly | "d" => some .daily | "u" => some .unlimited | _ => none

/-- a proposal the approver declines -/
def decline (s : St) (h : Hash) (inv : Invoice) : St × String :=
  let cls := match s.node.proposeDeclined h inv with
    | .same => "true" | .different => "err" | _ => "false"
  run s (.decline h inv) (fun _ => cls)

/-- an approval: the answer class comes from `Node.approve` (Ok(true) / Ok(false) / Err), the state from `Node.step` -/
def approve (s : St) (h : Hash) (inv : Invoice) (now : Nat) : St × String :=
  let cls := if s.node.full && (s.node.invoices h).isNone then "err" else match (s.node.approve h inv now).2 with
    | .added => "true" | .same => "true" | .declined => "false" | .different => "err" | .panic => "panic"
  run s (.approve h inv now) (fun _ => cls)

/-- a proposal through the approver of vls-protocol-signer -/
def propose (s : St) (isInvoice approverYes : Bool) (h : Hash) (inv : Invoice) (now : Nat) : St × String :=
  match proposalOp isInvoice s.allow approverYes h inv now with
  | .approve h inv now => approve s h inv now
  | _ => decline s h inv

def step (s : St) (toks : List String) : St × String :=
  match toks with
  | ["init", nch, mf, pct, cd, vl, vt, fr, wt, ws, mi] =>
    match nat? nch, nat? mf, nat? pct, nat? cd, nat? vl, itype? vt, nat? fr, nat? wt, nat? ws, nat? mi with
    | some nch, some mf, some pct, some cd, some vl, some vt, some fr, some wt, some ws, some mi =>
      let n := Node.init nch ⟨mf, pct, cd⟩ ⟨vl, vt⟩
        ⟨dustLimit Gen.Payments.minDustLimit fr wt, dustLimit Gen.Payments.minDustLimit fr ws⟩ mi
      (⟨n, false, false⟩, "ok " ++ digest n)
    | _, _, _, _, _, _, _, _, _, _ => (s, "bad-op")
  | _ =>
  if s.dead then (s, "dead") else
  match toks with
  | ["keysend", h, amt, now] =>
    match nat? h, nat? amt, nat? now with
    | some h, some amt, some now =>
      approve s h ⟨amt, now + Gen.Payments.keysendExpiry + Gen.Payments.keysendPruneTime, [0, h]⟩ now
    | _, _, _ => (s, "bad-op")
  | ["allowpayee"] => ({ s with allow := true }, "ok " ++ digest s.node)
  -- `add_keysend` / `add_invoice` called directly: the table-full refusal comes before everything else
  | ["keysend", h, amt, now, "direct"] =>
    match nat? h, nat? amt, nat? now with
    | some h, some amt, some now =>
      if s.node.directRefusedByLimit then (s, "err " ++ digest s.node) else
      approve s h ⟨amt, now + Gen.Payments.keysendExpiry + Gen.Payments.keysendPruneTime, [0, h]⟩ now
    | _, _, _ => (s, "bad-op")
  | ["invoice", h, amt, ts, exp, id, "direct"] =>
    match nat? h, nat? amt, nat? ts, nat? exp, nat? id with
    | some h, some amt, some ts, some exp, some id =>
      if s.node.directRefusedByLimit then (s, "err " ++ digest s.node) else
      approve s h ⟨amt, ts + exp + Gen.Payments.invoicePruneTime, [1, amt, ts, exp, id]⟩ ts
    | _, _, _, _, _ => (s, "bad-op")
  | ["keysend", h, amt, now, "neg"] =>
    match nat? h, nat? amt, nat? now with
    | some h, some amt, some now =>
      propose s false false h ⟨amt, now + Gen.Payments.keysendExpiry + Gen.Payments.keysendPruneTime, [0, h]⟩ now
    | _, _, _ => (s, "bad-op")
  | ["invoice", h, amt, ts, exp, id, "neg"] =>
    match nat? h, nat? amt, nat? ts, nat? exp, nat? id with
    | some h, some amt, some ts, some exp, some id =>
      propose s true false h ⟨amt, ts + exp + Gen.Payments.invoicePruneTime, [1, amt, ts, exp, id]⟩ ts
    | _, _, _, _, _ => (s, "bad-op")
  | ["invoice", h, amt, ts, exp, id] =>
    match nat? h, nat? amt, nat? ts, nat? exp, nat? id with
    | some h, some amt, some ts, some exp, some id =>
      approve s h ⟨amt, ts + exp + Gen.Payments.invoicePruneTime, [1, amt, ts, exp, id]⟩ ts
    | _, _, _, _, _ => (s, "bad-op")
  | ["cpsign", c, k, off, rcv] =>
    match nat? c, kind? k, htlcs? off, htlcs? rcv with
    | some c, some k, some off, some rcv => run s (.cpSign c k (Info.ofCp off rcv)) commitS
    | _, _, _, _ => (s, "bad-op")
  | ["hval", c, k, off, rcv] =>
    match nat? c, kind? k, htlcs? off, htlcs? rcv with
    | some c, some k, some off, some rcv => run s (.hValidate c k (Info.ofHolder off rcv)) commitS
    | _, _, _, _ => (s, "bad-op")
  | ["revoke", c] =>
    match nat? c with
    | some c => run s (.revoke c) commitS
    | none => (s, "bad-op")
  | ["cprevoke", c] =>
    match nat? c with
    | some c => run s (.cpRevoke c) commitS
    | none => (s, "bad-op")
  | ["issue", h, amt, ts, exp, id] =>
    match nat? h, nat? amt, nat? ts, nat? exp, nat? id with
    | some h, some amt, some ts, some exp, some id =>
      run s (.issue h ⟨amt, ts + exp + Gen.Payments.invoicePruneTime, [2, amt, ts, exp, id]⟩) commitS
    | _, _, _, _, _ => (s, "bad-op")
  | ["fulfill", _, h] =>
    match nat? h with
    | some h => run s (.fulfill h) (fun _ => "ok")
    | none => (s, "bad-op")
  | ["heartbeat", now] =>
    match nat? now with
    | some now => run s (.heartbeat now) (fun _ => "ok")
    | none => (s, "bad-op")
  | ["restart"] => run s .restart (fun _ => "ok")
  | _ => (s, "bad-op")

def model : Model := { σ := St, init := ⟨Node.init 0 ⟨0, 0, 0⟩, false, false⟩, step := step }

end VlsModel.Drv.Payments
