import VlsModel.Drv.Common
import VlsModel.Gen.FnDispatch
/-
Driver model `fngen`: calls the Lean definitions that `translate/rs2lean.py` generates from the Rust function
bodies (`Gen/Fn*.lean`) through the generated dispatch table `Gen/FnDispatch.lean`.  Stateless.
-/
namespace VlsModel.Drv.FnGen
open VlsModel.Drv

def model : Model :=
  { σ := Unit, init := (), step := fun _ toks => ((), VlsModel.Gen.FnDispatch.dispatch toks) }

def models : List (String × Model) := [("fngen", model)]

end VlsModel.Drv.FnGen
