import VlsModel.Drv.Common
/- Line-protocol models serving property C08 (none yet). -/
namespace VlsModel.Drv.C08
open VlsModel.Drv

def models : List (String × Model) := []

end VlsModel.Drv.C08
