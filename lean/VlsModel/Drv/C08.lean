import VlsModel.Drv.Common
import VlsModel.Drv.Onchain
import VlsModel.Drv.Wallet
/- Line-protocol models serving property C08. -/
namespace VlsModel.Drv.C08
open VlsModel.Drv

def models : List (String × Model) := [ ("onchain", Onchain.model), ("wallet", Wallet.model) ]

end VlsModel.Drv.C08
