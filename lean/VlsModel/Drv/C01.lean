import VlsModel.Drv.Common
import VlsModel.Drv.Enforcement
/- Line-protocol models serving property C01. -/
namespace VlsModel.Drv.C01
open VlsModel.Drv

def models : List (String × Model) :=
  [ ("enforcement", Enforcement.model) ]

end VlsModel.Drv.C01
