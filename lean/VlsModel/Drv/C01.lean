import VlsModel.Drv.Common
/- Line-protocol models serving property C01 (none yet). -/
namespace VlsModel.Drv.C01
open VlsModel.Drv

def models : List (String × Model) := []

end VlsModel.Drv.C01
