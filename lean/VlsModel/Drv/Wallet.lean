import VlsModel.Model.Wallet
import VlsModel.Drv.Common
/-
Line-protocol driver for the wallet decision logic (`impl Wallet for Node`, properties C08 / C09).  Stateless.

  cs <style n|l|d> <path> <script>                    → t | f | e      (`can_spend`: Ok(true) / Ok(false) / Err)
  al <style> <allow items a,b,..|-> <path> <script>   → y | n | p      (`allowlist_contains`: true / false / panic)

  path    `-` (empty) or components joined by `.`, a trailing `h` marks a hardened component (`0.5h.2`)
  script  descriptor of the harness: `W/<path>/<type>` a key of the node's account at <path>,
          `X<j>/<path>/<type>` a child of the foreign extended key j,
          `F/<n>/<type>` a foreign key, `R/<len>` a raw script, `C<k>` / `C<k>m` a channel funding script (raw for the wallet);  type w p2wpkh | s p2sh-p2wpkh | t p2tr | k p2pkh | h p2wsh
  allow   script descriptors and `x<j>` (an allowlisted extended key; `x9` = the node's own account xpub)
-/
namespace VlsModel.Drv.Wallet
open VlsModel VlsModel.Wallet VlsModel.Drv

def splitList (s : String) (sep : String) : List String :=
  if s == "-" then [] else s.splitOn sep

def mapM? {α β} (f : α → Option β) : List α → Option (List β)
  | [] => some []
  | a :: as => match f a, mapM? f as with
    | some b, some bs => some (b :: bs)
    | _, _ => none

def comp? (s : String) : Option Nat :=
  match s.toList.reverse with
  | 'h' :: rest => (String.ofList rest.reverse).toNat?.map (· + 2147483648)
  | _ => s.toNat?

def path? (s : String) : Option (List Nat) :=
  if s == "-" then some [] else mapM? comp? (s.splitOn ".")

def style? : String → Option Style
  | "n" => some .native | "l" => some .ldk | "d" => some .lnd | _ => none

/-- `h` (p2wsh of the key) is a form the wallet code never constructs: a raw script named by key and form -/
def kind? : String → Option Kind
  | "w" => some .p2wpkh | "s" => some .p2shwpkh | "t" => some .p2tr | "k" => some .p2pkh | "h" => some .p2wsh | _ => none

def script? (s : String) : Option Script :=
  match s.splitOn "/" with
  | ["W", p, t] => match path? p, kind? t with
    | some p, some k => some (.addr k (.account p))
    | _, _ => none
  | ["F", n, t] => match n.toNat?, kind? t with
    | some n, some k => some (.addr k (.foreign n))
    | _, _ => none
  | ["R", n] => n.toNat?.map .other
  | [c] =>
    -- `C<k>` / `C<k>m`: the funding script of channel k (resp. a mutation of it): raw scripts for the wallet
    match c.toList with
    | 'C' :: rest =>
      match rest.reverse with
      | 'm' :: r => (String.ofList r.reverse).toNat?.map (fun k => .other (2000000 + k))
      | _ => (String.ofList rest).toNat?.map (fun k => .other (1000000 + k))
    | _ => none
  | [x, p, t] =>
    match x.toList with
    | 'X' :: j => match (String.ofList j).toNat?, path? p, kind? t with
      | some j, some p, some k => some (.addr k (.xpub j p))
      | _, _, _ => none
    | _ => none
  | _ => none

def allowable? (s : String) : Option Allowable :=
  match s.toList with
  | 'x' :: j => (String.ofList j).toNat?.map .xpub
  | _ => (script? s).map .script

def step (_ : Unit) (toks : List String) : Unit × String :=
  ((), match toks with
  | ["cs", st, p, d] =>
    match style? st, path? p, script? d with
    | some st, some p, some d =>
      match canSpend st p d with
      | some true => "t" | some false => "f" | none => "e"
    | _, _, _ => "bad-op"
  | ["al", _, al, p, d] =>
    match mapM? allowable? (splitList al ","), path? p, script? d with
    | some al, some p, some d =>
      match allowlistContains al d p with
      | .yes => "y" | .no => "n" | .panic => "p"
    | _, _, _ => "bad-op"
  | _ => "bad-op")

def model : Model := { σ := Unit, init := (), step := step }

end VlsModel.Drv.Wallet
