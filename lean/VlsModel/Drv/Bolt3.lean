import VlsModel.Model.Bolt3Bytes
import VlsModel.Model.Bolt3Filter
import VlsModel.Drv.Common
/-
Line-protocol driver for the structured BOLT-3 model (property C04).

Instantiation of the structured lines: P2WSH programs are the scripts themselves (`wsh := id`); the
order key of every candidate script_pubkey is computed here from its real bytes (SHA-256 of the
script bytes, `okeyB`).  The serialised line uses the byte-level instance (`H := Nat`, `wshB`, `okeyB`,
`ser` of `Model/Bolt3Bytes.lean`).  Keys are fixed small ids:
1 revocation, 2 broadcaster delayed, 3 broadcaster htlc, 4 countersignatory htlc,
5 countersignatory payment point, 6 broadcaster funding, 7 countersignatory funding; 0 = malformed.

ops
  setup <l|s|a|z> <outbound> <holderDelay> <cpDelay> <txid> <vout> <channelValue> <obscure> <strict> <policy mode> <point id> <via handler>   (the last three concern the implementation only)
  keys <k1> … <k7> <hash160 k1> <hash160 k5>          (hex; the 33-byte keys of ids 1..7)
  content <commitNum> <feerate> <toCs> <toBc> {o|r}:<value>:<hash>:<cltv>:<ripemd160 hex>…
        → canonical transaction rendering | HTLC-tx fields | hex of `ser (canon c)` (or `panic`)
  resetup <field|same> <value>            → ok / refused (second setup of the ready channel: only the identical setup is accepted)
  filter {<p|e>:<w|e>:<tag>}…             → ok (the rules of the node's policy filter; overrides <strict> of `setup`)
  restart                                 → ok (the channel is persisted and restored: identity on the setup)
  p2 <ok|err|panic>                       → accept / reject of phase 2 on the current content
  p1 <ok|err|panic> <mutation…>           → accept <csVal> <bcVal> / reject of phase 1 on the mutated canonical tx
-/
namespace VlsModel.Drv.Bolt3
open VlsModel VlsModel.Bolt3 VlsModel.Drv

abbrev H := Script

structure St where
  strict : Bool
  /-- key bytes of ids 1..7 (index 0 unused), HASH160 of key 1 (revocation) and key 5 (payment point) -/
  keyTab : List (List UInt8)
  h160rev : Nat
  h160pay : Nat
  /-- payment hash id ↦ RIPEMD160 (big-endian number) -/
  payTab : List (Nat × Nat)
  setup : Setup
  content : Content
  ranks : List (Spk H × Nat)

def keys : Keys := ⟨1, 2, 3, 4, 5, 6, 7⟩

def okeyOf (ranks : List (Spk H × Nat)) (p : Spk H) : Nat := (ranks.lookup p).getD 0

def initSetup : Setup := ⟨.staticRemoteKey, true, 6, 7, 2, 0, 3000000, 0⟩
def init : St := ⟨true, [], 0, 0, [], initSetup, ⟨1, 0, 0, 0, [], []⟩, []⟩

def St.env (st : St) : BEnv :=
  { nKeys := 8
    keyBytes := fun k => (st.keyTab[k]?).getD []
    keyHash160 := fun k => if k == 1 then st.h160rev else if k == 5 then st.h160pay else 0
    payHash160 := fun h => (st.payTab.lookup h).getD 0 }

/-- a script-level script_pubkey as the byte-level one (P2WSH program = SHA-256 of the script bytes) -/
def spkToNat (env : BEnv) : Spk H → Spk Nat
  | .p2wpkh k => .p2wpkh k
  | .p2wsh sc => .p2wsh (wshB env sc)
  | .other n => .other n

/-- funding txid id `n` ↦ the 32 bytes `31·n + 7·i + 1 (mod 256)`, `i = 0..31` (not a byte palindrome), read as the
    little-endian number `ser` writes back out -/
def txidNat (n : Nat) : Nat :=
  beNat ((List.range 32).map (fun i => UInt8.ofNat (31 * n + 7 * i + 1))).reverse

/-- the byte-level instance: `H := Nat`, P2WSH by SHA-256, order = byte order; serialised -/
def serCanon (st : St) : String :=
  let env := st.env
  match canon (wshB env) (okeyB env) { st.setup with fundingTxid := txidNat st.setup.fundingTxid } keys st.content with
  | none => "panic"
  | some tx => toHex (ser env tx)

def ctype? : String → Option CType
  | "l" => some .legacy | "s" => some .staticRemoteKey | "a" => some .anchors | "z" => some .anchorsZeroFee
  | _ => none

def bool? : String → Option Bool
  | "0" => some false | "1" => some true | _ => none

def int? (s : String) : Option Int := s.toInt?

def showBool (b : Bool) : String := if b then "1" else "0"

def showScript : Script → String
  | .toLocal r d k => s!"local({r},{d},{k})"
  | .htlcReceived csv r k1 h l k2 c => s!"recv({showBool csv},{r},{k1},{h},{l},{k2},{c})"
  | .htlcOffered csv r k1 k2 h l => s!"off({showBool csv},{r},{k1},{k2},{h},{l})"
  | .anchor k => s!"anchor({k})"
  | .toRemoteDelayed k => s!"remoteA({k})"
  | .unknown n => s!"unknown({n})"

def showSpk : Spk H → String
  | .p2wpkh k => s!"wpkh({k})"
  | .p2wsh h => showScript h
  | .other n => s!"other({n})"

def showOut (o : TxOut H) : String := s!"{o.value}:{showSpk o.spk}"

def showIn (i : TxIn) : String := s!"{i.txid}:{i.vout}:{i.sequence}"

def showHtlcTx (t : HtlcTx H) : String :=
  let v := match t.value with | some v => toString v | none => "x"
  s!"{t.vout}:{t.locktime}:{t.sequence}:{v}:{showBool t.singleAcp}"

def render (st : St) : String :=
  match canon id (okeyOf st.ranks) st.setup keys st.content with
  | none => "panic"
  | some tx =>
    let hts := htlcTxs id (okeyOf st.ranks) st.setup keys st.content tx
    s!"tx {tx.version} {tx.locktime} {" ".intercalate (tx.inputs.map showIn)} | " ++
    " ".intercalate (tx.outputs.map showOut) ++ " | " ++ " ".intercalate (hts.map showHtlcTx) ++ " | " ++ serCanon st

/-- `{o|r}:<value>:<hash>:<cltv>:<ripemd160 of the payment hash, hex>` -/
def htlcTok? (t : String) : Option (Bool × Htlc × Nat) :=
  match t.splitOn ":" with
  | [d, v, h, c, r] =>
    match (if d == "o" then some true else if d == "r" then some false else none), nat? v, nat? h, nat? c, hex? r with
    | some off, some v, some h, some c, some r => some (off, ⟨v, h, c⟩, beNat r)
    | _, _, _, _, _ => none
  | _ => none

def pol? : String → Option (Except Kind Unit)
  | "ok" => some (.ok ()) | "err" => some (.error .policy) | "panic" => some (.error .panic) | _ => none

def envOf (strict : Bool) (pol : Except Kind Unit) : Env :=
  { chanOk := true, pre := fun _ _ => pol, post := fun _ _ => true, mismatchIsError := strict,
    fundingKey := 100, htlcKey := 101 }

def crypto : Crypto H Unit Unit := ⟨fun _ _ => (), fun _ => (), fun _ _ => ()⟩

/-- change one field of a script template -/
def modScript (sc : Script) (field : String) (v : Int) : Script :=
  match sc, field with
  | .toLocal _ d k, "rev" => .toLocal v.toNat d k
  | .toLocal r _ k, "delay" => .toLocal r v k
  | .toLocal r d _, "delayed" => .toLocal r d v.toNat
  | .htlcReceived csv _ k1 h l k2 c, "rev" => .htlcReceived csv v.toNat k1 h l k2 c
  | .htlcReceived csv r _ h l k2 c, "k1" => .htlcReceived csv r v.toNat h l k2 c
  | .htlcReceived csv r k1 _ l k2 c, "hash" => .htlcReceived csv r k1 v.toNat l k2 c
  | .htlcReceived csv r k1 h _ k2 c, "hashlen" => .htlcReceived csv r k1 h v.toNat k2 c
  | .htlcReceived csv r k1 h l _ c, "k2" => .htlcReceived csv r k1 h l v.toNat c
  | .htlcReceived csv r k1 h l k2 _, "cltv" => .htlcReceived csv r k1 h l k2 v
  | .htlcReceived csv r k1 h l k2 c, "csv" => .htlcReceived (!csv) r k1 h l k2 c
  | .htlcOffered csv _ k1 k2 h l, "rev" => .htlcOffered csv v.toNat k1 k2 h l
  | .htlcOffered csv r _ k2 h l, "k1" => .htlcOffered csv r v.toNat k2 h l
  | .htlcOffered csv r k1 _ h l, "k2" => .htlcOffered csv r k1 v.toNat h l
  | .htlcOffered csv r k1 k2 _ l, "hash" => .htlcOffered csv r k1 k2 v.toNat l
  | .htlcOffered csv r k1 k2 h _, "hashlen" => .htlcOffered csv r k1 k2 h v.toNat
  | .htlcOffered csv r k1 k2 h l, "csv" => .htlcOffered (!csv) r k1 k2 h l
  | .anchor _, "key" => .anchor v.toNat
  | .toRemoteDelayed _, "key" => .toRemoteDelayed v.toNat
  | _, "unknown" => .unknown v.toNat
  | sc, _ => sc

def modSpk (p : Spk H) (field : String) (v : Int) : Spk H :=
  match p with
  | .p2wsh sc => .p2wsh (modScript sc field v)
  | .p2wpkh k => if field == "key" then .p2wpkh v.toNat else if field == "unknown" then .other v.toNat else .p2wpkh k
  | .other n => .other n

def swapAt {α} (l : List α) (i j : Nat) : List α :=
  match l[i]?, l[j]? with
  | some a, some b => (l.set i b).set j a
  | _, _ => l

def mapIn (tx : CTx H) (f : TxIn → TxIn) : CTx H :=
  match tx.inputs with
  | i :: rest => { tx with inputs := f i :: rest }
  | [] => tx

/-- apply a mutation to (tx, witscripts); `none` = unknown mutation -/
def mutate (tx : CTx H) (ws : List (Option Script)) : List String → Option (CTx H × List (Option Script))
  | ["none"] => some (tx, ws)
  | ["ver", n] => (nat? n).map fun n => ({ tx with version := n }, ws)
  | ["lock", n] => (nat? n).map fun n => ({ tx with locktime := n }, ws)
  | ["seq", n] => (nat? n).map fun n => (mapIn tx fun i => { i with sequence := n }, ws)
  | ["intxid", n] => (nat? n).map fun n => (mapIn tx fun i => { i with txid := n }, ws)
  | ["invout", n] => (nat? n).map fun n => (mapIn tx fun i => { i with vout := n }, ws)
  | ["scriptsig"] => some (mapIn tx fun i => { i with scriptSig := 1 }, ws)
  | ["witness"] => some (mapIn tx fun i => { i with witness := 1 }, ws)
  | ["addin"] => some ({ tx with inputs := tx.inputs ++ tx.inputs.take 1 }, ws)
  | ["val", i, v] =>
    match nat? i, nat? v with
    | some i, some v =>
      match tx.outputs[i]? with
      | some o => some ({ tx with outputs := tx.outputs.set i { o with value := v } }, ws)
      | none => none
    | _, _ => none
  | ["swap", i, j] =>
    match nat? i, nat? j with
    | some i, some j => some ({ tx with outputs := swapAt tx.outputs i j }, swapAt ws i j)
    | _, _ => none
  | ["drop", i] => (nat? i).map fun i => ({ tx with outputs := tx.outputs.eraseIdx i }, ws.eraseIdx i)
  | ["dup", i] =>
    match nat? i with
    | some i =>
      match tx.outputs[i]?, ws[i]? with
      | some o, some w => some ({ tx with outputs := tx.outputs ++ [o] }, ws ++ [w])
      | _, _ => none
    | none => none
  | ["addwpkh", v, k] =>
    match nat? v, nat? k with
    | some v, some k => some ({ tx with outputs := tx.outputs ++ [⟨v, .p2wpkh k⟩] }, ws ++ [none])
    | _, _ => none
  | ["addunk", v, n] =>
    match nat? v, nat? n with
    | some v, some n => some ({ tx with outputs := tx.outputs ++ [⟨v, .p2wsh (.unknown n)⟩] }, ws ++ [some (.unknown n)])
    | _, _ => none
  | ["tpl", i, field, v] =>
    match nat? i, int? v with
    | some i, some v =>
      match tx.outputs[i]?, ws[i]? with
      | some o, some w =>
        some ({ tx with outputs := tx.outputs.set i { o with spk := modSpk o.spk field v } },
              ws.set i (w.map fun sc => modScript sc field v))
      | _, _ => none
    | _, _ => none
  | ["wit", i, field, v] =>
    match nat? i, int? v with
    | some i, some v =>
      match ws[i]? with
      | some w => some (tx, ws.set i (w.map fun sc => modScript sc field v))
      | none => none
    | _, _ => none
  | ["spk", i, field, v] =>
    match nat? i, int? v with
    | some i, some v =>
      match tx.outputs[i]? with
      | some o => some ({ tx with outputs := tx.outputs.set i { o with spk := modSpk o.spk field v } }, ws)
      | none => none
    | _, _ => none
  | ["wsdrop", i] => (nat? i).map fun i => (tx, ws.set i none)
  | ["retpl", i, kind] =>
    -- replace output i (script_pubkey and witness script) by another to_remote form, same value
    match nat? i with
    | some i =>
      match tx.outputs[i]? with
      | some o =>
        if kind == "remoteA" then
          some ({ tx with outputs := tx.outputs.set i { o with spk := .p2wsh (.toRemoteDelayed 5) } }, ws.set i (some (.toRemoteDelayed 5)))
        else if kind == "wpkh" then
          some ({ tx with outputs := tx.outputs.set i { o with spk := .p2wpkh 5 } }, ws.set i none)
        else none
      | none => none
    | none => none
  | ["wslen"] => some (tx, ws.dropLast)
  | ["wsadd"] => some (tx, ws ++ [some (.unknown 1)])
  | _ => none

def ruleTok? (t : String) : Option FRule :=
  match t.splitOn ":" with
  | [p, a, tag] =>
    if (p == "p" || p == "e") && (a == "w" || a == "e") then some ⟨tag, p == "p", a == "w"⟩ else none
  | _ => none

def step (st : St) (toks : List String) : St × String :=
  match toks with
  | ["setup", t, ob, hd, cd, txid, vout, cv, obs, strict, _mode, _point, _via] =>
    match ctype? t, bool? ob, nat? hd, nat? cd, nat? txid, nat? vout, nat? cv, nat? obs, bool? strict with
    | some t, some ob, some hd, some cd, some txid, some vout, some cv, some obs, some strict =>
      ({ st with setup := ⟨t, ob, hd, cd, txid, vout, cv, obs⟩, strict := strict }, "ok")
    | _, _, _, _, _, _, _, _, _ => (st, "bad-op")
  | "filter" :: rules =>
    -- the rules of the node's policy filter, `<p|e>:<w|e>:<tag>` each (prefix/exact, warn/error): from here on
    -- `mismatchIsError` is what `PolicyFilter::filter("policy-commitment")` says (model: `filterIsError`)
    match rules.mapM ruleTok? with
    | some rs => ({ st with strict := mismatchIsErrorOf rs }, "ok")
    | none => (st, "bad-op")
  | "keys" :: k1 :: k2 :: k3 :: k4 :: k5 :: k6 :: k7 :: h1 :: h5 :: [] =>
    match [k1, k2, k3, k4, k5, k6, k7].mapM hex?, hex? h1, hex? h5 with
    | some ks, some h1, some h5 => ({ st with keyTab := [] :: ks, h160rev := beNat h1, h160pay := beNat h5 }, "ok")
    | _, _, _ => (st, "bad-op")
  | "content" :: cn :: fr :: toCs :: toBc :: hts =>
    if st.keyTab.isEmpty then (st, "no-keys") else
    match nat? cn, nat? fr, nat? toCs, nat? toBc, hts.mapM htlcTok? with
    | some cn, some fr, some toCs, some toBc, some hts =>
      let offered := hts.filterMap fun (o, h, _) => if o then some h else none
      let received := hts.filterMap fun (o, h, _) => if o then none else some h
      let c : Content := ⟨cn, fr, toCs, toBc, offered, received⟩
      let s := st.setup
      let st1 := { st with content := c, payTab := hts.map fun (p : Bool × Htlc × Nat) => (p.2.1.hash, p.2.2) }
      let env := st1.env
      -- order keys of the candidate script_pubkeys, computed here from the real bytes (SHA-256)
      let cands : List (Spk H) :=
        [ (toRemoteElem id s keys 0).out.spk, (toLocalElem id s keys 0).out.spk,
          (anchorElem id keys.bFunding : Elem H).out.spk, (anchorElem id keys.cFunding : Elem H).out.spk ] ++
        hts.map fun (o, h, _) => (htlcElem id s keys o h).out.spk
      let st' := { st1 with ranks := cands.map fun p => (p, okeyB env (spkToNat env p)) }
      (st', render st')
    | _, _, _, _, _ => (st, "bad-op")
  | ["resetup", f, v] =>
    -- `Node::setup_channel` on a ready channel: `if c.setup != setup { Err } else { Ok }`; the channel keeps its setup
    match nat? v with
    | some v =>
      let s := st.setup
      let ns : Setup :=
        if f == "outbound" then { s with outbound := v != 0 }
        else if f == "hdelay" then { s with holderDelay := v }
        else if f == "cdelay" then { s with cpDelay := v }
        else if f == "txid" then { s with fundingTxid := v }
        else if f == "vout" then { s with fundingVout := v }
        else if f == "value" then { s with channelValue := v }
        else if f == "ctype" then { s with ctype := [CType.legacy, .staticRemoteKey, .anchors, .anchorsZeroFee].getD (v % 4) .legacy }
        else s
      match resetupReady s ns with
      | .ok s' => ({ st with setup := s' }, "ok")
      | .error _ => (st, "refused")
    | none => (st, "bad-op")
  | ["restart"] =>
    -- persist + restore is the identity on the setup (C04_restart_same_sig)
    ({ st with setup := restoreChannel (persistChannel st.setup) }, "ok")
  | ["p2", pol] =>
    match pol? pol with
    | some pol =>
      match phase2 id (okeyOf st.ranks) crypto (envOf st.strict pol) st.setup keys st.content with
      | .ok (_, hs) => (st, s!"accept {hs.length}")
      | .error _ => (st, "reject")
    | none => (st, "bad-op")
  | "p1" :: pol :: mtoks =>
    match pol? pol, canon id (okeyOf st.ranks) st.setup keys st.content with
    | some pol, some tx =>
      let ws := canonWs id (okeyOf st.ranks) st.setup keys st.content
      match mutate tx ws mtoks with
      | none => (st, "bad-op")
      | some (tx', ws') =>
        let c := st.content
        match phase1 id (okeyOf st.ranks) crypto (envOf st.strict pol) st.setup keys tx' ws' c.commitNum c.feerate c.offered c.received with
        | .ok _ =>
          match decode id st.setup keys tx' ws' with
          | some info => (st, s!"accept {info.csVal} {info.bcVal}")
          | none => (st, "accept ? ?")
        | .error _ => (st, "reject")
    | some _, none => (st, "reject")
    | none, _ => (st, "bad-op")
  | _ => (st, "bad-op")

def model : Model := { σ := St, init := init, step := step }

end VlsModel.Drv.Bolt3
