import VlsModel.Model.NodeReq
import VlsModel.Drv.Common
/- Line-protocol driver for the node-level request model (properties C10, C11). -/
namespace VlsModel.Drv.NodeReq
open VlsModel VlsModel.NodeReq VlsModel.Drv

/-- configuration used by the simulator: Hourly 100_000_000 msat velocity, max 6 invoices, ready
    channel oid 1, constant clock -/
def cfg : Cfg := { maxInvoices := 6, maxChannels := 4, readyOid := 1, now := 1600000000 }
def vc0 : Velocity.VC := Velocity.VC.ofSpec ⟨100000000, .hourly⟩

/-- the simulator approves two keysends (10 000 000 and 12 000 000 msat) during set-up -/
def st0 : St :=
  let s := St.init vc0
  let s := match keysend cfg s 10000000 false with | some (s', _) => s' | none => s
  let s := match keysend cfg s 12000000 false with | some (s', _) => s' | none => s
  { s with lastPresent := false }

def entryName : Nat → String
  | 1 => "g" | 2 => "g2" | 3 => "x" | n => toString n

def digest (s : St) : String :=
  let al := ",".intercalate (s.mem.allow.map entryName)
  s!"al=[{al}] inv={s.mem.invoices} iss={s.mem.issued.length} hwm={s.mem.hwm} chans={s.mem.stubs.length + 1}"

def kind? : String → Option (List (Option Nat))
  | "g" => some [some 1] | "g2" => some [some 2] | "x" => some [some 3] | "b" => some [none]
  | "m" => some [some 2, none] | "gg" => some [some 1, some 2]
  | "gx" => some [some 1, some 3] | "xg" => some [some 3, some 1]
  | "g2g" => some [some 2, some 1] | "ggd" => some [some 1, some 1] | _ => none

def alop? : String → Option AlOp
  | "add" => some .add | "set" => some .set | "rm" => some .rm | _ => none

def parse (toks : List String) : Option Op :=
  match toks with
  | ["al", o, k] => do some (.al (← alop? o) (← kind? k))
  | ["ks", a] => do some (.ks (← nat? a) false)
  | ["ksdup", a] => do some (.ks (← nat? a) true)
  | ["newch", d] => do some (.newch (← nat? d))
  | ["forget", w] => do some (.forget (← nat? w))
  | ["sinv", h, a] => do some (.sinv (← nat? h) (← nat? a))
  | ["restart"] => some .restart
  | ["hb"] => some .hb
  | ["blk+", g] => some (.blk (g == "g") 1)
  | ["blkn", n] => do some (.blk true (← nat? n))
  | ["blk-", g] => some (.unblk (g == "g"))
  | _ => none

def stepLine (s : St) (toks : List String) : St × String :=
  match parse toks with
  | none => (s, "bad-op")
  | some op =>
    match step cfg s op with
    | none => (s, "panic")
    | some (s', r) =>
      -- block requests print the tracker's relative height, every other request the node digest
      let isBlk := match op with | .blk _ _ => true | .unblk _ => true | _ => false
      (s', (match r with | .ok => "ok " | .err => "err ") ++ (if isBlk then s!"h={s'.height}" else digest s'))

def model : Model := { σ := St, init := st0, step := stepLine }

end VlsModel.Drv.NodeReq
