import VlsModel.Drv.Common
/- Line-protocol models serving property C07 (none yet). -/
namespace VlsModel.Drv.C07
open VlsModel.Drv

def models : List (String × Model) := []

end VlsModel.Drv.C07
