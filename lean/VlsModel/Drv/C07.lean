import VlsModel.Drv.Common
import VlsModel.Drv.Policy
/- Line-protocol models serving property C07 (same state machine as C05, plus the close ops). -/
namespace VlsModel.Drv.C07
open VlsModel.Drv

def models : List (String × Model) := [ ("mclose", Policy.model) ]

end VlsModel.Drv.C07
