import VlsModel.Drv.Common
import VlsModel.Model.Keys
/-
Line-protocol driver for the C18 model (`Model/Keys.lean`).

Pure queries (no state):
  hkdf32 <secret> <info> <salt>                  → hex of hkdf_sha256
  native_keys <seed> <net> <id>                  → base=.. id=.. f=.. r=.. h=.. p=.. d=.. s=..
  ldk_keys <seed> <net> <id> <idx>:<priv>        → same (BIP32 child m/3'/idx' supplied as oracle)
  chanid <peer33> <oid>                          → id=<hex> oid=<n|panic> ldk=<hex|panic>   (ChannelId::new_from_peer_id_and_oid, oid(), ldk_channel_keys_id())
  chanid_oid <oid>                               → same for ChannelId::new_from_oid
  oid_of <id>                                    → oid=<n|panic> ldk=<hex|panic>            (ChannelId::new(id).oid() / .ldk_channel_keys_id())
  be64 <bytes>                                   → <n> | panic                               (byte_utils::slice_to_be64, as used on keys_id[0..8])
  commit_secret <seed32> <idx>                   → hex of build_commitment_secret
  derive <secret32> <bits> <idx>                 → hex of derive_secret
  tree <seed32> <idx> <bits>                     → <commit_secret idx> <derive (commit_secret (idx with low bits zeroed)) bits idx>
                                                   (bits ≤ 16 and bit `bits` of idx set, else bad-op)
Node history (state = one node: style, seed, network, manager counters, channels):
  node <n|l> <seed> <net>                        → ok base=<channel seed base>
  new <dbid> <peer33> [<idx>:<priv>]             → ok <material> | err
  setup <dbid> <peer33> <value>                  → ok <material> | err
  keys <dbid> <peer33>                           → ok <stub|ready> <material> | none
  advance <dbid> <peer33>                        → ok next=<n> released=<hex|none> | err
  commit <dbid> <peer33> <n>                     → secret=<hex|none> point=<ok|refused> released=<yes|no> future=<yes|no|na> | none
  rerevoke <dbid> <peer33> <N>                   → ok released=<hex|none> nextsecret=<hex> | err
                                                   (revoke_previous_holder_commitment(N) again, N < next)
  getpoint <dbid> <peer33> <n>                   → ok pointsecret=<hex> secret=<hex|none> | err
                                                   (pre-v6 GetPerCommitmentPoint: point n and the secret of n-2)
  sweep <dbid> <peer33> <s|d|b> <n>              → ok key=<payment secret> | ok key=<delayed base secret> pcs=<secret n> | ok key=.. key2=.. pcs=.. | none
                                                   (the signer spend_spendable_outputs re-derives from the keys id of a
                                                   Static/DelayedPaymentOutput descriptor of the channel)
  sweepall <n>                                   → ok <number of channels swept in one call>
  restart                                        → ok <number of channels restored>
-/
namespace VlsModel.Drv.Keys
open VlsModel.Drv VlsModel.Keys
open VlsModel.Sha256 (Bytes)

structure DState where
  cfg : Option (Style × Bytes × Net)
  st : NodeSt
  oracle : List (Nat × Bytes)

def init : DState := ⟨none, NodeSt.fresh, []⟩

def net? : String → Option Net
  | "bitcoin" => some .bitcoin
  | "testnet" => some .testnet
  | "signet" => some .signet
  | "regtest" => some .regtest
  | _ => none

def style? : String → Option Style
  | "n" => some .native
  | "l" => some .ldk
  | _ => none

/-- `ChannelId::new_from_peer_id_and_oid` (the model's definition; the theorems of `Props/C18.lean` about the
ids the node builds are about this function) -/
def chanId (peer : Bytes) (dbid : Nat) : Bytes := chanIdOfPeerOid peer dbid

def optNat : Option Nat → String
  | some n => toString n
  | none => "panic"

def oracleTok? (s : String) : Option (Nat × Bytes) :=
  match s.splitOn ":" with
  | [a, b] => do
    let i ← nat? a
    let p ← hex? b
    pure (i, p)
  | _ => none

def childOf (tbl : List (Nat × Bytes)) : Bytes → Net → Nat → Bytes :=
  fun _ _ i => (tbl.lookup i).getD []

def optHex : Option Bytes → String
  | some b => toHex b
  | none => "none"

def material (k : KeyMaterial) : String :=
  s!"id={toHex k.keysId} f={toHex k.funding} r={toHex k.revocation} h={toHex k.htlc} p={toHex k.payment} d={toHex k.delayed} s={toHex k.commitmentSeed}"

/-- for the LDK style: is the BIP32 oracle entry for this channel present? -/
def ldkOracleOk (tbl : List (Nat × Bytes)) (seed : Bytes) (id : Bytes) : Option String :=
  let P := concretePrims (childOf tbl)
  let kid := keysIdOf P .ldk (channelSeedBase P seed) id
  let ci := be64 kid
  if ci ≥ 2 ^ 31 then some "panic"
  else if (tbl.lookup ci).isNone then some s!"oracle-missing {ci}"
  else none

def pure? (toks : List String) : Option String :=
  match toks with
  | ["hkdf32", a, b, c] => some <|
    match hex? a, hex? b, hex? c with
    | some s, some i, some salt => toHex (hkdfSha256 s i salt)
    | _, _, _ => "bad-op"
  | ["native_keys", s, n, i] => some <|
    match hex? s, net? n, hex? i with
    | some seed, some net, some id =>
      let P := concretePrims (fun _ _ _ => [])
      s!"base={toHex (channelSeedBase P seed)} {material (keysOf P .native seed net id)}"
    | _, _, _ => "bad-op"
  | ["ldk_keys", s, n, i, o] => some <|
    match hex? s, net? n, hex? i, oracleTok? o with
    | some seed, some net, some id, some e =>
      match ldkOracleOk [e] seed id with
      | some msg => msg
      | none =>
        let P := concretePrims (childOf [e])
        s!"base={toHex (channelSeedBase P seed)} {material (keysOf P .ldk seed net id)}"
    | _, _, _, _ => "bad-op"
  | ["chanid", p, o] => some <|
    match hex? p, nat? o with
    | some peer, some oid =>
      if peer.length ≠ 33 ∨ oid ≥ 2 ^ 64 then "bad-op" else
      let id := chanIdOfPeerOid peer oid
      s!"id={toHex id} oid={optNat (chanIdOid id)} ldk={(chanIdLdkKeysId id).elim "panic" toHex}"
    | _, _ => "bad-op"
  | ["chanid_oid", o] => some <|
    match nat? o with
    | some oid =>
      if oid ≥ 2 ^ 64 then "bad-op" else
      let id := chanIdOfOid oid
      s!"id={toHex id} oid={optNat (chanIdOid id)} ldk={(chanIdLdkKeysId id).elim "panic" toHex}"
    | none => "bad-op"
  | ["oid_of", i] => some <|
    match hex? i with
    | some id => s!"oid={optNat (chanIdOid id)} ldk={(chanIdLdkKeysId id).elim "panic" toHex}"
    | none => "bad-op"
  | ["be64", b] => some <|
    match hex? b with
    | some bs => if bs.length < 8 then "panic" else toString (be64 bs)
    | none => "bad-op"
  | ["commit_secret", s, i] => some <|
    match hex? s, nat? i with
    | some seed, some idx =>
      if seed.length = 32 ∧ idx < 2 ^ 64 then toHex (commitSecret Sha256.sha256 seed idx) else "bad-op"
    | _, _ => "bad-op"
  | ["derive", s, b, i] => some <|
    match hex? s, nat? b, nat? i with
    | some sec, some bits, some idx =>
      if sec.length = 32 ∧ bits ≤ 48 ∧ idx < 2 ^ 64 then toHex (derive Sha256.sha256 sec bits idx) else "bad-op"
    | _, _, _ => "bad-op"
  | ["tree", s, i, b] => some <|
    match hex? s, nat? i, nat? b with
    | some seed, some idx, some bits =>
      -- the harness feeds the real store a whole subtree, so bit `bits` of idx must be set
      if seed.length = 32 ∧ bits ≤ 16 ∧ idx < 2 ^ 48 ∧ idx.testBit bits then
        let whole := commitSecret Sha256.sha256 seed idx
        let viaBase := derive Sha256.sha256 (commitSecret Sha256.sha256 seed (zeroLow idx bits)) bits idx
        s!"{toHex whole} {toHex viaBase}"
      else "bad-op"
    | _, _, _ => "bad-op"
  | _ => none

def stepNode (d : DState) (toks : List String) : DState × String :=
  match toks, d.cfg with
  | ["node", s, sd, n], _ =>
    match style? s, hex? sd, net? n with
    | some style, some seed, some net =>
      let P := concretePrims (fun _ _ _ => [])
      (⟨some (style, seed, net), NodeSt.fresh, []⟩, s!"ok base={toHex (channelSeedBase P seed)}")
    | _, _, _ => (d, "bad-op")
  | "new" :: db :: pr :: rest, some (style, seed, net) =>
    match nat? db, hex? pr with
    | some dbid, some peer =>
      if peer.length ≠ 33 ∨ dbid ≥ 2 ^ 64 then (d, "bad-op") else
      -- `dbid_high_water_mark >= dbid` with a mark that is 0 (no channel is ever forgotten here)
      if dbid = 0 then (d, "err") else
      let tbl := match rest with
        | [o] => match oracleTok? o with
          | some e => e :: d.oracle
          | none => d.oracle
        | _ => d.oracle
      let id := chanId peer dbid
      let bad := if style == .ldk then ldkOracleOk tbl seed id else none
      match bad with
      | some msg => (d, msg)
      | none =>
        let P := concretePrims (childOf tbl)
        let st' := step P style seed net d.st (.newChan id)
        match findChan st'.chans id with
        | some c => (⟨d.cfg, st', tbl⟩, s!"ok {material c.keys}")
        | none => (d, "internal")
    | _, _ => (d, "bad-op")
  | ["setup", db, pr, v], some (style, seed, net) =>
    match nat? db, hex? pr, nat? v with
    | some dbid, some peer, some value =>
      let id := chanId peer dbid
      match findChan d.st.chans id with
      | none => (d, "err")
      | some c =>
        if c.ready ∧ c.value ≠ value then (d, "err") else
        let P := concretePrims (childOf d.oracle)
        let st' := step P style seed net d.st (.setup id value)
        match findChan st'.chans id with
        | some c' => (⟨d.cfg, st', d.oracle⟩, s!"ok {material c'.keys}")
        | none => (d, "internal")
    | _, _, _ => (d, "bad-op")
  | ["keys", db, pr], some _ =>
    match nat? db, hex? pr with
    | some dbid, some peer =>
      match findChan d.st.chans (chanId peer dbid) with
      | none => (d, "none")
      | some c => (d, s!"ok {if c.ready then "ready" else "stub"} {material c.keys}")
    | _, _ => (d, "bad-op")
  | ["advance", db, pr], some (style, seed, net) =>
    match nat? db, hex? pr with
    | some dbid, some peer =>
      let id := chanId peer dbid
      match findChan d.st.chans id with
      | none => (d, "err")
      | some c =>
        if !c.ready then (d, "err") else
        let P := concretePrims (childOf d.oracle)
        let st' := step P style seed net d.st (.advance id)
        let n := c.nextHolder
        -- validate_holder_commitment_tx(n) then activate (n = 0) or revoke_previous_holder_commitment(n),
        -- which releases the secret of n - 1
        let rel := match advanceReply Sha256.sha256 c with
          | some (some s, _) => toHex s
          | _ => "none"
        (⟨d.cfg, st', d.oracle⟩, s!"ok next={n + 1} released={rel}")
    | _, _ => (d, "bad-op")
  | ["commit", db, pr, ns], some _ =>
    match nat? db, hex? pr, nat? ns with
    | some dbid, some peer, some n =>
      match findChan d.st.chans (chanId peer dbid) with
      | none => (d, "none")
      | some c =>
        let sec := match holderSecret Sha256.sha256 c.keys n with
          | some s => toHex s
          | none => "none"
        let fut := match holderSecret Sha256.sha256 c.keys n with
          | some s => if checkFutureSecret Sha256.sha256 c n s then "yes" else "no"
          | none => "na"
        (d, s!"secret={sec} point={if pointAllowed c n then "ok" else "refused"} released={if secretReleasable c n then "yes" else "no"} future={fut}")
    | _, _, _ => (d, "bad-op")
  | ["rerevoke", db, pr, ns], some _ =>
    match nat? db, hex? pr, nat? ns with
    | some dbid, some peer, some n =>
      match findChan d.st.chans (chanId peer dbid) with
      | none => (d, "err")
      | some c =>
        match revokeReply Sha256.sha256 c n with
        | none => (d, "err")
        | some (rel, nxt) => (d, s!"ok released={optHex rel} nextsecret={optHex nxt}")
    | _, _, _ => (d, "bad-op")
  | ["getpoint", db, pr, ns], some _ =>
    match nat? db, hex? pr, nat? ns with
    | some dbid, some peer, some n =>
      match findChan d.st.chans (chanId peer dbid) with
      | none => (d, "err")
      | some c =>
        match oldGetPointReply Sha256.sha256 c n with
        | none => (d, "err")
        | some (pt, old) => (d, s!"ok pointsecret={optHex pt} secret={optHex old}")
    | _, _, _ => (d, "bad-op")
  | ["sweep", db, pr, kind, ns], some (style, seed, net) =>
    match nat? db, hex? pr, nat? ns with
    | some dbid, some peer, some n =>
      match findChan d.st.chans (chanId peer dbid) with
      | none => (d, "none")
      | some c =>
        -- spend_spendable_outputs: derive_channel_keys(value, descriptor.channel_keys_id) with the
        -- manager's counters as they are now (the call advances them)
        let P := concretePrims (childOf d.oracle)
        let k := sweepSigner P style seed net c d.st.km
        let st' := step P style seed net d.st .sweep
        if kind == "s" then (⟨d.cfg, st', d.oracle⟩, s!"ok key={toHex k.payment}")
        else if kind == "d" then
          (⟨d.cfg, st', d.oracle⟩, s!"ok key={toHex k.delayed} pcs={optHex (holderSecret Sha256.sha256 k n)}")
        else if kind == "b" then
          -- both descriptors of the channel in one call: one derivation (keys_cache)
          (⟨d.cfg, st', d.oracle⟩, s!"ok key={toHex k.payment} key2={toHex k.delayed} pcs={optHex (holderSecret Sha256.sha256 k n)}")
        else (d, "bad-op")
    | _, _, _ => (d, "bad-op")
  | ["sweepall", ns], some (style, seed, net) =>
    match nat? ns with
    | some _ =>
      -- one spend_spendable_outputs call with both descriptors of every (non-random) channel:
      -- one derivation per channel
      let P := concretePrims (childOf d.oracle)
      let st' := d.st.chans.foldl (fun s _ => step P style seed net s .sweep) d.st
      (⟨d.cfg, st', d.oracle⟩, s!"ok {d.st.chans.length}")
    | none => (d, "bad-op")
  | ["restart"], some (style, seed, net) =>
    let P := concretePrims (childOf d.oracle)
    let st' := step P style seed net d.st .restart
    (⟨d.cfg, st', d.oracle⟩, s!"ok {st'.chans.length}")
  | _, _ => (d, "bad-op")

def stepAll (d : DState) (toks : List String) : DState × String :=
  match pure? toks with
  | some out => (d, out)
  | none => stepNode d toks

def model : Model := { σ := DState, init := init, step := stepAll }

end VlsModel.Drv.Keys
