import VlsModel.Model.KVV
import VlsModel.Drv.Common
/- Line-protocol driver for the key-version-value store models (property C16).

   ops:  put K X | putv K V X | batch (K V X)* | del K | get K | getver K | prefix P |
         reopen | enter | prepare | commit
   K = key number (0 = "_WRITER", n = "k<n>"), V = decimal version, X = hex bytes ("-" = empty),
   P = all | k | k<n> | w | zz.
   out:  ok | mismatch | panic | got V:X | got none | ver V | ver none | list [K:V:X,..]
   followed by ` D <dump of the committed store>`. -/
namespace VlsModel.Drv.KVV
open VlsModel VlsModel.KVV VlsModel.Drv

def val? (s : String) : Option Val := (hex? s).map (fun b => b.map (·.toNat))
def showVal (x : Val) : String := toHex (x.map UInt8.ofNat)
def showRec (r : Rec) : String := s!"{r.1}:{showVal r.2}"
def showTab (t : Tab) : String :=
  "[" ++ ",".intercalate (t.map (fun e => s!"{e.1}:{showRec e.2}")) ++ "]"

def showRes : Res → String
  | .ok => "ok" | .mismatch => "mismatch" | .panic => "panic"

def showOut : Out → String
  | .res r => showRes r
  | .got none => "got none"
  | .got (some r) => "got " ++ showRec r
  | .ver none => "ver none"
  | .ver (some v) => s!"ver {v}"
  | .list l => "list " ++ showTab l

def pfx? (s : String) : Option Pfx :=
  match s with
  | "all" => some .all
  | "k" => some .user
  | "w" => some .writer
  | "zz" => some .nothing
  | _ => if s.startsWith "k" then (nat? (s.drop 1).toString).map Pfx.key else none

def entries? : List String → Option (List (Key × Rec))
  | [] => some []
  | k :: v :: x :: rest =>
    match nat? k, nat? v, val? x, entries? rest with
    | some k, some v, some x, some es => some ((k, (v, x)) :: es)
    | _, _, _, _ => none
  | _ => none

def op? (toks : List String) : Option Op :=
  match toks with
  | ["put", k, x] => match nat? k, val? x with
    | some k, some x => some (.put k x) | _, _ => none
  | ["putv", k, v, x] => match nat? k, nat? v, val? x with
    | some k, some v, some x => some (.putV k v x) | _, _, _ => none
  | "batch" :: rest => (entries? rest).map Op.batch
  | ["del", k] => (nat? k).map Op.del
  | ["get", k] => (nat? k).map Op.get
  | ["getver", k] => (nat? k).map Op.getVer
  | ["prefix", p] => (pfx? p).map Op.getPrefix
  | ["reopen"] => some .reopen
  | ["enter"] => some .enter
  | ["prepare"] => some .prepare
  | ["commit"] => some .commit
  | _ => none

def showCache (c : AL Nat) : String :=
  "[" ++ ",".intercalate ((List.range 4).map (fun k =>
    match lookup c k with | none => "-" | some v => toString v)) ++ "]"

/-- memory and redb side by side -/
def pairStep (s : Tab × Redb) (toks : List String) : (Tab × Redb) × String :=
  match op? toks with
  | none => (s, "bad-op")
  | some op =>
    let (m', om) := Mem.step s.1 op
    let (r', orr) := Redb.step s.2 op
    ((m', r'), s!"M {showOut om} D {showTab m'} | R {showOut orr} D {showTab r'.tab} V {showCache r'.cache}")

def pairModel : Model := { σ := Tab × Redb, init := ([], Redb.empty), step := pairStep }

def cloudStep (c : Cloud) (toks : List String) : Cloud × String :=
  match op? toks with
  | none => (c, "bad-op")
  | some op =>
    let (c', o) := Cloud.step c op
    (c', s!"{showOut o} D {showTab c'.loc}")

def cloudModel : Model := { σ := Cloud, init := Cloud.empty (List.replicate 16 7), step := cloudStep }

end VlsModel.Drv.KVV
