import VlsModel.Model.Hmac
import VlsModel.Drv.Common
/- Line-protocol driver for the HMAC-input model (property C17), instantiated with the executable
   HMAC-SHA256.  All byte strings are hex ("-" = empty), versions decimal (u64 bit pattern).

   shared S N (K V X)*      → tag        compute_shared_hmac(S, N, kvs)
   client S (K V X)*        → tag        ExternalPersistHelper::new(S).client_hmac(kvs)
   server S (K V X)*        → tag
   check S N T (K V X)*     → true|false helper(S) with last_nonce N: check_hmac(kvs, T)
   prep S K V X             → stored     value ‖ tag  (append_hmac_to_value)
   proc S K V STORED        → ok X | err remove_and_check_hmac
   one long-lived helper (state = last nonce):
   hnew S                   → ok         ExternalPersistHelper::new(S)
   hnonce E                 → nonce      new_nonce(entropy source whose next output is E)
   hcheck T (K V X)*        → true|false check_hmac(kvs, T) under the current nonce -/
namespace VlsModel.Drv.Hmac
open VlsModel VlsModel.Hmac VlsModel.Drv

def recs? : List String → Option (List KVRec)
  | [] => some []
  | k :: v :: x :: rest =>
    match hex? k, nat? v, hex? x, recs? rest with
    | some k, some v, some x, some rs => some (⟨k, v, x⟩ :: rs)
    | _, _, _, _ => none
  | _ => none

def mac : Mac := Sha256.hmac

def step (u : Option Helper) (toks : List String) : Option Helper × String :=
  match toks with
  | ["hnew", s] =>
    match hex? s with
    | some s => (some (Helper.new s), "ok")
    | none => (u, "bad-op")
  | ["hnonce", e] =>
    match u, hex? e with
    | some h, some e =>
      match h.step mac (.newNonce e) with
      | (h', .nonce n) => (some h', toHex n)
      | (h', _) => (some h', "bad-op")
    | _, _ => (u, "no-helper")
  | "hcheck" :: t :: rest =>
    match u, hex? t, recs? rest with
    | some h, some t, some rs =>
      match h.step mac (.check rs t) with
      | (h', .verdict ok) => (some h', if ok then "true" else "false")
      | (h', _) => (some h', "bad-op")
    | _, _, _ => (u, "no-helper")
  | "shared" :: s :: n :: rest =>
    match hex? s, hex? n, recs? rest with
    | some s, some n, some rs => (u, toHex (sharedTag mac s n rs))
    | _, _, _ => (u, "bad-op")
  | "client" :: s :: rest =>
    match hex? s, recs? rest with
    | some s, some rs => (u, toHex ((Helper.new s).clientHmac mac rs))
    | _, _ => (u, "bad-op")
  | "server" :: s :: rest =>
    match hex? s, recs? rest with
    | some s, some rs => (u, toHex ((Helper.new s).serverHmac mac rs))
    | _, _ => (u, "bad-op")
  | "check" :: s :: n :: t :: rest =>
    match hex? s, hex? n, hex? t, recs? rest with
    | some s, some n, some t, some rs =>
      (u, if ((Helper.new s).newNonce n).checkHmac mac rs t then "true" else "false")
    | _, _, _, _ => (u, "bad-op")
  | ["prep", s, k, v, x] =>
    match hex? s, hex? k, nat? v, hex? x with
    | some s, some k, some v, some x => (u, toHex (prepareValue mac s k v x))
    | _, _, _, _ => (u, "bad-op")
  | ["proc", s, k, v, st] =>
    match hex? s, hex? k, nat? v, hex? st with
    | some s, some k, some v, some st =>
      match processValue mac s k v st with
      | some x => (u, "ok " ++ toHex x)
      | none => (u, "err")
    | _, _, _, _ => (u, "bad-op")
  | _ => (u, "bad-op")

def model : Model := { σ := Option Helper, init := none, step := step }

end VlsModel.Drv.Hmac
