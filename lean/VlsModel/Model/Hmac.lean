import VlsModel.Prim.Sha256
/-
The exact HMAC *inputs* of the externally stored state (property C17).

* `vls-core/src/persist/mod.rs`: `compute_shared_hmac(secret, nonce, kvs)` feeds
  `secret ‖ nonce ‖ ⨁ key ‖ be64(version) ‖ value` (no lengths, no separators) to
  HMAC-SHA256 keyed with `secret`; `ExternalPersistHelper::{client_hmac, server_hmac}` use the
  one-byte "nonces" `[0x01]` / `[0x02]`; `check_hmac` uses the 32-byte `last_nonce`.
* `lightning-storage-server/lib/src/util.rs`: a stored value is `value ‖ HMAC(secret,
  key ‖ be64(version) ‖ value)` (`append_hmac_to_value` / `remove_and_check_hmac`; the optional
  ChaCha20 layer on top is not part of the authentication and is not modelled).

The MAC itself is a parameter `mac : key → message → tag` everywhere; the executable instance
(`VlsModel.Sha256.hmac`) is used only by the driver for the byte-exact correspondence.
Core + Std only (linked into the driver).
-/
namespace VlsModel.Hmac
open VlsModel.Sha256 (Bytes)

/-- `u64::to_be_bytes` (and `i64::to_be_bytes` of the same bit pattern) -/
def be64 (n : Nat) : Bytes :=
  [UInt8.ofNat (n / 72057594037927936 % 256), UInt8.ofNat (n / 281474976710656 % 256),
   UInt8.ofNat (n / 1099511627776 % 256), UInt8.ofNat (n / 4294967296 % 256),
   UInt8.ofNat (n / 16777216 % 256), UInt8.ofNat (n / 65536 % 256),
   UInt8.ofNat (n / 256 % 256), UInt8.ofNat (n % 256)]

/-- one mutation: key bytes, version, value bytes -/
structure KVRec where
  key : Bytes
  ver : Nat
  val : Bytes
  deriving DecidableEq, Repr

/-- `add_to_hmac` -/
def encRec (r : KVRec) : Bytes := r.key ++ be64 r.ver ++ r.val

def encRecs : List KVRec → Bytes
  | [] => []
  | r :: rs => encRec r ++ encRecs rs

/-- everything `compute_shared_hmac` inputs to the engine -/
def encShared (secret nonce : Bytes) (rs : List KVRec) : Bytes := secret ++ nonce ++ encRecs rs

/-- everything `compute_hmac` (LSS util) inputs to the engine -/
def encValue (key : Bytes) (ver : Nat) (val : Bytes) : Bytes := key ++ be64 ver ++ val

abbrev Mac := Bytes → Bytes → Bytes

def sharedTag (mac : Mac) (secret nonce : Bytes) (rs : List KVRec) : Bytes :=
  mac secret (encShared secret nonce rs)

def valueTag (mac : Mac) (secret key : Bytes) (ver : Nat) (val : Bytes) : Bytes :=
  mac secret (encValue key ver val)

def clientNonce : Bytes := [0x01]
def serverNonce : Bytes := [0x02]

/-- The acceptance test of every verifying entry point: the received tag and the expected tag are
    compared as **byte lists** (`received_hmac == hmac` on `Vec<u8>`/slices in the Rust code), so a
    received tag of another length — truncated, empty, extended — is never accepted. -/
def accept (received expected : Bytes) : Bool := received == expected

/-- `ExternalPersistHelper` -/
structure Helper where
  secret : Bytes
  lastNonce : Bytes
  deriving DecidableEq, Repr

namespace Helper
def new (secret : Bytes) : Helper := ⟨secret, List.replicate 32 0⟩
/-- `new_nonce(entropy_source)`: the entropy source's next output `e` becomes the stored nonce and is
    the nonce handed out for the request — whatever the helper's previous state was -/
def newNonce (h : Helper) (e : Bytes) : Helper := { h with lastNonce := e }
/-- the nonce `new_nonce` returns to the caller -/
def issued (h : Helper) : Bytes := h.lastNonce
def clientHmac (mac : Mac) (h : Helper) (rs : List KVRec) : Bytes := sharedTag mac h.secret clientNonce rs
def serverHmac (mac : Mac) (h : Helper) (rs : List KVRec) : Bytes := sharedTag mac h.secret serverNonce rs
def checkHmac (mac : Mac) (h : Helper) (rs : List KVRec) (received : Bytes) : Bool :=
  accept received (sharedTag mac h.secret h.lastNonce rs)
end Helper

/-- requests to one long-lived `ExternalPersistHelper` (state = the last nonce): a read draws a new nonce
    from the entropy source, a reply is checked against the **current** nonce -/
inductive HOp
  | newNonce (e : Bytes)
  | check (rs : List KVRec) (received : Bytes)

inductive HOut
  | nonce (n : Bytes)
  | verdict (ok : Bool)
  deriving DecidableEq, Repr

def Helper.step (mac : Mac) (h : Helper) : HOp → Helper × HOut
  | .newNonce e => (h.newNonce e, .nonce (h.newNonce e).issued)
  | .check rs received => (h, .verdict (h.checkHmac mac rs received))

/-- `append_hmac_to_value` -/
def prepareValue (mac : Mac) (secret key : Bytes) (ver : Nat) (val : Bytes) : Bytes :=
  val ++ valueTag mac secret key ver val

/-- `remove_and_check_hmac`: `none` = `Err(())` -/
def processValue (mac : Mac) (secret key : Bytes) (ver : Nat) (stored : Bytes) : Option Bytes :=
  if stored.length < 32 then none
  else
    let v := stored.take (stored.length - 32)
    let t := stored.drop (stored.length - 32)
    if accept t (valueTag mac secret key ver v) then some v else none

end VlsModel.Hmac
