/-
Model of the composite persister `BackupPersister<M, B>` (vls-persist/src/backup_persister.rs).

Two stores; every mutating method of the `Persist` impl has the form (checked against the source text by
`translate/x_backup.py`, `Gen/Backup.lean`)

    if self.main_is_ready() { self.main.m(args)?; }
    self.backup.m(args)

every reading method `if self.main_is_ready() { self.main.m(..) } else { self.backup.m(..) }`, and
`main_is_ready = !main.recovery_required() || initial_restore_complete`.  A store is a map from entry keys to
values (`none` = no entry; a delete writes `none`); a store may refuse writes (`failing`, storage failure) and
the main store may report that it needs recovery (an empty database next to a non-empty backup).
-/
namespace VlsModel.Backup

structure Store where
  data : Nat → Option Nat
  failing : Bool := false
  needsRecovery : Bool := false

/-- a write / delete of one entry; `none` = the store returned an error and holds what it held -/
def Store.write (s : Store) (k : Nat) (v : Option Nat) : Option Store :=
  if s.failing then none else some { s with data := fun x => if x = k then v else s.data x }

structure Comp where
  main : Store
  backup : Store
  restoreDone : Bool          -- `initial_restore_complete`

/-- `main_is_ready` -/
def Comp.mainReady (c : Comp) : Bool := !c.main.needsRecovery || c.restoreDone

inductive Res | ok | err
  deriving DecidableEq, Repr

/-- the methods of kind `write` (new_node, update_node, delete_node, new_channel, delete_channel, new_tracker,
    update_tracker, update_channel, update_node_allowlist) -/
def Comp.write (c : Comp) (k : Nat) (v : Option Nat) : Comp × Res :=
  if c.mainReady then
    match c.main.write k v with
    | none => (c, .err)                                   -- `self.main.m(..)?`: nothing written
    | some m' =>
      match c.backup.write k v with
      | none => ({ c with main := m' }, .err)             -- the main store is ahead of the backup
      | some b' => ({ c with main := m', backup := b' }, .ok)
  else
    match c.backup.write k v with
    | none => (c, .err)
    | some b' => ({ c with backup := b' }, .ok)

/-- the methods of kind `read` (get_tracker, get_channel, get_node_channels, get_node_allowlist, get_nodes) -/
def Comp.read (c : Comp) (k : Nat) : Option Nat :=
  if c.mainReady then c.main.data k else c.backup.data k

/-- `on_initial_restore` -/
def Comp.onInitialRestore (c : Comp) : Comp := { c with restoreDone := true }

/-- the two stores hold the same entries -/
def Comp.inSync (c : Comp) : Prop := ∀ k, c.main.data k = c.backup.data k

/-- `Node::persist_all` after the initial restore (`on_initial_restore` returns true: "we always want a sync on
    startup"): every entry of the running node is written again through the composite -/
def Comp.writeAll (c : Comp) : List (Nat × Option Nat) → Comp × Res
  | [] => (c, .ok)
  | (k, v) :: rest =>
    match c.write k v with
    | (c', .ok) => c'.writeAll rest
    | (c', .err) => (c', .err)

end VlsModel.Backup
