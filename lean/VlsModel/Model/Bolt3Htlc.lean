import VlsModel.Model.Bolt3
/-
The raw second-stage entry point `Channel::sign_counterparty_htlc_tx` →
`SimpleValidator::decode_and_validate_htlc_tx` (the OnchainValidator delegates to it) → `validate_htlc_tx`
(property C04, "… and its HTLC transactions").

The request carries a second-stage transaction, the HTLC redeem script and the HTLC amount.  The signer reads the
*content* from the transaction — spent outpoint, locktime (the cltv of an offered HTLC), output value (hence the
fee) — and recomposes everything else with LDK's `build_htlc_transaction`: version 2, the type's sequence,
locktime 0 for a received HTLC, a single output paying the fee-reduced value to the to_local script with the
negotiated `holder_selected_contest_delay`.  It refuses — with a plain `Err`, not through the policy filter — unless
the BIP143 sighash of the supplied transaction equals that of the recomposed one, and signs the *recomposed* sighash.

Not modelled: the parse conditions of the redeem script beyond its template and anchors flag; `amount * 1000`
overflow; the `payment_hash` (not part of the second-stage transaction).
-/
namespace VlsModel.Bolt3

/-- a second-stage transaction as supplied by the caller -/
structure StageTx (H : Type) where
  version : Nat
  locktime : Nat
  inputs : List TxIn
  outputs : List (TxOut H)
deriving DecidableEq, Repr

structure HtlcCrypto (H M S : Type) where
  /-- BIP143 sighash of input 0 for (redeem script, amount, SINGLE|ANYONECANPAY instead of ALL) -/
  sighash : StageTx H → Script → Nat → Bool → M
  sign : Key → M → S

/-- `estimate_feerate_per_kw` (saturating, after fix F5) -/
def estimateFeerate (fee weight : Nat) : Nat :=
  min ((min (min (fee * 1000) (2 ^ 64 - 1) + 999) (2 ^ 64 - 1)) / weight) (2 ^ 32 - 1)

/-- the cltv the signer reads off the supplied transaction: its locktime for an offered HTLC, 0 otherwise -/
def stageCltv (offered : Bool) (locktime : Nat) : Nat := if offered then locktime else 0

/-- the feerate the signer infers from the fee of the supplied transaction (0 for zero-fee HTLC transactions) -/
def htlcRate (s : Setup) (offered : Bool) (fee : Nat) : Nat :=
  if s.ctype.isZeroFee then 0 else estimateFeerate fee (htlcTxWeight s offered)

/-- which side's HTLC the redeem script is, if it parses under the channel's anchors flag -/
def redeemSide (s : Setup) : Script → Option Bool
  | .htlcOffered csv _ _ _ _ _ => if csv = s.ctype.isAnchors then some true else none
  | .htlcReceived csv _ _ _ _ _ _ => if csv = s.ctype.isAnchors then some false else none
  | _ => none

/-- the BOLT-3 second-stage transaction of a content (`build_htlc_transaction`) -/
def recomposeStage {H : Type} (wsh : Script → H) (s : Setup) (k : Keys) (i : TxIn) (offered : Bool)
    (locktime value : Nat) : StageTx H :=
  { version := 2, locktime := stageCltv offered locktime,
    inputs := [{ txid := i.txid, vout := i.vout, sequence := if s.ctype.ldkAnchors then 1 else 0, scriptSig := 0, witness := 0 }],
    outputs := [⟨value, .p2wsh (wsh (toLocalScript s k))⟩] }

section
variable {H M S : Type} [DecidableEq M] (wsh : Script → H) (cr : HtlcCrypto H M S)

/-- `sign_counterparty_htlc_tx`. `polOk feerate offered cltv` is `validate_htlc_tx` (abstract). -/
def htlcRaw (polOk : Nat → Bool → Nat → Bool) (htlcKey : Key) (s : Setup) (k : Keys)
    (tx : StageTx H) (redeem : Script) (amount : Nat) : Except Kind S :=
  let acp := s.ctype.isAnchors
  let orig := cr.sighash tx redeem amount acp
  match redeemSide s redeem with
  | none => .error .policy                                   -- policy-commitment-scripts "invalid redeemscript"
  | some offered =>
    match tx.inputs, tx.outputs with
    | i :: _, o :: _ =>
      if amount < o.value then .error .policy                -- "fee underflow"
      else
        let rate := htlcRate s offered (amount - o.value)
        let cltv := stageCltv offered tx.locktime
        match htlcTxValue s rate offered ⟨amount, 0, cltv⟩ with
        | none => .error .panic                              -- `Amount` subtraction in build_htlc_output
        | some v =>
          let rtx := recomposeStage wsh s k i offered tx.locktime v
          let rs := cr.sighash rtx redeem amount acp
          if rs ≠ orig then .error .mismatch                 -- `return Err(policy_error("policy-htlc-other", …))`: not filterable
          else if !polOk rate offered cltv then .error .policy
          else .ok (cr.sign htlcKey rs)                      -- signs the recomposed sighash
    | _, _ => .error .panic                                  -- `tx.input[0]` / `tx.output[0]`

/-- what `EnforcementState` records about the counterparty commitments signed last (ids of per-commitment points) -/
structure CpPoints where
  current : Option Nat
  previous : Option Nat
deriving DecidableEq, Repr

/-- `Channel::sign_counterparty_htlc_tx(tx, remote_per_commitment_point, …)`: the transaction keys the supplied
    transaction is validated with (`make_counterparty_tx_keys(point)`) **and** the key that signs
    (`derive_private_key(point, htlc_base_key)`) both come from the per-commitment point *of the request*; the points
    recorded in the enforcement state (`_st`) are not consulted — the HTLC transactions of any commitment, not only
    of the one signed last, can be requested. -/
def signCounterpartyHtlcTx (polOk : Nat → Bool → Nat → Bool) (keysOf : Nat → Keys) (htlcKeyOf : Nat → Key)
    (_st : CpPoints) (s : Setup) (point : Nat) (tx : StageTx H) (redeem : Script) (amount : Nat) : Except Kind S :=
  htlcRaw wsh cr polOk (htlcKeyOf point) s (keysOf point) tx redeem amount
end

end VlsModel.Bolt3
