import VlsModel.Gen.Chain
import VlsModel.Model.Monitor
/-
Executable model of `vls-core/src/chain/tracker.rs` (`ChainTracker::{add_block, remove_block,
block_chunk, validate_block, maybe_finish_decoding_block, notify_listeners_*}`, `validate_retarget`)
and of the oracle-majority rule of `policy/validator.rs::validate_block` (property C13).

Abstractions (inputs supplied by the harness from the real libraries):
* a block header is `(hash, prev, bits, time, powOk)`; `powOk` = `validate_pow(header.target())`;
  a filter header is a number, `0` = the all-zero filter header;
* a proof is `(type, verifyOk, attested keys, filter header of the attestations, txs)`;
  `verifyOk` = result of `TxoProof::verify` (SPV proof, filter, signatures, attested height/hash);
* the majority rule, the link/PoW/bits/retarget rules, the zero-filter-header bypass, the header
  window and the order of checks and mutations are modelled here.

Outcomes: `ok`, `err kind`, `panic` (an `assert!`/`unwrap`/index failure in the Rust code).
`u32` overflow of `height + 1` / `time + 1200` is not modelled (heights and times are `Nat`).
-/
namespace VlsModel.Tracker
open VlsModel.Monitor VlsModel.Gen.Chain

structure Header where
  hash : Nat
  prev : Nat
  bits : Nat
  time : Nat
  powOk : Bool
  deriving Repr, DecidableEq, Inhabited

/-- `Headers(BlockHeader, FilterHeader)` -/
structure Headers where
  hdr : Header
  fh : Nat
  deriving Repr, DecidableEq, Inhabited

inductive Network where
  | testnet | regtest | bitcoin
  deriving Repr, DecidableEq, Inhabited

inductive PType where
  | filter | block | external
  deriving Repr, DecidableEq, Inhabited

structure Proof where
  ptype : PType
  verifyOk : Bool
  attested : List Nat          -- oracle keys of the attestations, in order
  fh : Nat                     -- filter header carried by attestation 0
  fhConsistent : Bool          -- all attestations carry the same filter header
  txs : List Tx                -- transactions of the SPV proof / of the streamed block
  deriving Repr, Inhabited

inductive ErrKind where
  | invalidChain | orphan | invalidBlock | decodeError | reorgTooDeep | invalidProof
  deriving Repr, DecidableEq, Inhabited

inductive Out where
  | ok | err (k : ErrKind) | panic
  deriving Repr, DecidableEq, Inhabited

structure Tracker where
  headers : List Headers             -- headers past the tip, most recent first
  tip : Headers
  height : Nat
  network : Network
  listeners : List (Nat × Listener)  -- OrderedMap key → (monitor, ListenSlot)
  decoding : Option Nat              -- tracker `decode_state`: hash announced by the block chunks
  ldec : Bool                        -- the monitors hold a per-block `BlockDecodeState`
  trusted : List Nat                 -- trusted oracle keys
  allowDeep : Bool
  deriving Repr, Inhabited

/-! ### compact targets (rust-bitcoin 0.32 `Target::from_compact` / `to_compact_lossy`) -/

def two256 : Nat := 2 ^ 256

/-- `Target::from_compact`; the `U256 <<` is taken modulo 2^256 (exact for exponents ≤ 34). -/
def targetOfBits (bits : Nat) : Nat :=
  let e := bits >>> 24
  let (mant, expt) :=
    if e ≤ 3 then ((bits &&& 0xFFFFFF) >>> (8 * (3 - e)), 0) else (bits &&& 0xFFFFFF, 8 * (e - 3))
  if mant > 0x7FFFFF then 0 else (mant <<< expt) % two256

def bitLen (t : Nat) : Nat := if t = 0 then 0 else Nat.log2 t + 1

/-- `Target::to_compact_lossy` -/
def bitsOfTarget (t : Nat) : Nat :=
  let size := (bitLen t + 7) / 8
  let compact := if size ≤ 3 then ((t % 2 ^ 64) <<< (8 * (3 - size))) % 2 ^ 32 else (t >>> (8 * (size - 3))) % 2 ^ 32
  let (compact, size) := if compact &&& 0x800000 ≠ 0 then (compact >>> 8, size + 1) else (compact, size)
  compact ||| (size <<< 24)

def roundTrip (t : Nat) : Nat := targetOfBits (bitsOfTarget t)

/-- `max_target(network)` of tracker.rs (generated) -/
def maxTarget : Network → Nat
  | .regtest => maxTargetRegtest
  | .testnet => maxTargetTestnet
  | .bitcoin => maxTargetBitcoin

/-- `Params::max_attainable_target` of rust-bitcoin 0.32 (hand-copied; equal to `max_target`) -/
def maxAttainable : Network → Nat
  | .regtest => 0x7FFFFF <<< 232
  | .testnet => 0xFFFF <<< 208
  | .bitcoin => 0xFFFF <<< 208

/-- `validate_retarget` -/
def validateRetarget (prevTarget target : Nat) (net : Network) : Option ErrKind :=
  let min := roundTrip (prevTarget >>> 2)
  let max := roundTrip (Nat.min ((prevTarget <<< 2) % two256) (maxAttainable net))
  if target > maxTarget net then some .invalidBlock
  else if target < min then some .invalidChain
  else if target > max then some .invalidChain
  else none

/-! ### oracle majority (`validator::validate_block`) -/

def requiredMajority (trusted : List Nat) : Nat := (trusted.length + 1) / 2

def keyMatches (trusted attested : List Nat) : Nat :=
  (trusted.filter (fun k => attested.contains k)).length

def proofOk (trusted : List Nat) (p : Proof) : Bool :=
  p.verifyOk && decide (requiredMajority trusted ≤ keyMatches trusted p.attested)

/-! ### ChainTracker::validate_block -/

/-- header rules: link, PoW, testnet exception, retarget / constant bits -/
def headerCheck (net : Network) (height : Nat) (prev hdr : Header) : Option ErrKind :=
  if hdr.prev ≠ prev.hash then some .orphan
  else if !hdr.powOk then some .invalidBlock
  else if net = .testnet ∧ targetOfBits hdr.bits = maxTarget net ∧ hdr.time > prev.time + testnetMinDifficultyGap then none
  else if (height + 1) % diffchangeInterval = 0 then
    validateRetarget (targetOfBits prev.bits) (targetOfBits hdr.bits) net
  else if hdr.bits ≠ prev.bits ∧ net ≠ .testnet then some .invalidChain
  else none

/-- `validate_block(height, _, prev_headers, headers, proof, _)` -/
def validateBlock (t : Tracker) (height : Nat) (prev cur : Headers) (p : Proof) : Option ErrKind :=
  match headerCheck t.network height prev.hdr cur.hdr with
  | some e => some e
  | none =>
    if prev.fh = 0 then none                       -- bypass: previous filter header all zero
    else if proofOk t.trusted p then none else some .invalidProof

/-- `maybe_finish_decoding_block`: `none` = panic, otherwise the tracker with `decode_state` taken and
an optional error. -/
def maybeFinish (t : Tracker) (p : Proof) (expectedHash : Nat) : Option (Tracker × Option ErrKind) :=
  if (p.ptype == .external) != t.decoding.isSome then none
  else match t.decoding with
    | none => some (t, none)
    | some h => some ({ t with decoding := none }, if h ≠ expectedHash then some .decodeError else none)

def mapListeners (f : Listener → Option Listener) : List (Nat × Listener) → Option (List (Nat × Listener))
  | [] => some []
  | (k, l) :: rest =>
    match f l with
    | none => none
    | some l' => (mapListeners f rest).map ((k, l') :: ·)

/-- `ChainTracker::do_add_block` (the body of `add_block`) -/
def doAddBlock (t : Tracker) (hdr : Header) (p : Proof) : Tracker × Out :=
  match maybeFinish t p hdr.hash with
  | none => (t, .panic)
  | some (t1, some e) => (t1, .err e)
  | some (t1, none) =>
    -- proof.filter_header(): attestations[0] / "filter header mismatch"
    if p.attested.isEmpty || !p.fhConsistent then (t1, .panic) else
    let cur : Headers := ⟨hdr, p.fh⟩
    match validateBlock t1 t1.height t1.tip cur p with
    | some e => (t1, .err e)
    | none =>
      match p.ptype with
      | .block => (t1, .err .invalidProof)          -- "non-streamed block not supported"
      | _ =>
        match mapListeners (·.add p.txs) t1.listeners with
        | none => (t1, .panic)
        | some ls =>
          ({ t1 with listeners := ls, ldec := if p.ptype == .external then false else t1.ldec,
                     headers := t1.tip :: t1.headers.take (maxReorgSize - 1),
                     tip := cur, height := t1.height + 1 }, .ok)

/-- `ChainTracker::do_remove_block` (after fix b4b3fea: the window is popped after validation).
`tip_block_hash`, the hash compared with the streamed block, is read from the source by the translator
(`Gen.Chain.removeExpectsTipHash`): the code as it stands takes the hash of the *previous* header
(finding F17), the proposed fix the hash of the tip. -/
def doRemoveBlock (t : Tracker) (p : Proof) (prev : Headers) : Tracker × Out :=
  if t.headers.isEmpty && !t.allowDeep then (t, .err .reorgTooDeep) else
  match t.headers with
  | h0 :: _ =>
    if prev.hdr ≠ h0.hdr then (t, .err .invalidChain)
    else if prev.fh ≠ h0.fh then (t, .err .invalidChain)
    else removeCore t p prev
  | [] => removeCore t p prev
where
  removeCore (t : Tracker) (p : Proof) (prev : Headers) : Tracker × Out :=
    match maybeFinish t p (if removeExpectsTipHash then t.tip.hdr.hash else prev.hdr.hash) with
    | none => (t, .panic)
    | some (t1, some e) => (t1, .err e)
    | some (t1, none) =>
      if t1.height = 0 then (t1, .panic) else                  -- `self.height - 1` underflows
      match validateBlock t1 (t1.height - 1) prev t1.tip p with
      | some e => (t1, .err e)
      | none =>
        match p.ptype with
        | .block => (t1, .err .invalidProof)
        | _ =>
          match mapListeners (·.remove p.txs) t1.listeners with
          | none => (t1, .panic)
          | some ls =>
            ({ t1 with listeners := ls, ldec := if p.ptype == .external then false else t1.ldec,
                       headers := t1.headers.drop 1, tip := prev, height := t1.height - 1 }, .ok)

/-- `add_block`/`remove_block` wrapper of fix b36e377: `let streamed = self.decode_state.is_some()`
before the call; if the call returns `Err` and `streamed`, `abort_streamed_block` clears the
tracker's decode state and tells every listener to drop its `BlockDecodeState`
(`ChainListener::on_streamed_block_abort`). -/
def abortIfStreamed (t : Tracker) (r : Tracker × Out) : Tracker × Out :=
  match r.2 with
  | .err _ => if t.decoding.isSome then ({ r.1 with decoding := none, ldec := false }, r.2) else r
  | _ => r

/-- `ChainTracker::add_block` -/
def addBlock (t : Tracker) (hdr : Header) (p : Proof) : Tracker × Out :=
  abortIfStreamed t (doAddBlock t hdr p)

/-- `ChainTracker::remove_block` -/
def removeBlock (t : Tracker) (p : Proof) (prev : Headers) : Tracker × Out :=
  abortIfStreamed t (doRemoveBlock t p prev)

/-- `block_chunk(hash, 0, whole block)`: the tracker starts a decode state; every monitor creates its
`BlockDecodeState` and sees `on_block_start` (panics if it still holds one: "saw more than one
on_block_start").  `declared` = hash in the chunk message, `actual` = hash of the streamed header. -/
def blockChunk (t : Tracker) (declared actual : Nat) : Tracker × Out :=
  if t.decoding.isSome then (t, .panic)            -- "already decoding, and got chunk at offset 0"
  else if declared ≠ actual then (t, .panic)       -- "streamed block hash does not match header"
  else if !t.listeners.isEmpty && t.ldec then (t, .panic)
  else ({ t with decoding := some declared, ldec := !t.listeners.isEmpty,
                 -- `on_block_start` sets the monitors' `saw_block`
                 listeners := t.listeners.map fun (k, l) => (k, { l with st := { l.st with sawBlock := true } }) }, .ok)

/-- Restart of the signer (`Node::new_from_persistence`): the tracker entry (headers, tip, height,
listeners) comes back from the persister, no stream is in progress, and the trusted oracle set is
re-installed from the node's configuration (`tracker.trusted_oracle_pubkeys =
services.trusted_oracle_pubkeys`), i.e. under an unchanged configuration restart is the identity on
the trusted set. -/
def restart (t : Tracker) : Tracker := { t with decoding := none, ldec := false }

/-- The observable part of the tracker the property speaks about: everything except the streaming
scratch (`decoding`, `ldec`). -/
structure View where
  headers : List Headers
  tip : Headers
  height : Nat
  listeners : List (Nat × Listener)
  deriving DecidableEq

def Tracker.view (t : Tracker) : View := ⟨t.headers, t.tip, t.height, t.listeners⟩

end VlsModel.Tracker
