import VlsModel.Model.Bolt3
import VlsModel.Prim.Sha256
/-
Byte layer of the structured BOLT-3 model (property C04).

* `scriptBytes` : the real opcodes of the witness-script templates (to_local, to_remote with anchors,
  anchor, offered / received HTLC ± the `1 CSV DROP` suffix), `chan_utils.rs` builders byte for byte;
* `wshB`        : P2WSH program = SHA-256 of those bytes (executable SHA-256 of `Prim/Sha256.lean`),
                  read as a 256-bit big-endian number (`H := Nat`);
* `okeyB`       : the lexicographic byte order of script_pubkeys as an order key
                  (`00 14 <hash160>` sorts before `00 20 <sha256>`, equal forms by the hash value);
* `ser`         : consensus serialisation of a structured transaction without witness data (the
                  "legacy" form: what `compute_txid` hashes and what `Transaction == Transaction`
                  compares for a transaction with empty witnesses): version, varint, inputs, varint,
                  outputs (value, varint length, script_pubkey bytes), locktime.

Key material enters through `BEnv`: the 33 key bytes, HASH160 of a key and RIPEMD160 of a payment
hash are supplied (secp256k1 / RIPEMD160 are not implemented in Lean); SHA-256 is computed here.
`Function.Injective (wshB env)` — needed by `C04_phase_agree` / `C04_mutation_witscript` — is *not*
provable: it is SHA-256 collision freedom (plus injectivity of `scriptBytes`) and stays a hypothesis.
-/
namespace VlsModel.Bolt3

abbrev Bytes := List UInt8

/-- `n` bytes little-endian -/
def leBytes : Nat → Nat → Bytes
  | 0, _ => []
  | n + 1, x => UInt8.ofNat (x % 256) :: leBytes n (x / 256)

/-- `n` bytes big-endian -/
def beBytes (n x : Nat) : Bytes := (leBytes n x).reverse

def beNat (b : Bytes) : Nat := b.foldl (fun a x => a * 256 + x.toNat) 0

/-- Bitcoin CompactSize -/
def varint (n : Nat) : Bytes :=
  if n < 0xfd then [UInt8.ofNat n]
  else if n ≤ 0xffff then 0xfd :: leBytes 2 n
  else if n ≤ 0xffffffff then 0xfe :: leBytes 4 n
  else 0xff :: leBytes 8 n

structure BEnv where
  /-- the environment knows the keys with id `< nKeys` -/
  nKeys : Nat
  /-- 33-byte compressed encoding of a key id -/
  keyBytes : Key → Bytes
  /-- HASH160 of that encoding, as a big-endian number -/
  keyHash160 : Key → Nat
  /-- RIPEMD160 of the payment hash with this id, as a big-endian number -/
  payHash160 : Nat → Nat

namespace Op
def OP_0 : UInt8 := 0x00
def OP_1NEGATE : UInt8 := 0x4f
def OP_1 : UInt8 := 0x51
def OP_2 : UInt8 := 0x52
def OP_16 : UInt8 := 0x60
def OP_IF : UInt8 := 0x63
def OP_NOTIF : UInt8 := 0x64
def OP_ELSE : UInt8 := 0x67
def OP_ENDIF : UInt8 := 0x68
def OP_RETURN : UInt8 := 0x6a
def OP_DROP : UInt8 := 0x75
def OP_DUP : UInt8 := 0x76
def OP_IFDUP : UInt8 := 0x73
def OP_SWAP : UInt8 := 0x7c
def OP_SIZE : UInt8 := 0x82
def OP_EQUAL : UInt8 := 0x87
def OP_EQUALVERIFY : UInt8 := 0x88
def OP_HASH160 : UInt8 := 0xa9
def OP_CHECKSIG : UInt8 := 0xac
def OP_CHECKSIGVERIFY : UInt8 := 0xad
def OP_CHECKMULTISIG : UInt8 := 0xae
def OP_CLTV : UInt8 := 0xb1
def OP_CSV : UInt8 := 0xb2
end Op
open Op

/-- direct push of fewer than 0x4c bytes -/
def pushData (d : Bytes) : Bytes := UInt8.ofNat d.length :: d

/-- magnitude bytes, little-endian, no leading zeros -/
def magBytes : Nat → Nat → Bytes
  | 0, _ => []
  | fuel + 1, a => if a = 0 then [] else UInt8.ofNat (a % 256) :: magBytes fuel (a / 256)

/-- minimal script-number push (rust-bitcoin `Builder::push_int`) -/
def pushInt (n : Int) : Bytes :=
  if n = 0 then [OP_0]
  else if n = -1 then [OP_1NEGATE]
  else if 1 ≤ n ∧ n ≤ 16 then [UInt8.ofNat (0x50 + n.toNat)]
  else
    let neg := decide (n < 0)
    let d := magBytes 9 n.natAbs
    match d.getLast? with
    | none => [OP_0]
    | some top =>
      if top.toNat ≥ 0x80 then pushData (d ++ [if neg then 0x80 else 0x00])
      else if neg then pushData (d.dropLast ++ [top ||| 0x80])
      else pushData d

def hashPush (env : BEnv) (hashId hashLen : Nat) : Bytes :=
  let h := beBytes 20 (env.payHash160 hashId)
  h.take hashLen ++ List.replicate (hashLen - 20) 0x11

/-- the witness-script bytes of a template (`get_revokeable_redeemscript`, `get_htlc_redeemscript`,
    `get_anchor_redeemscript`, `get_to_countersignatory_with_anchors_redeemscript`) -/
def scriptBytes (env : BEnv) : Script → Bytes
  | .toLocal rev delay delayed =>
    [OP_IF] ++ pushData (env.keyBytes rev) ++ [OP_ELSE] ++ pushInt delay ++ [OP_CSV, OP_DROP] ++
    pushData (env.keyBytes delayed) ++ [OP_ENDIF, OP_CHECKSIG]
  | .htlcOffered csv rev k1 k2 hash hashLen =>
    [OP_DUP, OP_HASH160] ++ pushData (beBytes 20 (env.keyHash160 rev)) ++ [OP_EQUAL, OP_IF, OP_CHECKSIG, OP_ELSE] ++
    pushData (env.keyBytes k1) ++ [OP_SWAP, OP_SIZE] ++ pushInt 32 ++ [OP_EQUAL, OP_NOTIF, OP_DROP, OP_2, OP_SWAP] ++
    pushData (env.keyBytes k2) ++ [OP_2, OP_CHECKMULTISIG, OP_ELSE, OP_HASH160] ++
    pushData (hashPush env hash hashLen) ++ [OP_EQUALVERIFY, OP_CHECKSIG, OP_ENDIF] ++
    (if csv then [OP_1, OP_CSV, OP_DROP] else []) ++ [OP_ENDIF]
  | .htlcReceived csv rev k1 hash hashLen k2 cltv =>
    [OP_DUP, OP_HASH160] ++ pushData (beBytes 20 (env.keyHash160 rev)) ++ [OP_EQUAL, OP_IF, OP_CHECKSIG, OP_ELSE] ++
    pushData (env.keyBytes k1) ++ [OP_SWAP, OP_SIZE] ++ pushInt 32 ++ [OP_EQUAL, OP_IF, OP_HASH160] ++
    pushData (hashPush env hash hashLen) ++ [OP_EQUALVERIFY, OP_2, OP_SWAP] ++
    pushData (env.keyBytes k2) ++ [OP_2, OP_CHECKMULTISIG, OP_ELSE, OP_DROP] ++ pushInt cltv ++
    [OP_CLTV, OP_DROP, OP_CHECKSIG, OP_ENDIF] ++
    (if csv then [OP_1, OP_CSV, OP_DROP] else []) ++ [OP_ENDIF]
  | .anchor key =>
    pushData (env.keyBytes key) ++ [OP_CHECKSIG, OP_IFDUP, OP_NOTIF, OP_16, OP_CSV, OP_ENDIF]
  | .toRemoteDelayed key =>
    pushData (env.keyBytes key) ++ [OP_CHECKSIGVERIFY, OP_1, OP_CSV]
  | .unknown n => [OP_RETURN] ++ pushData (leBytes 8 n)

/-- P2WSH program of a script: SHA-256 of its bytes, as a 256-bit big-endian number
    (`% 2^256` is the identity on a 32-byte digest; it makes the range evident). -/
def wshB (env : BEnv) (sc : Script) : Nat := beNat (Sha256.sha256 (scriptBytes env sc)) % 2 ^ 256

/-- script_pubkey bytes -/
def spkBytes (env : BEnv) : Spk Nat → Bytes
  | .p2wpkh k => [0x00, 0x14] ++ beBytes 20 (env.keyHash160 k)
  | .p2wsh h => [0x00, 0x20] ++ beBytes 32 h
  | .other n => [OP_RETURN, 0x08] ++ leBytes 8 n

/-- length-prefixed script_pubkey (the lengths 22 / 34 / 10 are single-byte CompactSizes) -/
def spkSer (env : BEnv) : Spk Nat → Bytes
  | .p2wpkh k => 22 :: 0x00 :: 0x14 :: beBytes 20 (env.keyHash160 k)
  | .p2wsh h => 34 :: 0x00 :: 0x20 :: beBytes 32 h
  | .other n => 10 :: OP_RETURN :: 0x08 :: leBytes 8 n

/-- Order key realising the lexicographic byte order of `spkBytes` (for hash values in range):
    `00 14 …` < `00 20 …` < `6a …`, equal forms by the big-endian hash value.  Injective on
    P2WSH programs outright; on P2WPKH when HASH160 is injective on the (finitely many) known keys
    (`WfEnv`; ids the environment does not know get keys above every hash). -/
def okeyB (env : BEnv) : Spk Nat → Nat
  | .p2wpkh k => if k < env.nKeys then 3 * (env.keyHash160 k % 2 ^ 160) else 3 * (2 ^ 160 + k)
  | .p2wsh h => 3 * (2 ^ 160 + h) + 1
  | .other n => 3 * (2 ^ 160 + 2 ^ 256 + n) + 2

def serIn (i : TxIn) : Bytes :=
  leBytes 32 i.txid ++ leBytes 4 i.vout ++ (if i.scriptSig = 0 then [0x00] else [0x01, OP_1]) ++ leBytes 4 i.sequence

def serOut (env : BEnv) (o : TxOut Nat) : Bytes := leBytes 8 o.value ++ spkSer env o.spk

/-- The HASH160 table is in range and collision-free on the known keys (decidable for a concrete
    environment: finitely many keys). -/
def wfEnv (env : BEnv) : Bool :=
  (List.range env.nKeys).all fun k₁ => decide (env.keyHash160 k₁ < 2 ^ 160) &&
    (List.range env.nKeys).all fun k₂ => decide (env.keyHash160 k₁ = env.keyHash160 k₂ → k₁ = k₂)

/-- witness-less consensus serialisation -/
def ser (env : BEnv) (tx : CTx Nat) : Bytes :=
  leBytes 4 tx.version ++ (varint tx.inputs.length ++ (tx.inputs.flatMap serIn ++
    (varint tx.outputs.length ++ (tx.outputs.flatMap (serOut env) ++ leBytes 4 tx.locktime))))

/-- well-formed structured transaction: every field fits its wire width, no witness data -/
def wfTx (env : BEnv) (tx : CTx Nat) : Bool :=
  decide (tx.version < 2 ^ 32) && decide (tx.locktime < 2 ^ 32) &&
  decide (tx.inputs.length ≤ 0xffff) && decide (tx.outputs.length ≤ 0xffff) &&
  tx.inputs.all (fun i => decide (i.txid < 2 ^ 256) && decide (i.vout < 2 ^ 32) && decide (i.sequence < 2 ^ 32) &&
    decide (i.scriptSig ≤ 1) && decide (i.witness = 0)) &&
  tx.outputs.all (fun o => decide (o.value < 2 ^ 64) &&
    match o.spk with
    | .p2wpkh k => decide (k < env.nKeys)
    | .p2wsh h => decide (h < 2 ^ 256)
    | .other n => decide (n < 2 ^ 64))

end VlsModel.Bolt3
