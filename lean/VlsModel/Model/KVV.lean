/-
Executable models of the three key-version-value store backends of `vls-persist/src/kvv/`
(property C16) and of the abstract specification `KVSpec`.

* `Mem`   — `kvv/memory.rs::MemoryKVVStore`  (one `BTreeMap<String,(u64,Vec<u8>)>`);
* `Redb`  — `kvv/redb.rs::RedbKVVStore`      (the table **and** the separately cached `versions`
            map; `put_batch` stages its inserts in a write transaction and applies the staged
            versions to the cache only after commit; `reopen` = `new_store` on the same file:
            the cache is rebuilt from the table);
* `Cloud` — `kvv/cloud.rs::CloudKVVStore<MemoryKVVStore>` (local store + optional commit log,
            `enter`/`prepare`/`commit`, read-your-writes through the log, the `std::sync::Mutex`
            around the log is poisoned by the panics the code raises while holding it).

Conventions: keys are small numbers (`0` stands for the reserved key `"_WRITER"`, `n` for the
string `"k<n>"`, so numeric order = byte order of the strings for `n ≤ 9`); values are byte lists
(`List Nat`); maps are association lists kept in key order by `insert` (the `BTreeMap` iteration
order, which is what `get_prefix` and `prepare` return).  Versions are `Nat` with the `u64` bound
made explicit where the code computes `v + 1` (debug build: panic).  Result classes are explicit
(`ok` / `mismatch` = `Error::VersionMismatch` / `panic`).  Core + Std only (linked into the driver).
-/
namespace VlsModel.KVV

abbrev Key := Nat
abbrev Val := List Nat
/-- version, value -/
abbrev Rec := Nat × Val
/-- association list; `lookup` returns the first match -/
abbrev AL (α : Type) := List (Key × α)
abbrev Tab := AL Rec

def U64MAX : Nat := 18446744073709551615

def lookup {α : Type} : AL α → Key → Option α
  | [], _ => none
  | (k', a) :: t, k => if k' = k then some a else lookup t k

/-- `BTreeMap::insert`: replace or insert keeping key order -/
def insert {α : Type} : AL α → Key → α → AL α
  | [], k, a => [(k, a)]
  | (k', a') :: t, k, a =>
    if k < k' then (k, a) :: (k', a') :: t
    else if k = k' then (k, a) :: t
    else (k', a') :: insert t k a

/-- apply a list of entries in order (`for kvv in kvvs { data.insert(..) }`) -/
def insertAll {α : Type} (t : AL α) (es : List (Key × α)) : AL α :=
  es.foldl (fun t e => insert t e.1 e.2) t

/-- result classes of the mutating calls -/
inductive Res
  | ok | mismatch | panic
  deriving DecidableEq, Repr

/-- key prefixes used by `get_prefix`: `""`, `"k"`, `"k<n>"`, `"_"`, and a prefix matching nothing -/
inductive Pfx
  | all | user | key (k : Key) | writer | nothing
  deriving DecidableEq, Repr

def Pfx.matches : Pfx → Key → Bool
  | .all, _ => true
  | .user, k => decide (1 ≤ k)
  | .key n, k => decide (n = k)
  | .writer, k => decide (k = 0)
  | .nothing, _ => false

inductive Op
  | put (k : Key) (x : Val)
  | putV (k : Key) (v : Nat) (x : Val)
  | batch (es : List (Key × Rec))
  | del (k : Key)
  | get (k : Key)
  | getVer (k : Key)
  | getPrefix (p : Pfx)
  | reopen
  | enter
  | prepare
  | commit
  deriving DecidableEq, Repr

inductive Out
  | res (r : Res)
  | got (r : Option Rec)
  | ver (v : Option Nat)
  | list (l : Tab)
  deriving DecidableEq, Repr

/-- the version `put` assigns: `get_version(key)?.map(|v| v + 1).unwrap_or(0)`;
    `none` = `v + 1` overflows `u64` (debug build panics; a release build would wrap to 0 and the
    write would then be refused as a version mismatch — the store is unchanged either way) -/
def nextVer : Option Nat → Option Nat
  | none => some 0
  | some v => if v < U64MAX then some (v + 1) else none

/-- the acceptance test both `put_with_version` and `put_batch` apply to one entry against the
    committed map: not lower, and at the same version the same content -/
def entryOk (t : Tab) (e : Key × Rec) : Bool :=
  match lookup t e.1 with
  | none => true
  | some (v0, x0) => if e.2.1 < v0 then false else if e.2.1 = v0 then decide (x0 = e.2.2) else true

/-- `staged.get(key).or_else(|| committed.get(key))`: look a key up in the batch staged so far, then in
    the committed map -/
def olookup {α : Type} (st t : AL α) (k : Key) : Option α :=
  match lookup st k with
  | some a => some a
  | none => lookup t k

def dump (t : Tab) (p : Pfx) : Tab := t.filter (fun e => p.matches e.1)

/-! ## MemoryKVVStore -/
namespace Mem

def putV (t : Tab) (k : Key) (v : Nat) (x : Val) : Tab × Res :=
  match lookup t k with
  | none => (insert t k (v, x), .ok)
  | some (v0, x0) =>
    if v < v0 then (t, .mismatch)
    else if v = v0 then (if x0 = x then (t, .ok) else (t, .mismatch))
    else (insert t k (v, x), .ok)

def put (t : Tab) (k : Key) (x : Val) : Tab × Res :=
  match nextVer ((lookup t k).map (·.1)) with
  | none => (t, .panic)
  | some v => putV t k v x

/-- one iteration of the check loop of `put_batch` (after the F8 fix): the entry is compared with the
    entry staged earlier in this batch for the same key, else with the committed map; `none` = the loop
    has returned `Err(VersionMismatch)`; a same-version entry with equal content is skipped -/
def checkStep (t : Tab) (acc : Option Tab) (e : Key × Rec) : Option Tab :=
  match acc with
  | none => none
  | some st =>
    match olookup st t e.1 with
    | none => some (insert st e.1 e.2)
    | some (v0, x0) =>
      if e.2.1 < v0 then none
      else if e.2.1 = v0 then (if x0 = e.2.2 then some st else none)
      else some (insert st e.1 e.2)

/-- every entry is checked in order against the batch staged so far (like the same sequence of
    `put_with_version` calls); only if all pass, all are inserted in order -/
def batch (t : Tab) (es : List (Key × Rec)) : Tab × Res :=
  match es.foldl (checkStep t) (some []) with
  | some _ => (insertAll t es, .ok)
  | none => (t, .mismatch)

def step (t : Tab) : Op → Tab × Out
  | .put k x => let (t', r) := put t k x; (t', .res r)
  | .putV k v x => let (t', r) := putV t k v x; (t', .res r)
  | .batch es => let (t', r) := batch t es; (t', .res r)
  | .del k => let (t', r) := put t k []; (t', .res r)
  | .get k => (t, .got (lookup t k))
  | .getVer k => (t, .ver ((lookup t k).map (·.1)))
  | .getPrefix p => (t, .list (dump t p))
  | .reopen => (t, .res .ok)            -- not applicable to the memory store
  | .enter => (t, .res .ok)             -- trait defaults
  | .prepare => (t, .list [])
  | .commit => (t, .res .ok)

end Mem

/-! ## RedbKVVStore -/
structure Redb where
  tab : Tab
  cache : AL Nat
  deriving DecidableEq, Repr

namespace Redb

def empty : Redb := ⟨[], []⟩

/-- `new_store` on an existing file: "load the current versions" -/
def rebuild (t : Tab) : AL Nat := t.map (fun e => (e.1, e.2.1))

def reopen (s : Redb) : Redb := { s with cache := rebuild s.tab }

def putV (s : Redb) (k : Key) (v : Nat) (x : Val) : Redb × Res :=
  match lookup s.cache k with
  | none => ({ tab := insert s.tab k (v, x), cache := insert s.cache k v }, .ok)
  | some v0 =>
    if v < v0 then (s, .mismatch)
    else if v = v0 then
      -- `table.get(key).expect(..).unwrap()`: a cached key missing from the table panics
      match lookup s.tab k with
      | none => (s, .panic)
      | some r => if r = (v, x) then (s, .ok) else (s, .mismatch)
    else ({ tab := insert s.tab k (v, x), cache := insert s.cache k v }, .ok)

def put (s : Redb) (k : Key) (x : Val) : Redb × Res :=
  match nextVer (lookup s.cache k) with
  | none => (s, .panic)
  | some v => putV s k v x

/-- the state of the `put_batch` loop: the table inside the write transaction, `staged_versions`,
    `found_version_mismatch`, and whether the `unwrap` on a missing table entry fired -/
structure Acc where
  tab : Tab
  staged : AL Nat
  bad : Bool
  panicked : Bool
  deriving DecidableEq, Repr

/-- one iteration (after the F8 fix): the version is compared with the version staged earlier in this
    batch for the same key, else with the **cache**; contents are compared with the **staged** table;
    an entry with a lower version is still inserted into the (later aborted) transaction -/
def batchStep (cache : AL Nat) (a : Acc) (e : Key × Rec) : Acc :=
  match olookup a.staged cache e.1 with
  | none => { a with tab := insert a.tab e.1 e.2, staged := insert a.staged e.1 e.2.1 }
  | some v0 =>
    if e.2.1 < v0 then
      { a with bad := true, tab := insert a.tab e.1 e.2, staged := insert a.staged e.1 e.2.1 }
    else if e.2.1 = v0 then
      match lookup a.tab e.1 with
      | none => { a with panicked := true }
      | some r => if r = e.2 then a else { a with bad := true }
    else { a with tab := insert a.tab e.1 e.2, staged := insert a.staged e.1 e.2.1 }

def batchLoop (s : Redb) (es : List (Key × Rec)) : Acc :=
  es.foldl (batchStep s.cache) ⟨s.tab, [], false, false⟩

def batch (s : Redb) (es : List (Key × Rec)) : Redb × Res :=
  let a := batchLoop s es
  if a.panicked then (s, .panic)
  else if a.bad then (s, .mismatch)            -- `tx.abort()`
  else ({ tab := a.tab, cache := insertAll s.cache a.staged }, .ok)

def step (s : Redb) : Op → Redb × Out
  | .put k x => let (s', r) := put s k x; (s', .res r)
  | .putV k v x => let (s', r) := putV s k v x; (s', .res r)
  | .batch es => let (s', r) := batch s es; (s', .res r)
  | .del k => let (s', r) := put s k []; (s', .res r)
  | .get k => (s, .got (lookup s.tab k))
  | .getVer k => (s, .ver (lookup s.cache k))
  | .getPrefix p => (s, .list (dump s.tab p))
  | .reopen => (reopen s, .res .ok)
  | .enter => (s, .res .ok)
  | .prepare => (s, .list [])
  | .commit => (s, .res .ok)

end Redb

/-! ## CloudKVVStore over a MemoryKVVStore -/
structure Cloud where
  loc : Tab
  /-- `commit_log: Mutex<Option<BTreeMap<..>>>` -/
  log : Option Tab
  /-- the mutex is poisoned: a panic was raised while the guard was held -/
  poisoned : Bool
  /-- `signer_id()` of the local store (the value of the last-writer record) -/
  sid : Val
  deriving DecidableEq, Repr

namespace Cloud

def empty (sid : Val) : Cloud := ⟨[], none, false, sid⟩

/-- the transaction has already written the key at a higher version -/
def pendingLower (lg : Tab) (k : Key) (v : Nat) : Bool :=
  match lookup lg k with
  | some (pv, _) => decide (v < pv)
  | none => false

def putV (c : Cloud) (k : Key) (v : Nat) (x : Val) : Cloud × Res :=
  if c.poisoned then (c, .panic) else
  match c.log with
  | none => ({ c with poisoned := true }, .panic)      -- expect("not in transaction")
  | some lg =>
    -- a version below the one this transaction already wrote for the key is refused (F13 fix);
    -- an equal one is let through: `put` rewrites the pending entry at committed+1
    if pendingLower lg k v then (c, .mismatch) else
    match lookup c.loc k with
    | none => ({ c with log := some (insert lg k (v, x)) }, .ok)
    | some (v0, x0) =>
      if v < v0 then (c, .mismatch)
      else if v = v0 then (if x0 = x then (c, .ok) else (c, .mismatch))
      else ({ c with log := some (insert lg k (v, x)) }, .ok)

/-- the version comes from the **local** store, not from the log; the `v + 1` happens before the
    mutex is taken (no poisoning) -/
def put (c : Cloud) (k : Key) (x : Val) : Cloud × Res :=
  match nextVer ((lookup c.loc k).map (·.1)) with
  | none => (c, .panic)
  | some v => putV c k v x

/-- sequential `put_with_version(..)?`: stops at the first refusal, earlier entries stay logged -/
def batch (c : Cloud) : List (Key × Rec) → Cloud × Res
  | [] => (c, .ok)
  | e :: es =>
    match putV c e.1 e.2.1 e.2.2 with
    | (c', .ok) => batch c' es
    | (c', r) => (c', r)

def get (c : Cloud) (k : Key) : Cloud × Option (Option Rec) :=
  if c.poisoned then (c, none) else
  match c.log with
  | none => ({ c with poisoned := true }, none)
  | some lg =>
    match lookup lg k with
    | some r => (c, some (some r))
    | none => (c, some (lookup c.loc k))

def enter (c : Cloud) : Cloud × Res :=
  match nextVer ((lookup c.loc 0).map (·.1)) with
  | none => (c, .panic)
  | some nv =>
    if c.poisoned then (c, .panic) else
    match c.log with
    | some _ => ({ c with poisoned := true }, .panic)  -- "cannot enter transaction twice"
    | none => ({ c with log := some [(0, (nv, c.sid))] }, .ok)

/-- `none` = panic -/
def prepare (c : Cloud) : Cloud × Option Tab :=
  if c.poisoned then (c, none) else
  match c.log with
  | none => ({ c with poisoned := true }, none)
  | some lg =>
    match lg with
    | [(k, _)] =>
      if k = 0 then ({ c with log := some [] }, some [])   -- "optimize out effectively empty mutations"
      else ({ c with poisoned := true }, none)              -- assert_eq!(mutations[0].0, LAST_WRITER_KEY)
    | _ => (c, some lg)

def commit (c : Cloud) : Cloud × Res :=
  if c.poisoned then (c, .panic) else
  match c.log with
  | none => ({ c with poisoned := true }, .panic)
  | some lg =>
    let (t', r) := Mem.batch c.loc lg
    ({ c with loc := t', log := none }, r)

def step (c : Cloud) : Op → Cloud × Out
  | .put k x => let (c', r) := put c k x; (c', .res r)
  | .putV k v x => let (c', r) := putV c k v x; (c', .res r)
  | .batch es => let (c', r) := batch c es; (c', .res r)
  | .del k => let (c', r) := put c k []; (c', .res r)
  | .get k =>
    match get c k with
    | (c', none) => (c', .res .panic)
    | (c', some r) => (c', .got r)
  | .getVer k =>
    match get c k with
    | (c', none) => (c', .res .panic)
    | (c', some r) => (c', .ver (r.map (·.1)))
  | .getPrefix p => (c, .list (dump c.loc p))       -- local only ("TODO merge with commit log")
  | .reopen => (c, .res .ok)                         -- not applicable
  | .enter => let (c', r) := enter c; (c', .res r)
  | .prepare =>
    match prepare c with
    | (c', none) => (c', .res .panic)
    | (c', some m) => (c', .list m)
  | .commit => let (c', r) := commit c; (c', .res r)

end Cloud

/-! ## Abstract specification

`KVSpec` is the ledger of accepted writes: a function from keys to the record last written by an
accepted request.  It is updated *only* by the result class the backend reported, never by looking
into the backend. -/
abbrev KVSpec := Key → Option Rec

namespace KVSpec

def empty : KVSpec := fun _ => none

def set (s : KVSpec) (k : Key) (r : Rec) : KVSpec := fun k' => if k' = k then some r else s k'

def setAll (s : KVSpec) (es : List (Key × Rec)) : KVSpec := es.foldl (fun s e => set s e.1 e.2) s

/-- ledger update for one request and the result class the store returned for it -/
def step (s : KVSpec) (op : Op) (o : Out) : KVSpec :=
  match o with
  | .res .ok =>
    match op with
    | .put k x => set s k (((s k).map (·.1 + 1)).getD 0, x)
    | .del k => set s k (((s k).map (·.1 + 1)).getD 0, [])
    | .putV k v x => set s k (v, x)
    | .batch es => setAll s es
    | _ => s
  | _ => s

end KVSpec

/-- run a request list, collecting outputs -/
def runWith {σ : Type} (step : σ → Op → σ × Out) : σ → List Op → σ × List Out
  | s, [] => (s, [])
  | s, op :: ops =>
    let (s', o) := step s op
    let (s'', os) := runWith step s' ops
    (s'', o :: os)

end VlsModel.KVV
