/-
Lock model with data, for the serializability half of C20 (no Mathlib).

Every lock `l` guards one data cell `mem l` (the channel state for `slot i`, the node ledger for
`node_state`).  Besides `acq`/`rel` a request contains `upd l f` events: a deterministic
read-modify-write `mem l := f (mem l)`, enabled only while the thread holds `l`.
`commits` is a ghost: the order in which the threads perform their FIRST release.
-/
namespace VlsModel.Locks2pl

inductive DEv (L D : Type) where
  | acq (l : L)
  | rel (l : L)
  | upd (l : L) (f : D → D)

structure DThread (L D : Type) where
  held : List L
  done : List (DEv L D)
  todo : List (DEv L D)
  /-- the whole request (never changes) -/
  req : List (DEv L D)
  /-- has released something already -/
  committed : Bool

structure DState (L D : Type) where
  threads : List (DThread L D)
  mem : L → D
  commits : List Nat

variable {L D : Type} [DecidableEq L]

def setMem (m : L → D) (l : L) (d : D) : L → D := fun x => if x = l then d else m x

def isFree (ts : List (DThread L D)) (l : L) : Bool := ts.all (fun u => !u.held.contains l)

/-- thread `i` executes its next event -/
def stepAt (s : DState L D) (i : Nat) : Option (DState L D) :=
  match s.threads[i]? with
  | none => none
  | some t =>
    match t.todo with
    | [] => none
    | .acq l :: r =>
      if isFree s.threads l then
        some { threads := s.threads.set i { t with held := l :: t.held, done := t.done ++ [.acq l], todo := r },
               mem := s.mem, commits := s.commits }
      else none
    | .upd l f :: r =>
      if t.held.contains l then
        some { threads := s.threads.set i { t with done := t.done ++ [.upd l f], todo := r },
               mem := setMem s.mem l (f (s.mem l)), commits := s.commits }
      else none
    | .rel l :: r =>
      some { threads := s.threads.set i { t with held := t.held.erase l, done := t.done ++ [.rel l], todo := r, committed := true },
             mem := s.mem,
             commits := if t.committed then s.commits else s.commits ++ [i] }

def Step (s s' : DState L D) : Prop := ∃ i, stepAt s i = some s'

inductive Steps : Nat → DState L D → DState L D → Prop
  | refl (s) : Steps 0 s s
  | tail {n s s' s''} : Steps n s s' → Step s' s'' → Steps (n + 1) s s''

def runSched (s : DState L D) : List Nat → Option (DState L D)
  | [] => some s
  | i :: is => match stepAt s i with
    | none => none
    | some s' => runSched s' is

def allDone (s : DState L D) : Prop := ∀ t ∈ s.threads, t.todo = []

def mkState (mem0 : L → D) (reqs : List (List (DEv L D))) : DState L D :=
  { threads := reqs.map (fun r => ⟨[], [], r, r, false⟩), mem := mem0, commits := [] }

/-- sequential execution of a whole request on the data (locks play no role sequentially) -/
def runReq (m : L → D) : List (DEv L D) → (L → D)
  | [] => m
  | .upd l f :: r => runReq (setMem m l (f (m l))) r
  | _ :: r => runReq m r

/-- the updates an event list applies to cell `l`, in order -/
def updsOn (l : L) : List (DEv L D) → List (D → D)
  | [] => []
  | .upd l' f :: r => if l' = l then f :: updsOn l r else updsOn l r
  | _ :: r => updsOn l r

def app (d : D) (fs : List (D → D)) : D := fs.foldl (fun d f => f d) d

def reqAt (ts : List (DThread L D)) (i : Nat) : List (DEv L D) :=
  match ts[i]? with
  | some t => t.req
  | none => []

/-- the data after running the requests sequentially in the given order of thread indices -/
def serialMem (mem0 : L → D) (ts : List (DThread L D)) (order : List Nat) : L → D :=
  order.foldl (fun m i => runReq m (reqAt ts i)) mem0

/-- only releases -/
def onlyRels : List (DEv L D) → Bool
  | [] => true
  | .rel _ :: r => onlyRels r
  | _ :: _ => false

/-- strict two-phase: acquisitions and updates first, then only releases -/
def strict2pl : List (DEv L D) → Bool
  | [] => true
  | .rel _ :: r => onlyRels r
  | _ :: r => strict2pl r

def hasRel : List (DEv L D) → Bool
  | [] => false
  | .rel _ :: _ => true
  | _ :: r => hasRel r

end VlsModel.Locks2pl
