/-
Structured BOLT-3 model of the *counterparty* commitment transaction as VLS builds, decodes and
signs it (property C04).

Rust                                                         Lean
----                                                         ----
ChannelSetup (+ is_anchors / is_zero_fee_htlc / features)    `Setup`, `CType.isAnchors`, `CType.ldkAnchors`
TxCreationKeys + the two funding keys + payment point        `Keys` (opaque key ids; derivation is crypto)
HTLCInfo2, CommitmentInfo2::new (sorts both HTLC lists)      `Htlc`, `Info2.mk'`
bitcoin::Transaction (structured)                            `CTx` = version, locktime, inputs, outputs
script templates of chan_utils.rs / tx.rs parsers            `Script`
ScriptBuf::to_p2wsh                                          parameter `wsh : Script → H` (abstract; SHA-256)
byte order of script_pubkeys (BIP69)                         parameter `okey : Spk H → Nat`
Channel::make_counterparty_commitment_tx →
  CommitmentTransaction::new_with_auxiliary_htlc_data        `canonElems`, `canon`, `canonWs`
  (internal_build_outputs, internal_build_inputs,
   make_transaction, sort_outputs)
Channel::htlcs_info2_to_oic                                  inside `rawElems` (offered first, then received)
SimpleValidator::decode_commitment_tx,
  CommitmentInfo::handle_output (+ parse_* / handle_*)       `decode`, `classify`, `Info.apply`
Channel::sign_counterparty_commitment_tx       (phase 1)     `phase1`
Channel::sign_counterparty_commitment_tx_phase2 (phase 2)    `phase2`
InMemorySigner::sign_counterparty_commitment, build_htlc_transaction   `htlcTxs`
ECDSA signature over the BIP143 sighash                      `Crypto.sign key (Crypto.sighash tx amount)` (abstract)
validate_channel_value, claimable_balances,
  validate_counterparty_commitment_tx                        `Env.chanOk`, `Env.pre`   (abstract: C05's subject)
validate_payments, set_next_counterparty_commit_num          `Env.post`                (abstract)

Facts of the code that the model keeps on purpose:
* LDK's builder does NOT trim HTLCs and does not subtract fees: every HTLC handed in becomes an output;
  the to_local / to_remote outputs are omitted exactly when their value is 0.  Dust trimming is a
  *validator* rule (`policy-commitment-outputs-trimmed`, feerate- and type-dependent thresholds:
  `dustLimitOffered/Received`, `trimOk` below) that refuses the content before anything is built.
* the decoder (`handle_output`) uses `ChannelSetup::is_anchors()` (Anchors ∨ AnchorsZeroFeeHtlc), LDK's
  builder uses `supports_anchors_zero_fee_htlc_tx()` (AnchorsZeroFeeHtlc only).  For the deprecated
  type `Anchors` the two disagree (see `Props/C04.lean`, `C04_phase_agree_false_nonzero_fee_anchors`).
* the decoder does not compare keys or the delay with the negotiated ones (it only range-checks the
  delay, `MAX_DELAY = 2016`); those are enforced by the equality test against the recomposed tx only.
* phase 1 takes the two balances from the decoded tx and the HTLCs / feerate from the *arguments*
  (decoded HTLC outputs are only counted).
* `funding_outpoint.vout as u16` in `make_channel_parameters` truncates.
* panics: `INITIAL_COMMITMENT_NUMBER - commitment_number` (u64 underflow) and
  `htlc.value_sat * 1000` (u64 overflow) are debug-build panics: outcome `Kind.panic`
  (release builds wrap; any non-permissive policy refuses such contents earlier).
Not modelled: the `u16` anchor counters of `CommitmentInfo` (never read by a decision; they overflow
only on a transaction with 65536 anchor outputs).
-/
namespace VlsModel.Bolt3

abbrev Key := Nat

/-- `PublicKey::from_slice` succeeds. Key id 0 stands for "33 bytes that are not a curve point". -/
def Key.ok (k : Key) : Bool := k != 0

inductive CType | legacy | staticRemoteKey | anchors | anchorsZeroFee
deriving DecidableEq, Repr

/-- `ChannelSetup::is_anchors` (used by the decoder and the validator) -/
def CType.isAnchors : CType → Bool
  | .anchors | .anchorsZeroFee => true
  | _ => false

/-- `ChannelSetup::is_zero_fee_htlc` -/
def CType.isZeroFee : CType → Bool
  | .anchorsZeroFee => true
  | _ => false

/-- `features().supports_anchors_zero_fee_htlc_tx()`: what LDK's builders look at -/
def CType.ldkAnchors : CType → Bool := CType.isZeroFee

/-- `features().supports_anchors_nonzero_fee_htlc_tx()` -/
def CType.ldkNonzeroFeeAnchors : CType → Bool
  | .anchors => true
  | _ => false

structure Setup where
  ctype : CType
  outbound : Bool
  /-- `holder_selected_contest_delay`: the delay of the counterparty's to_local output -/
  holderDelay : Nat
  cpDelay : Nat
  fundingTxid : Nat
  fundingVout : Nat
  channelValue : Nat
  /-- `get_commitment_transaction_number_obscure_factor` (48 bit, SHA-256 of the payment basepoints) -/
  obscure : Nat
deriving DecidableEq, Repr

/-- Keys of one counterparty commitment (broadcaster = counterparty, countersignatory = holder). -/
structure Keys where
  revocation : Key
  bDelayed : Key
  bHtlc : Key
  cHtlc : Key
  cPayment : Key
  bFunding : Key
  cFunding : Key
deriving DecidableEq, Repr

structure Htlc where
  value : Nat
  hash : Nat
  cltv : Nat
deriving DecidableEq, Repr

/-- Semantic content of a counterparty commitment (what phase 2 receives). -/
structure Content where
  commitNum : Nat
  feerate : Nat
  /-- to_countersigner = the holder's balance (to_remote output of the counterparty's tx) -/
  toCs : Nat
  /-- to_broadcaster = the counterparty's balance (to_local output) -/
  toBc : Nat
  offered : List Htlc
  received : List Htlc
deriving DecidableEq, Repr

/-- Witness-script templates. `k1` is the key pushed after `OP_ELSE`, `k2` the key inside the 2-of-2.
    `revHash` names the 20 bytes pushed after `OP_HASH160` by the id of the key they are the hash160 of,
    `payHash` names the pushed RIPEMD160 by the id of the payment hash, `hashLen` is the push length. -/
inductive Script
  | toLocal (rev : Key) (delay : Int) (delayed : Key)
  | htlcReceived (csv : Bool) (revHash k1 : Key) (payHash hashLen : Nat) (k2 : Key) (cltv : Int)
  | htlcOffered (csv : Bool) (revHash k1 k2 : Key) (payHash hashLen : Nat)
  | anchor (k : Key)
  | toRemoteDelayed (k : Key)
  | unknown (n : Nat)
deriving DecidableEq, Repr

/-- script_pubkey forms; `H` is the type of P2WSH programs (SHA-256 values). -/
inductive Spk (H : Type)
  | p2wpkh (k : Key)
  | p2wsh (h : H)
  | other (n : Nat)
deriving DecidableEq, Repr

structure TxOut (H : Type) where
  value : Nat
  spk : Spk H
deriving DecidableEq, Repr

structure TxIn where
  txid : Nat
  vout : Nat
  sequence : Nat
  /-- 0 = empty -/
  scriptSig : Nat
  /-- 0 = empty -/
  witness : Nat
deriving DecidableEq, Repr

structure CTx (H : Type) where
  version : Nat
  locktime : Nat
  inputs : List TxIn
  outputs : List (TxOut H)
deriving DecidableEq, Repr

def ANCHOR_SAT : Nat := 330
def MAX_DELAY : Int := 2016
def INITIAL_COMMITMENT_NUMBER : Nat := 2 ^ 48 - 1
def U64_LIMIT : Nat := 2 ^ 64
/-- script numbers are at most 4 bytes: |n| < 2^31 -/
def SCRIPT_INT_LIMIT : Int := 2 ^ 31

/-! ## Sorting (insertion sort: structurally recursive, so concrete instances reduce in the kernel).
Rust uses `sort_unstable_by` / `sort`; for a total preorder whose ties are *identical* elements every
sorting algorithm returns the same list (`Lemmas/Bolt3.lean`, `isort_eq_of_perm`). -/

def insertSorted {α} (le : α → α → Bool) (a : α) : List α → List α
  | [] => [a]
  | b :: l => if le a b then a :: b :: l else b :: insertSorted le a l

def isort {α} (le : α → α → Bool) : List α → List α
  | [] => []
  | a :: l => insertSorted le a (isort le l)

/-! ## Canonical builder -/

/-- One output under construction: the TxOut, its witness script, and the HTLC it carries. -/
structure Elem (H : Type) where
  out : TxOut H
  ws : Option Script
  /-- `(offered, htlc)` -/
  htlc : Option (Bool × Htlc)
deriving DecidableEq, Repr

def Elem.cltv {H} (e : Elem H) : Nat := match e.htlc with | some (_, h) => h.cltv | none => 0
def Elem.hash {H} (e : Elem H) : Nat := match e.htlc with | some (_, h) => h.hash | none => 0

/-- `sort_outputs` comparator: value, script_pubkey bytes, then (HTLCs) cltv and payment hash.
    Non-HTLC outputs carry (0, 0); LDK returns `Equal` for them, which differs from this only when a
    non-HTLC output has the same value and script_pubkey as an HTLC output. -/
def Elem.le {H} (okey : Spk H → Nat) (a b : Elem H) : Bool :=
  decide (a.out.value < b.out.value ∨ (a.out.value = b.out.value ∧
    (okey a.out.spk < okey b.out.spk ∨ (okey a.out.spk = okey b.out.spk ∧
      (a.cltv < b.cltv ∨ (a.cltv = b.cltv ∧ a.hash ≤ b.hash))))))

section
variable {H : Type} (wsh : Script → H) (okey : Spk H → Nat)

def toRemoteElem (s : Setup) (k : Keys) (v : Nat) : Elem H :=
  if s.ctype.ldkAnchors then
    { out := ⟨v, .p2wsh (wsh (.toRemoteDelayed k.cPayment))⟩, ws := some (.toRemoteDelayed k.cPayment), htlc := none }
  else
    { out := ⟨v, .p2wpkh k.cPayment⟩, ws := none, htlc := none }

def toLocalScript (s : Setup) (k : Keys) : Script :=
  .toLocal k.revocation (Int.ofNat s.holderDelay) k.bDelayed

def toLocalElem (s : Setup) (k : Keys) (v : Nat) : Elem H :=
  { out := ⟨v, .p2wsh (wsh (toLocalScript s k))⟩, ws := some (toLocalScript s k), htlc := none }

def anchorElem (key : Key) : Elem H :=
  { out := ⟨ANCHOR_SAT, .p2wsh (wsh (.anchor key))⟩, ws := some (.anchor key), htlc := none }

/-- `get_htlc_redeemscript` -/
def htlcScript (s : Setup) (k : Keys) (offered : Bool) (h : Htlc) : Script :=
  if offered then .htlcOffered s.ctype.ldkAnchors k.revocation k.cHtlc k.bHtlc h.hash 20
  else .htlcReceived s.ctype.ldkAnchors k.revocation k.cHtlc h.hash 20 k.bHtlc (Int.ofNat h.cltv)

def htlcElem (s : Setup) (k : Keys) (offered : Bool) (h : Htlc) : Elem H :=
  { out := ⟨h.value, .p2wsh (wsh (htlcScript s k offered h))⟩,
    ws := some (htlcScript s k offered h), htlc := some (offered, h) }

/-- `internal_build_outputs` before sorting (push order of the Rust code). -/
def rawElems (s : Setup) (k : Keys) (c : Content) : List (Elem H) :=
  (if c.toCs > 0 then [toRemoteElem wsh s k c.toCs] else []) ++
  (if c.toBc > 0 then [toLocalElem wsh s k c.toBc] else []) ++
  (if s.ctype.ldkAnchors then
    (if c.toBc > 0 ∨ ¬ (c.offered ++ c.received) = [] then [anchorElem wsh k.bFunding] else []) ++
    (if c.toCs > 0 ∨ ¬ (c.offered ++ c.received) = [] then [anchorElem wsh k.cFunding] else [])
   else []) ++
  (c.offered.map (htlcElem wsh s k true) ++ c.received.map (htlcElem wsh s k false))

/-- the debug-build panics of the builder path -/
def buildPanics (c : Content) : Bool :=
  decide (c.commitNum > INITIAL_COMMITMENT_NUMBER) ||
  (c.offered ++ c.received).any (fun h => decide (h.value * 1000 ≥ U64_LIMIT))

def canonElems (s : Setup) (k : Keys) (c : Content) : List (Elem H) :=
  isort (Elem.le okey) (rawElems wsh s k c)

def obscured (s : Setup) (c : Content) : Nat :=
  s.obscure ^^^ (INITIAL_COMMITMENT_NUMBER - (INITIAL_COMMITMENT_NUMBER - c.commitNum))

def canonLocktime (s : Setup) (c : Content) : Nat := (0x20 <<< 24) ||| (obscured s c &&& 0xffffff)
def canonSequence (s : Setup) (c : Content) : Nat := (0x80 <<< 24) ||| ((obscured s c >>> 24) % 2 ^ 32)

/-- The canonical counterparty commitment transaction of a content (`none` = the builder panics). -/
def canon (s : Setup) (k : Keys) (c : Content) : Option (CTx H) :=
  if buildPanics c then none else
  some { version := 2
         locktime := canonLocktime s c
         inputs := [{ txid := s.fundingTxid, vout := s.fundingVout % 65536,
                      sequence := canonSequence s c, scriptSig := 0, witness := 0 }]
         outputs := (canonElems wsh okey s k c).map (·.out) }

/-- the witness scripts that go with `canon` (what `build_tx_scripts` hands to phase 1) -/
def canonWs (s : Setup) (k : Keys) (c : Content) : List (Option Script) :=
  (canonElems wsh okey s k c).map (·.ws)

/-! ## HTLC transactions signed by phase 2 -/

structure HtlcTx (H : Type) where
  parent : CTx H
  vout : Nat
  sequence : Nat
  locktime : Nat
  /-- `none`: `amount - fee` underflows (`Amount` subtraction panics) -/
  value : Option Nat
  outScript : Script
  redeem : Script
  amount : Nat
  /-- SIGHASH_SINGLE|ANYONECANPAY instead of ALL -/
  singleAcp : Bool
deriving DecidableEq, Repr

def htlcTxWeight (s : Setup) (offered : Bool) : Nat :=
  if offered then (if s.ctype.ldkAnchors then 666 else 663) else (if s.ctype.ldkAnchors then 706 else 703)

/-- `build_htlc_output` value -/
def htlcTxValue (s : Setup) (feerate : Nat) (offered : Bool) (h : Htlc) : Option Nat :=
  if s.ctype.ldkAnchors && !s.ctype.ldkNonzeroFeeAnchors then some h.value
  else
    let fee := feerate * htlcTxWeight s offered / 1000
    if fee ≤ h.value then some (h.value - fee) else none

def htlcTxsAux (s : Setup) (k : Keys) (c : Content) (parent : CTx H) : List (Elem H) → Nat → List (HtlcTx H)
  | [], _ => []
  | e :: rest, i =>
    match e.htlc with
    | none => htlcTxsAux s k c parent rest (i + 1)
    | some (offered, h) =>
      { parent := parent, vout := i, sequence := if s.ctype.ldkAnchors then 1 else 0,
        locktime := if offered then h.cltv else 0,
        value := htlcTxValue s c.feerate offered h,
        outScript := toLocalScript s k, redeem := htlcScript s k offered h, amount := h.value,
        singleAcp := s.ctype.ldkAnchors } :: htlcTxsAux s k c parent rest (i + 1)

/-- HTLC transactions in output order (the order of `CommitmentTransaction::htlcs()`). -/
def htlcTxs (s : Setup) (k : Keys) (c : Content) (parent : CTx H) : List (HtlcTx H) :=
  htlcTxsAux s k c parent (canonElems wsh okey s k c) 0

/-! ## Decoder (`decode_commitment_tx` / `handle_output`) -/

/-- What `CommitmentInfo` accumulates (only `csVal`/`bcVal` are read by phase 1). -/
structure Info where
  hasCs : Bool
  csVal : Nat
  hasBc : Bool
  bcVal : Nat
  anchorsB : Nat
  anchorsC : Nat
  nOffered : Nat
  nReceived : Nat
deriving DecidableEq, Repr

def Info.init : Info := ⟨false, 0, false, 0, 0, 0, 0, 0⟩

inductive Role
  | toCs (v : Nat) | toBc (v : Nat) | anchorB | anchorC | offered | received
deriving DecidableEq, Repr

/-- The state-independent part of `handle_output`: which kind of output is this, if any. -/
def classify [DecidableEq H] (s : Setup) (k : Keys) (o : TxOut H) (ws : Option Script) : Option Role :=
  match o.spk with
  | .p2wpkh _ => if s.ctype.isAnchors then none else some (.toCs o.value)
  | .other _ => none
  | .p2wsh h =>
    match ws with
    | none => none                                   -- "missing witscript for p2wsh"
    | some sc =>
      if h ≠ wsh sc then none else                   -- "script pubkey doesn't match inner script"
      match sc with
      | .toLocal rev delay delayed =>
        -- (a delay ≥ 2^31 does not parse as a script number at all; it is refused either way)
        if delay < 0 then none else if delay > MAX_DELAY then none
        else if !delayed.ok then none else if !rev.ok then none
        else some (.toBc o.value)
      | .htlcReceived csv _ _ _ hashLen _ cltv =>
        if csv ≠ s.ctype.isAnchors then none         -- falls through every parser: "unknown p2wsh script"
        else if cltv ≥ SCRIPT_INT_LIMIT then none    -- `read_scriptint` refuses pushes longer than 4 bytes
        else if hashLen ≠ 20 then none else if cltv < 0 then none else some .received
      | .htlcOffered csv _ _ _ _ hashLen =>
        if csv ≠ s.ctype.isAnchors then none
        else if hashLen ≠ 20 then none else some .offered
      | .anchor key =>
        if !key.ok then none
        else if o.value ≠ ANCHOR_SAT then none
        else if key = k.bFunding then some .anchorB
        else if key = k.cFunding then some .anchorC
        else none
      | .toRemoteDelayed key =>
        if !s.ctype.isAnchors then none
        else if !key.ok then none else some (.toCs o.value)
      | .unknown _ => none

/-- The state-dependent part: singularity of to_local / to_remote. -/
def Info.apply (d : Info) : Role → Option Info
  | .toCs v => if d.hasCs then none else some { d with hasCs := true, csVal := v }
  | .toBc v => if d.hasBc then none else some { d with hasBc := true, bcVal := v }
  | .anchorB => some { d with anchorsB := d.anchorsB + 1 }
  | .anchorC => some { d with anchorsC := d.anchorsC + 1 }
  | .offered => some { d with nOffered := d.nOffered + 1 }
  | .received => some { d with nReceived := d.nReceived + 1 }

def handleOutput [DecidableEq H] (s : Setup) (k : Keys) (acc : Option Info) (p : TxOut H × Option Script) :
    Option Info :=
  acc.bind fun d => (classify wsh s k p.1 p.2).bind d.apply

def decodeOuts [DecidableEq H] (s : Setup) (k : Keys) (ps : List (TxOut H × Option Script)) : Option Info :=
  ps.foldl (handleOutput wsh s k) (some Info.init)

/-- `decode_commitment_tx`: version test, then `handle_output` over the outputs paired with the
    supplied witness scripts (the caller has checked the lengths agree). -/
def decode [DecidableEq H] (s : Setup) (k : Keys) (tx : CTx H) (ws : List (Option Script)) : Option Info :=
  if tx.version ≠ 2 then none else decodeOuts wsh s k (tx.outputs.zip ws)

/-! ## The two entry points -/

inductive Kind | invalidArg | policy | decode | mismatch | panic | internal
deriving DecidableEq, Repr

def Htlc.le (a b : Htlc) : Bool :=
  decide (a.value < b.value ∨ (a.value = b.value ∧ (a.hash < b.hash ∨ (a.hash = b.hash ∧ a.cltv ≤ b.cltv))))

/-- `CommitmentInfo2` of a counterparty commitment, HTLC lists sorted as `CommitmentInfo2::new` does. -/
structure Info2 where
  toCs : Nat
  toBc : Nat
  offered : List Htlc
  received : List Htlc
  feerate : Nat
deriving DecidableEq, Repr

def Info2.mk' (toCs toBc : Nat) (offered received : List Htlc) (feerate : Nat) : Info2 :=
  ⟨toCs, toBc, isort Htlc.le offered, isort Htlc.le received, feerate⟩

def Info2.content (i : Info2) (commitNum : Nat) : Content :=
  ⟨commitNum, i.feerate, i.toCs, i.toBc, i.offered, i.received⟩

/-- The validator around the builder, abstract (its content is property C05's subject).
    `pre` = validate_channel_value is `chanOk`; `pre` = claimable_balances (may panic) +
    validate_counterparty_commitment_tx; `post` = validate_payments + set_next_counterparty_commit_num. -/
structure Env where
  chanOk : Bool
  pre : Nat → Info2 → Except Kind Unit
  post : Nat → Info2 → Bool
  /-- the policy filter maps the tag `policy-commitment` to Error (true for every filter that does not
      explicitly demote it; `PolicyFilter::new_permissive()` is the documented opt-out) -/
  mismatchIsError : Bool
  /-- the channel's own funding key and HTLC key (ids of the secret keys) -/
  fundingKey : Key
  htlcKey : Key

structure Crypto (H M S : Type) where
  /-- BIP143 sighash of the commitment: commits to the transaction *and* to the amount of the spent
      funding output (the negotiated channel value) -/
  sighash : CTx H → Nat → M
  htlcSighash : HtlcTx H → M
  sign : Key → M → S

variable {M S : Type} (cr : Crypto H M S)

/-- Phase 1: `Channel::sign_counterparty_commitment_tx`. -/
def phase1 [DecidableEq H] (env : Env) (s : Setup) (k : Keys) (tx : CTx H) (ws : List (Option Script))
    (commitNum feerate : Nat) (offered received : List Htlc) : Except Kind S :=
  if tx.outputs.length ≠ ws.length then .error .invalidArg
  else if !env.chanOk then .error .policy
  else match decode wsh s k tx ws with
    | none => .error .decode
    | some info =>
      let info2 := Info2.mk' info.csVal info.bcVal offered received feerate
      match env.pre commitNum info2 with
      | .error e => .error e
      | .ok () =>
        match canon wsh okey s k (info2.content commitNum) with
        | none => .error .panic
        | some rtx =>
          if rtx ≠ tx ∧ env.mismatchIsError then .error .mismatch   -- policy-commitment "recomposed tx mismatch"
          else
            let sig := cr.sign env.fundingKey (cr.sighash rtx s.channelValue)   -- signs the *recomposed* tx, amount = setup.channel_value_sat
            if !env.post commitNum info2 then .error .policy
            else .ok sig

/-- Phase 2: `Channel::sign_counterparty_commitment_tx_phase2`. -/
def phase2 (env : Env) (s : Setup) (k : Keys) (c : Content) : Except Kind (S × List S) :=
  if !env.chanOk then .error .policy
  else
    let info2 := Info2.mk' c.toCs c.toBc c.offered c.received c.feerate
    match env.pre c.commitNum info2 with
    | .error e => .error e
    | .ok () =>
      match canon wsh okey s k c with                  -- built from the arguments as given (unsorted)
      | none => .error .panic
      | some rtx =>
        let hts := htlcTxs wsh okey s k c rtx
        if hts.any (fun t => t.value.isNone) then .error .internal   -- catch_panic! → "failed to sign"
        else
          let sig := cr.sign env.fundingKey (cr.sighash rtx s.channelValue)   -- amount = the signer keys' channel value (= setup's)
          let hsigs := hts.map fun t => cr.sign env.htlcKey (cr.htlcSighash t)
          if !env.post c.commitNum info2 then .error .policy
          else .ok (sig, hsigs)

end

/-! ## Restart

`Node::new_from_persistence` rebuilds a channel from its `ChannelEntry`: the stored `ChannelSetup` and the
stored `channel_value_satoshis` (from which the `InMemorySigner` — and with it the amount phase 2 puts into
the BIP143 sighash — is re-derived).  Both copies of the channel value are written from the same setup, so
persist-then-restore is the identity on `Setup`. -/

structure ChannelEntry where
  setup : Setup
  /-- `channel_value_satoshis`: what the restored signer keys are derived with -/
  channelValueSat : Nat
deriving DecidableEq, Repr

def persistChannel (s : Setup) : ChannelEntry := ⟨s, s.channelValue⟩

/-- the setup a restored channel signs with: the signer keys' amount comes from `channel_value_satoshis` -/
def restoreChannel (e : ChannelEntry) : Setup := { e.setup with channelValue := e.channelValueSat }

/-! ## Second setup of a ready channel

`Node::setup_channel` on a `ChannelSlot::Ready`: `if c.setup != setup { Err } else { Ok(c) }` — only the identical
setup is acknowledged, and the channel keeps the setup it has. -/

def resetupReady (cur new : Setup) : Except Kind Setup :=
  if cur ≠ new then .error .invalidArg else .ok cur

/-! ## Dust thresholds of `validate_commitment_tx` (policy-commitment-outputs-trimmed)

Not used by `canon` (LDK's builder does not trim); stated here because the property speaks of
"trimmed values": contents with an HTLC below these limits are refused by every non-permissive
validator, so the canonical transaction of a *validated* content never contains such an output. -/

def MIN_DUST_LIMIT_SATOSHIS : Nat := 330
def MIN_CHAN_DUST_LIMIT_SATOSHIS : Nat := 354

def dustLimitOffered (s : Setup) (feerate : Nat) : Nat :=
  if s.ctype.isZeroFee then MIN_CHAN_DUST_LIMIT_SATOSHIS
  else MIN_DUST_LIMIT_SATOSHIS + feerate * htlcTxWeight s true / 1000

def dustLimitReceived (s : Setup) (feerate : Nat) : Nat :=
  if s.ctype.isZeroFee then MIN_CHAN_DUST_LIMIT_SATOSHIS
  else MIN_DUST_LIMIT_SATOSHIS + feerate * htlcTxWeight s false / 1000

def trimOk (s : Setup) (i : Info2) : Bool :=
  !(decide (0 < i.toBc) && decide (i.toBc < MIN_CHAN_DUST_LIMIT_SATOSHIS)) &&
  !(decide (0 < i.toCs) && decide (i.toCs < MIN_CHAN_DUST_LIMIT_SATOSHIS)) &&
  i.offered.all (fun h => decide (dustLimitOffered s i.feerate ≤ h.value)) &&
  i.received.all (fun h => decide (dustLimitReceived s i.feerate ≤ h.value))

end VlsModel.Bolt3
