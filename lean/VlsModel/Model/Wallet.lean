/-
Decision logic of `impl Wallet for Node` (vls-core/src/node.rs): `can_spend`, `allowlist_contains`, and
`KeyDerivationStyle::get_key_path_len` (vls-core/src/signer/derive.rs) — properties C08 / C09.

Rust                                                            Lean
----                                                            ----
`KeyDerivationStyle::get_key_path_len`                          `Style.keyPathLen`  (= generated text, Props/C08Fn.lean)
`Node::get_wallet_pubkey` (length check of the style)           `walletKey?`
`Wallet::can_spend(child_path, script_pubkey)`                  `canSpend`
`Wallet::allowlist_contains(script_pubkey, path)`               `allowlistContains`

Scripts are structured: a script is the standard address form `kind` of some public key, or something else.  Keys
are named by how they were derived (`Key`), so "the script equals `Address::p2wpkh(&pubkey, network).script_pubkey()`"
is equality of kind and key.  What this takes on trust (validated by the harness group `C08Wallet` against the real
`Node`): BIP32 derivation is injective on (root, path), the four address constructors are injective and have
disjoint ranges, and deriving through the node's own account xpub gives the wallet key of the same path.
-/
namespace VlsModel.Wallet

/-- `KeyDerivationStyle` -/
inductive Style | native | ldk | lnd
deriving DecidableEq, Repr

/-- `get_key_path_len`: CLN one BIP32 chain, LDK any, lnd two branches -/
def Style.keyPathLen : Style → Option Nat
  | .native => some 1
  | .ldk => none
  | .lnd => some 2

/-- a public key, named by its derivation: a child of the node's account key, a child of a foreign extended key
    `j`, or a key nobody in the scenario derives -/
inductive Key
  | account (path : List Nat)
  | xpub (j : Nat) (path : List Nat)
  | foreign (n : Nat)
deriving DecidableEq, Repr

/-- the address forms the wallet code constructs, and one it never does (p2wsh of a one-key script) -/
inductive Kind | p2wpkh | p2shwpkh | p2tr | p2pkh | p2wsh
deriving DecidableEq, Repr

inductive Script
  | addr (kind : Kind) (key : Key)
  | other (id : Nat)            -- p2wsh, bare scripts, op_return …
deriving DecidableEq, Repr

/-- BIP32 child numbers ≥ 2^31 are hardened -/
def hardened (c : Nat) : Bool := decide (2147483648 ≤ c)

/-- an entry of the node's allowlist -/
inductive Allowable
  | script (s : Script)
  | xpub (j : Nat)            -- `j = none`-like own account xpub is `ownXpub`
  | payee (n : Nat)
deriving DecidableEq, Repr

/-- the extended key number that stands for the node's own account xpub -/
def ownXpub : Nat := 9

/-- the key an allowlisted extended key `j` derives at `path` -/
def xpubKey (j : Nat) (path : List Nat) : Key :=
  if j = ownXpub then .account path else .xpub j path

/-- `get_wallet_pubkey(child_path)`: `none` = `Err(invalid_argument("bad child_path len"))` -/
def walletKey? (style : Style) (path : List Nat) : Option Key :=
  match style.keyPathLen with
  | some n => if path.length ≠ n then none else some (.account path)
  | none => some (.account path)

/-- `Wallet::can_spend`: `none` = `Err` -/
def canSpend (style : Style) (path : List Nat) (s : Script) : Option Bool :=
  if path.length = 0 then some false
  else match walletKey? style path with
    | none => none
    | some k => some (s == .addr .p2wpkh k || s == .addr .p2shwpkh k || s == .addr .p2tr k)

inductive AllowRes | yes | no | panic
deriving DecidableEq, Repr

/-- the xpub loop of `allowlist_contains`: the first `XPub` entry met derives `path` (`unwrap` panics on a hardened
    component, whatever the script), then compares three address forms -/
def xpubLoop (path : List Nat) (s : Script) : List Allowable → AllowRes
  | [] => .no
  | .xpub j :: rest =>
    if path.any hardened then .panic
    else if s == .addr .p2wpkh (xpubKey j path) || s == .addr .p2pkh (xpubKey j path) || s == .addr .p2tr (xpubKey j path)
      then .yes
    else xpubLoop path s rest
  | _ :: rest => xpubLoop path s rest

/-- `Wallet::allowlist_contains(script_pubkey, path)` -/
def allowlistContains (allow : List Allowable) (s : Script) (path : List Nat) : AllowRes :=
  if allow.contains (.script s) then .yes
  else if path.isEmpty then .no
  else xpubLoop path s allow

end VlsModel.Wallet
