/-
Model of the signer wire protocol codec (property C19).

Rust                                                        Lean
----                                                        ----
bitcoin-consensus-derive `#[derive(Encodable, Decodable)]`  `Ty.pair`/`Ty.unit` (fields in order), numeric
   (numeric fields big-endian, `Option` = bool flag + inner) fields `Ty.uint k false`, `Ty.option`
rust-bitcoin integers inside `Array<T>` / `OutPoint.vout`   `Ty.uint k true` (little-endian)
rust-bitcoin `bool` (decode: any non-zero byte = true)      `Ty.bool`
`[u8; N]`, `Txid`, `BlockHash`, `BlockHeader` (80) …        `Ty.fixed n`
serde_bolt `Octets` (u16 BE length, encode fails > 65535)   `Ty.octets`
serde_bolt `LargeOctets` (u32 BE length; decode > MAX_VEC_SIZE fails)   `Ty.largeOctets`
serde_bolt `WireString` (NUL terminated; encode asserts no NUL)         `Ty.wireString`
serde_bolt `Array<T>` / `ArrayBE<T>` (u16 BE count, `len as u16` TRUNCATES silently)   `Ty.array`
serde_bolt `WithSize<T>` (u32 BE byte size, `Take` window, "trailing bytes in WithSize")  `Ty.withSize`
hand-written / library codecs (`Transaction`, `PsbtWrapper`, `StreamedPSBT`, `TxoProof`,
   TLV option structs): opaque leaves with their own codec   `Ty.leaf l` + `LeafCodec`
`SerBolt::as_vec` (u16 BE type + body)                      `asVec`
`msgs::from_vec` → `from_reader` (`check_message_length`, type dispatch by the FIRST matching
   arm of `Message::read_message`, `TrailingBytes`)         `fromVec`

An opaque leaf is *greedy*: its decoder receives the whole remaining window and must consume it
(this is literally what `PsbtWrapper`/`StreamedPSBT` do (`read_to_limit`), what LDK's
`decode_tlv_stream` does, and it is sound for `Transaction`/`TxoProof` at the places the schema uses
them: directly inside `WithSize`, or as the last field of a message where `from_vec` rejects any
trailing byte anyway).  `Ty.okAt` makes the placement rule explicit and the
generated schema is checked against it (`C19_schema_wf`).

Values are untyped trees (`Val`); `wf t v` says that `v` has the shape of `t` and lies in the
domain on which the real encoder neither fails nor truncates.
-/
namespace VlsModel.Wire

abbrev Bytes := List UInt8

/-- rust-bitcoin `MAX_VEC_SIZE` (bitcoin 0.32: 4_000_000), used by LargeOctets / WithSize -/
def MAX_VEC_SIZE : Nat := 4000000

inductive Leaf | tx | psbt | spsbt | proof | tlv
deriving DecidableEq, Repr

inductive Ty
  | uint (k : Nat) (le : Bool)
  | bool
  | fixed (n : Nat)
  | octets
  | largeOctets
  | wireString
  | array (t : Ty)
  | option (t : Ty)
  | withSize (t : Ty)
  | leaf (l : Leaf)
  | unit
  | pair (a b : Ty)
deriving DecidableEq, Repr

/-- struct with the given field types, in declaration order -/
def mkStruct : List Ty → Ty
  | [] => .unit
  | [t] => t
  | t :: ts => .pair t (mkStruct ts)

inductive Val (α : Type)
  | nat (n : Nat)
  | bool (b : Bool)
  | bytes (b : Bytes)
  | none
  | some (v : Val α)
  | leaf (a : α)
  | unit
  | pair (x y : Val α)
deriving DecidableEq, Repr

/-- Codec of the opaque leaves.  `norm` is what a decode of an encoding yields: the identity for
    `Transaction`/`PsbtWrapper`/`TxoProof`, the summarising map for `StreamedPSBT` (see `Model/Wire`
    section StreamedPSBT and `C19_psbt`). -/
structure LeafCodec (α : Type) where
  ser : α → Bytes
  de : Leaf → Bytes → Option α
  norm : α → α
  ok : Leaf → α → Bool

/-- the stated round-trip hypothesis on the opaque leaves -/
def LeafCodec.RT {α : Type} (L : LeafCodec α) : Prop :=
  ∀ l a, L.ok l a = true → L.de l (L.ser a) = some (L.norm a)

/-! ### integers -/

/-- `k` bytes big-endian of `n` (value taken mod 256^k, like `as uN` followed by `to_be_bytes`) -/
def beBytes : Nat → Nat → Bytes
  | 0, _ => []
  | k+1, n => beBytes k (n / 256) ++ [UInt8.ofNat (n % 256)]

def beVal (b : Bytes) : Nat := b.foldl (fun acc x => acc * 256 + x.toNat) 0

/-- `read_exact` of `k` bytes: the first `k` bytes and the rest, `none` at EOF (linear in `k`) -/
def splitAt? : Nat → Bytes → Option (Bytes × Bytes)
  | 0, bs => some ([], bs)
  | _+1, [] => none
  | k+1, x :: r =>
    match splitAt? k r with
    | none => none
    | some (a, r') => some (x :: a, r')

/-- read up to and excluding the first NUL; `none` if there is no NUL (`read_exact` hits EOF) -/
def splitNul : Bytes → Option (Bytes × Bytes)
  | [] => none
  | x :: r => if x = 0 then some ([], r) else
      match splitNul r with
      | some (a, r') => some (x :: a, r')
      | none => none

/-! ### arrays as right-nested pairs -/
section
variable {α : Type}

def vlen : Val α → Nat
  | .pair _ xs => vlen xs + 1
  | _ => 0

def encArr (f : Val α → Bytes) : Val α → Bytes
  | .pair x xs => f x ++ encArr f xs
  | _ => []

def allArr (p : Val α → Bool) : Val α → Bool
  | .unit => true
  | .pair x xs => p x && allArr p xs
  | _ => false

def decArr (d : Bytes → Option (Val α × Bytes)) : Nat → Bytes → Option (Val α × Bytes)
  | 0, bs => some (.unit, bs)
  | n+1, bs =>
    match d bs with
    | none => none
    | some (x, r) =>
      match decArr d n r with
      | none => none
      | some (xs, r') => some (.pair x xs, r')

def Val.norm (f : α → α) : Val α → Val α
  | .some v => .some (v.norm f)
  | .leaf a => .leaf (f a)
  | .pair x y => .pair (x.norm f) (y.norm f)
  | v => v

variable (L : LeafCodec α)

/-- the bytes the real encoder writes (where it truncates, so does this) -/
def enc : Ty → Val α → Bytes
  | .uint k le, .nat n => if le then (beBytes k n).reverse else beBytes k n
  | .bool, .bool b => [if b then 1 else 0]
  | .fixed _, .bytes b => b
  | .octets, .bytes b => beBytes 2 b.length ++ b
  | .largeOctets, .bytes b => beBytes 4 b.length ++ b
  | .wireString, .bytes b => b ++ [0]
  | .array t, v => beBytes 2 (vlen v) ++ encArr (enc t) v
  | .option _, .none => [0]
  | .option t, .some v => 1 :: enc t v
  | .withSize t, v => beBytes 4 (enc t v).length ++ enc t v
  | .leaf _, .leaf a => L.ser a
  | .pair a b, .pair x y => enc a x ++ enc b y
  | _, _ => []

/-- `v` has the shape of `t` (driver: otherwise the op is malformed) -/
def shape : Ty → Val α → Bool
  | .uint k _, .nat n => n < 256 ^ k
  | .bool, .bool _ => true
  | .fixed n, .bytes b => b.length == n
  | .octets, .bytes _ => true
  | .largeOctets, .bytes _ => true
  | .wireString, .bytes _ => true
  | .array t, v => allArr (shape t) v
  | .option _, .none => true
  | .option t, .some v => shape t v
  | .withSize t, v => shape t v
  | .leaf _, .leaf _ => true
  | .unit, .unit => true
  | .pair a b, .pair x y => shape a x && shape b y
  | _, _ => false

/-- the real encoder returns `Ok` (no `io::Error`, no `assert!`): `as_vec` does not panic.
    `Array` lengths ≥ 65536 and `LargeOctets` ≥ 2^32 are *accepted* (and truncated). -/
def encOk : Ty → Val α → Bool
  | .octets, .bytes b => b.length ≤ 0xFFFF
  | .wireString, .bytes b => !b.contains 0
  | .array t, v => allArr (encOk t) v
  | .option t, .some v => encOk t v
  | .withSize t, v => encOk t v && (enc L t v).length % 2^32 ≤ MAX_VEC_SIZE
  | .pair a b, .pair x y => encOk a x && encOk b y
  | _, _ => true

/-- well-formed: right shape, and inside the domain where the encoder neither fails nor truncates
    and the decoder does not refuse the size -/
def wf : Ty → Val α → Bool
  | .uint k _, .nat n => n < 256 ^ k
  | .bool, .bool _ => true
  | .fixed n, .bytes b => b.length == n
  | .octets, .bytes b => b.length < 65536
  | .largeOctets, .bytes b => b.length ≤ MAX_VEC_SIZE
  | .wireString, .bytes b => !b.contains 0
  | .array t, v => allArr (wf t) v && vlen v < 65536
  | .option _, .none => true
  | .option t, .some v => wf t v
  | .withSize t, v => wf t v && (enc L t v).length ≤ MAX_VEC_SIZE
  | .leaf l, .leaf a => L.ok l a
  | .unit, .unit => true
  | .pair a b, .pair x y => wf a x && wf b y
  | _, _ => false

def dec : Ty → Bytes → Option (Val α × Bytes)
  | .uint k le, bs =>
    match splitAt? k bs with
    | none => none
    | some (a, r) => some (.nat (beVal (if le then a.reverse else a)), r)
  | .bool, bs =>
    match bs with
    | [] => none
    | x :: r => some (.bool (x != 0), r)
  | .fixed n, bs =>
    match splitAt? n bs with
    | none => none
    | some (a, r) => some (.bytes a, r)
  | .octets, bs =>
    match splitAt? 2 bs with
    | none => none
    | some (a, r) =>
      match splitAt? (beVal a) r with
      | none => none
      | some (b, r') => some (.bytes b, r')
  | .largeOctets, bs =>
    match splitAt? 4 bs with
    | none => none
    | some (a, r) =>
      if beVal a > MAX_VEC_SIZE then none else
      match splitAt? (beVal a) r with
      | none => none
      | some (b, r') => some (.bytes b, r')
  | .wireString, bs =>
    match splitNul bs with
    | none => none
    | some (a, r) => some (.bytes a, r)
  | .array t, bs =>
    match splitAt? 2 bs with
    | none => none
    | some (a, r) => decArr (dec t) (beVal a) r
  | .option t, bs =>
    match bs with
    | [] => none
    | x :: r =>
      if x != 0 then
        match dec t r with
        | none => none
        | some (v, r') => some (.some v, r')
      else some (.none, r)
  | .withSize t, bs =>
    match splitAt? 4 bs with
    | none => none
    | some (a, r) =>
      if beVal a > MAX_VEC_SIZE then none else
      match splitAt? (beVal a) r with
      | none => none           -- inner hits EOF, or succeeds early and leaves `limit > 0`
      | some (w, r') =>
        match dec t w with
        | none => none
        | some (v, rest) => if rest.isEmpty then some (v, r') else none
  | .leaf l, bs =>
    match L.de l bs with
    | none => none
    | some a => some (.leaf a, [])
  | .unit, bs => some (.unit, bs)
  | .pair a b, bs =>
    match dec a bs with
    | none => none
    | some (x, r) =>
      match dec b r with
      | none => none
      | some (y, r') => some (.pair x y, r')

end

/-! ### placement rule for greedy leaves -/

/-- `okAt tail t`: every greedy leaf of `t` stands where a decode window ends.  `tail = true`: `t` itself
    is decoded at the end of a window (message body, `WithSize` content); `tail = false`: something
    follows `t`, so it must be self-delimiting. -/
def Ty.okAt (tail : Bool) : Ty → Bool
  | .leaf _ => tail
  | .option t => t.okAt tail
  | .pair a b => a.okAt false && b.okAt tail
  | .array t => t.okAt false
  | .withSize t => t.okAt true
  | _ => true

/-! ### top level -/

structure Entry where
  name : String
  id : Nat
  ty : Ty
  dev : Bool := false

/-- index of the first entry with this id: the Rust `match message_type { A::TYPE => …, B::TYPE => … }`
    takes the first matching arm -/
def dispatch : List Entry → Nat → Option Nat
  | [], _ => none
  | e :: es, id => if e.id = id then some 0 else (dispatch es id).map (· + 1)

inductive Decoded (α : Type)
  | msg (idx : Nat) (v : Val α)
  | unknown (ty : Nat)
deriving DecidableEq, Repr

inductive WireErr | shortRead | tooLarge | decode | trailing
deriving DecidableEq, Repr

/-- `check_message_length(len)` of msgs.rs, the first step of `from_reader` (hence of `from_vec` and `read`) and of
    `read_message::<T>`: `len < 2` → `ShortRead`, `len > MAX_MESSAGE_SIZE` → `MessageTooLarge`.  The body of the Rust
    function is regenerated by rs2lean (`Gen/FnMsgs.lean`) and proved equal to this definition in
    `Props/C19Fn.lean`; `fromVec`, `readFrame` and `readMessageTyped` below are proved there to start with it. -/
def checkMessageLength (maxMsg n : Nat) : Except WireErr Unit :=
  if n < 2 then .error .shortRead else if n > maxMsg then .error .tooLarge else .ok ()

/-- `SerBolt::as_vec` of the struct at entry `e` -/
def asVec {α : Type} (L : LeafCodec α) (e : Entry) (v : Val α) : Bytes :=
  beBytes 2 e.id ++ enc L e.ty v

/-- `msgs::from_vec` -/
def fromVec {α : Type} (L : LeafCodec α) (reg : List Entry) (maxMsg : Nat) (bs : Bytes) :
    Except WireErr (Decoded α) :=
  if bs.length < 2 then .error .shortRead
  else if bs.length > maxMsg then .error .tooLarge
  else
    let id := beVal (bs.take 2)
    let body := bs.drop 2
    match dispatch reg id with
    | none => if body.isEmpty then .ok (.unknown id) else .error .trailing
    | some i =>
      match reg[i]? with
      | none => .error .decode
      | some e =>
        match dec L e.ty body with
        | none => .error .decode
        | some (v, rest) => if rest.isEmpty then .ok (.msg i v) else .error .trailing

inductive TypedRes (α : Type)
  | ok (v : Val α)
  | err
  | panic
deriving DecidableEq, Repr

/-- the typed `DeBolt::from_vec` generated by `#[derive(SerBolt)]` (no length check).  With trailing
    bytes the generated code evaluates `cursor.position() as usize - ser.len()` for the error value:
    `position < len`, so the subtraction underflows — a panic in builds with overflow checks. -/
def fromVecTyped {α : Type} (L : LeafCodec α) (e : Entry) (bs : Bytes) : TypedRes α :=
  match splitAt? 2 bs with
  | none => .err
  | some (a, body) =>
    if beVal a ≠ e.id then .err else
    match dec L e.ty body with
    | none => .err
    | some (v, rest) => if rest.isEmpty then .ok v else .panic

/-! ### length-framed stream (`msgs::write`, `write_vec`, `read`, `read_message`, `read_raw`)

The readers below are functions of the *byte string* of the stream.  How a transport slices that
string into `read()` calls (a serial port or socket may return fewer bytes than asked for although the
rest of the frame follows) is NOT modelled: the real readers use `read_exact` / `read_to_limit`, which
loop until the requested bytes have arrived, and the model identifies "the next n bytes of the stream"
with what such a loop yields.  That every reader entry point (`read`, `read_message`, `read_raw`,
`from_reader`, the serial header readers) returns the same result and leaves the stream at the same
position whatever the delivery granularity is therefore covered by the correspondence harness only
(`Chunked` reader: at most k bytes per call, k ∈ {1, 2, 7, 64, 1000, len-1} and a mixed schedule, two
frames back to back; monitors `framed-short-read-rejected`, `stream-desynchronised`,
`chunked-read-differs`), not by the theorems `C19_framed*`. -/

/-- `write_vec` / `write`: u32 BE length (`buf.len() as u32`) + bytes -/
def writeVec (bs : Bytes) : Bytes := beBytes 4 bs.length ++ bs

/-- `msgs::read`: u32 length, then `from_reader` over a `Take` of that length.  If the stream holds at
    least `n` bytes the `Take` shows exactly the first `n`, which is `from_vec` of that slice; if it is
    shorter the decode either hits EOF or ends with `limit > 0`. Bytes after the frame stay unread. -/
def readFrame {α : Type} (L : LeafCodec α) (reg : List Entry) (maxMsg : Nat) (bs : Bytes) :
    Except WireErr (Decoded α) :=
  match splitAt? 4 bs with
  | none => .error .decode
  | some (a, r) =>
    let n := beVal a
    if n < 2 then .error .shortRead
    else if n > maxMsg then .error .tooLarge
    else if n ≤ r.length then fromVec L reg maxMsg (r.take n)
    else
      match splitAt? 2 r with
      | none => .error .decode
      | some (t, body) =>
        match dispatch reg (beVal t) with
        | none => .error .trailing
        | some i =>
          match reg[i]? with
          | none => .error .decode
          | some e =>
            match dec L e.ty body with
            | none => .error .decode
            | some _ => .error .trailing

/-- `msgs::read_message::<T>`: length check, `UnexpectedType`, decode, `TrailingBytes` (no underflow here) -/
def readMessageTyped {α : Type} (L : LeafCodec α) (maxMsg : Nat) (e : Entry) (bs : Bytes) : Option (Val α) :=
  match splitAt? 4 bs with
  | none => none
  | some (a, r) =>
    let n := beVal a
    if n < 2 ∨ n > maxMsg ∨ r.length < n then none else
    match splitAt? 2 (r.take n) with
    | none => none
    | some (t, body) =>
      if beVal t ≠ e.id then none else
      match dec L e.ty body with
      | some (v, []) => some v
      | _ => none

/-- `read_raw`: u32 length + `read_exact` (no length check) -/
def readRaw (bs : Bytes) : Option Bytes :=
  match splitAt? 4 bs with
  | none => none
  | some (a, r) => (splitAt? (beVal a) r).map (·.1)

/-! ### serial headers (`write_serial_request_header` … `read_serial_response_header`) -/

def writeSerialRequest (seq : Nat) (peer : Bytes) (dbid : Nat) : Bytes :=
  beBytes 2 0xaa55 ++ beBytes 2 seq ++ peer ++ beBytes 8 dbid

def readSerialRequest (bs : Bytes) : Option (Nat × Bytes × Nat) :=
  match splitAt? 2 bs with
  | none => none
  | some (m, r) =>
    if beVal m ≠ 0xaa55 then none else
    match splitAt? 2 r with
    | none => none
    | some (s, r) =>
      match splitAt? 33 r with
      | none => none
      | some (p, r) =>
        match splitAt? 8 r with
        | none => none
        | some (d, _) => some (beVal s, p, beVal d)

def writeSerialResponse (seq : Nat) : Bytes := beBytes 2 0x5aa5 ++ beBytes 2 seq

def readSerialResponse (bs : Bytes) (expected : Nat) : Bool :=
  match splitAt? 2 bs with
  | none => false
  | some (m, r) =>
    if beVal m ≠ 0x5aa5 then false else
    match splitAt? 2 r with
    | none => false
    | some (s, _) => beVal s == expected

/-! ### the header code as step lists (tie to the source)

`translate/x_wireframe.py` reads the four serial-header functions of msgs.rs statement by statement and emits them
as lists of `HStep` (`Gen/WireFrame.lean`).  `hWrite` / `hRead` interpret such a list; `Props/C19.lean`
(`C19_gen_serial_request`, `C19_gen_serial_response`) proves that the hand-written functions above *are* the
interpretation of the generated lists, so a changed magic, width, field order or a dropped comparison in the source
reaches a proof obligation. -/

inductive HStep
  /-- write: `write_all(&0x….to_be_bytes())` of a `u16` literal; read: `read_u16_be()` compared with the literal,
      `BadFraming` if different -/
  | magic (v : Nat)
  /-- an integer field of `width` bytes, big endian (`to_be_bytes()` / `read_u{8·width}_be()`) -/
  | be (width : Nat)
  /-- a byte array field `[u8; len]` (`write_all(&arr)` / `read_exact(&mut [0u8; len])`) -/
  | raw (len : Nat)
  /-- read only: an integer of `width` bytes compared with the caller's expected value, `BadFraming` if different -/
  | expect (width : Nat)
deriving DecidableEq, Repr

inductive HVal
  | n (v : Nat)
  | b (bs : Bytes)
deriving DecidableEq, Repr

/-- a header writer: the values of the non-magic steps in order; `none` if the values do not fit the steps
    (cannot happen in Rust: the struct type fixes kinds and array lengths) -/
def hWrite : List HStep → List HVal → Option Bytes
  | [], [] => some []
  | .magic v :: ss, vs => (hWrite ss vs).map (beBytes 2 v ++ ·)
  | .be w :: ss, .n v :: vs => (hWrite ss vs).map (beBytes w v ++ ·)
  | .raw l :: ss, .b bs :: vs => if bs.length = l then (hWrite ss vs).map (bs ++ ·) else none
  | _, _ => none

/-- a header reader: the values read (magic and expected fields are checked, not returned) and the rest of the
    stream; `none` = an error (`BadFraming`, or the stream ends inside the header) -/
def hRead : List HStep → Nat → Bytes → Option (List HVal × Bytes)
  | [], _, bs => some ([], bs)
  | .magic v :: ss, e, bs =>
    match splitAt? 2 bs with
    | none => none
    | some (m, r) => if beVal m ≠ v then none else hRead ss e r
  | .be w :: ss, e, bs =>
    match splitAt? w bs with
    | none => none
    | some (x, r) => (hRead ss e r).map (fun p => (.n (beVal x) :: p.1, p.2))
  | .raw l :: ss, e, bs =>
    match splitAt? l bs with
    | none => none
    | some (x, r) => (hRead ss e r).map (fun p => (.b x :: p.1, p.2))
  | .expect w :: ss, e, bs =>
    match splitAt? w bs with
    | none => none
    | some (x, r) => if beVal x ≠ e then none else hRead ss e r

/-! ### StreamedPSBT (structured model of `vls-protocol/src/psbt.rs`)

The byte level of a PSBT is rust-bitcoin's (`Psbt::serialize`/`deserialize`, opaque leaf above).
What `StreamedPSBT::consensus_decode_from_finite_reader` adds is modelled on the parsed PSBT. -/


/-! ### The code templates of `bolt-derive/src/lib.rs`, as step lists (round 9)

`#[derive(SerBolt)]` expands, per message struct, to `as_vec` / typed `from_vec`; `#[derive(ReadMessage)]` walks the
variants of `enum Message` and expands to the dispatch `read_message`.  `translate/x_boltderive.py` parses every statement
of the `quote!` templates and of the variant walk into the descriptions below (`Gen/BoltDerive.lean`);
`Props/C19Fn.lean` proves `asVec`, `fromVecTyped` and `dispatch` equal to their interpretation, so a change of the macro
(statement order, width of the type prefix, a dropped type or trailing-bytes check, another arm order, `Unknown` no
longer skipped) changes the generated description and reaches a proof obligation. -/

/-- statements of the generated `SerBolt::as_vec` -/
inductive SStep
  /-- `let message_type = Self::TYPE;` -/
  | typeConst
  /-- `let mut buf = message_type.to_be_bytes().to_vec();` with `TYPE` of `width` bytes -/
  | bufTypeBe (width : Nat)
  /-- `let mut val_buf = to_vec(&self).expect("serialize");` -/
  | valBufExpect
  /-- `buf.append(&mut val_buf);` -/
  | appendVal
  /-- tail expression `buf` -/
  | retBuf
deriving DecidableEq, Repr

structure SState where
  ty : Option Nat := none
  buf : Option Bytes := none
  val : Option Bytes := none

/-- run the statements of `as_vec` for the struct at entry `e` on value `v`; `none` = a variable used before it is
    bound, or no tail expression (cannot be compiled) -/
def interpS {α : Type} (L : LeafCodec α) (e : Entry) (v : Val α) : List SStep → SState → Option Bytes
  | [], _ => none
  | .typeConst :: ss, st => interpS L e v ss { st with ty := some e.id }
  | .bufTypeBe w :: ss, st =>
    match st.ty with
    | some t => interpS L e v ss { st with buf := some (beBytes w t) }
    | none => none
  | .valBufExpect :: ss, st => interpS L e v ss { st with val := some (enc L e.ty v) }
  | .appendVal :: ss, st =>
    match st.buf, st.val with
    | some b, some x => interpS L e v ss { st with buf := some (b ++ x), val := some [] }
    | _, _ => none
  | .retBuf :: _, st => st.buf

/-- statements of the generated typed `DeBolt::from_vec` -/
inductive DStep
  /-- `let mut cursor = Cursor::new(&ser);` -/
  | cursorNew
  /-- `let message_type = cursor.read_u16_be()?;` (`width` bytes, big endian; EOF is the `?` error) -/
  | readTypeBe (width : Nat)
  /-- `if message_type != Self::TYPE { return Err(UnexpectedType) }` -/
  | expectType
  /-- `let res = Decodable::consensus_decode(&mut cursor)?;` -/
  | decodeBody
  /-- `if cursor.position() != ser.len() { return Err(TrailingBytes(count, TYPE)) }`; `underflows`: the count is written
      `position - len`, which underflows whenever the branch is taken (panic in overflow-checked builds) -/
  | expectEnd (underflows : Bool)
  /-- `Ok(res)` -/
  | retOk
deriving DecidableEq, Repr

structure DState (α : Type) where
  cur : Option Bytes := none
  ty : Option Nat := none
  res : Option (Val α) := none

def interpD {α : Type} (L : LeafCodec α) (e : Entry) (bs : Bytes) : List DStep → DState α → TypedRes α
  | [], _ => .err
  | .cursorNew :: ds, st => interpD L e bs ds { st with cur := some bs }
  | .readTypeBe w :: ds, st =>
    match st.cur with
    | none => .err
    | some c =>
      match splitAt? w c with
      | none => .err
      | some (a, rest) => interpD L e bs ds { st with cur := some rest, ty := some (beVal a) }
  | .expectType :: ds, st =>
    match st.ty with
    | none => .err
    | some t => if t ≠ e.id then .err else interpD L e bs ds st
  | .decodeBody :: ds, st =>
    match st.cur with
    | none => .err
    | some c =>
      match dec L e.ty c with
      | none => .err
      | some (v, rest) => interpD L e bs ds { st with cur := some rest, res := some v }
  | .expectEnd u :: ds, st =>
    match st.cur with
    | none => .err
    | some c => if c.isEmpty then interpD L e bs ds st else (if u then .panic else .err)
  | .retOk :: _, st =>
    match st.res with
    | some v => .ok v
    | none => .err

/-- what `#[derive(ReadMessage)]` does with the variants of `enum Message` -/
structure ReadMessageWalk where
  /-- `if v.ident == "Unknown" { continue; }` -/
  skipsVariantNamedUnknown : Bool
  /-- `vs.push(vident); ts.push(f);` inside `for v in variants`, no reordering afterwards; the template expands the
      arms `#(#vs::TYPE => …),*` in that order (a Rust `match` takes the first arm that matches) -/
  armsInDeclarationOrder : Bool
  /-- the arm pattern is the struct's `TYPE` constant -/
  armKeyIsTypeConst : Bool
  /-- `extract_single_type`: exactly one field per variant, whose type names the struct -/
  oneFieldPerVariant : Bool
  /-- the arm body is `Message::V(Decodable::consensus_decode(reader)?)` -/
  armDecodesBody : Bool
  /-- `_ => Message::Unknown(Unknown { message_type })` -/
  defaultIsUnknown : Bool
deriving DecidableEq, Repr

/-- the arms the walk generates from the variants of the enum (in declaration order, `Unknown` skipped) and the index
    (among the arms) of the arm a Rust `match` on the type takes; `none` = the default arm -/
def dispatchW (w : ReadMessageWalk) (variants : List Entry) (id : Nat) : Option Nat :=
  let arms := if w.skipsVariantNamedUnknown then variants.filter (fun e => e.name != "Unknown") else variants
  let arms := if w.armsInDeclarationOrder then arms else arms.reverse
  if w.armKeyIsTypeConst && w.oneFieldPerVariant && w.armDecodesBody && w.defaultIsUnknown then
    (arms.findIdx? (fun e => e.id == id))
  else none
namespace Streamed

structure TxOut where
  value : Nat
  script : Bytes
deriving DecidableEq, Repr

/-- a previous transaction as far as the decoder looks at it: its txid and outputs -/
structure PrevTx where
  txid : Bytes
  outputs : List TxOut
deriving DecidableEq, Repr

structure TxIn where
  prevTxid : Bytes
  vout : Nat
  scriptSigEmpty : Bool := true
  witnessEmpty : Bool := true
deriving DecidableEq, Repr

structure PInput where
  nonWitnessUtxo : Option PrevTx
  witnessUtxo : Option TxOut
deriving DecidableEq, Repr

structure Psbt where
  txInputs : List TxIn          -- unsigned_tx.input
  txRest : Bytes                -- version / outputs / lock time: untouched by the decoder
  inputs : List PInput          -- psbt.inputs (rust-bitcoin guarantees same length as txInputs)
deriving DecidableEq, Repr

/-- rust-bitcoin `Script::is_witness_program` / `witness_version`: 4 ≤ len ≤ 42, first opcode
    OP_0 or OP_1..OP_16, second byte a push of len-2 bytes (2..=40) -/
def isWitnessProgram (s : Bytes) : Bool :=
  match s with
  | v :: p :: _ =>
    4 ≤ s.length && s.length ≤ 42 &&
    (v = 0 || (0x51 ≤ v && v ≤ 0x60)) &&
    (0x02 ≤ p && p ≤ 0x28) && s.length == p.toNat + 2
  | _ => false

/-- rust-bitcoin `Script::is_p2pkh`: exactly 25 bytes `76 a9 14 <20 bytes> 88 ac` -/
def isP2pkh (s : Bytes) : Bool :=
  s.length == 25 && s[0]? == some 0x76 && s[1]? == some 0xa9 && s[2]? == some 0x14 &&
  s[23]? == some 0x88 && s[24]? == some 0xac

/-- one loop iteration: the summarised input and its segwit flag, `none` = refused ("missing utxo",
    "legacy input needs non_witness_utxo").  Without the previous transaction a `witness_utxo` is taken
    on faith, which is refused for a legacy p2pkh output (fix 2061d20): its value cannot be verified
    and a legacy signature does not commit to it. -/
def stepInput (ti : TxIn) (pi : PInput) : Option (PInput × Bool) :=
  match pi.nonWitnessUtxo with
  | none =>
    match pi.witnessUtxo with
    | some w => if isP2pkh w.script then none else some (pi, false)
    | none => some (pi, false)
  | some ptx =>
    if ptx.txid ≠ ti.prevTxid then none else
    match ptx.outputs[ti.vout]? with
    | none => none
    | some o =>
      match pi.witnessUtxo with
      | some w => if w ≠ o then none else some ({ nonWitnessUtxo := none, witnessUtxo := some w }, isWitnessProgram o.script)
      | none => some ({ nonWitnessUtxo := none, witnessUtxo := some o }, isWitnessProgram o.script)

def stepAll : List TxIn → List PInput → Option (List PInput × List Bool)
  | ti :: tis, pi :: pis =>
    match stepInput ti pi with
    | none => none
    | some (pi', f) =>
      match stepAll tis pis with
      | none => none
      | some (ps, fs) => some (pi' :: ps, f :: fs)
  | _, [] => some ([], [])
  | [], _ :: _ => none     -- `global.unsigned_tx.input[ind]` out of bounds: panic (excluded by rust-bitcoin's parser)

/-- the decoder after `Psbt::deserialize`: `unsigned_tx_checks`, then the input loop -/
def decode (p : Psbt) : Option (Psbt × List Bool) :=
  if p.txInputs.all (fun i => i.scriptSigEmpty && i.witnessEmpty) then
    match stepAll p.txInputs p.inputs with
    | none => none
    | some (ins, flags) => some ({ p with inputs := ins }, flags)
  else none

end Streamed

end VlsModel.Wire
