import VlsModel.Prim.U64
import VlsModel.Gen.Policy
/-
Model of the commitment / setup policy decisions of the signer (properties C05, C07).

Rust (vls-core/src)                                                  Lean
----                                                                 ----
policy/filter.rs      PolicyFilter::filter                           `filterEval`
policy/error.rs       policy_err! (filter may downgrade to a warning) `check` / `policyErr`
                      policy_error(..)? (never filtered)             `hard`
policy/simple_validator.rs
   validate_delay / validate_setup_channel / validate_channel_value  `validateDelay` `validateSetupChannel` `validateChannelValue`
   validate_expiry / validate_fee                                    `validateExpiry` `validateFee`
   validate_commitment_tx                                            `validateCommitmentTx`
   validate_counterparty_commitment_tx / validate_holder_commitment_tx `validateCounterparty` `validateHolder`
policy/onchain_validator.rs  ensure_funding_buried_and_unspent + wrappers `ensureFundingBuried`, inside `validateCounterparty/Holder`
util/transaction_utils.rs  expected_commitment_tx_weight                `commitmentWeight`
                      (validate_fee's exact u128 rate)                `exactFeerate`
policy/validator.rs   set_next_counterparty_commit_num / set_next_counterparty_revoke_num /
                      EnforcementState::set_next_*                   `setNextCpCommit` `setNextCpRevoke`
tx/tx.rs              CommitmentInfo2::claimable_balance (its `expect`s) `claimablePanics`
channel.rs            sign_counterparty_commitment_tx_phase2          `signCounterparty`
                      validate_holder_commitment_tx_phase2            `validateHolderPhase2`
                      revoke_previous_holder_commitment               `revokeHolder`
                      validate_counterparty_revocation                `cpRevoke`
node.rs               Node::setup_channel (the part before/around validate_setup_channel) `setupChannel`

Integers are `Nat` with the Rust width stated per field; every Rust operator is mapped to the
operator with the same semantics.  Plain `+`/`*` on u64/u32 panics in the (debug, overflow-checked)
build the harness runs: this is the explicit outcome `Kind.panic` -- a refusal.  `checked_*` that
end in `?` with `policy_error(..)` are *unfiltered* errors (`hard`), `policy_err!` goes through the
filter (`check`): if the filter says Warn the code **continues**, and so does the model.

External facts enter as inputs: wallet `can_spend` / allowlist membership (Booleans in `Setup`),
validity of the counterparty signatures (`sigsOk`), per-commitment points as opaque ids.
LDK's `htlc_timeout_tx_weight`/`htlc_success_tx_weight` (663/703; the anchor variants are only
selected for zero-fee-HTLC anchors where the signer does not use them) are constants of LDK, not
of /repo: hand-written here, validated by the correspondence run.
-/
namespace VlsModel.Policy
open VlsModel
open VlsModel.Gen.Policy (Action Rule CType RawPolicy)

/-! ### result classes -/

/-- Coarse class of a refusal (what kind of bound was violated); `panic` = the implementation panics. -/
inductive Kind
  | size | safeType | delay | dust | count | expiry | inflight | fee | first | chain | seq
  | overflow | sig | dest | htlcs | value | format | balance | other | panic
deriving DecidableEq, Repr

def Kind.name : Kind → String
  | .size => "size" | .safeType => "safetype" | .delay => "delay" | .dust => "dust" | .count => "count"
  | .expiry => "expiry" | .inflight => "inflight" | .fee => "fee" | .first => "first" | .chain => "chain"
  | .seq => "seq" | .overflow => "overflow" | .sig => "sig" | .dest => "dest" | .htlcs => "htlcs"
  | .value => "value" | .format => "format" | .balance => "balance" | .other => "other" | .panic => "panic"

/-- The policy tags used on the modelled paths (docs/policy-controls.md). -/
inductive Tag
  | channelSafeType | delayHolder | delayCounterparty | fundingMax
  | outputsTrimmed | htlcCountLimit | htlcCltvRange | htlcInflightLimit | commitmentFeeRange
  | firstNoHtlcs | initialFundingValue | spendsActiveUtxo
  | previousRevoked | retrySame | holderNotRevoked | revokeNewCommitmentSigned | revokeNotClosed | policyOther
  | mutualDestinationAllowlisted | mutualNoPendingHtlcs | mutualFeeRange | mutualValueMatches | mutualOther
  | onchainFormatStandard
deriving DecidableEq, Repr

def Tag.name : Tag → String
  | .channelSafeType => "policy-channel-safe-type"
  | .delayHolder => "policy-channel-contest-delay-range-holder"
  | .delayCounterparty => "policy-channel-contest-delay-range-counterparty"
  | .fundingMax => "policy-funding-max"
  | .outputsTrimmed => "policy-commitment-outputs-trimmed"
  | .htlcCountLimit => "policy-commitment-htlc-count-limit"
  | .htlcCltvRange => "policy-commitment-htlc-cltv-range"
  | .htlcInflightLimit => "policy-commitment-htlc-inflight-limit"
  | .commitmentFeeRange => "policy-commitment-fee-range"
  | .firstNoHtlcs => "policy-commitment-first-no-htlcs"
  | .initialFundingValue => "policy-commitment-initial-funding-value"
  | .spendsActiveUtxo => "policy-commitment-spends-active-utxo"
  | .previousRevoked => "policy-commitment-previous-revoked"
  | .retrySame => "policy-commitment-retry-same"
  | .holderNotRevoked => "policy-commitment-holder-not-revoked"
  | .revokeNewCommitmentSigned => "policy-revoke-new-commitment-signed"
  | .revokeNotClosed => "policy-revoke-not-closed"
  | .policyOther => "policy-other"
  | .mutualDestinationAllowlisted => "policy-mutual-destination-allowlisted"
  | .mutualNoPendingHtlcs => "policy-mutual-no-pending-htlcs"
  | .mutualFeeRange => "policy-mutual-fee-range"
  | .mutualValueMatches => "policy-mutual-value-matches-commitment"
  | .mutualOther => "policy-mutual-other"
  | .onchainFormatStandard => "policy-onchain-format-standard"

def Tag.kind : Tag → Kind
  | .channelSafeType => .safeType
  | .delayHolder | .delayCounterparty => .delay
  | .fundingMax => .size
  | .outputsTrimmed => .dust
  | .htlcCountLimit => .count
  | .htlcCltvRange => .expiry
  | .htlcInflightLimit => .inflight
  | .commitmentFeeRange | .mutualFeeRange => .fee
  | .firstNoHtlcs | .initialFundingValue => .first
  | .spendsActiveUtxo => .chain
  | .previousRevoked | .retrySame | .holderNotRevoked | .revokeNewCommitmentSigned | .revokeNotClosed
  | .policyOther => .seq
  | .mutualDestinationAllowlisted => .dest
  | .mutualNoPendingHtlcs => .htlcs
  | .mutualValueMatches | .mutualOther => .value
  | .onchainFormatStandard => .format

/-! ### the policy filter -/

def ruleMatches (r : Rule) (tag : String) : Bool :=
  if r.isPrefix then r.tag.isPrefixOf tag else tag == r.tag

/-- `PolicyFilter::filter`: first matching rule wins, no match = Error. -/
def filterEval : List Rule → String → Action
  | [], _ => .error
  | r :: rs, tag => if ruleMatches r tag then r.action else filterEval rs tag

/-- `PolicyFilter::new_permissive()` -/
def permissiveFilter : List Rule := [⟨"", true, .warn⟩]

/-- SimplePolicy (the fields the modelled paths read) + which validator wraps it. -/
structure Policy extends RawPolicy where
  /-- `OnchainValidatorFactory` (true) or `SimpleValidatorFactory` (false) -/
  onchain : Bool

/-- does the filter keep `tag` an error? -/
def errs (p : Policy) (t : Tag) : Bool := filterEval p.filter t.name == .error

/-- `policy_err!`: an error unless the filter downgrades the tag (then execution continues). -/
def policyErr (p : Policy) (t : Tag) : Except Kind Unit :=
  if errs p t then .error t.kind else .ok ()

/-- `if bad { policy_err!(..) }` -/
def check (p : Policy) (t : Tag) (bad : Bool) : Except Kind Unit :=
  if bad then policyErr p t else .ok ()

/-- `cond.ok_or_else(|| policy_error(..))?` : never filtered -/
def hard (k : Kind) (bad : Bool) : Except Kind Unit :=
  if bad then .error k else .ok ()

/-- `if b { x }` as a statement -/
def whenE (b : Bool) (x : Except Kind Unit) : Except Kind Unit := if b then x else .ok ()

/-- plain `a + b` on u64 in an overflow-checked build -/
def addU64 (a b : Nat) : Except Kind Nat := if a + b ≤ U64.MAX then .ok (a + b) else .error .panic
/-- plain `a + b` on u32 in an overflow-checked build -/
def addU32 (a b : Nat) : Except Kind Nat := if a + b ≤ U32.MAX then .ok (a + b) else .error .panic
/-- plain `a * b` on u64 in an overflow-checked build -/
def mulU64 (a b : Nat) : Except Kind Nat := if a * b ≤ U64.MAX then .ok (a * b) else .error .panic

/-! ### data -/

structure Setup where
  isOutbound : Bool
  channelValue : Nat          -- u64
  pushMsat : Nat              -- u64
  holderDelay : Nat           -- u16, holder_selected_contest_delay
  cpDelay : Nat               -- u16, counterparty_selected_contest_delay
  ctype : CType
  /-- upfront holder shutdown script (opaque id), if one was fixed -/
  upfront : Option Nat
  /-- wallet.can_spend(holder_shutdown_key_path, script) -/
  upfrontSpendable : Bool
  /-- wallet.allowlist_contains(script, path) -/
  upfrontAllowlisted : Bool
deriving DecidableEq, Repr

def Setup.isAnchors (s : Setup) : Bool := s.ctype == .anchors || s.ctype == .anchorsZeroFeeHtlc
def Setup.isZeroFeeHtlc (s : Setup) : Bool := s.ctype == .anchorsZeroFeeHtlc

structure ChainState where
  height : Nat                -- u32
  fundingDepth : Nat          -- u32
  closingDepth : Nat          -- u32
deriving DecidableEq, Repr

structure Htlc where
  value : Nat                 -- u64 (sat)
  expiry : Nat                -- u32
  /-- payment hash (opaque id; only equality matters) -/
  hash : Nat
deriving DecidableEq, Repr

/-- CommitmentInfo2 -/
structure Info where
  isCp : Bool                 -- is_counterparty_broadcaster
  toBroadcaster : Nat         -- u64
  toCountersigner : Nat       -- u64
  offered : List Htlc
  received : List Htlc
  feerate : Nat               -- u32
deriving DecidableEq, Repr

/-- `impl Ord for HTLCInfo2`: value, then payment hash, then expiry -/
def htlcLe (a b : Htlc) : Bool :=
  decide (a.value < b.value) ||
    (a.value == b.value && (decide (a.hash < b.hash) || (a.hash == b.hash && decide (a.expiry ≤ b.expiry))))

def insertHtlc (h : Htlc) : List Htlc → List Htlc
  | [] => [h]
  | x :: xs => if htlcLe h x then h :: x :: xs else x :: insertHtlc h xs

/-- `Vec::sort` on HTLCInfo2 -/
def sortHtlcs (l : List Htlc) : List Htlc := l.foldr insertHtlc []

/-- `CommitmentInfo2::new` (normalises the HTLC order) -/
def Info.new (isCp : Bool) (toCountersigner toBroadcaster : Nat) (offered received : List Htlc) (feerate : Nat) : Info :=
  ⟨isCp, toBroadcaster, toCountersigner, sortHtlcs offered, sortHtlcs received, feerate⟩

def sumValues (l : List Htlc) : Nat := (l.map (·.value)).sum

/-- total of all outputs, unbounded -/
def Info.total (i : Info) : Nat := i.toBroadcaster + i.toCountersigner + sumValues i.offered + sumValues i.received

/-- `value_to_parties` = (holder, counterparty) -/
def Info.toHolder (i : Info) : Nat := if i.isCp then i.toCountersigner else i.toBroadcaster
def Info.toCounterparty (i : Info) : Nat := if i.isCp then i.toBroadcaster else i.toCountersigner
/-- HTLCs offered by the holder in this commitment -/
def Info.holderOffered (i : Info) : List Htlc := if i.isCp then i.received else i.offered
def Info.htlcsEmpty (i : Info) : Bool := i.offered.isEmpty && i.received.isEmpty

/-- EnforcementState (fields read or written on the modelled paths) -/
structure EState where
  nextHolder : Nat
  nextCp : Nat
  nextRevoke : Nat
  curCpPoint : Option Nat
  prevCpPoint : Option Nat
  curHolderInfo : Option Info
  nextHolderInfo : Option Info
  curCpInfo : Option Info
  prevCpInfo : Option Info
  closed : Bool
deriving DecidableEq, Repr

def EState.init : EState :=
  { nextHolder := 0, nextCp := 0, nextRevoke := 0, curCpPoint := none, prevCpPoint := none,
    curHolderInfo := none, nextHolderInfo := none, curCpInfo := none, prevCpInfo := none, closed := false }

/-! ### constants -/

/-- LDK `INITIAL_COMMITMENT_NUMBER` = 2^48 - 1 -/
def initialCommitmentNumber : Nat := 281474976710655
def htlcTimeoutWeight : Nat := 663   -- LDK HTLC_TIMEOUT_TX_WEIGHT (non zero-fee)
def htlcSuccessWeight : Nat := 703   -- LDK HTLC_SUCCESS_TX_WEIGHT (non zero-fee)

/-- `expected_commitment_tx_weight` -/
def commitmentWeight (anchors : Bool) (nHtlc : Nat) : Nat :=
  (if anchors then Gen.Policy.commitmentBaseAnchorWeight else Gen.Policy.commitmentBaseWeight)
    + nHtlc * Gen.Policy.commitmentWeightPerHtlc

/-- the rate `validate_fee` compares (after fix 3751e9c): `(fee as u128 * 1000 + 999) / weight as u128`,
    exact -- a u64 fee cannot overflow u128 here -- and no longer clamped into u32.
    `weight = 0` would be a division panic; both call sites pass a positive weight. -/
def exactFeerate (fee weight : Nat) : Nat := (fee * 1000 + 999) / weight

/-! ### SimpleValidator pieces -/

/-- `validate_delay(name, delay)` with the tag built from `name` -/
def validateDelay (p : Policy) (t : Tag) (delay : Nat) : Except Kind Unit := do
  check p t (decide (delay < p.minDelay))
  check p t (decide (delay > p.maxDelay))

def isSafeType (c : CType) : Bool := Gen.Policy.safeCommitmentTypes.contains c

/-- `SimpleValidator::validate_setup_channel` -/
def validateSetupChannel (p : Policy) (s : Setup) : Except Kind Unit := do
  check p .channelSafeType (!isSafeType s.ctype)
  validateDelay p .delayHolder s.cpDelay
  validateDelay p .delayCounterparty s.holderDelay
  match s.upfront with
  | none => pure ()
  | some _ => check p .mutualDestinationAllowlisted (!s.upfrontSpendable && !s.upfrontAllowlisted)

/-- `Node::setup_channel` as far as it decides: the funder's `channel_value_sat * 1000` (plain `*`),
    `checked_sub(push_value_msat)` (unfiltered), then `validate_setup_channel`. -/
def setupChannel (p : Policy) (s : Setup) : Except Kind Unit := do
  whenE s.isOutbound (do
    let v ← mulU64 s.channelValue 1000
    hard .balance (decide (v < s.pushMsat)))
  validateSetupChannel p s

/-- `validate_channel_value` -/
def validateChannelValue (p : Policy) (s : Setup) : Except Kind Unit :=
  check p .fundingMax (decide (s.channelValue > p.maxChannelSize))

/-- `validate_expiry` -/
def validateExpiry (p : Policy) (c : ChainState) (expiry : Nat) : Except Kind Unit := do
  check p .htlcCltvRange (decide (expiry ≥ Gen.Policy.maxCltvExpiry))
  if p.useChainState then
    let lo ← addU32 c.height p.minDelay
    check p .htlcCltvRange (decide (expiry < lo))
    let hi ← addU32 c.height p.maxDelay
    check p .htlcCltvRange (decide (expiry > hi))

/-- `validate_fee(tag, sum_inputs, sum_outputs, weight)` -/
def validateFee (p : Policy) (t : Tag) (sumIn sumOut weight : Nat) : Except Kind Unit := do
  hard .fee (decide (sumIn < sumOut))
  let rate := exactFeerate (sumIn - sumOut) weight
  check p t (decide (rate < p.minFeerate))
  check p t (decide (rate > p.maxFeerate))

/-- one HTLC loop of `validate_commitment_tx`: expiry, running `checked_add`, dust limit -/
def checkHtlcs (p : Policy) (c : ChainState) (limit : Nat) : List Htlc → Nat → Except Kind Nat
  | [], acc => .ok acc
  | h :: rest, acc => do
    validateExpiry p c h.expiry
    hard .overflow (decide (acc + h.value > U64.MAX))
    check p .outputsTrimmed (decide (h.value < limit))
    checkHtlcs p c limit rest (acc + h.value)

def offeredDustLimit (s : Setup) (feerate : Nat) : Nat :=
  if s.isZeroFeeHtlc then Gen.Policy.minChanDustLimit
  else Gen.Policy.minDustLimit + feerate * htlcTimeoutWeight / 1000

def receivedDustLimit (s : Setup) (feerate : Nat) : Nat :=
  if s.isZeroFeeHtlc then Gen.Policy.minChanDustLimit
  else Gen.Policy.minDustLimit + feerate * htlcSuccessWeight / 1000

/-- `SimpleValidator::validate_commitment_tx` (common to holder and counterparty commitments) -/
def validateCommitmentTx (p : Policy) (s : Setup) (c : ChainState) (n : Nat) (i : Info) :
    Except Kind Unit := do
  check p .outputsTrimmed (decide (i.toBroadcaster > 0 ∧ i.toBroadcaster < Gen.Policy.minChanDustLimit))
  check p .outputsTrimmed (decide (i.toCountersigner > 0 ∧ i.toCountersigner < Gen.Policy.minChanDustLimit))
  check p .htlcCountLimit (decide (i.offered.length + i.received.length > p.maxHtlcs))
  let v1 ← checkHtlcs p c (offeredDustLimit s i.feerate) i.offered 0
  let v2 ← checkHtlcs p c (receivedDustLimit s i.feerate) i.received v1
  check p .htlcInflightLimit (decide (v2 > p.maxHtlcValue))
  let w := commitmentWeight s.isAnchors (i.offered.length + i.received.length)
  hard .overflow (decide (i.toBroadcaster + i.toCountersigner > U64.MAX))
  hard .overflow (decide (i.toBroadcaster + i.toCountersigner + v2 > U64.MAX))
  validateFee p .commitmentFeeRange s.channelValue (i.toBroadcaster + i.toCountersigner + v2) w
  if n = 0 then
    check p .firstNoHtlcs (decide (i.offered.length + i.received.length > 0))
    if s.isOutbound then
      check p .initialFundingValue (decide (i.toCounterparty > s.pushMsat / 1000))

/-- `OnchainValidator::ensure_funding_buried_and_unspent` -/
def ensureFundingBuried (p : Policy) (c : ChainState) (n : Nat) : Except Kind Unit := do
  if n > 0 then
    check p .spendsActiveUtxo (decide (c.fundingDepth < Gen.Policy.minFundingDepth))
    check p .spendsActiveUtxo (decide (c.closingDepth > 0))

/-- `get_previous_counterparty_point` / `get_previous_counterparty_commit_info` selector.
    (`num + 1`, `num + 2` are plain additions: callers guard the overflow.) -/
def prevSel {α} (e : EState) (n : Nat) (cur prev : Option α) : Option α :=
  if n + 1 = e.nextCp then cur else if n + 2 = e.nextCp then prev else none

/-- retry of a counterparty commitment: the point must be the recorded one -/
def cpRetryPoint (p : Policy) (e : EState) (point : Nat) : Except Kind Unit :=
  match e.curCpPoint with
  | none => policyErr p .retrySame
  | some prev => check p .retrySame (decide (point ≠ prev))

/-- retry of a holder commitment: same content (`expect` = panic when no current info) -/
def holderRetry (p : Policy) (e : EState) (i : Info) : Except Kind Unit :=
  match e.curHolderInfo with
  | none => .error .panic
  | some cur => check p .retrySame (decide (i ≠ cur))

/-- `validate_counterparty_commitment_tx` (on-chain wrapper when `p.onchain`) -/
def validateCounterparty (p : Policy) (s : Setup) (c : ChainState) (e : EState) (n : Nat) (point : Nat)
    (i : Info) : Except Kind Unit := do
  whenE p.onchain (ensureFundingBuried p c n)
  validateCommitmentTx p s c n i
  let r1 ← addU64 e.nextRevoke 1
  check p .previousRevoked (decide (n > r1))
  let n1 ← addU64 n 1
  whenE (decide (n1 = e.nextCp)) (do
    cpRetryPoint p e point
    -- get_previous_counterparty_commit_info(commit_num): `num + 1 == next` holds here
    check p .retrySame (decide (some i ≠ e.curCpInfo)))

/-- `validate_holder_commitment_tx` (on-chain wrapper when `p.onchain`).
    `expect("current_holder_commit_info")` is a panic when the info is missing. -/
def validateHolder (p : Policy) (s : Setup) (c : ChainState) (e : EState) (n : Nat) (i : Info) :
    Except Kind Unit := do
  whenE (p.onchain && decide (e.nextHolder ≤ n)) (ensureFundingBuried p c n)
  validateCommitmentTx p s c n i
  let n1 ← addU64 n 1
  whenE (decide (n1 = e.nextHolder)) (holderRetry p e i)
  let n2 ← addU64 n 2
  check p .holderNotRevoked (decide (n2 ≤ e.nextHolder))
  check p .spendsActiveUtxo (decide (n = e.nextHolder ∧ e.closed))

/-- The decision function named in DESIGN.md: the validator's verdict on commitment `n` with content `i`
    in enforcement state `e` (counterparty commitments carry the per-commitment point id). -/
def validateCommitment (p : Policy) (s : Setup) (c : ChainState) (e : EState) (n : Nat) (i : Info)
    (point : Nat := 0) : Except Kind Unit :=
  if i.isCp then validateCounterparty p s c e n point i else validateHolder p s c e n i

/-! ### the `expect`s of `claimable_balances` that run *before* validation -/

/-- `CommitmentInfo2::claimable_balance` on the *new* commitment (no preimages known): does it panic?
    outbound: `total_value()` (plain `+`, `sum()`) overflows or exceeds the channel value;
    inbound: `to_holder + Σ holder-offered` overflows. -/
def claimablePanics (s : Setup) (i : Info) : Bool :=
  if s.isOutbound then decide (i.total > s.channelValue ∨ i.total > U64.MAX)
  else decide (i.toHolder + sumValues i.holderOffered > U64.MAX)

/-- `htlc.value_sat * 1000` in `htlcs_info2_to_oic` / `validate_payments` (plain `*`), and
    `invoiced + max_routing_fee_msat` for the holder's outgoing HTLCs (each backed by an invoice of
    exactly its amount in the harness) -/
def msatPanics (p : Policy) (i : Info) : Bool :=
  (i.offered ++ i.received).any (fun h => decide (h.value * 1000 > U64.MAX))
  || i.holderOffered.any (fun h => decide (h.value * 1000 + p.maxRoutingFeeMsat > U64.MAX))

/-- LDK `build_htlc_transaction` computes `amount − feerate·weight/1000` with a panicking `Amount`
    subtraction (no fee for zero-fee-HTLC anchors).  Only reachable when the trim-limit check was
    downgraded by the filter; the signer wraps the call in `catch_panic!` and answers with an internal
    error. -/
def htlcTxUnderflow (s : Setup) (i : Info) : Bool :=
  !s.isZeroFeeHtlc &&
    (i.offered.any (fun h => decide (h.value < i.feerate * htlcTimeoutWeight / 1000)) ||
     i.received.any (fun h => decide (h.value < i.feerate * htlcSuccessWeight / 1000)))

/-! ### enforcement-state updates -/

/-- `Validator::set_next_counterparty_commit_num` + `EnforcementState::set_next_counterparty_commit_num` -/
def setNextCpCommit (p : Policy) (e : EState) (num : Nat) (point : Nat) (i : Info) : Except Kind EState := do
  whenE (decide (num = 0)) (policyErr p .policyOther)
  let delta := if num = 1 then 1 else 2
  check p .previousRevoked (decide (num < e.nextRevoke + delta))
  let cur := e.nextCp
  check p .previousRevoked (decide (num ≠ cur ∧ num ≠ cur + 1))
  whenE (decide (num = 0)) (.error .panic)  -- assert!(num > 0)
  let e1 : EState :=
    if num = cur + 1 then { e with prevCpPoint := e.curCpPoint, prevCpInfo := e.curCpInfo, curCpInfo := none }
    else if num > cur + 1 ∨ num < cur then { e with prevCpPoint := none, prevCpInfo := none }
    else e
  let e2 : EState :=
    if num ≥ cur + 1 then { e1 with curCpPoint := some point, curCpInfo := some i } else e1
  pure { e2 with nextCp := num }

/-- `Validator::set_next_counterparty_revoke_num` + `EnforcementState::set_next_counterparty_revoke_num` -/
def setNextCpRevoke (p : Policy) (e : EState) (num : Nat) : Except Kind EState := do
  whenE (decide (num = 0)) (policyErr p .policyOther)
  check p .previousRevoked (decide (num + 2 < e.nextCp))
  check p .previousRevoked (decide (num + 1 > e.nextCp))
  check p .previousRevoked (decide (num ≠ e.nextRevoke ∧ num ≠ e.nextRevoke + 1))
  whenE (decide (num = 0)) (.error .panic)  -- assert_ne!(num, 0)
  let e1 : EState := if num + 1 ≥ e.nextCp then { e with prevCpInfo := none } else e
  pure { e1 with nextRevoke := num }

/-! ### entry points (channel.rs) -/

/-- `Channel::sign_counterparty_commitment_tx_phase2` (`phase1 = false`) and
    `Channel::sign_counterparty_commitment_tx` on a transaction built from the same values (`phase1 = true`):
    new enforcement state when the signature is returned.  The two differ in one place: phase 2 signs the
    HTLC transactions as well (`keys.sign_counterparty_commitment`), phase 1 signs the commitment only
    (`built_tx.sign_counterparty_commitment`), so LDK's `build_htlc_transaction` is never reached there. -/
def signCounterparty (p : Policy) (s : Setup) (c : ChainState) (e : EState) (n : Nat) (point : Nat)
    (i : Info) (phase1 : Bool) : Except Kind EState := do
  validateChannelValue p s
  whenE (claimablePanics s i) (.error .panic)
  validateCounterparty p s c e n point i
  whenE (msatPanics p i) (.error .panic)
  -- make_counterparty_commitment_tx: `INITIAL_COMMITMENT_NUMBER - commitment_number` (plain `-`)
  whenE (decide (n > initialCommitmentNumber)) (.error .panic)
  -- phase 2 only: keys.sign_counterparty_commitment (commitment + HTLC txs) inside catch_panic!: "failed to sign"
  hard .other (!phase1 && htlcTxUnderflow s i)
  let n1 ← addU64 n 1
  setNextCpCommit p e n1 point i

/-- `Channel::validate_holder_commitment_tx_phase2`; `sigsOk` = the counterparty signatures verify
    against the recomposed transactions (computed by the harness with the real library). -/
def validateHolderPhase2 (p : Policy) (s : Setup) (c : ChainState) (e : EState) (n : Nat) (i : Info)
    (sigsOk : Bool) : Except Kind EState := do
  -- get_per_commitment_point: `commitment_number > next_holder_commit_num + 1` (unfiltered)
  hard .seq (decide (n > e.nextHolder + 1))
  whenE (claimablePanics s i) (.error .panic)
  validateHolder p s c e n i
  whenE (msatPanics p i) (.error .panic)
  hard .sig (!sigsOk)
  pure (if n = e.nextHolder then { e with nextHolderInfo := some i } else e)

/-- `Channel::validate_holder_commitment_tx` (PHASE 1, the transaction handed over was built from the same
    values): unlike phase 2 it re-validates the channel value, and the `claimable_balance` `expect`s run
    *after* the validator. -/
def validateHolderPhase1 (p : Policy) (s : Setup) (c : ChainState) (e : EState) (n : Nat) (i : Info)
    (sigsOk : Bool) : Except Kind EState := do
  hard .seq (decide (n > e.nextHolder + 1))
  validateChannelValue p s
  validateHolder p s c e n i
  whenE (msatPanics p i) (.error .panic)
  whenE (claimablePanics s i) (.error .panic)
  hard .sig (!sigsOk)
  pure (if n = e.nextHolder then { e with nextHolderInfo := some i } else e)

/-- `Channel::revoke_previous_holder_commitment` (state effect only; the secret is C01/C02's subject) -/
def revokeHolder (p : Policy) (e : EState) (n : Nat) : Except Kind EState := do
  if n ≠ e.nextHolder then
    -- release_commitment_secret(n): point n+1 must be ≤ next+1; secret n-1 needs n+1 ≤ next
    hard .seq (decide (n + 1 > e.nextHolder + 1))
    whenE (decide (n ≥ 1)) (check p .revokeNewCommitmentSigned (decide (n - 1 + 2 > e.nextHolder)))
    pure e
  else
    check p .revokeNotClosed e.closed
    match e.nextHolderInfo with
    | none =>
      policyErr p .revokeNewCommitmentSigned
      pure e
    | some i =>
      pure { e with nextHolderInfo := none, nextHolder := n + 1, curHolderInfo := some i }

def cpRevokePoint (p : Policy) (e : EState) (n truePoint : Nat) : Except Kind Unit :=
  match prevSel e n e.curCpPoint e.prevCpPoint with
  | none => policyErr p .previousRevoked
  | some prev => check p .previousRevoked (decide (truePoint ≠ prev))

/-- `Channel::validate_counterparty_revocation` with the *true* secret of counterparty commitment `n`
    (its point id is `truePoint`). -/
def cpRevoke (p : Policy) (e : EState) (n : Nat) (truePoint : Nat) : Except Kind EState := do
  let n1 ← addU64 n 1
  check p .previousRevoked (decide (n ≠ e.nextRevoke ∧ n1 ≠ e.nextRevoke))
  -- `num + 2 == next` in get_previous_counterparty_point
  whenE (decide (n1 ≠ e.nextCp)) (do let _ ← addU64 n 2; pure ())
  cpRevokePoint p e n truePoint
  setNextCpRevoke p e n1

end VlsModel.Policy
