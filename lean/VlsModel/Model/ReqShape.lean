/-
Shapes of request functions: the order of refusing checks, state mutations and persist calls.

`translate/x_reqshape.py` cuts every state-changing function of vls-core/src/channel.rs and
vls-core/src/node.rs into statements and classifies them (Gen/ReqShape.lean).  This file gives the
vocabulary and the two syntactic measures the property files reason about:

* `lateChecks`: how many refusing statements come after the first effect (mutation or persist call).
  A `mutate c true` is a mutation made by a call that can itself refuse (e.g.
  `validator.set_next_counterparty_commit_num(&mut self.enforcement_state, ..)?`); such callees check
  first and then assign (validator.rs; modelled in Model/Enforcement.lean), so the statement counts as
  a check followed by an effect.
* `dirty`: which components were mutated and not written to the store afterwards.
-/
namespace VlsModel.ReqShape

/-- state components a statement can change -/
inductive Comp
  | chan      -- the channel's EnforcementState
  | node      -- allowlist, approved invoices, payment velocity control, channel-id high-water mark
  | issued    -- invoices issued by the node (receiving side)
  | fee       -- fee velocity control
  | ledger    -- per-hash payment bookkeeping (re-derived from the channels at restore)
  | map       -- the node's channel map
  | tracker   -- the chain tracker's listeners
  | monitor   -- a channel monitor's state (persisted inside the tracker entry)
  deriving DecidableEq, Repr

def Comp.all : List Comp := [.chan, .node, .issued, .fee, .ledger, .map, .tracker, .monitor]

inductive Ev
  | check
  | mutate (c : Comp) (fallible : Bool)
  | persist (c : Comp)
  deriving DecidableEq, Repr

def lateChecksAux : Bool → List Ev → Nat
  | _, [] => 0
  | seen, .check :: r => (if seen then 1 else 0) + lateChecksAux seen r
  | seen, .mutate _ f :: r => (if seen && f then 1 else 0) + lateChecksAux true r
  | _, .persist _ :: r => lateChecksAux true r

/-- number of refusing statements after the first effect -/
def lateChecks (evs : List Ev) : Nat := lateChecksAux false evs

/-- the persister call that writes a component (`none`: not written by any call of its own — the
    component is derived, or persisted with the next write of the node entry) -/
def persistedBy : Comp → Option Comp
  | .chan => some .chan
  | .node => some .node
  | .tracker => some .tracker
  | .map => some .chan        -- new_channel / delete_channel / update_channel
  | .monitor => some .tracker -- the monitor state is part of the tracker entry
  | .issued => none
  | .fee => none
  | .ledger => none

def dirtyAux (d : Comp → Bool) : List Ev → Comp → Bool
  | [] => d
  | .check :: r => dirtyAux d r
  | .mutate c _ :: r => dirtyAux (fun x => x == c || d x) r
  | .persist c :: r => dirtyAux (fun x => if persistedBy x == some c then false else d x) r

/-- components mutated and not persisted afterwards -/
def dirty (evs : List Ev) : Comp → Bool := dirtyAux (fun _ => false) evs

/-- the components with a persist call of their own that a function leaves dirty -/
def leftDirty (evs : List Ev) : List Comp :=
  Comp.all.filter (fun c => (persistedBy c).isSome && dirty evs c)

end VlsModel.ReqShape
