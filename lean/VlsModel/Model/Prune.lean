import VlsModel.Gen.Chain
import VlsModel.Model.Monitor
/-
Executable model of the channel life cycle at node level (property C15):
`Node::{new_channel, setup_channel, forget_channel, get_heartbeat → prune_channels}`, block
connection/disconnection as the protocol handler performs it (tracker call + `update_tracker`), and
restart (`Node::restore_node` from the persister).

State = in-memory node (channel map stub/ready, `dbid_high_water_mark`, tracker height, the monitors
as tracker listeners) + the persisted copy (`Store`).  Every operation performs the persister writes
the code performs, in the code's order; `restart` reloads the in-memory part from `Store`.

Whether `forget_channel` persists the tracker entry (which carries the monitor's forget flag, F12) is
read from the source by the translator (`Gen.Chain.forgetPersistsTracker`).

`find_or_create_channel`'s capacity guard (`channels.len() >= policy.max_channels()`, checked after the
high-water mark and *before* the slot lookup, so that at capacity even an existing id is refused) is modelled with
the configured limit `Node.maxChannels` (default: `MAX_CHANNELS` of `policy/mod.rs`, read by the translator).

Not modelled: validation of the channel setup (the harness uses valid
setups), channels with a second (permanent) id, tracker-level header/proof validation (C13).
-/
namespace VlsModel.Prune
open VlsModel.Monitor VlsModel.Gen.Chain

inductive ChanSlot where
  | stub (blockheight : Nat)
  | ready (key : Nat)              -- key of its monitor in the tracker (funding outpoint)
  deriving Repr, DecidableEq, Inhabited

structure Store where
  channels : List (Nat × ChanSlot)
  hwm : Nat
  height : Nat
  listeners : List (Nat × Listener)
  deriving Repr, DecidableEq, Inhabited

structure Node where
  channels : List (Nat × ChanSlot)   -- dbid ↦ slot
  hwm : Nat                          -- dbid_high_water_mark
  height : Nat                       -- tracker height
  listeners : List (Nat × Listener)  -- tracker listeners (monitor state + ListenSlot)
  regtest : Bool
  maxChannels : Nat                  -- `policy.max_channels()`: configuration, not persisted, unchanged by a restart
  store : Store
  deriving Repr, DecidableEq, Inhabited

inductive Out where
  | ok | err | panic
  deriving Repr, DecidableEq, Inhabited

def Node.init (height : Nat) (regtest : Bool) (maxChannels : Nat := maxChannelsDefault) : Node :=
  { channels := [], hwm := 0, height, listeners := [], regtest, maxChannels,
    store := { channels := [], hwm := 0, height, listeners := [] } }

/-! association-list helpers -/

def lookup {β} (k : Nat) : List (Nat × β) → Option β
  | [] => none
  | (k', v) :: r => if k' = k then some v else lookup k r

def erase {β} (k : Nat) (l : List (Nat × β)) : List (Nat × β) := l.filter (fun e => e.1 ≠ k)

def insert {β} (k : Nat) (v : β) (l : List (Nat × β)) : List (Nat × β) := (k, v) :: erase k l

def update {β} (k : Nat) (f : β → β) : List (Nat × β) → List (Nat × β)
  | [] => []
  | (k', v) :: r => if k' = k then (k', f v) :: r else (k', v) :: update k f r

/-! ### operations -/

/-- `Node::new_channel(dbid, …)` -/
def newChannel (n : Node) (d : Nat) : Node × Out :=
  if n.hwm ≥ d then (n, .err)                          -- policy-channel-original-channel-id-reuse
  else if n.channels.length ≥ n.maxChannels then (n, .err)   -- "too many channels" (before the slot lookup)
  else match lookup d n.channels with
    | some _ => (n, .ok)                               -- existing slot returned
    | none =>
      ({ n with channels := insert d (.stub n.height) n.channels,
                store := { n.store with channels := insert d (.stub n.height) n.store.channels } }, .ok)

/-- `setup_channel` (+ registration of the funding inputs as `sign_onchain_tx` does + tracker persist) -/
def setup (n : Node) (d key fundTxid fundVout : Nat) (inputs : List OutPoint) : Node × Out :=
  match lookup d n.channels with
  | none => (n, .err)
  | some (.ready _) => (n, .ok)
  | some (.stub _) =>
    let l : Listener := { st := State.init n.height fundTxid fundVout inputs,
                          slot := { txidWatches := [fundTxid], watches := inputs, seen := [] } }
    let ls := insert key l n.listeners
    let ch := insert d (.ready key) n.channels
    let st : Store :=
      { n.store with
        channels := insert d (.ready key) n.store.channels
        listeners := ls
        height := n.height }
    ({ n with channels := ch, listeners := ls, store := st }, .ok)

def setForget (l : Listener) : Listener := { l with st := { l.st with sawForget := true } }

/-- `Node::forget_channel` -/
def forget (n : Node) (d : Nat) : Node × Out :=
  match lookup d n.channels with
  | none => (n, .ok)
  | some slot =>
    let hwm' := if d > n.hwm then d else n.hwm
    match slot with
    | .stub _ =>
      ({ n with hwm := hwm', channels := erase d n.channels,
                store := { n.store with hwm := hwm', channels := erase d n.store.channels } }, .ok)
    | .ready key =>
      let ls := update key setForget n.listeners
      let st : Store :=
        { n.store with
          hwm := hwm'
          listeners := (if forgetPersistsTracker then ls else n.store.listeners)
          height := (if forgetPersistsTracker then n.height else n.store.height) }
      ({ n with hwm := hwm', listeners := ls, store := st }, .ok)

def stubPruneTime (regtest : Bool) : Nat :=
  if regtest then channelStubPruneBlocks + channelStubPruneRegtestExtra else channelStubPruneBlocks

/-- should `prune_channels` remove this entry? -/
def prunable (n : Node) (slot : ChanSlot) : Bool :=
  match slot with
  | .ready key =>
    match lookup key n.listeners with
    | some l => l.st.isDone minDepth
    | none => false
  | .stub bh => n.height - bh > stubPruneTime n.regtest

/-- `get_heartbeat` → `prune_channels` -/
def heartbeat (n : Node) : Node × Out :=
  let gone := n.channels.filter (fun e => prunable n e.2)
  let keep := n.channels.filter (fun e => !prunable n e.2)
  let goneKeys := gone.filterMap (fun e => match e.2 with | .ready k => some k | .stub _ => none)
  let ls := n.listeners.filter (fun e => !goneKeys.contains e.1)
  let goneIds := gone.map (·.1)
  let st : Store :=
    { n.store with
      channels := n.store.channels.filter (fun e => !goneIds.contains e.1)
      listeners := (if goneKeys.isEmpty then n.store.listeners else ls)
      height := (if goneKeys.isEmpty then n.store.height else n.height) }
  ({ n with channels := keep, listeners := ls, store := st }, .ok)

def mapL (f : Listener → Option Listener) : List (Nat × Listener) → Option (List (Nat × Listener))
  | [] => some []
  | (k, l) :: r => match f l with
    | none => none
    | some l' => (mapL f r).map ((k, l') :: ·)

/-- handler `AddBlock`: tracker.add_block (valid block) + update_tracker -/
def addBlock (n : Node) (txs : List Tx) : Node × Out :=
  match mapL (·.add txs) n.listeners with
  | none => (n, .panic)
  | some ls =>
    ({ n with listeners := ls, height := n.height + 1,
              store := { n.store with listeners := ls, height := n.height + 1 } }, .ok)

/-- handler `RemoveBlock` -/
def removeBlock (n : Node) (txs : List Tx) : Node × Out :=
  if n.height = 0 then (n, .panic) else
  match mapL (·.remove txs) n.listeners with
  | none => (n, .panic)
  | some ls =>
    ({ n with listeners := ls, height := n.height - 1,
              store := { n.store with listeners := ls, height := n.height - 1 } }, .ok)

/-- crash + `Node::restore_node` -/
def restart (n : Node) : Node × Out :=
  ({ n with channels := n.store.channels, hwm := n.store.hwm, height := n.store.height,
            listeners := n.store.listeners }, .ok)

inductive Op where
  | newChannel (d : Nat)
  | setup (d key fundTxid fundVout : Nat) (inputs : List OutPoint)
  | forget (d : Nat)
  | heartbeat
  | addBlock (txs : List Tx)
  | removeBlock (txs : List Tx)
  | restart
  deriving Repr, Inhabited

def step (n : Node) : Op → Node × Out
  | .newChannel d => newChannel n d
  | .setup d k t v i => setup n d k t v i
  | .forget d => forget n d
  | .heartbeat => heartbeat n
  | .addBlock txs => addBlock n txs
  | .removeBlock txs => removeBlock n txs
  | .restart => restart n

def run (n : Node) : List Op → Node
  | [] => n
  | op :: ops => run (step n op).1 ops

end VlsModel.Prune
