import VlsModel.Model.Bolt3
/-
The policy filter (`vls-core/src/policy/filter.rs`) as far as property C04 needs it: whether the tag `policy-commitment`
("recomposed tx mismatch", raised by `sign_counterparty_commitment_tx` through `policy_err!`) is still an error.

Until round 7 this was an input Boolean of the model (`Env.mismatchIsError`), computed by the harness.  Now the rules of
the node's filter are given to the model (`filter` op of the driver) and `mismatchIsError` is computed by
`filterIsError`, which is proved equal to the body of `PolicyFilter::filter` regenerated from the source
(`Props/C04Fn.lean`, `C04_fn_policy_filter`).
-/
namespace VlsModel.Bolt3

structure FRule where
  tag : String
  isPrefix : Bool
  /-- the rule's action is `FilterResult::Warn` -/
  warn : Bool
deriving DecidableEq, Repr

/-- `if rule.is_prefix { tag.starts_with(&rule.tag) } else { *tag == rule.tag }` -/
def FRule.matchesTag (r : FRule) (tag : String) : Bool :=
  if r.isPrefix then r.tag.isPrefixOf tag else tag == r.tag

/-- `PolicyFilter::filter(tag) == FilterResult::Error`: the first matching rule decides; no matching rule: Error -/
def filterIsError : List FRule → String → Bool
  | [], _ => true
  | r :: rs, tag => if r.matchesTag tag then !r.warn else filterIsError rs tag

/-- the tag of the equality test of the raw entry point -/
def TAG_COMMITMENT : String := "policy-commitment"

/-- `Env.mismatchIsError` of a node whose policy filter has these rules -/
def mismatchIsErrorOf (rules : List FRule) : Bool := filterIsError rules TAG_COMMITMENT

end VlsModel.Bolt3
