import VlsModel.Model.Tracker
/-
The `AddBlock` / `RemoveBlock` / `BlockChunk` arms of `RootHandler::do_handle`
(`vls-protocol-signer/src/handler.rs`, third anchor file of C13) on top of the tracker model: how a tracker outcome is
turned into a reply or into a process abort, and when the tracker entry is persisted.

    AddBlock:     proof missing            -> tracker.abort_streamed_block(); reply Err(invalid_argument)
                  add_block Ok             -> persister.update_tracker(); reply AddBlockReply
                  add_block Err(Orphan..)  -> reply SignerError { CODE_ORPHAN_BLOCK }        (no persist)
                  add_block Err(other)     -> panic!("add_block")                            (process abort)
    RemoveBlock:  proof missing            -> tracker.abort_streamed_block(); reply Err(invalid_argument)
                  remove_block Ok          -> persister.update_tracker(); reply RemoveBlockReply
                  remove_block Err(any)    -> .expect("remove_block")                        (process abort)
    BlockChunk:   block_chunk(..).expect("block_chunk"); reply BlockChunkReply               (no persist)

The shape of these arms is read from the source by `translate/x_chain.py` (fail closed; `Gen.Chain.handler*`), the
classification is observed on the real `RootHandler` by the harness group `C13#1` (`c13_handler.rs`).

State: the tracker in memory, the last persisted `ChainTrackerEntry` (= `Tracker.View`: headers, tip, height,
listeners; the stream scratch is not persisted) and the configuration a restart re-installs (network, trusted oracle
set, deep-reorg flag: `Node::new_from_persistence`).  A process abort leaves memory meaningless; `hRestart` rebuilds it
from the persisted entry and the configuration.
-/
namespace VlsModel.Tracker
open VlsModel.Monitor VlsModel.Gen.Chain

/-- what the front end gets back -/
inductive HReply where
  | ok                 -- AddBlockReply / RemoveBlockReply / BlockChunkReply
  | signerError        -- SignerError { code: CODE_ORPHAN_BLOCK }
  | invalidArgument    -- Status::invalid_argument("could not deserialize proof")
  | abort              -- panic!/expect: the signer process dies
  deriving Repr, DecidableEq, Inhabited

structure HConfig where
  network : Network
  trusted : List Nat
  allowDeep : Bool
  deriving Repr, Inhabited

structure HNode where
  mem : Tracker
  store : View
  cfg : HConfig

/-- `ChainTracker::abort_streamed_block` (public since fix F19): unconditional -/
def Tracker.abortStream (t : Tracker) : Tracker := { t with decoding := none, ldec := false }

/-- the tracker `Node::new_from_persistence` builds from the persisted entry and the node's configuration -/
def Tracker.ofStore (c : HConfig) (v : View) : Tracker :=
  { headers := v.headers, tip := v.tip, height := v.height, network := c.network, listeners := v.listeners,
    decoding := none, ldec := false, trusted := c.trusted, allowDeep := c.allowDeep }

/-- `Message::AddBlock` -/
def hAddBlock (n : HNode) (hdr : Header) (proof : Option Proof) : HNode × HReply :=
  match proof with
  | none => ({ n with mem := n.mem.abortStream }, .invalidArgument)
  | some p =>
    match addBlock n.mem hdr p with
    | (t, .ok) => ({ n with mem := t, store := t.view }, .ok)
    | (t, .err .orphan) => ({ n with mem := t }, .signerError)
    | (t, _) => ({ n with mem := t }, .abort)

/-- `Message::RemoveBlock` -/
def hRemoveBlock (n : HNode) (proof : Option Proof) (prev : Headers) : HNode × HReply :=
  match proof with
  | none => ({ n with mem := n.mem.abortStream }, .invalidArgument)
  | some p =>
    match removeBlock n.mem p prev with
    | (t, .ok) => ({ n with mem := t, store := t.view }, .ok)
    | (t, _) => ({ n with mem := t }, .abort)

/-- `Message::BlockChunk` (one chunk = the whole block, as in the tracker model) -/
def hBlockChunk (n : HNode) (declared actual : Nat) : HNode × HReply :=
  match blockChunk n.mem declared actual with
  | (t, .ok) => ({ n with mem := t }, .ok)
  | (t, _) => ({ n with mem := t }, .abort)

/-- the process is started again after an abort (or at any other time) -/
def hRestart (n : HNode) : HNode := { n with mem := Tracker.ofStore n.cfg n.store }

inductive HOp where
  | add (hdr : Header) (proof : Option Proof)
  | remove (proof : Option Proof) (prev : Headers)
  | chunk (declared actual : Nat)
  | restart

def hstep (n : HNode) : HOp → HNode × HReply
  | .add h p => hAddBlock n h p
  | .remove p v => hRemoveBlock n p v
  | .chunk d a => hBlockChunk n d a
  | .restart => (hRestart n, .ok)

/-- a history as the operator lives it: after an abort the process is restarted before the next request -/
def hrun : HNode → List HOp → HNode
  | n, [] => n
  | n, op :: ops =>
    let r := hstep n op
    hrun (if r.2 = .abort then hRestart r.1 else r.1) ops

end VlsModel.Tracker
