import VlsModel.Prim.U64
import VlsModel.Gen.Onchain
import VlsModel.Model.Wallet
/-
Model of the sweep and second-level HTLC signing requests (property C09):

Rust                                                            Lean
----                                                            ----
`Channel::sign_delayed_sweep` + `validate_delayed_sweep`        `signDelayedSweep`
`Channel::sign_counterparty_htlc_sweep` + validator             `signCounterpartyHtlcSweep`
`Channel::sign_justice_sweep` + validator                       `signJusticeSweep`
`SimpleValidator::validate_sweep` (all outputs)                 `validateSweep`
`LockTime::is_satisfied_by(Height(h), Time::MIN)`               `locktimeSatisfied`
`Channel::sign_{holder,counterparty}_htlc_tx` → `sign_htlc_tx`  `signHtlcTx`
   `decode_and_validate_htlc_tx` (recomposition + sighash cmp)   `recompose`, `sighashEq`
   `validate_htlc_tx`                                            (inlined at the end of `signHtlcTx`)
LDK `build_htlc_transaction` / `htlc_*_tx_weight`                `recompose`, `htlcWeight` (validated by
                                                                 the correspondence, not extracted)

Transactions are structured: the output script of an HTLC transaction is either the revokeable script
`revokeable revKey delay delayedKey` (keys are small ids, id 0 being the key derived from the negotiated
base points for the given per-commitment point) or something else; txids are ids.  The sighash comparison
of `decode_and_validate_htlc_tx` is modelled as equality of exactly the fields the sighash commits to
(SIGHASH_ALL: everything; SIGHASH_SINGLE|ANYONECANPAY: version, locktime, input 0, output 0), i.e. under the
assumption that SHA-256d does not collide on the two serialisations (stated in notes/C08-C09.md).
-/
namespace VlsModel.Sweep
open VlsModel

/-- rust-bitcoin `LOCK_TIME_THRESHOLD`: below = block height, at/above = UNIX time -/
def lockTimeThreshold : Nat := 500000000

inductive Res
  | ok                -- a signature was returned
  | errInvalid        -- Status::invalid_argument
  | errPolicy         -- "policy failure: …"
  | errFormat         -- "transaction format: …"
  | panic
deriving DecidableEq, Repr

inductive AllowRes | yes | no | panic
deriving DecidableEq, Repr

/-- one output of a sweep with what the wallet says about it for the *request's* wallet path -/
structure SweepOut where
  canSpend : Option Bool     -- wallet.can_spend(wallet_path, script); none = Err
  allow : AllowRes           -- wallet.allowlist_contains(script, wallet_path); consulted only if ¬canSpend
deriving DecidableEq, Repr

structure SweepTx where
  version : Nat
  locktime : Nat
  nInputs : Nat
  seq0 : Nat                 -- tx.input[0].sequence (meaningful when nInputs > 0)
  outs : List SweepOut
deriving DecidableEq, Repr

/-- the two facts `validate_sweep` obtains from the wallet for one output, computed by the model of
    `impl Wallet for Node` (Model/Wallet.lean) from the script, the request's wallet path, the key-derivation style
    and the allowlist -/
def outOfScript (style : Wallet.Style) (allow : List Wallet.Allowable) (path : List Nat) (s : Wallet.Script) : SweepOut :=
  { canSpend := Wallet.canSpend style path s,
    allow := match Wallet.allowlistContains allow s path with
      | .yes => .yes | .no => .no | .panic => .panic }

/-- `validate_sweep`'s loop over **all** outputs; `destFilter` = the policy filter keeps
    policy-sweep-destination-allowlisted an error -/
def sweepOutsF (destFilter : Bool) : List SweepOut → Res
  | [] => .ok
  | o :: rest =>
    match o.canSpend with
    | none => .errPolicy
    | some true => sweepOutsF destFilter rest
    | some false =>
      match o.allow with
      | .panic => .panic
      | .yes => sweepOutsF destFilter rest
      | .no => if destFilter then .errPolicy else sweepOutsF destFilter rest

def validateSweep (destFilter : Bool) (tx : SweepTx) : Res :=
  if tx.version ≠ 2 then .errFormat else sweepOutsF destFilter tx.outs

/-- `tx.lock_time.is_satisfied_by(Height::from_consensus(h), Time::MIN)`:
    height-domain locktimes compare with `h`, time-domain locktimes with `Time::MIN` = 500_000_000. -/
def locktimeSatisfied (locktime h : Nat) : Bool :=
  if locktime < lockTimeThreshold then locktime ≤ h else locktime ≤ lockTimeThreshold

/-- `Height::from_consensus(current_height + MAX_CHAIN_LAG).expect(..)`: `none` = panic
    (u32 overflow of the addition in a debug build, or a value in the time domain) -/
def lagHeight (currentHeight : Nat) : Option Nat :=
  let h := currentHeight + Gen.Onchain.maxChainLag
  if h > U32.MAX ∨ h ≥ lockTimeThreshold then none else some h

/-- `sign_delayed_sweep`: `commitOk` = `get_per_commitment_point(commitment_number)` succeeded
    (commitment_number ≤ next_holder_commit_num + 1) -/
def signDelayedSweep (destFilter : Bool) (tx : SweepTx) (input : Nat) (commitOk : Bool)
    (currentHeight cpSelectedDelay : Nat) : Res :=
  if tx.nInputs ≤ input then .errInvalid
  else if commitOk = false then .errPolicy
  else match validateSweep destFilter tx with
    | .ok =>
      match lagHeight currentHeight with
      | none => .panic
      | some h =>
        if locktimeSatisfied tx.locktime h = false then .errFormat
        else if tx.seq0 ≠ cpSelectedDelay then .errFormat
        else .ok
    | r => r

/-- how the redeemscript of a counterparty HTLC sweep parses (`is_anchors` form of the channel) -/
inductive HtlcScript
  | received (cltv : Int)   -- parse_received_htlc_script ok: cltv_expiry as i64
  | offered                 -- parse_offered_htlc_script ok
  | invalid
deriving DecidableEq, Repr

def signCounterpartyHtlcSweep (destFilter : Bool) (tx : SweepTx) (input : Nat) (script : HtlcScript)
    (anchors : Bool) (currentHeight : Nat) : Res :=
  if tx.nInputs ≤ input then .errInvalid
  else match validateSweep destFilter tx with
    | .ok =>
      let afterLock : Option Res :=
        match script with
        | .received cltv =>
          if cltv < 0 ∨ cltv > (U32.MAX : Int) then some .errFormat
          else if (tx.locktime : Int) > cltv then some .errFormat
          else none
        | .offered =>
          match lagHeight currentHeight with
          | none => some .panic
          | some h => if locktimeSatisfied tx.locktime h = false then some .errFormat else none
        | .invalid => some .errFormat
      match afterLock with
      | some r => r
      | none =>
        let valid := if anchors then Gen.Onchain.anchorSeqs else Gen.Onchain.nonAnchorSeqs
        if valid.contains tx.seq0 then .ok else .errFormat
    | r => r

def signJusticeSweep (destFilter : Bool) (tx : SweepTx) (input : Nat) (currentHeight : Nat) : Res :=
  if tx.nInputs ≤ input then .errInvalid
  else match validateSweep destFilter tx with
    | .ok =>
      match lagHeight currentHeight with
      | none => .panic
      | some h =>
        if locktimeSatisfied tx.locktime h = false then .errFormat
        else if Gen.Onchain.nonAnchorSeqs.contains tx.seq0 then .ok else .errFormat
    | r => r

/-! ### Second-level HTLC transactions -/

inductive CommitmentType | legacy | staticRemoteKey | anchors | anchorsZeroFee
deriving DecidableEq, Repr

def CommitmentType.isAnchors : CommitmentType → Bool
  | .anchors | .anchorsZeroFee => true | _ => false
def CommitmentType.isZeroFee : CommitmentType → Bool
  | .anchorsZeroFee => true | _ => false

inductive Script
  | revokeable (revKey delay delayedKey : Nat)
  | other (id : Nat)
deriving DecidableEq, Repr

structure TxIn where
  txid : Nat
  vout : Nat
  sequence : Nat
deriving DecidableEq, Repr

structure TxOut where
  value : Nat
  script : Script
deriving DecidableEq, Repr

structure HtlcTx where
  version : Nat
  locktime : Nat
  ins : List TxIn
  outs : List TxOut
deriving DecidableEq, Repr

/-- LDK `htlc_timeout_tx_weight` / `htlc_success_tx_weight` (keyed on `supports_anchors_zero_fee_htlc_tx`) -/
def htlcWeight (ct : CommitmentType) (offered : Bool) : Nat :=
  if offered then (if ct.isZeroFee then 666 else 663) else (if ct.isZeroFee then 706 else 703)

/-- `estimate_feerate_per_kw` for a non-zero weight -/
def estimateFeerate (fee weight : Nat) : Nat :=
  U32.clamp (U64.satAdd (U64.satMul fee 1000) 999 / weight)

/-- LDK `build_htlc_transaction`; `none` = `Amount` subtraction panic -/
def recompose (ct : CommitmentType) (txid vout feerate delay : Nat) (offered : Bool) (cltv amountSat : Nat)
    (revKey delayedKey : Nat) : Option HtlcTx :=
  let fee := if ct.isZeroFee then 0 else feerate * htlcWeight ct offered / 1000
  if amountSat < fee then none else
  some { version := 2
         locktime := if offered then cltv else 0
         ins := [{ txid := txid, vout := vout, sequence := if ct.isZeroFee then 1 else 0 }]
         outs := [{ value := amountSat - fee, script := .revokeable revKey delay delayedKey }] }

/-- the fee LDK's `build_htlc_output` deducts (the same expression as inside `recompose`) -/
def htlcFee (ct : CommitmentType) (offered : Bool) (feerate : Nat) : Nat :=
  if ct.isZeroFee then 0 else feerate * htlcWeight ct offered / 1000


/-- equality of what the BIP-143 sighash commits to (same script code, amount and input index 0) -/
def sighashEq (singleAcp : Bool) (a b : HtlcTx) : Bool :=
  if singleAcp then
    a.version == b.version && a.locktime == b.locktime && a.ins.head? == b.ins.head? &&
      a.outs.head? == b.outs.head?
  else a == b

inductive RedeemKind | offered | received | invalid
deriving DecidableEq, Repr

structure HtlcPolicy where
  minFeerate : Nat
  maxFeerate : Nat
  fltLocktime : Bool      -- policy-htlc-locktime is an error
  fltFeeRange : Bool      -- policy-htlc-fee-range is an error
deriving DecidableEq, Repr

/-- the feerate `decode_and_validate_htlc_tx` rebuilds the transaction with -/
def htlcFeerate (ct : CommitmentType) (offered : Bool) (totalFee : Nat) : Nat :=
  if ct.isZeroFee then 0 else estimateFeerate totalFee (htlcWeight ct offered)

/-- `validate_htlc_tx` -/
def validateHtlcTx (pol : HtlcPolicy) (ct : CommitmentType) (offered : Bool) (cltv feerate : Nat) : Res :=
  if offered = true ∧ cltv = 0 ∧ pol.fltLocktime = true then .errPolicy
  else if ct.isZeroFee = false ∧ feerate < pol.minFeerate ∧ pol.fltFeeRange = true then .errPolicy
  else if pol.maxFeerate < feerate ∧ pol.fltFeeRange = true then .errPolicy
  else .ok

/-- `sign_htlc_tx`: `toSelfDelay` is already selected by `is_counterparty`
    (holder_selected_contest_delay for a counterparty HTLC tx, counterparty_selected for a holder one);
    key ids 0/0 are the negotiated revocation / delayed keys of `txkeys`. -/
def signHtlcTx (pol : HtlcPolicy) (ct : CommitmentType) (toSelfDelay : Nat) (tx : HtlcTx)
    (redeem : RedeemKind) (amountSat : Nat) : Res :=
  match tx.ins with
  | [] => .errPolicy                          -- sighash of input 0 cannot be computed
  | in0 :: _ =>
    if redeem = .invalid then .errPolicy
    else
      let offered := redeem == .offered
      match tx.outs with
      | [] => .panic                          -- tx.output[0]
      | out0 :: _ =>
        let cltv := if offered then tx.locktime else 0
        match U64.checkedSub amountSat out0.value with
        | none => .errPolicy                  -- fee underflow
        | some totalFee =>
          match U64.checkedMul amountSat 1000 with
          | none => .panic                    -- htlc_amount_sat * 1000 (debug build)
          | some _ =>
            match recompose ct in0.txid in0.vout (htlcFeerate ct offered totalFee) toSelfDelay offered cltv
                amountSat 0 0 with
            | none => .panic
            | some rtx =>
              if sighashEq ct.isAnchors tx rtx = false then .errPolicy
              else validateHtlcTx pol ct offered cltv (htlcFeerate ct offered totalFee)

end VlsModel.Sweep
