import VlsModel.Prim.Sha256
import VlsModel.Gen.Enforcement
/-
Executable model of `CounterpartyCommitmentSecrets` (vls-core/src/policy/validator.rs:542-646,
copied there from LDK): the compact BOLT-3 store of revealed per-commitment secrets.

The store is generic in the type `S` of secrets and in the one-bit derivation step
`F : Nat → S → S` (`F b s` = "flip bit `b` of `s`, then hash").  Theorems quantify over every `F`
(hence over every hash function `H`); the instance `bolt3F Sha256.sha256` is the byte-exact one
used by the correspondence check.

Indices are `u64` in the code; every index that reaches the store is `< 2^48`
(`INITIAL_COMMITMENT_NUMBER - n`), the model uses `Nat` and the driver/harness only feed values
`< 2^64`.  `1 << i` is only evaluated for `i ≤ 48`, so no shift overflow exists in the code.

No Mathlib import (linked into the `vlsmodel` executable).
-/
namespace VlsModel.Secrets

/-- `1 << 48`: the value `get_min_seen_secret` starts from. -/
def N48 : Nat := Gen.Enforcement.secretIndexSpace   -- regenerated from policy/validator.rs

/-- `place_secret`: number of trailing zero bits, capped at 48
    (`for i in 0..48 { if idx & (1 << i) == (1 << i) { return i } } 48`). -/
def placeFrom (idx : Nat) : Nat → Nat → Nat
  | _, 0 => 48
  | i, fuel + 1 => if idx.testBit i then i else placeFrom idx (i + 1) fuel

def place (idx : Nat) : Nat := placeFrom idx 0 48

/-- `derive_secret(secret, bits, idx)`: for `bitpos = bits-1 … 0`, if bit `bitpos` of `idx` is set,
    flip that bit of the secret and hash. -/
def derive {S : Type} (F : Nat → S → S) (s : S) : Nat → Nat → S
  | 0, _ => s
  | b + 1, idx => derive F (if idx.testBit b then F b s else s) b idx

/-- `idx & !((1 << i) - 1)`: clear the `i` low bits. -/
def hi (i idx : Nat) : Nat := (idx >>> i) <<< i

abbrev Store (S : Type) := List (S × Nat)

/-- `get_min_seen_secret` -/
def minSeen {S : Type} (st : Store S) : Nat :=
  st.foldl (fun m e => if e.2 < m then e.2 else m) N48

/-- the loop `for i in 0..pos { if derive_secret(secret, pos, old_idx_i) != old_secret_i { Err } }`
    over the first `pos` entries (the caller guarantees `pos ≤ len`). -/
def checkLower {S : Type} [DecidableEq S] (F : Nat → S → S) (secret : S) (pos : Nat) :
    List (S × Nat) → Nat → Bool
  | _, 0 => true
  | [], _ + 1 => true            -- unreachable when `pos ≤ len`
  | (os, oi) :: rest, k + 1 =>
    if derive F secret pos oi = os then checkLower F secret pos rest k else false

/-- `provide_secret`: `none` = `Err(())`. -/
def provide {S : Type} [DecidableEq S] (F : Nat → S → S) (st : Store S) (idx : Nat) (secret : S) :
    Option (Store S) :=
  let pos := place idx
  if pos > st.length then none
  else if !checkLower F secret pos st pos then none
  else if minSeen st ≤ idx then some st
  else if pos < st.length then some (st.set pos (secret, idx))
  else some (st ++ [(secret, idx)])

inductive Got (S : Type) where
  | some (s : S)
  | none
  | panic          -- `assert!(idx < self.get_min_seen_secret())` failed
  deriving DecidableEq, Repr

/-- the search loop of `get_secret` from slot `i` on -/
def getFrom {S : Type} (F : Nat → S → S) (idx : Nat) : List (S × Nat) → Nat → Option S
  | [], _ => Option.none
  | (os, oi) :: rest, i => if hi i idx = oi then Option.some (derive F os i idx) else getFrom F idx rest (i + 1)

/-- `get_secret` -/
def get {S : Type} (F : Nat → S → S) (st : Store S) (idx : Nat) : Got S :=
  match getFrom F idx st 0 with
  | Option.some s => .some s
  | Option.none => if idx < minSeen st then .none else .panic

/-! ### byte-exact instance -/

abbrev Bytes := List UInt8

/-- `res[bitpos / 8] ^= 1 << (bitpos & 7)` -/
def flipBit (s : Bytes) (b : Nat) : Bytes :=
  s.modify (b / 8) (fun x => x ^^^ (1 <<< (UInt8.ofNat (b % 8))))

/-- the BOLT-3 step over an arbitrary hash function -/
def bolt3F (H : Bytes → Bytes) : Nat → Bytes → Bytes := fun b s => H (flipBit s b)

/-- the step the Rust code uses -/
def shaF : Nat → Bytes → Bytes := bolt3F Sha256.sha256

/-- `build_commitment_secret(seed, idx)` of LDK = `derive seed 48 idx` (used by the harness-side
    generator only through the real LDK code; here for completeness theorems). -/
def fromSeed {S : Type} (F : Nat → S → S) (seed : S) (idx : Nat) : S := derive F seed 48 idx

end VlsModel.Secrets
