import VlsModel.Prim.U64
import VlsModel.Gen.Enforcement
import VlsModel.Model.Secrets
/-
Executable model of the per-channel enforcement state machine (properties C01, C02, C03).

Code modelled (after the `fix:` commits 208b946, 9d527cd and 0078200):
* vls-core/src/channel.rs — `ChannelStub::{get_per_commitment_point, get_per_commitment_secret,
  get_per_commitment_secret_or_none}`, `Channel::{get_per_commitment_point, get_per_commitment_secret,
  get_per_commitment_secret_or_none, validate_holder_commitment_tx(_phase2), release_commitment_secret,
  advance_holder_commitment_state, revoke_previous_holder_commitment, activate_initial_commitment,
  sign_holder_commitment_tx_phase2, sign_holder_commitment_tx_for_recovery,
  sign_holder_commitment_tx_phase2_redundant, sign_mutual_close_tx(_phase2),
  sign_counterparty_commitment_tx(_phase2), validate_counterparty_revocation}`;
* vls-core/src/policy/validator.rs — `Validator::{set_next_holder_commit_num,
  get_current_holder_commitment_info, set_next_counterparty_commit_num,
  set_next_counterparty_revoke_num}`, `EnforcementState::{set_next_holder_commit_num,
  set_next_counterparty_commit_num, get_previous_counterparty_point,
  get_previous_counterparty_commit_info, set_next_counterparty_revoke_num}`;
* vls-core/src/policy/simple_validator.rs — `validate_holder_commitment_tx`,
  `validate_counterparty_commitment_tx`, `validate_counterparty_revocation` (the state-dependent
  part; the content rules `validate_commitment_tx` enter as the Boolean `policyOk`);
* vls-core/src/node.rs — `Node::with_channel` (a stub refuses every channel request with
  invalid_argument) and `Node::setup_channel` (stub → ready);
* vls-protocol-signer/src/handler.rs — arms `ValidateCommitmentTx(2)`, `RevokeCommitmentTx`,
  `GetPerCommitmentPoint(2)` as compositions of the above, by protocol version.

Conventions: commitment numbers are `u64` (`Nat` here, the driver feeds values ≤ 2^64-1).  Where the
Rust code computes `x + k` with a plain `+` on a request-supplied number the model returns the explicit
outcome `panic` when the sum exceeds `u64::MAX` (debug build; the harness is a debug build).  The
secret-release guards use checked / saturating arithmetic since fix 0078200 and never panic.
External facts are operation parameters: `sigs : SigFact` (real ECDSA verification of the counterparty
signatures on the recomposed transactions), `policyOk` (content rules), `pt` of a revocation secret
(`PublicKey::from_secret_key`), commitment contents and points as small naturals (equality only).
The policy filter is the default (non-permissive) one: every `policy_err!` returns the error.

No Mathlib import (linked into the `vlsmodel` executable).
-/
namespace VlsModel.Enforcement
open VlsModel VlsModel.Secrets

/-- `INITIAL_COMMITMENT_NUMBER = (1 << 48) - 1` -/
def INITIAL : Nat := Gen.Enforcement.INITIAL_COMMITMENT_NUMBER   -- regenerated from vls-core/src/util/mod.rs

/-- hsmd protocol versions at which behaviour changes (handler.rs) -/
def PROTOCOL_VERSION_REVOKE : Nat := Gen.Enforcement.PROTOCOL_VERSION_REVOKE       -- vls-protocol/src/msgs.rs
def PROTOCOL_VERSION_NO_SECRET : Nat := Gen.Enforcement.PROTOCOL_VERSION_NO_SECRET

inductive SlotKind where
  | stub | ready
  deriving DecidableEq, Repr

/-- what `check_holder_tx_signatures` does with the supplied counterparty signatures (harness fact):
    `valid` — the commitment signature and the signature of every HTLC verify on the recomposed
    transactions (surplus signatures are ignored by the code); `invalid` — some signature that the
    loop reaches does not verify; `oob` — the commitment signature verifies, every supplied HTLC
    signature verifies, but there are fewer signatures than HTLCs: `counterparty_htlc_sigs[ndx]`
    indexes out of bounds and the signer panics. -/
inductive SigFact where
  | valid | invalid | oob
  /-- every signature verifies, but the node-wide payment check that FOLLOWS the signature check
      (`NodeState::validate_payments`: an outgoing HTLC whose invoice/keysend is gone) refuses -/
  | validUnpaid
  deriving DecidableEq, Repr

inductive Res where
  | ok | errPolicy | errInvalid | errInternal | panic
  deriving DecidableEq, Repr

/-- what a request returns, as far as the properties are concerned -/
structure Out where
  res : Res
  /-- holder commitment number whose per-commitment secret is contained in the reply -/
  secret : Option Nat := none
  /-- holder commitment number for which a holder (broadcastable) signature is contained in the reply -/
  signed : Option Nat := none
  /-- ghost: holder commitment number that this request validated successfully, i.e. the content
      passed the policy and the counterparty signatures verified on the recomposed transactions
      (set even when a later step of a composite request fails) -/
  validated : Option Nat := none
  deriving DecidableEq, Repr

structure Chan where
  slot : SlotKind := .stub
  -- holder side
  next : Nat := 0                    -- next_holder_commit_num
  cur : Option Nat := none           -- current_holder_commit_info (+ current_counterparty_signatures)
  nextInfo : Option Nat := none      -- next_holder_commit_info
  closed : Bool := false             -- channel_closed
  -- counterparty side
  cpCommit : Nat := 0                -- next_counterparty_commit_num
  cpRevoke : Nat := 0                -- next_counterparty_revoke_num
  curPt : Option Nat := none         -- current_counterparty_point
  prevPt : Option Nat := none        -- previous_counterparty_point
  curInfo : Option Nat := none       -- current_counterparty_commit_info
  prevInfo : Option Nat := none      -- previous_counterparty_commit_info
  secrets : Option (Store Bytes) := some []   -- counterparty_secrets
  deriving DecidableEq, Repr

inductive Op where
  | setup                                                   -- Node::setup_channel
  | getPoint (n : Nat)
  | getSecret (n : Nat)
  | getSecretOrNone (n : Nat)
  | validate (n info : Nat) (sigs : SigFact) (policyOk : Bool)  -- validate_holder_commitment_tx(_phase2)
  | revoke (n : Nat) (payOk : Bool)                                        -- revoke_previous_holder_commitment
  | activate                                                -- activate_initial_commitment
  | signHolder (n : Nat)                                    -- sign_holder_commitment_tx_phase2
  | signRecovery                                            -- sign_holder_commitment_tx_for_recovery
  | signRedundant (n info : Nat) (policyOk : Bool)          -- sign_holder_commitment_tx_phase2_redundant
  | signMutualClose (policyOk : Bool)                       -- sign_mutual_close_tx(_phase2)
  | signCp (n pt info : Nat) (policyOk : Bool)              -- sign_counterparty_commitment_tx(_phase2)
  | revokeCp (n : Nat) (secret : Bytes) (pt : Nat)          -- validate_counterparty_revocation
  | restart                                                 -- drop the node, restore from the store
  | hValidate (ver n info : Nat) (sigs : SigFact) (policyOk : Bool) -- handler ValidateCommitmentTx(2)
  | hRevoke (ver n : Nat) (payOk : Bool)                                   -- handler RevokeCommitmentTx
  | hGetPoint (ver n : Nat)                                 -- handler GetPerCommitmentPoint
  | hGetPoint2 (n : Nat)                                    -- handler GetPerCommitmentPoint2
  deriving DecidableEq, Repr

/-- result of one channel method: new in-memory state, reply, and whether `persist()` ran -/
structure R where
  c : Chan
  out : Out
  persisted : Bool := false

@[inline] def fail (c : Chan) (r : Res) : R := { c := c, out := { res := r } }

/-! ### ChannelBase -/

/-- `get_per_commitment_point` -/
def getPoint (c : Chan) (n : Nat) : Res :=
  match c.slot with
  | .stub => if n = 0 ∨ n = 1 then .ok else .errPolicy
  | .ready =>
    -- `next_holder_commit_num + 1` cannot overflow: the counter only grows by accepted requests
    if n > c.next + 1 then .errPolicy else .ok

/-- `get_per_commitment_secret` -/
def getSecret (c : Chan) (n : Nat) : Out :=
  match c.slot with
  | .stub => { res := .errPolicy }
  | .ready =>
    -- `commitment_number.checked_add(2).map_or(true, |n| n > next)` (fix 0078200)
    if n + 2 > U64.MAX then { res := .errPolicy }
    else if n + 2 > c.next then { res := .errPolicy }
    else { res := .ok, secret := some n }

/-- `get_per_commitment_secret_or_none`: `res = ok` with `secret = none` models `None` -/
def getSecretOrNone (c : Chan) (n : Nat) : Out :=
  match c.slot with
  | .stub => { res := .ok }
  | .ready =>
    if n + 2 > U64.MAX then { res := .ok }              -- checked_add overflow: `None`
    else if n + 2 > c.next then { res := .ok }
    else { res := .ok, secret := some n }

/-! ### holder side -/

/-- the state-dependent part of `SimpleValidator::validate_holder_commitment_tx`
    after `validate_commitment_tx` (content rules = `policyOk`) -/
def holderPolicy (c : Chan) (n info : Nat) (policyOk : Bool) : Res :=
  if !policyOk then .errPolicy
  else if n + 1 = c.next ∧ c.cur = none then .panic       -- `.expect("current_holder_commit_info")`
  else if n + 1 = c.next ∧ c.cur ≠ some info then .errPolicy  -- policy-commitment-retry-same
  else if n + 2 ≤ c.next then .errPolicy                   -- policy-commitment-holder-not-revoked
  else if n = c.next ∧ c.closed then .errPolicy            -- channel is closing
  else .ok

/-- the HTLC loop of `Channel::check_holder_tx_signatures`: `for ndx in 0..recomposed_tx.htlcs().len()` verifies
    `counterparty_htlc_sigs[ndx]` against the HTLC transaction rebuilt for HTLC `ndx`.  `sigs[i]` = does the
    `i`-th SUPPLIED signature verify against the `i`-th HTLC (real ECDSA verification, a harness fact per
    signature).  Fewer signatures than HTLCs: the index expression panics when the loop gets there (after every
    earlier one verified); surplus signatures are never looked at. -/
def checkHtlcSigs : Nat → List Bool → Res
  | 0, _ => .ok
  | _ + 1, [] => .panic                         -- `counterparty_htlc_sigs[ndx]` out of bounds
  | k + 1, b :: rest => if b then checkHtlcSigs k rest else .errPolicy   -- policy-revoke-new-commitment-signed

/-- `Channel::check_holder_tx_signatures`: the commitment signature against the funding sighash first
    (`commitOk`), then the HTLC loop over the `nHtlc` HTLCs of the recomposed transaction -/
def checkSigs (commitOk : Bool) (nHtlc : Nat) (htlcSigs : List Bool) : Res :=
  if !commitOk then .errPolicy else checkHtlcSigs nHtlc htlcSigs

/-- what `validate_holder_commitment_tx(_phase2)` meets after the policy checks, computed from the per-signature
    facts: the signature check, then the node-wide payment check (`payOk`) that follows it -/
def sigFactOf (commitOk : Bool) (nHtlc : Nat) (htlcSigs : List Bool) (payOk : Bool) : SigFact :=
  match checkSigs commitOk nHtlc htlcSigs with
  | .ok => if payOk then .valid else .validUnpaid
  | .panic => .oob
  | _ => .invalid

/-- `validate_holder_commitment_tx` / `_phase2` on a ready channel -/
def validate (c : Chan) (n info : Nat) (sigs : SigFact) (policyOk : Bool) : R :=
  if getPoint c n ≠ .ok then fail c .errPolicy
  else match holderPolicy c n info policyOk with
  | .ok =>
    -- check_holder_tx_signatures
    if sigs = .oob then fail c .panic                       -- `counterparty_htlc_sigs[ndx]` out of bounds
    else if sigs ≠ .valid then fail c .errPolicy
    else
      -- the staged commitment is recorded and persisted only for `n = next`; an accepted retry of the current
      -- commitment (or a look-ahead validate of `next + 1`) changes nothing and does not write (fix 9e99981)
      if n = c.next then
        { c := { c with nextInfo := some info }, out := { res := .ok, validated := some n }, persisted := true }
      else { c := c, out := { res := .ok, validated := some n }, persisted := false }
  | r => fail c r

/-- `release_commitment_secret(n)`: the point of `n+1` and, for `n ≥ 1`, the secret of `n-1` -/
def release (c : Chan) (n : Nat) : Out :=
  -- `get_per_commitment_point(commitment_number.saturating_add(1))` (fix 0078200)
  if getPoint c (U64.satAdd n 1) ≠ .ok then { res := .errPolicy }
  else if n ≥ 1 then getSecret c (n - 1)
  else { res := .ok }

/-- `revoke_previous_holder_commitment(n)` on a ready channel -/
def revoke (c : Chan) (n : Nat) : R :=
  if n ≠ c.next then { c := c, out := release c n }        -- no state change, no persist
  else if c.closed then fail c .errPolicy                   -- policy-revoke-not-closed
  else match c.nextInfo with
  | none => fail c .errPolicy                               -- policy-revoke-new-commitment-signed
  | some info =>
    -- `next_holder_commit_info = None`, then `advance_holder_commitment_state`:
    -- `Validator::set_next_holder_commit_num(n + 1)` accepts `n + 1 = current + 1`
    -- `new_current_commitment_number + 1` in `advance_holder_commitment_state` is a plain `+`
    if n + 1 > U64.MAX then { c := { c with nextInfo := none }, out := { res := .panic } } else
    let c' := { c with nextInfo := none, next := n + 1, cur := some info }
    let o := release c' n
    if o.res = .ok then { c := c', out := o, persisted := true }
    else { c := { c with nextInfo := none }, out := o }     -- unreachable (see Lemmas), kept for the order

/-- `revoke_previous_holder_commitment(n)` with the node-wide payment re-check made explicit:
    `payOk` = `NodeState::validate_payments` accepts the staged commitment NOW (its outgoing HTLCs are
    still backed by an approved invoice/keysend; an expired keysend pruned by the heartbeat, or another
    channel using the invoice up, makes it false).  The check sits after the closed / staged tests and
    before any state change (fix f15f20c). -/
def revokeP (c : Chan) (n : Nat) (payOk : Bool) : R :=
  if n = c.next ∧ c.closed = false ∧ c.nextInfo ≠ none ∧ payOk = false then fail c .errPolicy
  else revoke c n

/-- `activate_initial_commitment` -/
def activate (c : Chan) : R :=
  if c.next ≠ 0 then fail c .errInvalid
  else match c.nextInfo with
  | some info => { c := { c with nextInfo := none, next := 1, cur := some info },
                   out := { res := .ok }, persisted := true }
  | none => fail c .errInvalid

/-- `sign_holder_commitment_tx_phase2(n)` -/
def signHolder (c : Chan) (n : Nat) : R :=
  if n + 1 > U64.MAX then fail c .panic                    -- `commitment_number + 1` overflows
  else if n + 1 ≠ c.next then fail c .errPolicy            -- get_current_holder_commitment_info
  else match c.cur with
  | none => fail c .panic                                   -- `.unwrap()`
  | some _ =>
    { c := { c with closed := true }, out := { res := .ok, signed := some n }, persisted := true }

/-- `sign_holder_commitment_tx_for_recovery` -/
def signRecovery (c : Chan) : R :=
  match c.cur with
  | none => fail c .errInternal
  | some _ =>
    if c.next = 0 then fail c .panic                        -- `next_holder_commit_num - 1`
    else { c := { c with closed := true }, out := { res := .ok, signed := some (c.next - 1) },
           persisted := true }

/-- `sign_holder_commitment_tx_phase2_redundant(n, content)` -/
def signRedundant (c : Chan) (n info : Nat) (policyOk : Bool) : R :=
  if getPoint c n ≠ .ok then fail c .errPolicy
  else match holderPolicy c n info policyOk with
  | .ok => { c := { c with closed := true }, out := { res := .ok, signed := some n }, persisted := true }
  | r => fail c r

/-- `sign_mutual_close_tx(_phase2)`: `policyOk` = the value/destination/fee rules of
    `validate_mutual_close_tx` given that both current commitments exist -/
def signMutualClose (c : Chan) (policyOk : Bool) : R :=
  if c.cur = none then fail c .errPolicy
  else if c.curInfo = none then fail c .errPolicy
  else if !policyOk then fail c .errPolicy
  else { c := { c with closed := true }, out := { res := .ok }, persisted := true }

/-! ### counterparty side -/

/-- `sign_counterparty_commitment_tx(_phase2)` -/
def signCp (c : Chan) (n pt info : Nat) (policyOk : Bool) : R :=
  -- SimpleValidator::validate_counterparty_commitment_tx
  if !policyOk then fail c .errPolicy
  else if n > c.cpRevoke + 1 then fail c .errPolicy
  else if n + 1 = c.cpCommit ∧ c.curPt ≠ some pt then fail c .errPolicy      -- retry, point
  else if n + 1 = c.cpCommit ∧ c.curInfo ≠ some info then fail c .errPolicy  -- retry, content
  else
    -- Validator::set_next_counterparty_commit_num(n + 1, pt, info)
    let num := n + 1
    let delta := if num = 1 then 1 else 2
    if num < c.cpRevoke + delta then fail c .errPolicy
    else if num ≠ c.cpCommit ∧ num ≠ c.cpCommit + 1 then fail c .errPolicy
    else
      -- EnforcementState::set_next_counterparty_commit_num
      if num = c.cpCommit + 1 then
        { c := { c with prevPt := c.curPt, prevInfo := c.curInfo,
                        curPt := some pt, curInfo := some info, cpCommit := num },
          out := { res := .ok }, persisted := true }
      else { c := c, out := { res := .ok }, persisted := true }   -- retry: nothing moves

/-- `EnforcementState::get_previous_counterparty_point` -/
def prevPoint (c : Chan) (n : Nat) : Option Nat :=
  if n + 1 = c.cpCommit then c.curPt
  else if n + 2 = c.cpCommit then c.prevPt
  else none

/-- `validate_counterparty_revocation(n, secret)`; `pt` = public point of `secret` -/
def revokeCp (F : Nat → Bytes → Bytes) (c : Chan) (n : Nat) (secret : Bytes) (pt : Nat) : R :=
  -- SimpleValidator::validate_counterparty_revocation
  if n ≠ c.cpRevoke ∧ n + 1 > U64.MAX then fail c .panic   -- `revoke_num + 1` overflows
  else if n ≠ c.cpRevoke ∧ n + 1 ≠ c.cpRevoke then fail c .errPolicy
  else if prevPoint c n ≠ some pt then fail c .errPolicy
  else if n > INITIAL then fail c .panic            -- `INITIAL_COMMITMENT_NUMBER - revoke_num`
  else
    let newSecrets : Option (Option (Store Bytes)) :=
      match c.secrets with
      | none => some none
      | some st => match provide F st (INITIAL - n) secret with
                   | some st' => some (some st')
                   | none => none
    match newSecrets with
    | none => fail c .errPolicy                     -- secret does not chain
    | some ns =>
      -- Validator::set_next_counterparty_revoke_num(n + 1)
      let num := n + 1
      if num + 2 < c.cpCommit then fail c .errPolicy
      else if num + 1 > c.cpCommit then fail c .errPolicy
      else if num ≠ c.cpRevoke ∧ num ≠ c.cpRevoke + 1 then fail c .errPolicy
      else
        let c' := { c with prevInfo := if num + 1 ≥ c.cpCommit then none else c.prevInfo,
                           cpRevoke := num, secrets := ns }
        { c := c', out := { res := .ok }, persisted := true }

/-! ### one request on a slot -/

/-- requests that need a ready channel go through `Node::with_channel`, which refuses a stub -/
def needReady (c : Chan) (f : Chan → R) : R :=
  match c.slot with
  | .stub => fail c .errInvalid
  | .ready => f c

/-- run `g` on the state left by a successful `r` (both inside one `with_channel` closure) -/
def andThen (r : R) (g : Chan → R) : R :=
  if r.out.res = .ok then
    let r2 := g r.c
    { c := r2.c, out := { r2.out with validated := r.out.validated }, persisted := r.persisted || r2.persisted }
  else r

def chanStep (F : Nat → Bytes → Bytes) (c : Chan) : Op → R
  | .setup =>
    match c.slot with
    | .stub => { c := { slot := .ready }, out := { res := .ok }, persisted := true }
    | .ready => fail c .errInvalid
  | .getPoint n => fail c (getPoint c n)
  | .getSecret n => { c := c, out := getSecret c n }
  | .getSecretOrNone n => { c := c, out := getSecretOrNone c n }
  | .validate n info sv pk => needReady c (validate · n info sv pk)
  | .revoke n po => needReady c (revokeP · n po)
  | .activate => needReady c activate
  | .signHolder n => needReady c (signHolder · n)
  | .signRecovery => needReady c signRecovery
  | .signRedundant n info pk => needReady c (signRedundant · n info pk)
  | .signMutualClose pk => needReady c (signMutualClose · pk)
  | .signCp n pt info pk => needReady c (signCp · n pt info pk)
  | .revokeCp n s pt => needReady c (revokeCp F · n s pt)
  | .restart => fail c .ok                       -- handled in `step`
  | .hValidate ver n info sv pk =>
    needReady c fun c =>
      andThen (validate c n info sv pk) fun c1 =>
        if ver < PROTOCOL_VERSION_REVOKE then revoke c1 n
        else if n > 0 then
          (if n + 1 > U64.MAX then fail c1 .panic else fail c1 (getPoint c1 (n + 1)))
        else activate c1
  | .hRevoke ver n po =>
    if ver < PROTOCOL_VERSION_REVOKE then fail c .errInvalid
    else needReady c fun c =>
      if n + 1 > U64.MAX then fail c .panic else      -- `commit_num + 1` inside the closure
      let r := revokeP c (n + 1) po
      -- `old_secret_reply.ok_or_else(invalid_argument)`: a reply without secret is an error,
      -- the state change (if any) stays
      if r.out.res = .ok ∧ r.out.secret = none then { r with out := { res := .errInvalid } } else r
  | .hGetPoint ver n =>
    if getPoint c n ≠ .ok then fail c .errPolicy
    else if ver < PROTOCOL_VERSION_NO_SECRET ∧ n ≥ 2 then { c := c, out := getSecret c (n - 2) }
    else fail c .ok
  | .hGetPoint2 n => fail c (getPoint c n)

/-- The signer process: in-memory channel and its persisted copy. -/
structure Sys where
  mem : Chan := {}
  disk : Chan := {}
  deriving DecidableEq, Repr

def init : Sys := {}

def step (F : Nat → Bytes → Bytes) (s : Sys) (op : Op) : Sys × Out :=
  match op with
  | .restart => ({ mem := s.disk, disk := s.disk }, { res := .ok })
  | op =>
    let r := chanStep F s.mem op
    ({ mem := r.c, disk := if r.persisted then r.c else s.disk }, r.out)

/-- run a request list, collecting `(op, reply)` (oldest first) -/
def run (F : Nat → Bytes → Bytes) : Sys → List Op → Sys × List (Op × Out)
  | s, [] => (s, [])
  | s, op :: rest =>
    let (s', o) := step F s op
    let (s'', tr) := run F s' rest
    (s'', (op, o) :: tr)

end VlsModel.Enforcement
