import VlsModel.Model.Policy
/-
Model of the cooperative-close decision (property C07).

Rust (vls-core/src)                                                   Lean
----                                                                  ----
policy/validator.rs  EnforcementState::minimum_to_holder_value         `minToHolder`
                     EnforcementState::minimum_to_counterparty_value   `minToCounterparty`
policy/simple_validator.rs
   outside_epsilon_range                                               `outsideEps`
   validate_mutual_close_tx                                            `validateMutualClose`
   decode_and_validate_mutual_close_tx (both output assignments)       `decodeAndValidate`
util/transaction_utils.rs  mutual_close_tx_weight                      `closeWeight`
channel.rs  sign_mutual_close_tx_phase2 / sign_mutual_close_tx         `signClose2` / `signClose1`

Inputs that come from outside the modelled code, per transaction output (with the wallet path
supplied for that output): `canSpend` = `wallet.can_spend(path, script)`, `allowlisted` =
`wallet.allowlist_contains(script, path)`; scripts are opaque ids plus their byte length (the
length enters the weight) and the rank of their bytes in lexicographic order (only comparisons matter; it
decides the output order).  The closing transaction itself is modelled structurally (`ClosingTx`):
`canonClose` is what LDK's `ClosingTransaction::new(..).built_transaction()` builds (version 2, lock time
0, one input spending the funding outpoint with sequence 0xffffffff, the non-zero outputs sorted by value
then script bytes); phase 1 compares the supplied transaction (`SuppliedTx`) with the recomposed one and
signs the recomposed one, phase 2 builds and signs it from the values.  That LDK's builder produces these
bytes and the ECDSA signature are validated by the harness (signature verified against a transaction built
from scratch, whose structured rendering is compared with `canonClose` on every accepted request).
-/
namespace VlsModel.MutualClose
open VlsModel VlsModel.Policy

/-- one transaction output together with the facts the wallet reports for (its path, its script) -/
structure Out where
  value : Nat       -- u64
  sid : Nat         -- script identity
  len : Nat         -- script length in bytes
  rank : Nat        -- position of the script's bytes in lexicographic order (0 = the empty script)
  canSpend : Bool
  allowlisted : Bool
deriving DecidableEq, Repr

/-- arguments of `validate_mutual_close_tx` -/
structure Args where
  toHolder : Nat
  toCounterparty : Nat
  holderScript : Option Out
  cpScript : Option Out
deriving DecidableEq, Repr

/-- one output of a transaction: value and script (identity + byte-order rank) -/
structure TxO where
  value : Nat
  sid : Nat
  rank : Nat
deriving DecidableEq, Repr

/-- a one-input transaction, structurally -/
structure ClosingTx where
  version : Nat
  locktime : Nat
  sequence : Nat
  /-- the outpoint the single input spends (opaque id) -/
  outpoint : Nat
  outputs : List TxO
deriving DecidableEq, Repr

/-- LDK `transaction_utils::sort_outputs`: by value, then script bytes -/
def txoLe (x y : TxO) : Bool := decide (x.value < y.value) || (x.value == y.value && decide (x.rank ≤ y.rank))

def insertO (x : TxO) : List TxO → List TxO
  | [] => [x]
  | y :: ys => if txoLe x y then x :: y :: ys else y :: insertO x ys

def sortO (l : List TxO) : List TxO := l.foldr insertO []

/-- the script of an absent output argument is the empty script (`ScriptBuf::new()`) -/
def txoOf (value : Nat) (o : Option Out) : TxO :=
  match o with
  | some x => ⟨value, x.sid, x.rank⟩
  | none => ⟨value, 0, 0⟩

/-- `build_closing_transaction`: counterparty output then holder output, zero values dropped, sorted -/
def canonOutputs (a : Args) : List TxO :=
  sortO ((if a.toCounterparty > 0 then [txoOf a.toCounterparty a.cpScript] else [])
      ++ (if a.toHolder > 0 then [txoOf a.toHolder a.holderScript] else []))

/-- `ClosingTransaction::new(to_holder, to_cp, holder_script, cp_script, funding_outpoint).built_transaction()` -/
def canonClose (fundingOutpoint : Nat) (a : Args) : ClosingTx :=
  ⟨2, 0, 4294967295, fundingOutpoint, canonOutputs a⟩

/-- the transaction handed to phase 1, as supplied by the caller (outputs with the wallet facts for
    their paths) -/
structure SuppliedTx where
  version : Nat
  locktime : Nat
  sequence : Nat
  outpoint : Nat
  outs : List Out
deriving Repr

def SuppliedTx.render (t : SuppliedTx) : ClosingTx :=
  ⟨t.version, t.locktime, t.sequence, t.outpoint, t.outs.map (fun o => ⟨o.value, o.sid, o.rank⟩)⟩

def varintLen (n : Nat) : Nat := if n < 253 then 1 else if n ≤ 65535 then 3 else 5

def outSize (o : Option Out) : Nat :=
  let len := match o with | some x => x.len | none => 0
  8 + varintLen len + len

/-- `mutual_close_tx_weight(ClosingTransaction::new(..).built_transaction())`: an unsigned
    one-input transaction whose outputs are the non-zero ones, plus the expected witness. -/
def closeWeight (a : Args) : Nat :=
  let outs := (if a.toCounterparty > 0 then outSize a.cpScript else 0)
            + (if a.toHolder > 0 then outSize a.holderScript else 0)
  4 * (4 + 1 + 41 + 1 + outs + 4) + Gen.Policy.mutualCloseWitnessWeight

/-- `outside_epsilon_range` (first component) -/
def outsideEps (p : Policy) (v0 v1 : Nat) : Bool :=
  if v0 > v1 then decide (v0 - v1 > p.epsilon) else decide (v1 - v0 > p.epsilon)

/-- the epsilon comparison of the side that does not pay the fee against both latest commitments -/
def valueChecks (p : Policy) (s : Setup) (hinfo cinfo : Info) (a : Args) : Except Kind Unit :=
  if s.isOutbound then do
    check p .mutualValueMatches (outsideEps p a.toCounterparty cinfo.toBroadcaster)
    check p .mutualValueMatches (outsideEps p a.toCounterparty hinfo.toCountersigner)
  else do
    check p .mutualValueMatches (outsideEps p a.toHolder hinfo.toBroadcaster)
    check p .mutualValueMatches (outsideEps p a.toHolder cinfo.toCountersigner)

/-- the holder output must be spendable by the wallet or allowlisted -/
def destCheck (p : Policy) (a : Args) : Except Kind Unit :=
  match a.holderScript with
  | none => .ok ()
  | some o => check p .mutualDestinationAllowlisted (!o.canSpend && !o.allowlisted)

/-- `validate_mutual_close_tx` once both current commitments are known -/
def validateMutualCloseWith (p : Policy) (s : Setup) (hinfo cinfo : Info) (a : Args) : Except Kind Unit := do
  check p .mutualDestinationAllowlisted (decide (a.toHolder > 0) && a.holderScript.isNone)
  check p .mutualDestinationAllowlisted (decide (a.toCounterparty > 0) && a.cpScript.isNone)
  whenE (s.upfront.isSome && decide (a.toHolder > 0))
    (check p .mutualDestinationAllowlisted (decide (a.holderScript.map (·.sid) ≠ s.upfront)))
  check p .mutualNoPendingHtlcs (!hinfo.htlcsEmpty || !cinfo.htlcsEmpty)
  hard .value (decide (a.toHolder + a.toCounterparty > U64.MAX))
  validateFee p .mutualFeeRange s.channelValue (a.toHolder + a.toCounterparty) (closeWeight a)
  valueChecks p s hinfo cinfo a
  destCheck p a

/-- `validate_mutual_close_tx` -/
def validateMutualClose (p : Policy) (s : Setup) (e : EState) (a : Args) : Except Kind Unit :=
  match e.curHolderInfo, e.curCpInfo with
  | none, _ => .error .value
  | some _, none => .error .value
  | some hinfo, some cinfo => validateMutualCloseWith p s hinfo cinfo a

/-- the common shape of `minimum_to_holder_value` / `minimum_to_counterparty_value` -/
def minWithin (eps hval cval : Nat) : Option Nat :=
  if hval > cval then (if hval - cval ≤ eps then some cval else none)
  else (if cval - hval ≤ eps then some hval else none)

def minToHolder (e : EState) (eps : Nat) : Option Nat :=
  match e.curHolderInfo, e.curCpInfo with
  | some h, some c => minWithin eps h.toBroadcaster c.toCountersigner
  | _, _ => none

def minToCounterparty (e : EState) (eps : Nat) : Option Nat :=
  match e.curHolderInfo, e.curCpInfo with
  | some h, some c => minWithin eps h.toCountersigner c.toBroadcaster
  | _, _ => none

/-- `>` on `Option<u64>` (None < Some) -/
def optGt : Option Nat → Option Nat → Bool
  | some a, some b => decide (a > b)
  | some _, none => true
  | none, _ => false

/-- the two candidate assignments (likely, unlikely) of `decode_and_validate_mutual_close_tx`;
    `none` = the code indexes `tx.output[0]` of an empty output list (panic). -/
def candidates (p : Policy) (e : EState) (outs : List Out) : Option (Args × Args) :=
  let larger := optGt (minToHolder e p.epsilon) (minToCounterparty e p.epsilon)
  match outs with
  | [] => none
  | [o] =>
    let holders : Args := ⟨o.value, 0, some o, none⟩
    -- the counterparty reading uses DerivationPath::master(); with no holder script the wallet is not asked
    let cpartys : Args := ⟨0, o.value, none, some o⟩
    some (if larger then (holders, cpartys) else (cpartys, holders))
  | o0 :: o1 :: _ =>
    let holderFirst : Args := ⟨o0.value, o1.value, some o0, some o1⟩
    let cpartyFirst : Args := ⟨o1.value, o0.value, some o1, some o0⟩
    some (if larger then (cpartyFirst, holderFirst) else (holderFirst, cpartyFirst))

/-- try the likely reading, then the unlikely one; report the likely reading's error -/
def chooseAssignment (p : Policy) (s : Setup) (e : EState) (outs : List Out) : Except Kind Args :=
  match candidates p e outs with
  | none => .error .panic
  | some (likely, unlikely) =>
    match validateMutualClose p s e likely with
    | .ok () => .ok likely
    | .error k =>
      match validateMutualClose p s e unlikely with
      | .ok () => .ok unlikely
      | .error _ => .error k

/-- `decode_and_validate_mutual_close_tx`: the assignment that is signed -/
def decodeAndValidate (p : Policy) (s : Setup) (e : EState) (fo : Nat) (tx : SuppliedTx) :
    Except Kind Args := do
  hard .format (decide (tx.outs.length > 2))
  whenE e.curHolderInfo.isNone (policyErr p .mutualOther)
  whenE e.curCpInfo.isNone (policyErr p .mutualOther)
  let good ← chooseAssignment p s e tx.outs
  -- `if *recomposed_tx != *tx { policy_err!(.., "recomposed tx mismatch") }`
  check p .onchainFormatStandard (decide (tx.render ≠ canonClose fo good))
  pure good

/-- `Channel::sign_mutual_close_tx_phase2`: new state and the transaction that is signed
    (`ClosingTransaction::new` of the validated values on the channel's funding outpoint `fo`) -/
def signClose2 (p : Policy) (s : Setup) (e : EState) (fo : Nat) (a : Args) : Except Kind (EState × ClosingTx) := do
  validateMutualClose p s e a
  pure ({ e with closed := true }, canonClose fo a)

/-- `Channel::sign_mutual_close_tx` (phase 1); `npaths` = number of wallet paths supplied;
    returns the new state, the reading that was validated and the transaction that is signed -/
def signClose1 (p : Policy) (s : Setup) (e : EState) (fo : Nat) (tx : SuppliedTx) (npaths : Nat) :
    Except Kind (EState × Args × ClosingTx) := do
  hard .other (decide (npaths ≠ tx.outs.length))
  let a ← decodeAndValidate p s e fo tx
  -- the *recomposed* transaction is what gets signed, not the caller's
  pure ({ e with closed := true }, a, canonClose fo a)

end VlsModel.MutualClose
