import VlsModel.Model.Policy
/-
Model of the cooperative-close decision (property C07).

Rust (vls-core/src)                                                   Lean
----                                                                  ----
policy/validator.rs  EnforcementState::minimum_to_holder_value         `minToHolder`
                     EnforcementState::minimum_to_counterparty_value   `minToCounterparty`
policy/simple_validator.rs
   outside_epsilon_range                                               `outsideEps`
   validate_mutual_close_tx                                            `validateMutualClose`
   decode_and_validate_mutual_close_tx (both output assignments)       `decodeAndValidate`
util/transaction_utils.rs  mutual_close_tx_weight                      `closeWeight`
channel.rs  sign_mutual_close_tx_phase2 / sign_mutual_close_tx         `signClose2` / `signClose1`

Inputs that come from outside the modelled code, per transaction output (with the wallet path
supplied for that output): `canSpend` = `wallet.can_spend(path, script)`, `allowlisted` =
`wallet.allowlist_contains(script, path)`; scripts are opaque ids plus their byte length (the
length enters the weight).  `canon` = "the transaction handed to phase 1 is byte-identical to the
canonical closing transaction on the funding outpoint with the same non-zero outputs" (what LDK's
`ClosingTransaction::new(..).built_transaction()` rebuilds; it does not depend on which output is
taken as the holder's).  LDK's builder and the signature are validated by the harness only.
-/
namespace VlsModel.MutualClose
open VlsModel VlsModel.Policy

/-- one transaction output together with the facts the wallet reports for (its path, its script) -/
structure Out where
  value : Nat       -- u64
  sid : Nat         -- script identity
  len : Nat         -- script length in bytes
  canSpend : Bool
  allowlisted : Bool
deriving DecidableEq, Repr

/-- arguments of `validate_mutual_close_tx` -/
structure Args where
  toHolder : Nat
  toCounterparty : Nat
  holderScript : Option Out
  cpScript : Option Out
deriving DecidableEq, Repr

def varintLen (n : Nat) : Nat := if n < 253 then 1 else if n ≤ 65535 then 3 else 5

def outSize (o : Option Out) : Nat :=
  let len := match o with | some x => x.len | none => 0
  8 + varintLen len + len

/-- `mutual_close_tx_weight(ClosingTransaction::new(..).built_transaction())`: an unsigned
    one-input transaction whose outputs are the non-zero ones, plus the expected witness. -/
def closeWeight (a : Args) : Nat :=
  let outs := (if a.toCounterparty > 0 then outSize a.cpScript else 0)
            + (if a.toHolder > 0 then outSize a.holderScript else 0)
  4 * (4 + 1 + 41 + 1 + outs + 4) + Gen.Policy.mutualCloseWitnessWeight

/-- `outside_epsilon_range` (first component) -/
def outsideEps (p : Policy) (v0 v1 : Nat) : Bool :=
  if v0 > v1 then decide (v0 - v1 > p.epsilon) else decide (v1 - v0 > p.epsilon)

/-- the epsilon comparison of the side that does not pay the fee against both latest commitments -/
def valueChecks (p : Policy) (s : Setup) (hinfo cinfo : Info) (a : Args) : Except Kind Unit :=
  if s.isOutbound then do
    check p .mutualValueMatches (outsideEps p a.toCounterparty cinfo.toBroadcaster)
    check p .mutualValueMatches (outsideEps p a.toCounterparty hinfo.toCountersigner)
  else do
    check p .mutualValueMatches (outsideEps p a.toHolder hinfo.toBroadcaster)
    check p .mutualValueMatches (outsideEps p a.toHolder cinfo.toCountersigner)

/-- the holder output must be spendable by the wallet or allowlisted -/
def destCheck (p : Policy) (a : Args) : Except Kind Unit :=
  match a.holderScript with
  | none => .ok ()
  | some o => check p .mutualDestinationAllowlisted (!o.canSpend && !o.allowlisted)

/-- `validate_mutual_close_tx` once both current commitments are known -/
def validateMutualCloseWith (p : Policy) (s : Setup) (hinfo cinfo : Info) (a : Args) : Except Kind Unit := do
  check p .mutualDestinationAllowlisted (decide (a.toHolder > 0) && a.holderScript.isNone)
  check p .mutualDestinationAllowlisted (decide (a.toCounterparty > 0) && a.cpScript.isNone)
  whenE (s.upfront.isSome && decide (a.toHolder > 0))
    (check p .mutualDestinationAllowlisted (decide (a.holderScript.map (·.sid) ≠ s.upfront)))
  check p .mutualNoPendingHtlcs (!hinfo.htlcsEmpty || !cinfo.htlcsEmpty)
  hard .value (decide (a.toHolder + a.toCounterparty > U64.MAX))
  validateFee p .mutualFeeRange s.channelValue (a.toHolder + a.toCounterparty) (closeWeight a)
  valueChecks p s hinfo cinfo a
  destCheck p a

/-- `validate_mutual_close_tx` -/
def validateMutualClose (p : Policy) (s : Setup) (e : EState) (a : Args) : Except Kind Unit :=
  match e.curHolderInfo, e.curCpInfo with
  | none, _ => .error .value
  | some _, none => .error .value
  | some hinfo, some cinfo => validateMutualCloseWith p s hinfo cinfo a

/-- the common shape of `minimum_to_holder_value` / `minimum_to_counterparty_value` -/
def minWithin (eps hval cval : Nat) : Option Nat :=
  if hval > cval then (if hval - cval ≤ eps then some cval else none)
  else (if cval - hval ≤ eps then some hval else none)

def minToHolder (e : EState) (eps : Nat) : Option Nat :=
  match e.curHolderInfo, e.curCpInfo with
  | some h, some c => minWithin eps h.toBroadcaster c.toCountersigner
  | _, _ => none

def minToCounterparty (e : EState) (eps : Nat) : Option Nat :=
  match e.curHolderInfo, e.curCpInfo with
  | some h, some c => minWithin eps h.toCountersigner c.toBroadcaster
  | _, _ => none

/-- `>` on `Option<u64>` (None < Some) -/
def optGt : Option Nat → Option Nat → Bool
  | some a, some b => decide (a > b)
  | some _, none => true
  | none, _ => false

/-- the two candidate assignments (likely, unlikely) of `decode_and_validate_mutual_close_tx`;
    `none` = the code indexes `tx.output[0]` of an empty output list (panic). -/
def candidates (p : Policy) (e : EState) (outs : List Out) : Option (Args × Args) :=
  let larger := optGt (minToHolder e p.epsilon) (minToCounterparty e p.epsilon)
  match outs with
  | [] => none
  | [o] =>
    let holders : Args := ⟨o.value, 0, some o, none⟩
    -- the counterparty reading uses DerivationPath::master(); with no holder script the wallet is not asked
    let cpartys : Args := ⟨0, o.value, none, some o⟩
    some (if larger then (holders, cpartys) else (cpartys, holders))
  | o0 :: o1 :: _ =>
    let holderFirst : Args := ⟨o0.value, o1.value, some o0, some o1⟩
    let cpartyFirst : Args := ⟨o1.value, o0.value, some o1, some o0⟩
    some (if larger then (cpartyFirst, holderFirst) else (holderFirst, cpartyFirst))

/-- try the likely reading, then the unlikely one; report the likely reading's error -/
def chooseAssignment (p : Policy) (s : Setup) (e : EState) (outs : List Out) : Except Kind Args :=
  match candidates p e outs with
  | none => .error .panic
  | some (likely, unlikely) =>
    match validateMutualClose p s e likely with
    | .ok () => .ok likely
    | .error k =>
      match validateMutualClose p s e unlikely with
      | .ok () => .ok unlikely
      | .error _ => .error k

/-- `decode_and_validate_mutual_close_tx`: the assignment that is signed -/
def decodeAndValidate (p : Policy) (s : Setup) (e : EState) (outs : List Out) (canon : Bool) :
    Except Kind Args := do
  hard .format (decide (outs.length > 2))
  whenE e.curHolderInfo.isNone (policyErr p .mutualOther)
  whenE e.curCpInfo.isNone (policyErr p .mutualOther)
  let good ← chooseAssignment p s e outs
  check p .onchainFormatStandard (!canon)
  pure good

/-- `Channel::sign_mutual_close_tx_phase2` -/
def signClose2 (p : Policy) (s : Setup) (e : EState) (a : Args) : Except Kind EState := do
  validateMutualClose p s e a
  pure { e with closed := true }

/-- `Channel::sign_mutual_close_tx` (phase 1); `npaths` = number of wallet paths supplied -/
def signClose1 (p : Policy) (s : Setup) (e : EState) (outs : List Out) (npaths : Nat) (canon : Bool) :
    Except Kind (EState × Args) := do
  hard .other (decide (npaths ≠ outs.length))
  let a ← decodeAndValidate p s e outs canon
  pure ({ e with closed := true }, a)

end VlsModel.MutualClose
