import VlsModel.Gen.Chain
/-
Executable model of `vls-core/src/monitor.rs` (property C14, used by C13 and C15).

What is modelled, in the order the code uses:

* `State` (all persisted fields), `ClosingOutpoints`, `StateChange`;
* the push listener (`PushListener::on_transaction_{input,output,end}`) running on a *temporary
  copy* of the state (`BlockDecodeState::state`), every detected change being applied to that copy
  immediately (`add_change`), so that close + sweep in one block is seen;
* `apply_forward_change` / `apply_backward_change` with their `unwrap`/`assert` failures as an
  explicit `none` (= the Rust code panics, the signer aborts);
* `on_add_block_end` / `on_remove_block_end`: height bump, forward application in list order,
  backward application in *reverse* list order (after fix 1d7aee1), swept-height bookkeeping;
* the tracker-side `ListenSlot` bookkeeping of `notify_listeners_add/remove`.

Abstractions: a transaction is `(txid, inputs, nOutputs, kind)`; `kind` is what the commitment
decoder (`decode_commitment_number`/`decode_commitment_tx`/`get_spendable_htlc_indices`) answers for
a transaction whose only input spends the funding outpoint: `plain` = not a commitment (mutual
close), `commit our htlcs` = unilateral close with our output index and spendable HTLC indices.
It is supplied by the harness from the real decoder.  Txids/outpoints are natural numbers.
`u32` height overflow (`height += 1` at 2^32-1) is not modelled.
-/
namespace VlsModel.Monitor

abbrev OutPoint := Nat × Nat

inductive Kind where
  | plain
  | commit (our : Option Nat) (htlcs : List Nat)
  deriving Repr, DecidableEq, Inhabited

structure Tx where
  txid : Nat
  inputs : List OutPoint
  nOut : Nat
  kind : Kind
  deriving Repr, DecidableEq, Inhabited

structure Closing where
  txid : Nat
  our : Option (Nat × Bool)
  htlcOutputs : List Nat
  htlcSpents : List Bool
  second : List (OutPoint × Bool)
  deriving Repr, DecidableEq, Inhabited

structure State where
  height : Nat
  fundingTxids : List Nat
  fundingVouts : List Nat
  fundingInputs : List OutPoint
  fundingHeight : Option Nat
  fundingOutpoint : Option OutPoint
  dsHeight : Option Nat
  mutualHeight : Option Nat
  uniHeight : Option Nat
  closing : Option Closing
  closingSweptHeight : Option Nat
  ourSweptHeight : Option Nat
  sawBlock : Bool
  sawForget : Bool
  deriving Repr, DecidableEq, Inhabited

inductive Change where
  | fundingConfirmed (op : OutPoint)
  | fundingInputSpent (op : OutPoint)
  | unilateral (txid : Nat) (fo : OutPoint) (our : Option Nat) (htlcs : List Nat)
  | mutual (txid : Nat) (fo : OutPoint)
  | ourSpent (vout : Nat)
  | htlcSpent (vout : Nat) (second : OutPoint)
  | secondSpent (op : OutPoint)
  deriving Repr, DecidableEq, Inhabited

/-- `ChainMonitorBase::new` + `add_funding_outpoint` + `add_funding_inputs`. -/
def State.init (height : Nat) (fundingTxid fundingVout : Nat) (inputs : List OutPoint) : State :=
  { height, fundingTxids := [fundingTxid], fundingVouts := [fundingVout], fundingInputs := inputs,
    fundingHeight := none, fundingOutpoint := none, dsHeight := none, mutualHeight := none,
    uniHeight := none, closing := none, closingSweptHeight := none, ourSweptHeight := none,
    sawBlock := false, sawForget := false }

/-! ### ClosingOutpoints -/

def Closing.new (txid : Nat) (our : Option Nat) (htlcs : List Nat) : Closing :=
  { txid, our := our.map (fun i => (i, false)), htlcOutputs := htlcs,
    htlcSpents := htlcs.map (fun _ => false), second := [] }

def Closing.includesOur (c : Closing) (op : OutPoint) : Bool :=
  c.txid == op.1 && (c.our.map (·.1)) == some op.2

def Closing.includesHtlc (c : Closing) (op : OutPoint) : Bool :=
  c.txid == op.1 && c.htlcOutputs.contains op.2

def Closing.includesSecond (c : Closing) (op : OutPoint) : Bool :=
  c.second.any (fun h => h.1 == op)

/-- `set_our_output_spent`: `unwrap` on `our_output`, `assert_eq!(p.0, vout)`. -/
def Closing.setOurSpent (c : Closing) (vout : Nat) (b : Bool) : Option Closing :=
  match c.our with
  | none => none
  | some (i, _) => if i = vout then some { c with our := some (i, b) } else none

/-- first index of `v` (`iter().position`) -/
def position (v : Nat) : List Nat → Option Nat
  | [] => none
  | x :: xs => if x = v then some 0 else (position v xs).map (· + 1)

/-- `set_htlc_output_spent`: `position(..).unwrap()`, then `htlc_spents[i] = spent` (index panic). -/
def Closing.setHtlcSpent (c : Closing) (vout : Nat) (b : Bool) : Option Closing :=
  match position vout c.htlcOutputs with
  | none => none
  | some i => if i < c.htlcSpents.length then some { c with htlcSpents := c.htlcSpents.set i b } else none

/-- set the flag of the first entry matching `op` (`iter_mut().find(..)`) -/
def setFirst (op : OutPoint) (b : Bool) : List (OutPoint × Bool) → Option (List (OutPoint × Bool))
  | [] => none
  | h :: t => if h.1 = op then some ((h.1, b) :: t) else (setFirst op b t).map (h :: ·)

/-- `set_second_level_htlc_spent`: `.expect("second-level HTLC outpoint")`. -/
def Closing.setSecondSpent (c : Closing) (op : OutPoint) (b : Bool) : Option Closing :=
  (setFirst op b c.second).map (fun l => { c with second := l })

def Closing.addSecond (c : Closing) (op : OutPoint) : Closing :=
  { c with second := c.second ++ [(op, false)] }

def Closing.removeSecond (c : Closing) (op : OutPoint) : Closing :=
  { c with second := c.second.filter (fun h => h.1 ≠ op) }

def Closing.isAllSpent (c : Closing) : Bool :=
  (match c.our with | some (_, b) => b | none => true)
    && c.htlcSpents.all id && c.second.all (·.2)

def State.isClosingSwept (s : State) : Bool :=
  match s.closing with | some c => c.isAllSpent | none => false

def State.isOurSwept (s : State) : Bool :=
  match s.closing with
  | some c => (match c.our with | some (_, b) => b | none => true)
  | none => false

/-! ### apply_forward_change / apply_backward_change

Result: new state, outpoints appended to `adds`, outpoints appended to `removes`; `none` = panic. -/

abbrev Delta := State × List OutPoint × List OutPoint

def ourHtlcOutpoints (txid : Nat) (our : Option Nat) (htlcs : List Nat) : List OutPoint :=
  (match our with | some i => [(txid, i)] | none => []) ++ htlcs.map (fun i => (txid, i))

def applyForward (s : State) : Change → Option Delta
  | .fundingConfirmed op =>
    some ({ s with fundingHeight := some s.height, fundingOutpoint := some op, dsHeight := none }, [op], [])
  | .fundingInputSpent op =>
    some ({ s with dsHeight := some (s.dsHeight.getD s.height) }, [], [op])
  | .unilateral txid fo our htlcs =>
    some ({ s with uniHeight := some s.height, closing := some (Closing.new txid our htlcs) },
          ourHtlcOutpoints txid our htlcs, [fo])
  | .ourSpent vout =>
    match s.closing with
    | none => none
    | some c => (c.setOurSpent vout true).map fun c' => ({ s with closing := some c' }, [], [(c.txid, vout)])
  | .htlcSpent vout sl =>
    match s.closing with
    | none => none
    | some c => (c.setHtlcSpent vout true).map fun c' =>
        ({ s with closing := some (c'.addSecond sl) }, [sl], [(c.txid, vout)])
  | .secondSpent op =>
    match s.closing with
    | none => none
    | some c => (c.setSecondSpent op true).map fun c' => ({ s with closing := some c' }, [], [op])
  | .mutual _ fo =>
    some ({ s with mutualHeight := some s.height }, [], [fo])

/-- Returns the same `adds`/`removes` as the forward direction for every change (the caller reverts
them); for `htlcSpent`/`secondSpent` this is the repaired code (fix fc0e6dd, finding F16). -/
def applyBackward (s : State) : Change → Option Delta
  | .fundingConfirmed op =>
    if s.fundingHeight = some s.height then
      some ({ s with fundingHeight := none, fundingOutpoint := none }, [op], [])
    -- a monitor created after the block that confirmed its funding tx never recorded the confirmation:
    -- the code as it stands asserts (finding F18); the proposed fix undoes nothing
    -- (`Gen.Chain.fundingUndoTolerant`, read from the source)
    else if VlsModel.Gen.Chain.fundingUndoTolerant && s.fundingHeight.isNone then some (s, [op], [])
    else none
  | .fundingInputSpent op =>
    some ({ s with dsHeight := if s.dsHeight = some s.height then none else s.dsHeight }, [], [op])
  | .unilateral txid fo our htlcs =>
    if s.uniHeight = some s.height then
      some ({ s with uniHeight := none, closing := none }, ourHtlcOutpoints txid our htlcs, [fo])
    else none
  | .ourSpent vout =>
    match s.closing with
    | none => none
    | some c => (c.setOurSpent vout false).map fun c' => ({ s with closing := some c' }, [], [(c.txid, vout)])
  | .htlcSpent vout sl =>
    match s.closing with
    | none => none
    | some c => (c.setHtlcSpent vout false).map fun c' =>
        ({ s with closing := some (c'.removeSecond sl) }, [sl], [(c.txid, vout)])
  | .secondSpent op =>
    match s.closing with
    | none => none
    | some c => (c.setSecondSpent op false).map fun c' => ({ s with closing := some c' }, [], [op])
  | .mutual _ fo =>
    some ({ s with mutualHeight := none }, [], [fo])

/-- apply a list of changes in list order, accumulating adds/removes -/
def applyAll (f : State → Change → Option Delta) : State → List Change → Option Delta
  | s, [] => some (s, [], [])
  | s, c :: cs =>
    match f s c with
    | none => none
    | some (s1, a1, r1) =>
      match applyAll f s1 cs with
      | none => none
      | some (s2, a2, r2) => some (s2, a1 ++ a2, r1 ++ r2)

/-! ### Push listener (detection on the temporary copy) -/

/-- per-transaction scratch of `BlockDecodeState` -/
structure Scratch where
  t : State                      -- temporary copy of the monitor state
  changes : List Change          -- detected so far (in order)
  inputNum : Nat
  closingIn : Option OutPoint    -- `closing_tx` being gathered: its single input
  spentHtlc : List (Nat × Nat)   -- (htlc vout, spending input index)
  deriving Repr

/-- `BlockDecodeState::add_change` -/
def Scratch.addChange (d : Scratch) (c : Change) : Option Scratch :=
  (applyForward d.t c).map fun (t', _, _) => { d with t := t', changes := d.changes ++ [c] }

def onInput (d : Scratch) (inp : OutPoint) : Option Scratch := do
  let d ← if d.t.fundingInputs.contains inp then d.addChange (.fundingInputSpent inp) else some d
  let d := if some inp = d.t.fundingOutpoint then { d with closingIn := some inp } else d
  let d ← match d.t.closing with
    | some c =>
      if c.includesOur inp then d.addChange (.ourSpent inp.2)
      else if c.includesHtlc inp then some { d with spentHtlc := d.spentHtlc ++ [(inp.2, d.inputNum)] }
      else if c.includesSecond inp then d.addChange (.secondSpent inp)
      else some d
    | none => some d
  -- assert_eq!(decode_state.input_num, 0, "closing tx must have only one input")
  if d.closingIn.isSome && d.inputNum != 0 then none
  else some { d with inputNum := d.inputNum + 1 }

def onInputs : Scratch → List OutPoint → Option Scratch
  | d, [] => some d
  | d, i :: is => match onInput d i with | none => none | some d' => onInputs d' is

def MAX_COMMITMENT_OUTPUTS : Nat := VlsModel.Gen.Chain.maxCommitmentOutputs

def addChanges : Scratch → List Change → Option Scratch
  | d, [] => some d
  | d, c :: cs => match d.addChange c with | none => none | some d' => addChanges d' cs

def onTx (t : State) (changes : List Change) (tx : Tx) : Option (State × List Change) := do
  let d0 : Scratch := { t, changes, inputNum := 0, closingIn := none, spentHtlc := [] }
  let d ← onInputs d0 tx.inputs
  -- on_transaction_output: assert!(output_num < MAX_COMMITMENT_OUTPUTS) while gathering a closing tx
  if d.closingIn.isSome && tx.nOut > MAX_COMMITMENT_OUTPUTS then none else
  -- on_transaction_end
  let d ← match position tx.txid d.t.fundingTxids with
    | some ind =>
      match d.t.fundingVouts[ind]? with
      | none => none                                    -- index out of bounds
      | some vout => if vout < tx.nOut then d.addChange (.fundingConfirmed (tx.txid, vout)) else none
    | none => some d
  let d ← match d.closingIn with
    | some fo =>
      match tx.kind with
      | .commit our htlcs => d.addChange (.unilateral tx.txid fo our htlcs)
      | .plain => d.addChange (.mutual tx.txid fo)
    | none => some d
  let d ← addChanges d (d.spentHtlc.map fun (v, idx) => Change.htlcSpent v (tx.txid, idx))
  some (d.t, d.changes)

def detectFrom : State → List Change → List Tx → Option (State × List Change)
  | t, cs, [] => some (t, cs)
  | t, cs, tx :: txs => match onTx t cs tx with | none => none | some (t', cs') => detectFrom t' cs' txs

/-- the change list the push listener produces for a block, starting from a copy of `s` -/
def detect (s : State) (txs : List Tx) : Option (List Change) :=
  (detectFrom s [] txs).map (·.2)

/-! ### on_add_block_end / on_remove_block_end -/

def addEnd (s : State) (cs : List Change) : Option Delta :=
  let s1 := { s with sawBlock := true, height := s.height + 1 }
  let wasC := s1.isClosingSwept
  let wasO := s1.isOurSwept
  match applyAll applyForward s1 cs with
  | none => none
  | some (s2, adds, removes) =>
    let s3 := if !wasC && s2.isClosingSwept then { s2 with closingSweptHeight := some s2.height } else s2
    let s4 := if !wasO && s3.isOurSwept then { s3 with ourSweptHeight := some s3.height } else s3
    some (s4, adds, removes)

def removeEnd (s : State) (cs : List Change) : Option Delta :=
  let wasC := s.isClosingSwept
  let wasO := s.isOurSwept
  match applyAll applyBackward s cs.reverse with
  | none => none
  | some (s2, adds, removes) =>
    let s3 := if wasC && !s2.isClosingSwept then { s2 with closingSweptHeight := none } else s2
    let s4 := if wasO && !s3.isOurSwept then { s3 with ourSweptHeight := none } else s3
    -- self.height -= 1  (u32 underflow panics)
    if s4.height = 0 then none else some ({ s4 with height := s4.height - 1 }, adds, removes)

/-- `on_add_block` (compact) = `push_transactions` + `on_add_block_end`; a completely streamed block
runs the same listener code.  `push_transactions` sets `saw_block` before taking the copy. -/
def addBlock (s : State) (txs : List Tx) : Option Delta :=
  let s0 := { s with sawBlock := true }
  match detect s0 txs with
  | none => none
  | some cs => addEnd s0 cs

def removeBlock (s : State) (txs : List Tx) : Option Delta :=
  let s0 := { s with sawBlock := true }
  match detect s0 txs with
  | none => none
  | some cs => removeEnd s0 cs

/-! ### ListenSlot bookkeeping (tracker.rs `notify_listeners_add` / `notify_listeners_remove`) -/

structure Slot where
  txidWatches : List Nat
  watches : List OutPoint
  seen : List OutPoint
  deriving Repr, DecidableEq, Inhabited

def without (l r : List OutPoint) : List OutPoint := l.filter (fun x => !r.contains x)

def Slot.onAdd (sl : Slot) (adds removes : List OutPoint) : Slot :=
  { sl with watches := without (sl.watches ++ adds) removes, seen := sl.seen ++ removes }

def Slot.onRemove (sl : Slot) (adds removes : List OutPoint) : Slot :=
  { sl with seen := without sl.seen removes, watches := without (sl.watches ++ removes) adds }

/-- a listener as the tracker holds it -/
structure Listener where
  st : State
  slot : Slot
  deriving Repr, DecidableEq, Inhabited

def Listener.add (l : Listener) (txs : List Tx) : Option Listener :=
  (addBlock l.st txs).map fun (s, a, r) => { st := s, slot := l.slot.onAdd a r }

def Listener.remove (l : Listener) (txs : List Tx) : Option Listener :=
  (removeBlock l.st txs).map fun (s, a, r) => { st := s, slot := l.slot.onRemove a r }

/-! ### Depth and pruning predicate (`depth_of`, `deep_enough_and_saw_node_forget`, `is_done`) -/

def State.depthOf (s : State) (h : Option Nat) : Nat :=
  (s.height + 1) - (h.getD (s.height + 1))

def State.deepEnough (s : State) (h : Option Nat) (limit : Nat) : Bool :=
  if s.depthOf h < limit then false else s.sawForget

def State.isDone (s : State) (minDepth : Nat) : Bool :=
  s.deepEnough s.dsHeight minDepth || s.deepEnough s.mutualHeight minDepth
    || s.deepEnough s.closingSweptHeight minDepth

/-! ### The views other components read

`ChainMonitor::{funding_depth, funding_double_spent_depth, closing_depth}` (saturating, through `depth_of`) and
`ChainMonitorBase::as_chain_state` (the `ChainState` handed to the validator; plain `u32` arithmetic
`state.height + 1 - h`, which underflows — panic in an overflow-checked build — when a recorded height exceeds
`height + 1`).  Note the two different preferences when both closing heights are recorded: `closing_depth` takes
`unilateral.or(mutual)`, `as_chain_state` takes `mutual.or(unilateral)`. -/

def State.fundingDepth (s : State) : Nat := s.depthOf s.fundingHeight

def State.dsDepth (s : State) : Nat := s.depthOf s.dsHeight

/-- `Option::or` -/
def orOpt (a b : Option Nat) : Option Nat := match a with | some x => some x | none => b

def State.closingDepth (s : State) : Nat := s.depthOf (orOpt s.uniHeight s.mutualHeight)

/-- `policy::validator::ChainState` -/
structure ChainState where
  currentHeight : Nat
  fundingDepth : Nat
  dsDepth : Nat
  closingDepth : Nat
  deriving Repr, DecidableEq, Inhabited

/-- `.map(|h| state.height + 1 - h).unwrap_or(0)`; `none` = the subtraction underflows -/
def State.plainDepth (s : State) : Option Nat → Option Nat
  | none => some 0
  | some h => if h ≤ s.height + 1 then some (s.height + 1 - h) else none

/-- `ChainMonitorBase::as_chain_state`; `none` = arithmetic panic -/
def State.chainState (s : State) : Option ChainState :=
  match s.plainDepth s.fundingHeight, s.plainDepth s.dsHeight,
        s.plainDepth (orOpt s.mutualHeight s.uniHeight) with
  | some f, some d, some c => some ⟨s.height, f, d, c⟩
  | _, _, _ => none

end VlsModel.Monitor
