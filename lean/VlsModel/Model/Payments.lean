import VlsModel.Prim.U64
import VlsModel.Model.Velocity
/-
Model of the node-wide payment ledger of `vls-core` (property C06).

Rust (after the `fix:` commits)                                   Lean
-------------------------------                                   ----
HTLCInfo2 {value_sat, payment_hash, cltv_expiry}                  `Htlc`
CommitmentInfo2.{offered,received}_htlcs                          `Info` (node's point of view:
   holder tx: offered = outgoing, received = incoming              `Info.ofHolder`,
   counterparty tx: offered = incoming, received = outgoing)       `Info.ofCp`)
EnforcementState.{current_holder_commit_info,                     `ChanSt.{hcur, hnext, ccur}`
   next_holder_commit_info, current_counterparty_commit_info}      (`None` ≙ no HTLCs)
EnforcementState::summarize_payments                              `sumFor` (+ `sumsOk`: `+=` on u64)
EnforcementState::incoming_payments_summary (min of the views)    `inVal`  + key set `keys`
EnforcementState::payments_summary (max of the views)             `outVal` + key set `keys`
RoutedPayment {incoming, outgoing, cltv bounds, preimage}         `Payment`
RoutedPayment::updated_incoming_outgoing / apply                  `Payment.updated`, `Payment.apply`
NodeState.{invoices, payments}                                    `Node.{invoices, payments}`
SimpleValidator::validate_payment_balance / validate_payment_cltv `balance`, `cltvOk`
NodeState::validate_payments (incl. the "issue 331" tolerance)    `checkHash`, `validate`
NodeState::apply_payments                                         `applyPayments`
Channel::sign_counterparty_commitment_tx_phase2 (validate+apply)  `Node.cpSign`
Channel::validate_holder_commitment_tx_phase2 (validate only)     `Node.hValidate`
Channel::revoke_previous_holder_commitment (validate+apply)       `Node.revoke`
Node::add_keysend / add_invoice (velocity check, THEN registration) `Node.approve` (uses `Velocity.VC.insert`)
NodeState.velocity_control (memory and persisted copy)            `Node.vc : Velocity.NodeVC`, `Node.spec`
NodeState::htlc_fulfilled                                         `Node.fulfill`
Node::get_heartbeat: prune_invoices, prune_forwarded_payments     `Node.heartbeat`
persisted NodeStateEntry {invoices, preimages}                    `Disk`
NodeState.issued_invoices, Node::sign_bolt11_invoice               `Node.issued`, `Node.diskIssued`, `Node.issue`
NodeState::restore + Channel::restore_payments                    `Node.restart`

Finite maps are total functions `key → Option value` (no key-order or duplicate-key questions);
the two places where the Rust code iterates over a whole map (`prune_invoices`) use the explicit
finite support list `Node.known`.  `nch` is the number of channels; channel ids are `0 … nch-1`.

Not modelled (stated in notes/C06.md): the commitment-number protocol (C01/C03; an op says whether it
is a *new* commitment or a *retry* of the current one), all non-payment policy checks on a
commitment, `issued_invoices`, `excess_amount` (`enforce_balance = false` in the default policies),
and the velocity control (unlimited in the default policies).

No Mathlib import: this file is linked into the `vlsmodel` executable.
-/
namespace VlsModel.Payments
open VlsModel

abbrev Hash := Nat
abbrev Chan := Nat

structure Htlc where
  hash : Hash
  value : Nat   -- value_sat : u64
  cltv : Nat    -- cltv_expiry : u32
deriving DecidableEq, Repr

/-- HTLCs of one commitment transaction, seen from the node: `inc` pay the node, `out` are paid by it. -/
structure Info where
  inc : List Htlc
  out : List Htlc
deriving DecidableEq, Repr

def Info.empty : Info := ⟨[], []⟩
/-- holder commitment: offered = outgoing, received = incoming -/
def Info.ofHolder (offered received : List Htlc) : Info := ⟨received, offered⟩
/-- counterparty commitment: offered (by the counterparty) = incoming, received = outgoing -/
def Info.ofCp (offered received : List Htlc) : Info := ⟨offered, received⟩

def hashes (l : List Htlc) : List Hash := l.map (·.hash)

/-- `summarize_payments(htlcs)[h]`, 0 when absent -/
def sumFor : List Htlc → Hash → Nat
  | [], _ => 0
  | x :: xs, h => (if x.hash = h then x.value else 0) + sumFor xs h

/-- the `*e += h.value_sat` of `summarize_payments` does not overflow for any hash -/
def sumsOkL (l : List Htlc) : Bool := (hashes l).all (fun h => sumFor l h ≤ U64.MAX)
def sumsOk (i : Info) : Bool := sumsOkL i.inc && sumsOkL i.out

def optMerge (f : Nat → Nat → Nat) : Option Nat → Option Nat → Option Nat
  | a, none => a
  | none, some b => some b
  | some a, some b => some (f a b)

/-- `htlcs.filter(hash).map(cltv).min()` -/
def minCltv : List Htlc → Hash → Option Nat
  | [], _ => none
  | x :: xs, h => if x.hash = h then optMerge min (some x.cltv) (minCltv xs h) else minCltv xs h
def maxCltv : List Htlc → Hash → Option Nat
  | [], _ => none
  | x :: xs, h => if x.hash = h then optMerge max (some x.cltv) (maxCltv xs h) else maxCltv xs h

/-- `incoming_payments_summary`: value for `h` (`unwrap_or(0)`) with effective holder/counterparty views -/
def inVal (hv cv : Info) (h : Hash) : Nat := min (sumFor hv.inc h) (sumFor cv.inc h)
/-- `payments_summary`: value for `h` -/
def outVal (hv cv : Info) (h : Hash) : Nat := max (sumFor hv.out h) (sumFor cv.out h)

/-- Key set over which `validate_payments` / `apply_payments` iterate: keys of the incoming summary
    (intersection of the effective views, plus every hash of the *current* holder/counterparty txs) and
    of the outgoing summary (union of the effective views, plus the current txs). Duplicates are harmless. -/
def keys (hEff cEff hCur cCur : Info) : List Hash :=
  (hashes hEff.inc).filter (fun h => h ∈ hashes cEff.inc) ++ hashes hCur.inc ++ hashes cCur.inc
    ++ hashes hEff.out ++ hashes cEff.out ++ hashes hCur.out ++ hashes cCur.out

structure Payment where
  inc : Chan → Nat
  out : Chan → Nat
  cltvMin : Option Nat
  cltvMax : Option Nat
  pre : Bool

def Payment.new : Payment := ⟨fun _ => 0, fun _ => 0, none, none, false⟩

def upd {α : Type} (f : Nat → α) (k : Nat) (v : α) : Nat → α := fun x => if x = k then v else f x

/-- Σ over the channels `0 … n-1` -/
def sumCh : Nat → (Chan → Nat) → Nat
  | 0, _ => 0
  | n + 1, f => sumCh n f + f n

/-- `updated_incoming_outgoing`: `sum + new - old` in u64; `none` = the addition overflows (debug panic) -/
def Payment.updated (p : Payment) (nch : Nat) (c : Chan) (ni no : Nat) : Option (Nat × Nat) :=
  if sumCh nch p.inc + ni ≤ U64.MAX ∧ sumCh nch p.out + no ≤ U64.MAX then
    some (sumCh nch p.inc + ni - p.inc c, sumCh nch p.out + no - p.out c)
  else none

def Payment.apply (p : Payment) (c : Chan) (ni no : Nat) (ic oc : Option Nat) : Payment :=
  { p with inc := upd p.inc c ni, out := upd p.out c no,
           cltvMin := optMerge min p.cltvMin ic, cltvMax := optMerge max p.cltvMax oc }

structure Policy where
  maxFee : Nat      -- max_routing_fee_msat
  feePct : Nat      -- max_feerate_percentage
  cltvDelta : Nat   -- cltv_delta
deriving DecidableEq, Repr

/-- The HTLC trim thresholds of a commitment (`SimpleValidator::validate_commitment_tx`, non-zero-fee-HTLC channel):
    `MIN_DUST_LIMIT_SATOSHIS + feerate_per_kw * htlc_timeout_tx_weight / 1000` for offered HTLCs and the same with
    `htlc_success_tx_weight` for received ones.  `⟨0, 0⟩` = nothing is ever below the threshold. -/
structure Dust where
  off : Nat
  rcv : Nat
deriving DecidableEq, Repr

def dustLimit (minDust feerate weight : Nat) : Nat := minDust + feerate * weight / 1000

/-- `policy-commitment-outputs-trimmed`: a commitment that LISTS an HTLC below the trim threshold of its direction is
    refused (such an HTLC has no output on the transaction; the signer insists that the node does not list it).
    `offered` / `received` are relative to the broadcaster of the commitment. -/
def untrimmed (d : Dust) (offered received : List Htlc) : Bool :=
  offered.all (fun h => !(h.value < d.off)) && received.all (fun h => !(h.value < d.rcv))

structure Invoice where
  amount : Nat      -- amount_msat
  deadline : Nat    -- duration_since_epoch + expiry_duration + prune_time (seconds)
  id : List Nat     -- stands for invoice_hash (keysend: `[0, hash]`; BOLT-11: `[1, amount, timestamp, tag]`)
deriving DecidableEq, Repr

structure ChanSt where
  hcur : Info
  hnext : Option Info
  ccur : Info
  /-- `next_counterparty_commit_num` / `next_counterparty_revoke_num` (the part of the commitment-number
      protocol that decides whether a counterparty signing request is a legal *new* one or a legal *retry*) -/
  cpNum : Nat
  cpRev : Nat
deriving DecidableEq, Repr

/-- a channel right after both initial commitments (number 0, no HTLCs) were exchanged -/
def ChanSt.init : ChanSt := ⟨Info.empty, none, Info.empty, 1, 0⟩

/-- what `persister.update_node` last wrote -/
structure Disk where
  invoices : Hash → Option Invoice
  pre : Hash → Bool

structure Node where
  nch : Nat
  pol : Policy
  invoices : Hash → Option Invoice
  /-- finite support: every hash mentioned by any request so far (`Node.step` maintains it) -/
  known : List Hash
  payments : Hash → Option Payment
  chans : Chan → ChanSt
  disk : Disk
  /-- `NodeState.issued_invoices`: invoices this node ISSUED (receiving side, `sign_bolt11_invoice`), in memory
      and as last persisted.  They never approve anything: no payment entry is created for them, neither when
      they are issued nor by a restart. -/
  issued : Hash → Option Invoice
  diskIssued : Hash → Option Invoice
  /-- `policy.global_velocity_control` and the node-wide control (memory / persisted copy) -/
  spec : Velocity.Spec
  vc : Velocity.NodeVC
  /-- trim thresholds at the (fixed) commitment feerate of the channels -/
  dust : Dust
  /-- `policy.max_invoices()` -/
  maxInv : Nat

def Node.init (nch : Nat) (pol : Policy) (spec : Velocity.Spec := ⟨0, .unlimited⟩) (dust : Dust := ⟨0, 0⟩)
    (maxInv : Nat := 1000) : Node :=
  { nch := nch, pol := pol, invoices := fun _ => none, known := [], payments := fun _ => none,
    chans := fun _ => ChanSt.init, disk := ⟨fun _ => none, fun _ => false⟩,
    issued := fun _ => none, diskIssued := fun _ => none,
    spec := spec, vc := Velocity.NodeVC.ofSpec spec, dust := dust, maxInv := maxInv }

inductive VRes | ok | err | panic
deriving DecidableEq, Repr

/-- `validate_payment_cltv` -/
def cltvOk (pol : Policy) (incoming outgoing : Nat) : Bool :=
  !(incoming ≤ outgoing) && !(incoming - outgoing < pol.cltvDelta)

/-- `validate_payment_balance(incoming_msat, outgoing_msat, invoiced_amount_msat)` with the plain u64
    `+` of the source (`panic` = debug-build overflow). -/
def balance (pol : Policy) (inMsat outMsat : Nat) (inv : Option Nat) : VRes :=
  match inv with
  | none =>
    -- max_to_invoice_msat = 0
    if inMsat + 0 < outMsat then .err else .ok
  | some a =>
    if a + pol.maxFee > U64.MAX then .panic
    else if inMsat + (a + pol.maxFee) > U64.MAX then .panic
    else if inMsat + (a + pol.maxFee) < outMsat then .err
    else if a + inMsat > U64.MAX then .panic
    else if a + inMsat > outMsat then .ok
    else
      let fee := outMsat - a - inMsat
      match U64.checkedMul fee 100 with
      | none => .err
      | some x => if x / max a 1 > pol.feePct then .err else .ok

/-- `if let Some((inc, out)) = p.get_cltv_bounds() { validator.validate_payment_cltv(inc, out)? }` -/
def cltvGate (pol : Policy) (p : Payment) : Bool :=
  match p.cltvMin, p.cltvMax with
  | some a, some b => cltvOk pol a b
  | _, _ => true

/-- One iteration of the preflight loop of `validate_payments` for hash `h` on channel `c`, the channel
    moving to `(ni, no)`.  `.ok` includes the tolerated imbalance of an uninvoiced *existing* payment
    (TODO(331) branch); `.err` = cltv refusal or the hash is pushed to `unbalanced`. -/
def checkHash (invoices : Hash → Option Invoice) (payments : Hash → Option Payment) (pol : Policy)
    (nch : Nat) (c : Chan) (ni no : Nat) (h : Hash) : VRes :=
  let cl : Bool := match payments h with
    | some p => cltvGate pol p
    | none => true
  if !cl then .err else
  let io : Option (Nat × Nat) := match payments h with
    | some p => p.updated nch c ni no
    | none => some (ni, no)
  match io with
  | none => .panic
  | some (i, o) =>
    if i * 1000 > U64.MAX ∨ o * 1000 > U64.MAX then .panic else
    match balance pol (i * 1000) (o * 1000) ((invoices h).map (·.amount)) with
    | .ok => .ok
    | .panic => .panic
    | .err => if (payments h).isSome && (invoices h).isNone then .ok else .err

/-- `validate_payments` for channel `c` with effective views `hEff`/`cEff` (one of them new). -/
def validate (n : Node) (c : Chan) (hEff cEff : Info) : VRes :=
  let st := n.chans c
  if !(sumsOk hEff && sumsOk cEff) then .panic else
  let ks := keys hEff cEff st.hcur st.ccur
  let r := fun h => checkHash n.invoices n.payments n.pol n.nch c (inVal hEff cEff h) (outVal hEff cEff h) h
  if ks.any (fun h => r h == .panic) then .panic
  else if ks.all (fun h => r h == .ok) then .ok else .err

/-- `apply_payments` with `commit_info = Some(info2)`: the cltv bounds come from the *new* tx only. -/
def applyPayments (payments : Hash → Option Payment) (c : Chan) (hEff cEff hCur cCur newInfo : Info) :
    Hash → Option Payment :=
  fun h =>
    if h ∈ keys hEff cEff hCur cCur then
      some (((payments h).getD Payment.new).apply c (inVal hEff cEff h) (outVal hEff cEff h)
              (minCltv newInfo.inc h) (maxCltv newInfo.out h))
    else payments h

def Node.setChan (n : Node) (c : Chan) (st : ChanSt) : Node := { n with chans := upd n.chans c st }

/-- `sign_counterparty_commitment_tx_phase2`.  `retry = false`: commitment number `cpNum` (legal iff the
    predecessor of the current one is revoked: `cpNum = cpRev + 1`).  `retry = true`: the number is the
    current one, `cpNum - 1`; the info must be unchanged (policy-commitment-retry-same) and
    `set_next_counterparty_commit_num` refuses it once the predecessor has been revoked; the payments are
    validated and applied again, the stored info is not replaced. -/
def Node.cpSign (n : Node) (c : Chan) (retry : Bool) (info : Info) : Node × VRes :=
  let st := n.chans c
  if c ≥ n.nch then (n, .err) else   -- unknown channel: `with_channel` fails
  if retry && info != st.ccur then (n, .err) else
  if !retry && st.cpNum != st.cpRev + 1 then (n, .err) else
  match validate n c st.hcur info with
  | .ok =>
    if retry && !(st.cpNum == 1 || st.cpNum ≥ st.cpRev + 2) then (n, .err) else
    ({ n with payments := applyPayments n.payments c st.hcur info st.hcur st.ccur info,
              chans := upd n.chans c { st with ccur := info, cpNum := if retry then st.cpNum else st.cpNum + 1 } }, .ok)
  | r => (n, r)

/-- `validate_counterparty_revocation` of commitment `cpRev` with the right secret: legal iff that
    commitment has a signed successor. No effect on the payments. -/
def Node.cpRevoke (n : Node) (c : Chan) : Node × VRes :=
  let st := n.chans c
  if c ≥ n.nch then (n, .err) else
  if st.cpRev + 2 = st.cpNum then (n.setChan c { st with cpRev := st.cpRev + 1 }, .ok) else (n, .err)

/-- `validate_holder_commitment_tx_phase2`: validate only; a new commitment is remembered as `hnext`. -/
def Node.hValidate (n : Node) (c : Chan) (retry : Bool) (info : Info) : Node × VRes :=
  let st := n.chans c
  if c ≥ n.nch then (n, .err) else
  if retry && info != st.hcur then (n, .err) else
  match validate n c info st.ccur with
  | .ok => (if retry then n else n.setChan c { st with hnext := some info }, .ok)
  | r => (n, r)

/-- `revoke_previous_holder_commitment` (after the fix: re-validate, keep `hnext` when refused). -/
def Node.revoke (n : Node) (c : Chan) : Node × VRes :=
  let st := n.chans c
  if c ≥ n.nch then (n, .err) else
  match st.hnext with
  | none => (n, .err)
  | some info =>
    match validate n c info st.ccur with
    | .ok =>
      ({ n with payments := applyPayments n.payments c info st.ccur st.hcur st.ccur info,
                chans := upd n.chans c { st with hcur := info, hnext := none } }, .ok)
    | r => (n, r)

/-- `persister.update_node`: invoices, preimages and the velocity control as they are in memory -/
def Node.persist (n : Node) : Node :=
  { n with disk := ⟨n.invoices, fun h => match n.payments h with | some p => p.pre | none => false⟩,
           diskIssued := n.issued,
           vc := { n.vc with disk := n.vc.mem } }

/-- `sign_bolt11_invoice`: the node issues an invoice for `h`.  Same invoice again = Ok without effect, a different
    one for the same hash = Err, zero-amount invoices are not remembered.  Nothing is persisted, no payment entry. -/
def Node.issue (n : Node) (h : Hash) (inv : Invoice) : Node × Bool :=
  -- `state.issued_invoices.len() >= policy.max_invoices()` answers first (`Err`), also for a repeat (round 9: found by
  -- the escalated search in the `m1` worlds; `maxInv` is defined further down with `invoiceCount`, hence `issuedFull`)
  if (n.known.eraseDups.filter (fun x => (n.issued x).isSome)).length ≥ n.maxInv then (n, false) else
  match n.issued h with
  | some old => (n, old.id = inv.id)
  | none => (if inv.amount > 0 then { n with issued := upd n.issued h (some inv) } else n, true)

inductive ARes | added | same | different | declined | panic
deriving DecidableEq, Repr

/-- `add_keysend` / `add_invoice` at clock time `now`.  Order of the source: an existing invoice for the
    hash answers first (`Ok(true)` without effect when the invoice hash is the same, `Err` otherwise, no
    velocity accounting); then `velocity_control.insert(now, amount)` (`Velocity.VC.insert`, panics when
    the clock went backwards): refused ⇒ `Ok(false)`, NOTHING is registered (only the shifted buckets stay,
    in memory); approved ⇒ the invoice and a payment entry are registered and the node state is persisted. -/
def Node.approve (n : Node) (h : Hash) (inv : Invoice) (now : Nat) : Node × ARes :=
  match n.invoices h with
  | some old => (n, if old.id = inv.id then .same else .different)
  | none =>
    match n.vc.mem.insert now inv.amount with
    | none => (n, .panic)
    | some (v, false) => ({ n with vc := { n.vc with mem := v } }, .declined)
    | some (v, true) =>
      (Node.persist { n with invoices := upd n.invoices h (some inv), known := h :: n.known,
                              payments := upd n.payments h (some ((n.payments h).getD Payment.new)),
                              vc := { n.vc with mem := v } }, .added)

/-- `Approve::handle_proposed_invoice/keysend` with an approver that says no (`NegativeApprover`, or a user
    declining): the `has_payment` shortcut still answers for a hash the node already has (same invoice =
    `Ok(true)`, different = `Err`); otherwise `Ok(false)` and the node is not touched at all. With an approver
    that says yes the same shortcut runs first and then `add_invoice`/`add_keysend` = `Node.approve`, whose own
    first branch gives the same answers. -/
def Node.proposeDeclined (n : Node) (h : Hash) (inv : Invoice) : ARes :=
  match n.invoices h with
  | some old => if old.id = inv.id then .same else .different
  | none => .declined

/-- `htlc_fulfilled` (no issued invoices, `enforce_balance = false`): record the preimage. -/
def Node.fulfill (n : Node) (h : Hash) : Node × Bool :=
  match n.payments h with
  | some p => if p.pre then (n, false) else ({ n with payments := upd n.payments h (some { p with pre := true }) }, true)
  | none => (n, false)

def invoicePrunable (now : Nat) (inv : Invoice) (p : Payment) (nch : Nat) : Bool :=
  (p.pre || sumCh nch p.out == 0) && now > inv.deadline

/-- `prune_invoices`: the invoice of `h` is pruned (together with its payment entry) -/
def Node.pr (n : Node) (now : Nat) (h : Hash) : Bool :=
  match n.invoices h, n.payments h with
  | some inv, some p => invoicePrunable now inv p n.nch
  | _, _ => false
def Node.inv1 (n : Node) (now : Nat) : Hash → Option Invoice := fun h => if n.pr now h then none else n.invoices h
def Node.pay1 (n : Node) (now : Nat) : Hash → Option Payment := fun h => if n.pr now h then none else n.payments h
/-- `prune_issued_invoices`: kept iff `timestamp + expiry + prune_time > now` -/
def Node.issPruned (n : Node) (now : Nat) (h : Hash) : Bool :=
  match n.issued h with
  | some inv => !(inv.deadline > now)
  | none => false
def Node.iss1 (n : Node) (now : Nat) : Hash → Option Invoice := fun h => if n.issPruned now h then none else n.issued h
/-- `prune_forwarded_payments` (after `prune_invoices` and `prune_issued_invoices`): no invoice, no issued invoice,
    nothing incoming, nothing outgoing -/
def Node.fw (n : Node) (now : Nat) (h : Hash) : Bool :=
  match n.pay1 now h with
  | some p => (n.inv1 now h).isNone && (n.iss1 now h).isNone && sumCh n.nch p.inc == 0 && sumCh n.nch p.out == 0
  | none => false
def Node.pay2 (n : Node) (now : Nat) : Hash → Option Payment := fun h => if n.fw now h then none else n.pay1 now h

/-- `get_heartbeat`: `prune_invoices(now)` then `prune_forwarded_payments()`; `none` = the
    `missing payments struct` panic of `prune_invoices`. The node state is persisted iff something was pruned. -/
def Node.heartbeat (n : Node) (now : Nat) : Option Node :=
  if n.known.any (fun h => (n.invoices h).isSome && (n.payments h).isNone) then none else
  let n' := { n with invoices := n.inv1 now, payments := n.pay2 now, issued := n.iss1 now }
  some (if n.known.any (fun h => n.pr now h || n.issPruned now h || n.fw now h) then n'.persist else n')

/-- `restore_payments` of one channel on the payments map being rebuilt -/
def restoreChan (chans : Chan → ChanSt) (payments : Hash → Option Payment) (c : Chan) : Hash → Option Payment :=
  let st := chans c
  fun h =>
    if h ∈ keys st.hcur st.ccur st.hcur st.ccur then
      some (((payments h).getD Payment.new).apply c (inVal st.hcur st.ccur h) (outVal st.hcur st.ccur h)
              ((minCltv st.hcur.inc h).orElse (fun _ => minCltv st.ccur.inc h))
              ((maxCltv st.hcur.out h).orElse (fun _ => maxCltv st.ccur.out h)))
    else payments h

def restoreAll (chans : Chan → ChanSt) : Nat → (Hash → Option Payment) → (Hash → Option Payment)
  | 0, p => p
  | k + 1, p => restoreChan chans (restoreAll chans k p) k

/-- restart: `NodeState::restore` (invoices and preimages from the persisted entry, payments rebuilt
    from the preimages), `Node::restore_node` (a fresh payment entry per invoice) followed by `restore_payments` on every channel (the channel entries are
    persisted by every accepted commitment request). -/
def Node.restart (n : Node) : Node :=
  -- `restore_node`: `state.payments.insert(h, RoutedPayment::new())` for every invoice *overwrites* the
  -- entry rebuilt from the persisted preimage
  let base : Hash → Option Payment := fun h =>
    if (n.disk.invoices h).isSome then some Payment.new
    else if n.disk.pre h then some { Payment.new with pre := true } else none
  -- `Node::new_full`: the restored velocity control, `update_spec(policy)` applied
  { n with invoices := n.disk.invoices, payments := restoreAll n.chans n.nch base,
           issued := n.diskIssued,
           vc := { n.vc with mem := n.vc.disk.restart n.spec } }

inductive Op
  | cpSign (c : Chan) (retry : Bool) (info : Info)
  | hValidate (c : Chan) (retry : Bool) (info : Info)
  | revoke (c : Chan)
  | cpRevoke (c : Chan)
  | approve (h : Hash) (inv : Invoice) (now : Nat)
  | decline (h : Hash) (inv : Invoice)
  | issue (h : Hash) (inv : Invoice)
  | fulfill (h : Hash)
  | heartbeat (now : Nat)
  | restart
deriving Repr

/-- Which request a proposal turns into (`Approve::handle_proposed_invoice` / `handle_proposed_keysend` of
    vls-protocol-signer), given the approver's answer and whether the payee is on the node's allowlist
    (`Allowable::Payee`): the invoice of an allowlisted payee goes to `add_invoice` WITHOUT asking the approver;
    `handle_proposed_keysend` does not look at the allowlist (TODO in the source), there only the approver decides.
    (The `has_payment` shortcut in front of both is the first branch of `Node.approve` / `Node.proposeDeclined`.) -/
def proposalOp (isInvoice allowlisted approverYes : Bool) (h : Hash) (inv : Invoice) (now : Nat) : Op :=
  if approverYes || (isInvoice && allowlisted) then .approve h inv now else .decline h inv

def Op.mentioned : Op → List Hash
  | .cpSign _ _ i => hashes i.inc ++ hashes i.out
  | .hValidate _ _ i => hashes i.inc ++ hashes i.out
  | .approve h _ _ => [h]
  | .decline h _ => [h]
  | .issue h _ => [h]
  | .fulfill h => [h]
  | _ => []

/-- `state.invoices.len()` over the finite support -/
def Node.invoiceCount (n : Node) : Nat := (n.known.eraseDups.filter (fun h => (n.invoices h).isSome)).length

/-- `state.invoices.len() >= policy.max_invoices()`: `add_invoice` / `add_keysend` then answer `Err("too many invoices")`
    — BEFORE they look whether the hash already has an invoice.  Through the approver the `has_payment` shortcut comes
    first, so there an existing entry still answers (same = `Ok(true)`, different = `Err`); a DIRECT call is refused
    even for an identical repeat (`Node.directRefusedByLimit`). -/
def Node.full (n : Node) : Bool := decide (n.invoiceCount ≥ n.maxInv)
def Node.directRefusedByLimit (n : Node) : Bool := n.full

def Node.exec (n : Node) : Op → Option (Node × Bool)
  -- `validate_counterparty_commitment_tx` / `validate_holder_commitment_tx` (→ `validate_commitment_tx`) run before
  -- `validate_payments`: a listed HTLC below the trim threshold refuses the request, nothing changes.
  -- counterparty commitment: offered (by the counterparty) = incoming, received = outgoing; holder: the reverse
  | .cpSign c r i =>
    if !(untrimmed n.dust i.inc i.out) then some (n, false) else
    match n.cpSign c r i with
      | (n', .ok) => some (n', true) | (_, .err) => some (n, false) | (_, .panic) => none
  | .hValidate c r i =>
    if !(untrimmed n.dust i.out i.inc) then some (n, false) else
    match n.hValidate c r i with
      | (n', .ok) => some (n', true) | (_, .err) => some (n, false) | (_, .panic) => none
  | .revoke c => match n.revoke c with
      | (n', .ok) => some (n', true) | (_, .err) => some (n, false) | (_, .panic) => none
  | .cpRevoke c => match n.cpRevoke c with
      | (n', .ok) => some (n', true) | (_, _) => some (n, false)
  | .approve h inv now =>
    -- (through the approver) an existing entry answers first, a NEW approval is refused when the table is full
    if n.full && (n.invoices h).isNone then some (n, false) else
    match n.approve h inv now with
      | (n', .added) => some (n', true) | (_, .same) => some (n, true) | (_, .different) => some (n, false)
      | (n', .declined) => some (n', false) | (_, .panic) => none
  | .decline h inv => some (n, n.proposeDeclined h inv == .same)
  | .issue h inv => some (n.issue h inv)
  | .fulfill h => some ((n.fulfill h).1, true)
  | .heartbeat now => (n.heartbeat now).map (fun n' => (n', true))
  | .restart => some (n.restart, true)

/-- One request. `none` = the implementation panicked (the process is gone; the history ends);
    the Boolean says whether the request was accepted. -/
def Node.step (n : Node) (op : Op) : Option (Node × Bool) :=
  Node.exec { n with known := op.mentioned ++ n.known } op

end VlsModel.Payments
