/-
C18 — channel keys as a function of (seed, network, channel id).

Models, by hand (validated by the correspondence harness `harness/src/props/c18.rs`):

* `vls-core/src/util/crypto_utils.rs`: `hkdf_extract_expand`, `hkdf_sha256`, `hkdf_sha256_keys`
  (executable HKDF-SHA256 on top of `Prim/Sha256.lean`);
* `vls-core/src/signer/derive.rs`: `KeyDerive::{channels_seed, keys_id, channel_keys}` for the
  Native and LDK styles (BIP32 is an opaque oracle), LND only abstractly;
* `vls-core/src/signer/my_keys_manager.rs`: the three counters of `MyKeysManager` and what
  `get_channel_keys_with_id` / `get_channel_keys_with_keys_id` do to them;
* `vls-core/src/node.rs` / `channel.rs`: `new_channel`, `setup_channel` (copies the stub's keys),
  `new_from_persistence` (re-derives every channel from its persisted `id0`), the guards of
  `get_per_commitment_point` / `get_per_commitment_secret_or_none`;
* LDK `chan_utils::build_commitment_secret` and `CounterpartyCommitmentSecrets::derive_secret`.

Which parameters a style's `channel_keys` reads comes from the generated table
`Gen/KeyDeriveUse.lean`; the abstract derivation masks every input the body does not read.
No Mathlib import (linked into the `vlsmodel` executable).
-/
import VlsModel.Prim.Sha256
import VlsModel.Gen.KeyDeriveUse

namespace VlsModel.Keys
open VlsModel.Sha256 (Bytes)
open VlsModel.Gen.KeyDeriveUse

/-! ## HKDF-SHA256 (crypto_utils.rs) -/

/-- the `for chunk in output.chunks_mut(32)` loop of `hkdf_extract_expand`: chunk `n` (1-based) is
`HMAC(prk, t_{n-1} ‖ info ‖ [n])` with `t_0` absent.  `fuel` chunks starting at counter `n`. -/
def hkdfChunks (prk info : Bytes) : (fuel : Nat) → (n : Nat) → (tPrev : Bytes) → Bytes
  | 0, _, _ => []
  | fuel + 1, n, tPrev =>
    let t := Sha256.hmac prk ((if n = 1 then [] else tPrev) ++ info ++ [UInt8.ofNat n])
    t ++ hkdfChunks prk info fuel (n + 1) t

/-- `hkdf_extract_expand(salt, secret, info, output)` for an output of `chunks * 32` bytes.
The real code panics (`checked_add` on a `u8`) when more than 255 chunks are requested: `none`. -/
def hkdfExtractExpand (salt secret info : Bytes) (chunks : Nat) : Option Bytes :=
  if chunks > 255 then none
  else some (hkdfChunks (Sha256.hmac salt secret) info chunks 1 [])

/-- `hkdf_sha256(secret, info, salt)`: one chunk, cannot hit the chunk limit -/
def hkdfSha256 (secret info salt : Bytes) : Bytes :=
  hkdfChunks (Sha256.hmac salt secret) info 1 1 []

/-- `hkdf_sha256_keys(secret, info, salt)`: six chunks (192 bytes), cannot hit the chunk limit -/
def hkdfSha256Keys (secret info salt : Bytes) : Bytes :=
  hkdfChunks (Sha256.hmac salt secret) info 6 1 []

/-! ## Styles, inputs and the keys manager -/

inductive Style | native | ldk | lnd
  deriving DecidableEq, Repr

inductive Net | bitcoin | testnet | signet | regtest
  deriving DecidableEq, Repr

/-- the counters `MyKeysManager` really has (all its `Atomic*` fields) -/
structure KMState where
  channelIdChildIndex : Nat
  randBytesChildIndex : Nat
  lndBasepointIndex : Nat
  deriving DecidableEq, Repr

/-- state right after `MyKeysManager::new`: the constructor draws one `get_secure_random_bytes` -/
def KMState.fresh : KMState := ⟨0, 1, 0⟩

/-- secret key material of one channel (what `InMemorySigner::new` receives) -/
structure KeyMaterial where
  keysId : Bytes
  funding : Bytes
  revocation : Bytes
  htlc : Bytes
  payment : Bytes
  delayed : Bytes
  commitmentSeed : Bytes
  deriving DecidableEq, Repr

/-- the six secrets returned by `channel_keys`, in the order of its result tuple -/
structure Secrets6 where
  funding : Bytes
  revocation : Bytes
  htlc : Bytes
  payment : Bytes
  delayed : Bytes
  commitmentSeed : Bytes
  deriving DecidableEq, Repr

/-- everything `get_channel_keys_with_keys_id` hands to `channel_keys`
(`master_key` is `master_key(seed)` under the configured network) -/
structure ChanKeysIn where
  seed : Bytes
  net : Net
  keysId : Bytes
  basepointIndex : Nat
  deriving DecidableEq, Repr

/-- derivation primitives as parameters -/
structure Prims where
  /-- `hkdf_sha256(secret, info, salt)` -/
  hkdf32 : Bytes → Bytes → Bytes → Bytes
  /-- the body of a style's `channel_keys` as a function of the inputs it is handed -/
  chanKeys : Style → ChanKeysIn → Secrets6
  /-- `get_channel_id`: the random id generated from the starting time and a counter -/
  randomId : Nat → Bytes

def useOf : Style → ChanKeysUse
  | .native => nativeChanKeys
  | .ldk => ldkChanKeys
  | .lnd => lndChanKeys

def maskOf : Style → List (Nat × UInt8)
  | .native => nativeKeysIdMask
  | .ldk => ldkKeysIdMask
  | .lnd => lndKeysIdMask

/-- an input that the body of `channel_keys` does not read cannot influence its result: it is
replaced by a constant before the (opaque) body sees it.  `master_key` is a function of seed and
network, so reading it counts as reading both. -/
def maskIn (u : ChanKeysUse) (i : ChanKeysIn) : ChanKeysIn :=
  { seed := if u.seed || u.masterKey then i.seed else [],
    net := if u.masterKey || u.selfNetwork then i.net else .bitcoin,
    keysId := if u.keysId then i.keysId else [],
    basepointIndex := if u.basepointIndex then i.basepointIndex else 0 }

/-- `res[i] &= m` for every generated mask entry -/
def applyMask (m : List (Nat × UInt8)) (b : Bytes) : Bytes :=
  m.foldl (fun acc (p : Nat × UInt8) => acc.modify p.1 (· &&& p.2)) b

/-- `KeyDerive::channels_seed(seed)` -/
def channelSeedBase (P : Prims) (seed : Bytes) : Bytes := P.hkdf32 seed infoPeerSeed []

/-- `KeyDerive::keys_id(channel_id, channel_seed_base)` (the channel id is the HKDF *salt*) -/
def keysIdOf (P : Prims) (style : Style) (base id : Bytes) : Bytes :=
  applyMask (maskOf style) (P.hkdf32 base infoPerPeerSeed id)

/-- `get_channel_keys_with_keys_id(keys_id, _)` (also `derive_channel_keys`, which
`spend_spendable_outputs` calls with the `channel_keys_id` of a descriptor): the key material handed
to `InMemorySigner::new`, derived from a keys id.  `st` is the manager state *before* the call (its
`lnd_basepoint_index` is what `fetch_add` returns). -/
def channelKeysFromKeysId (P : Prims) (style : Style) (seed : Bytes) (net : Net) (keysId : Bytes)
    (st : KMState) : KeyMaterial :=
  let s := P.chanKeys style (maskIn (useOf style) ⟨seed, net, keysId, st.lndBasepointIndex⟩)
  ⟨keysId, s.funding, s.revocation, s.htlc, s.payment, s.delayed, s.commitmentSeed⟩

/-- `get_channel_keys_with_id(channel_id, _)`: `keys_id` from the channel id, then the above -/
def channelKeys (P : Prims) (style : Style) (seed : Bytes) (net : Net) (id : Bytes) (st : KMState) :
    KeyMaterial :=
  channelKeysFromKeysId P style seed net (keysIdOf P style (channelSeedBase P seed) id) st

/-- the counters after one `get_channel_keys_with_keys_id` (`fetch_add` on a `u32` wraps) -/
def KMState.afterDerive (st : KMState) : KMState :=
  { st with lndBasepointIndex := (st.lndBasepointIndex + 1) % 2 ^ 32,
            randBytesChildIndex := st.randBytesChildIndex + 1 }

/-! ## Channel ids (`ChannelId` of channel.rs) and what HMAC does to them

`keys_id` uses the channel id as the HKDF *salt*, i.e. as the HMAC key of the extract step.  HMAC first
normalises its key to one 64-byte block (`hmacKeyBlock`): two ids with the same block necessarily get the same
keys (known finding), two ids with different blocks collide only if HMAC-SHA256 itself collides.  The ids the node
API builds (`new_from_peer_id_and_oid`: 41 bytes, `new_from_oid` / `get_channel_id`: 32 bytes) are modelled here so
that `Props/C18.lean` can prove that *they* never share a block. -/

/-- `u64::to_le_bytes` -/
def le64 (n : Nat) : Bytes := (List.range 8).map (fun i => UInt8.ofNat ((n >>> (8 * i)) % 256))

/-- `u64::from_le_bytes` (of whatever bytes it is given; `ChannelId::oid` hands it exactly 8) -/
def le64Val (b : Bytes) : Nat := b.foldr (fun x acc => x.toNat + 256 * acc) 0

/-- `ChannelId::new_from_peer_id_and_oid(peer_id: &[u8; 33], oid)` (CLN style): `peer_id ‖ oid.to_le_bytes()` -/
def chanIdOfPeerOid (peer : Bytes) (oid : Nat) : Bytes := peer ++ le64 oid

/-- `ChannelId::new_from_oid(oid)` (LDK style): 24 zero bytes ‖ `oid.to_le_bytes()` -/
def chanIdOfOid (oid : Nat) : Bytes := List.replicate 24 0 ++ le64 oid

/-- `ChannelId::oid()`: the last 8 bytes read little-endian; `none` where `&self.0[len - 8..]` panics
(an id shorter than 8 bytes: `usize` underflow) -/
def chanIdOid (id : Bytes) : Option Nat :=
  if id.length < 8 then none else some (le64Val (id.drop (id.length - 8)))

/-- `ChannelId::ldk_channel_keys_id()`: the id itself if it has exactly 32 bytes, else a panic
(`copy_from_slice` length mismatch) -/
def chanIdLdkKeysId (id : Bytes) : Option Bytes := if id.length = 32 then some id else none

/-- the 64-byte block HMAC-SHA256 turns its key into (`Sha256.hmac` starts with exactly this) -/
def hmacKeyBlock (key : Bytes) : Bytes :=
  let k0 := if key.length > 64 then Sha256.sha256 key else key
  k0 ++ List.replicate (64 - k0.length) 0

/-! ## Concrete primitives -/

def slice32 (b : Bytes) (k : Nat) : Bytes := (b.drop (32 * k)).take 32

/-- `NativeKeyDerive::channel_keys`: 192 bytes of HKDF over `keys_id`, cut in six -/
def nativeChanKeysFn (i : ChanKeysIn) : Secrets6 :=
  let buf := hkdfSha256Keys i.keysId infoNativeKeys []
  ⟨slice32 buf 0, slice32 buf 1, slice32 buf 2, slice32 buf 3, slice32 buf 4, slice32 buf 5⟩

/-- `slice_to_be64(&keys_id[0..8])` -/
def be64 (b : Bytes) : Nat := (b.take 8).foldl (fun acc x => acc * 256 + x.toNat) 0

def strBytes (s : String) : Bytes := s.toUTF8.toList

/-- `LdkKeyDerive::channel_keys` given the BIP32 oracle
`child seed net idx` = private key of `m/3'/idx'` of `Xpriv::new_master(net, seed)`.
Returns `none` where the real code panics (`assert!(chan_id <= u32::MAX)`, or a hardened index
`≥ 2^31`). -/
def ldkChanKeysFn (child : Bytes → Net → Nat → Bytes) (i : ChanKeysIn) : Option Secrets6 :=
  let chanId := be64 i.keysId
  if chanId ≥ 2 ^ 31 then none else
  let channelSeed := Sha256.sha256 (i.keysId ++ i.seed ++ child i.seed i.net chanId)
  let commitmentSeed := Sha256.sha256 (channelSeed ++ strBytes "commitment seed")
  let step (info : String) (prev : Bytes) := Sha256.sha256 (channelSeed ++ prev ++ strBytes info)
  let funding := step "funding key" commitmentSeed
  let revocation := step "revocation base key" funding
  let payment := step "payment key" revocation
  let delayed := step "delayed payment base key" payment
  let htlc := step "HTLC base key" delayed
  some ⟨funding, revocation, htlc, payment, delayed, commitmentSeed⟩

def emptySecrets : Secrets6 := ⟨[], [], [], [], [], []⟩

/-- executable primitives: real HKDF, native and LDK bodies (LDK with a BIP32 oracle) -/
def concretePrims (child : Bytes → Net → Nat → Bytes) : Prims :=
  { hkdf32 := hkdfSha256,
    chanKeys := fun s i =>
      match s with
      | .native => nativeChanKeysFn i
      | .ldk => (ldkChanKeysFn child i).getD emptySecrets   -- `none` is reported by the driver
      | .lnd => emptySecrets,                               -- LND is outside the property
    randomId := fun _ => [] }

/-! ## Per-commitment secrets (LDK `build_commitment_secret`, `derive_secret`) -/

/-- `res[bitpos / 8] ^= 1 << (bitpos & 7)` -/
def flipBit (s : Bytes) (bitpos : Nat) : Bytes :=
  s.modify (bitpos / 8) (· ^^^ (1 <<< UInt8.ofNat (bitpos % 8)))

/-- `CounterpartyCommitmentSecrets::derive_secret(secret, bits, idx)`: for `bitpos` from `bits-1`
down to `0`, if bit `bitpos` of `idx` is set: flip that bit of the secret and hash.
`step s bitpos` is "flip then hash". -/
def deriveWith (step : Bytes → Nat → Bytes) (s : Bytes) : (bits : Nat) → (idx : Nat) → Bytes
  | 0, _ => s
  | b + 1, idx => deriveWith step (if idx.testBit b then step s b else s) b idx

def derive (H : Bytes → Bytes) (s : Bytes) (bits idx : Nat) : Bytes :=
  deriveWith (fun s b => H (flipBit s b)) s bits idx

/-- `build_commitment_secret(commitment_seed, idx)`: the same walk over 48 bits from the seed -/
def commitSecret (H : Bytes → Bytes) (seed : Bytes) (idx : Nat) : Bytes := derive H seed 48 idx

/-- `idx & !((1 << b) - 1)` -/
def zeroLow (idx b : Nat) : Nat := (idx >>> b) <<< b

def INITIAL_COMMITMENT_NUMBER : Nat := 2 ^ 48 - 1

/-! ## Node-level history model -/

structure Chan where
  id : Bytes
  keys : KeyMaterial
  ready : Bool
  value : Nat
  nextHolder : Nat
  deriving DecidableEq, Repr

structure NodeSt where
  km : KMState
  chans : List Chan
  deriving DecidableEq, Repr

def NodeSt.fresh : NodeSt := ⟨KMState.fresh, []⟩

inductive Op
  /-- `Node::new_channel` / `find_or_create_channel` with a caller-chosen id -/
  | newChan (id : Bytes)
  /-- `Node::new_channel_with_random_id` -/
  | newRandom
  /-- `Node::setup_channel(id0, _, setup{channel_value_sat := value}, _)` -/
  | setup (id : Bytes) (value : Nat)
  /-- one validated holder commitment (advances `next_holder_commit_num`) -/
  | advance (id : Bytes)
  /-- any other consumer of the manager's entropy counter (`get_secure_random_bytes`) -/
  | entropy
  /-- `spend_spendable_outputs` for a channel-derived descriptor: one more signer derivation
  (advances the manager's counters), no channel changes -/
  | sweep
  /-- process restart: fresh `MyKeysManager`, every persisted channel re-derived from its id0 -/
  | restart
  /-- a fresh node on the same seed with an empty store -/
  | wipe
  deriving DecidableEq, Repr

def findChan (cs : List Chan) (id : Bytes) : Option Chan := cs.find? (fun c => c.id == id)

def updChan (cs : List Chan) (id : Bytes) (f : Chan → Chan) : List Chan :=
  cs.map (fun c => if c.id == id then f c else c)

/-- `find_or_create_channel` -/
def createChan (P : Prims) (style : Style) (seed : Bytes) (net : Net) (s : NodeSt) (id : Bytes) : NodeSt :=
  match findChan s.chans id with
  | some _ => s
  | none =>
    { km := s.km.afterDerive,
      chans := s.chans ++ [⟨id, channelKeys P style seed net id s.km, false, 0, 0⟩] }

/-- `new_from_persistence`: the loop over the persisted channels.  Keys are re-derived from the
persisted `id0` with the persisted value; slot kind and enforcement state come from the store. -/
def restoreChans (P : Prims) (style : Style) (seed : Bytes) (net : Net) :
    KMState → List Chan → KMState × List Chan
  | km, [] => (km, [])
  | km, c :: cs =>
    let c' := { c with keys := channelKeys P style seed net c.id km }
    let km' := { km.afterDerive with channelIdChildIndex := km.channelIdChildIndex + 1 }
    let (kmf, rest) := restoreChans P style seed net km' cs
    (kmf, c' :: rest)

def step (P : Prims) (style : Style) (seed : Bytes) (net : Net) (s : NodeSt) : Op → NodeSt
  | .newChan id => createChan P style seed net s id
  | .newRandom =>
    let id := P.randomId s.km.channelIdChildIndex
    createChan P style seed net
      { s with km := { s.km with channelIdChildIndex := s.km.channelIdChildIndex + 1 } } id
  | .setup id value =>
    -- `stub.channel_keys_with_channel_value(value)` copies the six secrets and the keys id
    { s with chans := updChan s.chans id (fun c => if c.ready then c else { c with ready := true, value := value }) }
  | .advance id =>
    { s with chans := updChan s.chans id (fun c => if c.ready then { c with nextHolder := c.nextHolder + 1 } else c) }
  | .entropy => { s with km := { s.km with randBytesChildIndex := s.km.randBytesChildIndex + 1 } }
  | .sweep => { s with km := s.km.afterDerive }
  | .restart =>
    let (km, cs) := restoreChans P style seed net KMState.fresh s.chans
    ⟨km, cs⟩
  | .wipe => NodeSt.fresh

def run (P : Prims) (style : Style) (seed : Bytes) (net : Net) (ops : List Op) : NodeSt :=
  ops.foldl (step P style seed net) NodeSt.fresh

/-- the stateless reference: keys as a function of (seed, network, id) only -/
def keysOf (P : Prims) (style : Style) (seed : Bytes) (net : Net) (id : Bytes) : KeyMaterial :=
  channelKeys P style seed net id KMState.fresh

/-- `ChannelBase::get_per_commitment_point` guard: stub ⇒ n ∈ {0,1}; channel ⇒ n ≤ next + 1 -/
def pointAllowed (c : Chan) (n : Nat) : Bool :=
  if c.ready then n ≤ c.nextHolder + 1 else n ≤ 1

/-- `get_per_commitment_secret_or_none` guard: never for a stub; channel ⇒ n + 2 ≤ next -/
def secretReleasable (c : Chan) (n : Nat) : Bool :=
  c.ready && n + 2 ≤ c.nextHolder

/-- the holder's per-commitment secret number `n` (`INITIAL_COMMITMENT_NUMBER - n` underflows for
`n > 2^48 - 1`: `none`) -/
def holderSecret (H : Bytes → Bytes) (k : KeyMaterial) (n : Nat) : Option Bytes :=
  if n ≤ INITIAL_COMMITMENT_NUMBER then some (commitSecret H k.commitmentSeed (INITIAL_COMMITMENT_NUMBER - n))
  else none

/-- `Channel::release_commitment_secret(N)` as reached by `revoke_previous_holder_commitment(N)` with
`N ≠ next_holder_commit_num` (a repeated revocation; the protocol's `RevokeCommitmentTx{N-1}`):
`(point(N+1), secret(N-1) if N ≥ 1)`.  The point needs `N + 1 ≤ next + 1`, the secret `N - 1 + 2 ≤ next`;
with `N = next` the state-changing branch is taken, which refuses when no validated commitment is
pending (the only situation the history model has between two `advance` ops).  `none` = `Err`.
First component: the released secret (`none` for `N = 0`); second: the secret whose secp256k1 image
is the returned next point. -/
def revokeReply (H : Bytes → Bytes) (c : Chan) (N : Nat) : Option (Option Bytes × Option Bytes) :=
  if c.ready && N < c.nextHolder then
    some (if N = 0 then none else holderSecret H c.keys (N - 1), holderSecret H c.keys (N + 1))
  else none

/-- what one `advance` (validate commitment `n = next`, then activate / revoke) hands back:
the secret of `n - 1` (none for `n = 0`) and the secret behind the point of `n + 1` -/
def advanceReply (H : Bytes → Bytes) (c : Chan) : Option (Option Bytes × Option Bytes) :=
  if c.ready then
    some (if c.nextHolder = 0 then none else holderSecret H c.keys (c.nextHolder - 1),
          holderSecret H c.keys (c.nextHolder + 1))
  else none

/-- the pre-v6 protocol's `GetPerCommitmentPoint(n)` reply: `point(n)` and, for `n ≥ 2`,
`get_per_commitment_secret(n - 2)` (an error of either fails the request).  First component: the
secret behind the point; second: the disclosed old secret. -/
def oldGetPointReply (H : Bytes → Bytes) (c : Chan) (n : Nat) : Option (Option Bytes × Option Bytes) :=
  if !pointAllowed c n then none
  else if n < 2 then some (holderSecret H c.keys n, none)
  else if secretReleasable c (n - 2) then some (holderSecret H c.keys n, holderSecret H c.keys (n - 2))
  else none

/-- the signer `spend_spendable_outputs` builds for a Static/DelayedPaymentOutput descriptor of a
channel: `derive_channel_keys(value, descriptor.channel_keys_id)`, where the descriptor carries the
keys id the channel's signer recorded; `st` is whatever the manager's counters are at sweep time -/
def sweepSigner (P : Prims) (style : Style) (seed : Bytes) (net : Net) (c : Chan) (st : KMState) :
    KeyMaterial :=
  channelKeysFromKeysId P style seed net c.keys.keysId st

/-- `ChannelBase::check_future_secret(n, suggested)` (stub and channel alike): is `suggested` the
channel's per-commitment secret `n`?  No guard on the channel's progress. -/
def checkFutureSecret (H : Bytes → Bytes) (c : Chan) (n : Nat) (suggested : Bytes) : Bool :=
  holderSecret H c.keys n == some suggested

end VlsModel.Keys
