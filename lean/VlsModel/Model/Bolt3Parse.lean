import VlsModel.Model.Bolt3Bytes
import VlsModel.Gen.Bolt3
/-
The witness-script parsers behind `CommitmentInfo::handle_output` (property C04).

* `Instr`          : what rust-bitcoin's `Script::instructions()` yields (`Op`, `PushBytes`, or an error: a push that
                     runs past the end of the script);
* `instrs`         : that iterator on bytes (opcodes `0x00..=0x4b` push that many bytes, `OP_PUSHDATA1/2/4`, everything
                     else is an `Op`; not minimal-enforcing, as `instructions()` is);
* `readScriptInt`  : rust-bitcoin's `read_scriptint` (at most 4 bytes, minimal, sign bit in the last byte);
* `expectNumber`   : `expect_number` of `vls-core/src/tx/script.rs` (`Class::PushNum` of an opcode, or `read_scriptint`
                     of a push);
* `runToks`        : the interpreter of a template = the `expect_*` calls of a `parse_*` function of tx.rs in source
                     order.  **The templates themselves are not written here**: they are `Gen.Bolt3.tpl*`, regenerated
                     from the source on every run (`translate/x_bolt3.py`);
* `scriptInstrs`   : the canonical witness scripts of the model (`scriptBytes`) at the instruction level;
* `parseWsh`       : the p2wsh branch of `handle_output`: the templates in the order `Gen.Bolt3.handleOrder`, first
                     success wins.
Theorems (`Lemmas/Bolt3Parse.lean`, `Props/C04.lean`): every canonical script is recognised by its own template and by
no template tried before it; the captured values are the script's parameters; `instrs (scriptBytes sc) =
scriptInstrs sc`.
-/
namespace VlsModel.Bolt3
open Gen.Bolt3 (Tok Tpl)

inductive Instr
  | op (c : Nat)
  | push (d : Bytes)
  /-- `Some(Err(_))` of the iterator ("unparseable opcode"); the iterator is dead afterwards -/
  | bad
deriving DecidableEq, Repr

/-- little-endian value of a byte string -/
def leNat : List Nat → Nat
  | [] => 0
  | b :: bs => b + 256 * leNat bs

/-- a push of `n` bytes, or the killed iterator if the script is too short (`take_slice_or_kill`) -/
def takePush (n : Nat) (rest : Bytes) : Instr × Bytes :=
  if rest.length < n then (.bad, []) else (.push (rest.take n), rest.drop n)

/-- `OP_PUSHDATA1/2/4`: `w` length bytes little-endian, then the data (`next_push_data_len`) -/
def pushDataLen (w : Nat) (rest : Bytes) : Instr × Bytes :=
  if rest.length < w then (.bad, []) else takePush (leNat ((rest.take w).map UInt8.toNat)) (rest.drop w)

/-- `Instructions::next`: the instruction and the bytes left (`none`: end of script) -/
def nextInstr : Bytes → Option (Instr × Bytes)
  | [] => none
  | b :: rest =>
    let c := b.toNat
    if c ≤ 0x4b then some (takePush c rest)
    else if c = 0x4c then some (pushDataLen 1 rest)
    else if c = 0x4d then some (pushDataLen 2 rest)
    else if c = 0x4e then some (pushDataLen 4 rest)
    else some (.op c, rest)

/-- `Instructions::next` until the end, `fuel` ≥ number of bytes -/
def instrsAux : Nat → Bytes → List Instr
  | 0, _ => []
  | fuel + 1, b =>
    match nextInstr b with
    | none => []
    | some (i, r) => i :: instrsAux fuel r

def instrs (b : Bytes) : List Instr := instrsAux b.length b

/-- rust-bitcoin `read_scriptint` (`scriptint_parse` inlined): `none` = `NumericOverflow` / `NonMinimalPush` -/
def readScriptInt (v : Bytes) : Option Int :=
  let w := v.map UInt8.toNat
  match w.getLast? with
  | none => some 0
  | some last =>
    if w.length > 4 then none
    else if last % 128 = 0 ∧ (w.length ≤ 1 ∨ w.dropLast.getLast?.getD 0 < 128) then none
    else if last ≥ 128 then some (-((leNat w : Int) - 128 * 256 ^ (w.length - 1)))
    else some (leNat w)

/-- `Opcode::classify(Legacy)` restricted to `Class::PushNum` -/
def classPushNum (c : Nat) : Option Int :=
  if c = 0x4f then some (-1) else if 0x51 ≤ c ∧ c ≤ 0x60 then some ((c : Int) - 0x50) else none

/-- `expect_number` on the next instruction -/
def expectNumber : Instr → Option Int
  | .op c => classPushNum c
  | .push d => readScriptInt d
  | .bad => none

inductive Val
  | data (d : Bytes)
  | num (n : Int)
deriving DecidableEq, Repr

/-- One `parse_*` function: the expectations in order, captures accumulated in source order.
    `none` = any `Err` (the caller only tests `if let Ok(vals)`). -/
def runToks (anchors : Bool) : List Tok → List Instr → List Val → Option (List Val)
  | [], _, acc => some acc.reverse
  | .endS :: ts, is, acc => if is.isEmpty then runToks anchors ts [] acc else none
  | .opA c :: ts, is, acc =>
    if anchors then
      match is with
      | .op c' :: is' => if c = c' then runToks anchors ts is' acc else none
      | _ => none
    else runToks anchors ts is acc
  | .op c :: ts, is, acc =>
    match is with
    | .op c' :: is' => if c = c' then runToks anchors ts is' acc else none
    | _ => none
  | .data :: ts, is, acc =>
    match is with
    | .push d :: is' => runToks anchors ts is' (.data d :: acc)
    | _ => none
  | .num :: ts, is, acc =>
    match is with
    | i :: is' => match expectNumber i with
      | some n => runToks anchors ts is' (.num n :: acc)
      | none => none
    | [] => none
  | .numIs k :: ts, is, acc =>
    match is with
    | i :: is' => match expectNumber i with
      | some n => if n = k then runToks anchors ts is' acc else none
      | none => none
    | [] => none

/-- the captures in the order of the returned tuple -/
def pick (caps : List Val) : List Nat → Option (List Val)
  | [] => some []
  | i :: is =>
    match caps[i]?, pick caps is with
    | some v, some vs => some (v :: vs)
    | _, _ => none

/-- the tuple a `parse_*` function returns -/
def runTpl (anchors : Bool) (t : Tpl) (is : List Instr) : Option (List Val) :=
  match runToks anchors t.toks is [] with
  | some caps => pick caps t.ret
  | none => none

/-! ## The canonical scripts at the instruction level -/

/-- `Builder::push_int` as an instruction (the instruction view of `pushInt`) -/
def numInstr (n : Int) : Instr :=
  if n = 0 then .push []
  else if n = -1 then .op 0x4f
  else if 1 ≤ n ∧ n ≤ 16 then .op (0x50 + n.toNat)
  else
    let neg := decide (n < 0)
    let d := magBytes 9 n.natAbs
    match d.getLast? with
    | none => .push []
    | some top =>
      if top.toNat ≥ 0x80 then .push (d ++ [if neg then 0x80 else 0x00])
      else if neg then .push (d.dropLast ++ [top ||| 0x80])
      else .push d

def opI (c : UInt8) : Instr := .op c.toNat

open Op in
/-- instruction view of `scriptBytes` -/
def scriptInstrs (env : BEnv) : Script → List Instr
  | .toLocal rev delay delayed =>
    [opI OP_IF, .push (env.keyBytes rev), opI OP_ELSE, numInstr delay, opI OP_CSV, opI OP_DROP,
     .push (env.keyBytes delayed), opI OP_ENDIF, opI OP_CHECKSIG]
  | .htlcOffered csv rev k1 k2 hash hashLen =>
    [opI OP_DUP, opI OP_HASH160, .push (beBytes 20 (env.keyHash160 rev)), opI OP_EQUAL, opI OP_IF, opI OP_CHECKSIG, opI OP_ELSE,
     .push (env.keyBytes k1), opI OP_SWAP, opI OP_SIZE, numInstr 32, opI OP_EQUAL, opI OP_NOTIF, opI OP_DROP, opI OP_2, opI OP_SWAP,
     .push (env.keyBytes k2), opI OP_2, opI OP_CHECKMULTISIG, opI OP_ELSE, opI OP_HASH160,
     .push (hashPush env hash hashLen), opI OP_EQUALVERIFY, opI OP_CHECKSIG, opI OP_ENDIF] ++
    (if csv then [opI OP_1, opI OP_CSV, opI OP_DROP] else []) ++ [opI OP_ENDIF]
  | .htlcReceived csv rev k1 hash hashLen k2 cltv =>
    [opI OP_DUP, opI OP_HASH160, .push (beBytes 20 (env.keyHash160 rev)), opI OP_EQUAL, opI OP_IF, opI OP_CHECKSIG, opI OP_ELSE,
     .push (env.keyBytes k1), opI OP_SWAP, opI OP_SIZE, numInstr 32, opI OP_EQUAL, opI OP_IF, opI OP_HASH160,
     .push (hashPush env hash hashLen), opI OP_EQUALVERIFY, opI OP_2, opI OP_SWAP,
     .push (env.keyBytes k2), opI OP_2, opI OP_CHECKMULTISIG, opI OP_ELSE, opI OP_DROP, numInstr cltv,
     opI OP_CLTV, opI OP_DROP, opI OP_CHECKSIG, opI OP_ENDIF] ++
    (if csv then [opI OP_1, opI OP_CSV, opI OP_DROP] else []) ++ [opI OP_ENDIF]
  | .anchor key =>
    [.push (env.keyBytes key), opI OP_CHECKSIG, opI OP_IFDUP, opI OP_NOTIF, opI OP_16, opI OP_CSV, opI OP_ENDIF]
  | .toRemoteDelayed key =>
    [.push (env.keyBytes key), opI OP_CHECKSIGVERIFY, opI OP_1, opI OP_CSV]
  | .unknown n => [opI OP_RETURN, .push (leBytes 8 n)]

/-! ## `handle_output`, p2wsh branch -/

/-- what the first successful parser hands to its `handle_*_output` -/
inductive Parsed
  | toBroadcaster (rev : Bytes) (delay : Int) (delayed : Bytes)
  | received (revHash remote payHash loc : Bytes) (cltv : Int)
  | offered (revHash remote loc payHash : Bytes)
  | anchor (key : Bytes)
  | toCountersignerDelayed (key : Bytes)
deriving DecidableEq, Repr

/-- template `id` of `Gen.Bolt3.handleOrder` applied to a script, result shaped as the Rust tuple -/
def tryTpl (anchors : Bool) (id : Nat) (is : List Instr) : Option Parsed :=
  match id with
  | 0 => match runTpl anchors Gen.Bolt3.tplToBroadcaster is with
    | some [.data r, .num n, .data d] => some (.toBroadcaster r n d)
    | _ => none
  | 1 => match runTpl anchors Gen.Bolt3.tplReceivedHtlc is with
    | some [.data a, .data b, .data c, .data d, .num n] => some (.received a b c d n)
    | _ => none
  | 2 => match runTpl anchors Gen.Bolt3.tplOfferedHtlc is with
    | some [.data a, .data b, .data c, .data d] => some (.offered a b c d)
    | _ => none
  | 3 => match runTpl anchors Gen.Bolt3.tplAnchor is with
    | some [.data k] => some (.anchor k)
    | _ => none
  | 4 => match runTpl anchors Gen.Bolt3.tplToCountersignerDelayed is with
    | some [.data k] => some (.toCountersignerDelayed k)
    | _ => none
  | _ => none

/-- the `if let Ok(vals) = parse_…(&script) { return self.handle_…(out, vals) }` chain -/
def parseOrder (anchors : Bool) (is : List Instr) : List (Nat × Bool) → Option Parsed
  | [] => none                                        -- "unknown p2wsh script"
  | (id, anchorsOnly) :: rest =>
    if anchorsOnly && !anchors then parseOrder anchors is rest
    else match tryTpl anchors id is with
      | some p => some p
      | none => parseOrder anchors is rest

def parseWsh (anchors : Bool) (is : List Instr) : Option Parsed := parseOrder anchors is Gen.Bolt3.handleOrder

/-- what `parseWsh` must return on the canonical script `sc` (`none`: "unknown p2wsh script") -/
def expectedParse (env : BEnv) (anchors : Bool) : Script → Option Parsed
  | .toLocal rev delay delayed => some (.toBroadcaster (env.keyBytes rev) delay (env.keyBytes delayed))
  | .htlcReceived csv rev k1 hash hashLen k2 cltv =>
    if csv = anchors then
      some (.received (beBytes 20 (env.keyHash160 rev)) (env.keyBytes k1) (hashPush env hash hashLen) (env.keyBytes k2) cltv)
    else none
  | .htlcOffered csv rev k1 k2 hash hashLen =>
    if csv = anchors then
      some (.offered (beBytes 20 (env.keyHash160 rev)) (env.keyBytes k1) (env.keyBytes k2) (hashPush env hash hashLen))
    else none
  | .anchor key => some (.anchor (env.keyBytes key))
  | .toRemoteDelayed key => if anchors then some (.toCountersignerDelayed (env.keyBytes key)) else none
  | .unknown _ => none

/-- the script numbers of a canonical script are non-negative and below 2^31 (`to_self_delay : u16`; received-HTLC
    expiries: `wf`) -/
def numsOk : Script → Prop
  | .toLocal _ delay _ => 0 ≤ delay ∧ delay < 2 ^ 31
  | .htlcReceived _ _ _ _ _ _ cltv => 0 ≤ cltv ∧ cltv < 2 ^ 31
  | _ => True

/-- every key of the script (and, for an anchor, the two funding keys) is a key the environment knows: the key parser
    is only assumed to invert `keyBytes` on those (no function from all of `Nat` into 33 bytes is injective) -/
def keysKnown (env : BEnv) (k : Keys) : Script → Prop
  | .toLocal rev _ delayed => rev < env.nKeys ∧ delayed < env.nKeys
  | .anchor key => key < env.nKeys ∧ k.bFunding < env.nKeys ∧ k.cFunding < env.nKeys
  | .toRemoteDelayed key => key < env.nKeys
  | _ => True

/-- The `handle_*_output` function that follows a successful parse, state-independent part (the singularity tests
    are `Info.apply`).  `parseKey` = `PublicKey::from_slice` (`none`: "malformed"); keys are compared *after*
    parsing, as the code compares `PublicKey`s (two encodings of one point are the same key).  Constants from the
    source (`Gen.Bolt3`), checks in the source's order. -/
def handleParsed {K : Type} [DecidableEq K] (parseKey : Bytes → Option K) (bFunding cFunding : K) (value : Nat) :
    Parsed → Option Role
  | .toBroadcaster rev delay delayed =>
    if delay < 0 then none else if delay > Gen.Bolt3.maxDelay then none
    else if (parseKey delayed).isNone then none else if (parseKey rev).isNone then none else some (.toBc value)
  | .received _ _ payHash _ cltv =>
    if payHash.length ≠ Gen.Bolt3.paymentHashHashLen then none else if cltv < 0 then none else some .received
  | .offered _ _ _ payHash =>
    if payHash.length ≠ Gen.Bolt3.paymentHashHashLen then none else some .offered
  | .anchor key =>
    match parseKey key with
    | none => none
    | some pk =>
      if value ≠ Gen.Bolt3.anchorSat then none
      else if pk = bFunding then some .anchorB else if pk = cFunding then some .anchorC else none
  | .toCountersignerDelayed key =>
    if (parseKey key).isNone then none else some (.toCs value)

/-! ## `impl Ord for HTLCInfo2` (the order `CommitmentInfo2::new` sorts by) -/

def htlcField : Nat → Htlc → Nat
  | 0, h => h.value
  | 1, h => h.hash
  | _, h => h.cltv

/-- `a.f₁.cmp(b.f₁).then_with(|| a.f₂.cmp(b.f₂))… != Greater` for the generated field order -/
def lexLe : List Nat → Htlc → Htlc → Bool
  | [], _, _ => true
  | f :: fs, a, b => decide (htlcField f a < htlcField f b) || (decide (htlcField f a = htlcField f b) && lexLe fs a b)

end VlsModel.Bolt3
