import VlsModel.Model.Velocity
/-
Model of the node-level requests of `vls-core/src/node.rs` with their persistence, in the order of
checks, mutations and persist calls the code has (after the `fix:` commits):

  add_allowlist / set_allowlist / remove_allowlist   parse ALL entries, then mutate, then
                                                     `update_node_allowlist`
  add_keysend                                        max_invoices check, duplicate check, velocity
                                                     insert (refusal = Ok(false)), insert invoice,
                                                     `update_node`
  new_channel                                        high-water-mark check, find-or-create stub,
                                                     `Persist::new_channel`
  sign_bolt11_invoice                                max_invoices check on the issued invoices, same hash: the
                                                     same invoice is answered again, a different one refused;
                                                     a non-zero amount is recorded IN MEMORY ONLY (it reaches the
                                                     store with the next `update_node` of another request)
  forget_channel                                     stub: remove + `delete_channel`; ready: set the
                                                     monitor's forget flag, persist channel and (fix
                                                     2cdac39) the tracker entry; raise the high-water
                                                     mark and `update_node`
  restart                                            `Node::restore_node` from the store alone

The store is modelled per persisted entry (allowlist entry, node entry, channel entries, tracker
entry), i.e. `disk : Core` is what `abs(store)` decodes to.  Entries of the allowlist are small
naturals (the harness uses two valid addresses, `1 < 2` in `Allowable`'s order); `none` stands for a
string that does not parse.
-/
namespace VlsModel.NodeReq
open VlsModel VlsModel.Velocity

structure Core where
  allow : List Nat        -- ordered set (ascending, no duplicates)
  invoices : Nat          -- number of approved invoices / keysends
  vc : VC                 -- global velocity control
  hwm : Nat               -- dbid_high_water_mark
  stubs : List Nat        -- dbids of live channel stubs
  forgetFlag : Bool       -- saw_forget_channel of the ready channel's monitor (tracker entry)
  /-- invoices issued by the node: (payment hash, amount); the harness varies only the amount of an invoice -/
  issued : List (Nat × Nat) := []
deriving DecidableEq, Repr

structure Cfg where
  maxInvoices : Nat
  maxChannels : Nat       -- policy.max_channels (distinct channels the map may hold)
  readyOid : Nat          -- node-assigned id of the one ready channel
  now : Nat               -- the clock (constant in the harness)
deriving Repr

structure St where
  mem : Core
  disk : Core
  /-- harness bookkeeping: every dbid ever created successfully, in order (how `forget w` picks) -/
  created : List Nat
  /-- harness bookkeeping: the most recently used keysend hash is an approved invoice
      (`ksdup` repeats that hash; `ks` always uses a fresh one) -/
  lastPresent : Bool
  /-- environment: the chain tracker's height relative to its height when the harness started, and the
      number of blocks the harness added itself and can still remove (its own record of previous tips) -/
  height : Nat := 0
  added : Nat := 0
  /-- harness bookkeeping mirrored from the stubs' `blockheight`: dbid ↦ height at creation -/
  births : List (Nat × Nat) := []
deriving Repr

inductive Res | ok | err
deriving DecidableEq, Repr

/-- `Persist::update_node`: rewrites the whole `NodeStateEntry` — approved invoices, velocity control,
    high-water mark.  Which `NodeState` fields that entry holds is read from the source
    (`Gen/PersistConv.nodeSave`; `Props/C11.C11_gen_model_update_node` pins this definition to it). -/
def Core.updateNode (disk mem : Core) : Core :=
  { disk with vc := mem.vc, invoices := mem.invoices, hwm := mem.hwm, issued := mem.issued }

/-- `Persist::update_node_allowlist`: the allowlist has a store entry of its own -/
def Core.updateAllowlist (disk mem : Core) : Core := { disk with allow := mem.allow }

def insertSorted (x : Nat) : List Nat → List Nat
  | [] => [x]
  | y :: ys => if x < y then x :: y :: ys else if x = y then y :: ys else y :: insertSorted x ys

/-- parse-all-then-use: `none` if any entry does not parse -/
def parseAll : List (Option Nat) → Option (List Nat)
  | [] => some []
  | none :: _ => none
  | some x :: rest => (parseAll rest).map (x :: ·)

inductive AlOp | add | set | rm
deriving DecidableEq, Repr

def allowlistOp (s : St) (op : AlOp) (entries : List (Option Nat)) : St × Res :=
  match parseAll entries with
  | none => (s, .err)                       -- invalid_argument, before any mutation
  | some xs =>
    let a := match op with
      | .add => xs.foldl (fun acc x => insertSorted x acc) s.mem.allow
      | .set => xs.foldl (fun acc x => insertSorted x acc) []
      | .rm  => s.mem.allow.filter (fun y => !xs.contains y)
    let mem := { s.mem with allow := a }
    -- update_node_allowlist
    ({ s with mem := mem, disk := s.disk.updateAllowlist mem }, .ok)

/-- `add_keysend` with a fresh payment hash (`dup = false`) or the previous one (`dup = true`).
    Velocity refusal is `Ok(false)`: not an error, nothing persisted (buckets shifted in memory only). -/
def keysend (c : Cfg) (s : St) (amt : Nat) (dup : Bool) : Option (St × Res) :=
  let present := dup && s.lastPresent
  if c.maxInvoices ≤ s.mem.invoices then some ({ s with lastPresent := present }, .err)  -- "too many invoices"
  else if present then some (s, .ok)                           -- same keysend already present: Ok(true), no change
  else
    match s.mem.vc.insert c.now amt with
    | none => none                                              -- arithmetic panic (clock before start)
    | some (v, false) => some ({ s with mem := { s.mem with vc := v }, lastPresent := false }, .ok)
    | some (v, true) =>
      let mem := { s.mem with vc := v, invoices := s.mem.invoices + 1 }
      -- update_node: the whole NodeStateEntry
      some ({ s with mem := mem, lastPresent := true,
                     disk := s.disk.updateNode mem }, .ok)

/-- `sign_bolt11_invoice` for payment hash `h` and amount `amt` (0 = an invoice without amount).  Nothing is
    persisted: the issued invoice is written with the next node entry. -/
def signInvoice (c : Cfg) (s : St) (h amt : Nat) : St × Res :=
  if c.maxInvoices ≤ s.mem.issued.length then (s, .err)                 -- "too many invoices"
  else match s.mem.issued.find? (fun p => p.1 == h) with
    | some p => if p.2 = amt then (s, .ok) else (s, .err)                -- the same invoice again / a different one
    | none =>
      if 0 < amt then ({ s with mem := { s.mem with issued := s.mem.issued ++ [(h, amt)] } }, .ok)
      else (s, .ok)                                                      -- zero amount: not recorded

def newChannel (c : Cfg) (s : St) (dbid : Nat) : St × Res :=
  if dbid ≤ s.mem.hwm then (s, .err)                            -- policy-channel-original-channel-id-reuse
  else if c.maxChannels ≤ s.mem.stubs.length + 1 then (s, .err) -- "too many channels" (before the slot lookup)
  else if s.mem.stubs.contains dbid then (s, .ok)               -- existing slot
  else
    ({ s with mem := { s.mem with stubs := s.mem.stubs ++ [dbid] },
              disk := { s.disk with stubs := s.disk.stubs ++ [dbid] },
              created := if s.created.contains dbid then s.created else s.created ++ [dbid],
              births := (dbid, s.height) :: s.births.filter (fun b => b.1 != dbid) }, .ok)

/-- which channel `forget w` addresses: the ready channel for `w = 0` or when no stub was ever created -/
def forgetTarget (c : Cfg) (s : St) (w : Nat) : Nat × Bool :=
  if w = 0 ∨ s.created = [] then (c.readyOid, true)
  else (s.created.getD ((w - 1) % s.created.length) 0, false)

def forgetChannel (c : Cfg) (s : St) (w : Nat) : St × Res :=
  let (id, ready) := forgetTarget c s w
  if ready then
    let hwm := max s.mem.hwm id
    let mem := { s.mem with forgetFlag := true, hwm := hwm }
    -- chan.forget() persists the channel entry; update_node if the mark rose; then update_tracker
    let disk1 := if s.mem.hwm < id then s.disk.updateNode mem else s.disk
    ({ s with mem := mem, disk := { disk1 with forgetFlag := true } }, .ok)
  else if s.mem.stubs.contains id then
    let hwm := max s.mem.hwm id
    let mem := { s.mem with stubs := s.mem.stubs.filter (· != id), hwm := hwm }
    let disk1 := if s.mem.hwm < id then s.disk.updateNode mem else s.disk
    ({ s with mem := mem, disk := { disk1 with stubs := disk1.stubs.filter (· != id) } }, .ok)
  else (s, .ok)                                                  -- "forget_channel didn't find": Ok, nothing

/-- `Node::restore_node`: memory is rebuilt from the store alone -/
def restart (s : St) : St × Res := ({ s with mem := s.disk }, .ok)

/-- `CHANNEL_STUB_PRUNE_BLOCKS` (node.rs; networks other than regtest) -/
def stubPruneBlocks : Nat := 6

def birthOf (s : St) (d : Nat) : Nat := ((s.births.find? (fun b => b.1 == d)).map (·.2)).getD 0

/-- `Node::get_heartbeat` → `prune_channels`: a stub older than `stubPruneBlocks` blocks is removed from
    the channel map and its store entry deleted (the ready channel of the simulator is never done: its
    funding is not on the simulator's chain) -/
def heartbeat (s : St) : St × Res :=
  let keep := fun d => !(stubPruneBlocks < s.height - birthOf s d)
  ({ s with mem := { s.mem with stubs := s.mem.stubs.filter keep },
            disk := { s.disk with stubs := s.disk.stubs.filter keep } }, .ok)

/-- block requests as the simulator issues them: a good block connects, a bad one is refused; a removal
    needs a block the simulator added itself -/
def addBlocks (s : St) (good : Bool) (n : Nat) : St × Res :=
  if good then ({ s with height := s.height + n, added := s.added + n }, .ok) else (s, .err)

def removeBlock (s : St) (good : Bool) : St × Res :=
  if good ∧ 0 < s.added then ({ s with height := s.height - 1, added := s.added - 1 }, .ok) else (s, .err)

inductive Op
  | hb
  | blk (good : Bool) (n : Nat)
  | unblk (good : Bool)
  | al (op : AlOp) (entries : List (Option Nat))
  | ks (amt : Nat) (dup : Bool)
  | newch (dbid : Nat)
  | forget (w : Nat)
  | sinv (h amt : Nat)
  | restart
deriving Repr

def step (c : Cfg) (s : St) : Op → Option (St × Res)
  | .hb => some (heartbeat s)
  | .blk g n => some (addBlocks s g n)
  | .unblk g => some (removeBlock s g)
  | .al op es => some (allowlistOp s op es)
  | .ks amt dup => keysend c s amt dup
  | .newch d => some (newChannel c s d)
  | .forget w => some (forgetChannel c s w)
  | .sinv h amt => some (signInvoice c s h amt)
  | .restart => some (restart s)

def Core.init (vc : VC) : Core :=
  { allow := [], invoices := 0, vc := vc, hwm := 0, stubs := [], forgetFlag := false }

def St.init (vc : VC) : St :=
  { mem := Core.init vc, disk := Core.init vc, created := [], lastPresent := false }

end VlsModel.NodeReq
