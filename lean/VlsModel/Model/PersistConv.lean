/-
Vocabulary for the field census of the persist conversions (`translate/x_persistconv.py` →
`Gen/PersistConv.lean`).

A conversion pair between an in-memory struct with fields `M` and its persisted entry with fields `E` is
described by two dependency tables read from the source:

  save : E → List M     the in-memory fields a persisted field is computed from
                        (`impl From<&NodeState> for NodeStateEntry`, `update_channel`, ..)
  load : M → List E     the persisted fields a field of the restored object is computed from
                        (`get_nodes` → `NodeState::restore` → `Node::new_full`, `new_from_persistence`, ..)

`roundTrips f`: the restored field `f` is computed from exactly one persisted field and that persisted field
is computed from exactly `f` — the shape of every conversion of a durable field in the current sources
(clone / `into()` / re-keying of a map).  This is a statement about *dependency*: that the two functions on
that path are mutually inverse is what the restart comparison of the harness checks on the real code.
-/
namespace VlsModel.PersistConv

structure Conv (M E : Type) where
  save : E → List M
  load : M → List E

variable {M E : Type}

/-- some persisted field that `f` is restored from is computed from `f` -/
def Conv.reaches [DecidableEq M] (c : Conv M E) (f : M) : Bool :=
  (c.load f).any (fun e => (c.save e).contains f)

/-- restored from exactly one persisted field, which is computed from exactly this field -/
def Conv.roundTrips [DecidableEq M] (c : Conv M E) (f : M) : Bool :=
  match c.load f with
  | [e] => c.save e == [f]
  | _ => false

/-- no persisted field is computed from `f` -/
def Conv.unsaved [DecidableEq M] (c : Conv M E) (all : List E) (f : M) : Bool :=
  all.all (fun e => !(c.save e).contains f)

/-- The most informative conversions that respect the tables: a persisted field *is* the values of its
    sources, a restored field *is* the values of the persisted fields it reads.  Every real conversion with
    these dependencies factors through them. -/
def Conv.persist {α : Type} (c : Conv M E) (m : M → α) : E → List α := fun e => (c.save e).map m

def Conv.restore {α : Type} (c : Conv M E) (p : E → List α) : M → List (List α) := fun f => (c.load f).map p

end VlsModel.PersistConv
