/-
Lock model for property C20 (no Mathlib; linked into the `vlsmodel` executable).

* lock classes of the signer (`Cls`) and concrete locks (`Lock` = class + instance, e.g. `slot 3`);
* a request = a finite list of acquire/release events; a thread = the locks it holds + the events
  it still has to execute;
* interleaving semantics for any number of threads: `stepAt s i` lets thread `i` execute its next
  event; an acquire of a lock held by any thread is not enabled (the thread is blocked);
* the held-while-acquiring relation of an event list (`edgesOf`) and the order discipline
  (`Ordered lt`: every acquisition is `lt`-above everything the thread holds, and the request ends
  holding nothing).
The model is generic in the type of locks `L`.
-/
namespace VlsModel.Locks

/-- lock classes (the symbolic classes of the generated table) -/
inductive Cls
  | tracker | channels | slot | monitor | monitorDecode | nodeState | validatorFactory | store
  /-- the approvers' own mutexes (`VelocityApprover.control`, `MemoApprover.approvals` of approver.rs) -/
  | approver
  deriving DecidableEq, Repr, Inhabited

/-- a concrete lock: class and instance (channel rank for `slot`/`monitor`, 0 otherwise) -/
structure Lock where
  cls : Cls
  inst : Nat
  deriving DecidableEq, Repr, Inhabited

inductive Ev (L : Type) where
  | acq (l : L)
  | rel (l : L)
  deriving DecidableEq, Repr

structure Thread (L : Type) where
  held : List L
  todo : List (Ev L)
  deriving DecidableEq, Repr

abbrev State (L : Type) := List (Thread L)

variable {L : Type} [DecidableEq L]

/-- no thread holds `l` -/
def isFree (s : State L) (l : L) : Bool := s.all (fun u => !u.held.contains l)

/-- thread `i` executes its next event; `none` = no such thread, finished, or blocked -/
def stepAt (s : State L) (i : Nat) : Option (State L) :=
  match s[i]? with
  | none => none
  | some t =>
    match t.todo with
    | [] => none
    | .acq l :: r => if isFree s l then some (s.set i ⟨l :: t.held, r⟩) else none
    | .rel l :: r => some (s.set i ⟨t.held.erase l, r⟩)

/-- one step of some thread -/
def Step (s s' : State L) : Prop := ∃ i, stepAt s i = some s'

/-- `n` steps -/
inductive Steps : Nat → State L → State L → Prop
  | refl (s) : Steps 0 s s
  | tail {n s s' s''} : Steps n s s' → Step s' s'' → Steps (n + 1) s s''

/-- replay a schedule (list of thread indices); `none` if some chosen thread cannot step -/
def runSched (s : State L) : List Nat → Option (State L)
  | [] => some s
  | i :: is => match stepAt s i with
    | none => none
    | some s' => runSched s' is

def allDone (s : State L) : Prop := ∀ t ∈ s, t.todo = []

instance (s : State L) : Decidable (allDone s) := by unfold allDone; infer_instance

/-- number of events still to execute -/
def measure (s : State L) : Nat := (s.map (fun t => t.todo.length)).sum

/-- initial state of a list of requests: nobody holds anything -/
def mkState (reqs : List (List (Ev L))) : State L := reqs.map (fun r => ⟨[], r⟩)

/-- held-while-acquiring pairs `(held, acquired)` of an event list started holding `held` -/
def edgesOf : List L → List (Ev L) → List (L × L)
  | _, [] => []
  | held, .acq l :: r => held.map (fun h => (h, l)) ++ edgesOf (l :: held) r
  | held, .rel l :: r => edgesOf (held.erase l) r

/-- the event list ends holding nothing -/
def endsEmpty : List L → List (Ev L) → Bool
  | held, [] => held.isEmpty
  | held, .acq l :: r => endsEmpty (l :: held) r
  | held, .rel l :: r => endsEmpty (held.erase l) r

/-- order discipline: every acquisition is `lt`-above all locks held at that moment, and the
request finishes holding nothing -/
def Ordered (lt : L → L → Prop) : List L → List (Ev L) → Prop
  | held, [] => held = []
  | held, .acq l :: r => (∀ h ∈ held, lt h l) ∧ Ordered lt (l :: held) r
  | held, .rel l :: r => Ordered lt (held.erase l) r

/-- the lock a thread is waiting to acquire next -/
def want (t : Thread L) : Option L :=
  match t.todo with
  | .acq l :: _ => some l
  | _ => none

/-- deadlocked: somebody is unfinished and nobody can step -/
def Deadlocked (s : State L) : Prop := ¬ allDone s ∧ ∀ i, stepAt s i = none

/-- lexicographic order on `Nat × Nat` (ranks: class rank, then instance) -/
def rlt (a b : Nat × Nat) : Prop := a.1 < b.1 ∨ (a.1 = b.1 ∧ a.2 < b.2)

instance (a b : Nat × Nat) : Decidable (rlt a b) := by unfold rlt; infer_instance

/-- instantiate a symbolic path (`true` = acquire) at channel instance `i` -/
def instPath (i : Nat) (p : List (Bool × Cls)) : List (Ev Lock) :=
  p.map (fun (a, c) =>
    let l : Lock := ⟨c, match c with | .slot | .monitor | .monitorDecode => i | _ => 0⟩
    if a then Ev.acq l else Ev.rel l)

end VlsModel.Locks
