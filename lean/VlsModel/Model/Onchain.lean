import VlsModel.Prim.U64
import VlsModel.Gen.Onchain
import VlsModel.Model.Velocity
import VlsModel.Model.Wallet
/-
Model of the layer-1 spend check (property C08):

Rust                                                            Lean
----                                                            ----
exact u128 feerate of `validate_beneficial_value`               `impliedFeerate`
`PolicyFilter::filter(tag) == Error` for the tags used           `Filter` (one Bool per tag)
`Wallet::can_spend` / `allowlist_contains` (node.rs)             inputs `Out.canSpend`, `Out.scriptAllow`, `Out.xpub`
`find_channel_with_funding_outpoint` + channel facts             input `Out.chan : Option ChanFacts`
`SimpleValidator::validate_onchain_tx` (output loop, sums)       `classifyStep`, `chanStep`, `outLoop`, `sumInputs`, `validateOnchain`
`SimpleValidator::validate_beneficial_value`                     `beneficialValue`
`Node::check_onchain_tx` (weight lower bound, fee velocity)      `weightLowerBound`, `checkOnchain`
`Approve::handle_proposed_onchain` (approver flow)               `flowOnchain`

External facts are inputs (computed by the harness from the scenario it generated, not by calling the
functions under test): whether the wallet can spend a script at a path (`none` = `can_spend` returned
`Err`: wrong path length for the key-derivation style), whether the allowlist contains the script,
whether an allowlisted xpub derives it at the path (`panic` = `derive_pub(..).unwrap()` on a hardened
path), and the facts of the Ready channel whose funding outpoint is `(txid, index)`.

Panics of the real code are explicit (`Res.panic`): index out of range on `opaths`/`prev_outs`, the
`assert_eq!` of `is_tx_non_malleable`, division by a zero weight, `non_beneficial_sat * 1000` overflow
(debug build) and the velocity control's own panics.  Policy errors raised through `policy_err!` are
subject to the policy filter (a `Warn` rule lets execution continue); those raised through
`policy_error(..)` directly are not.
-/
namespace VlsModel.Onchain
open VlsModel

/-- policy tags reachable from `check_onchain_tx` -/
inductive Tag
  | fmtStandard          -- policy-onchain-format-standard
  | maxSize              -- policy-onchain-max-size
  | nonMalleable         -- policy-onchain-funding-non-malleable
  | noUnknown            -- policy-onchain-no-unknown-outputs
  | matchCommitment      -- policy-onchain-output-match-commitment
  | outputScript         -- policy-onchain-output-scriptpubkey
  | initialCountersigned -- policy-onchain-initial-commitment-countersigned
  | noFundInbound        -- policy-onchain-no-fund-inbound
  | noChannelPush        -- policy-onchain-no-channel-push
  | feeRange             -- policy-onchain-fee-range
deriving DecidableEq, Repr

def Tag.name : Tag → String
  | .fmtStandard => "policy-onchain-format-standard"
  | .maxSize => "policy-onchain-max-size"
  | .nonMalleable => "policy-onchain-funding-non-malleable"
  | .noUnknown => "policy-onchain-no-unknown-outputs"
  | .matchCommitment => "policy-onchain-output-match-commitment"
  | .outputScript => "policy-onchain-output-scriptpubkey"
  | .initialCountersigned => "policy-onchain-initial-commitment-countersigned"
  | .noFundInbound => "policy-onchain-no-fund-inbound"
  | .noChannelPush => "policy-onchain-no-channel-push"
  | .feeRange => "policy-onchain-fee-range"

/-- `filter.filter(tag) == FilterResult::Error` for each tag (true = the violation is an error) -/
structure Filter where
  fmtStandard : Bool
  maxSize : Bool
  nonMalleable : Bool
  noUnknown : Bool
  matchCommitment : Bool
  outputScript : Bool
  initialCountersigned : Bool
  noFundInbound : Bool
  noChannelPush : Bool
  feeRange : Bool
deriving DecidableEq, Repr

/-- `PolicyFilter::default()`: every tag is an error -/
def Filter.default : Filter := ⟨true, true, true, true, true, true, true, true, true, true⟩

structure Policy where
  maxFeerate : Nat        -- max_feerate_per_kw : u32
  devDisable : Bool       -- dev_flags.disable_beneficial_balance_checks
  flt : Filter
deriving DecidableEq, Repr

/-- the exact implied feerate of `validate_beneficial_value` (after fix 3751e9c):
    `(non_beneficial as u128 * 1000 + 999) / weight as u128`; no overflow is possible in u128
    (`u64::MAX·1000 + 999 < 2^128`), so this is plain `Nat` arithmetic; `none` = division by zero panic -/
def impliedFeerate (fee weight : Nat) : Option Nat :=
  if weight = 0 then none else some ((fee * 1000 + 999) / weight)

inductive XpubRes | yes | no | panic
deriving DecidableEq, Repr

/-- facts of the Ready channel whose `setup.funding_outpoint` is this output -/
structure ChanFacts where
  value : Nat            -- setup.channel_value_sat
  scriptMatch : Bool     -- output.script_pubkey == p2wsh(funding redeemscript)
  outbound : Bool        -- setup.is_outbound
  pushMsat : Nat         -- setup.push_value_msat
  nextHolderCommit : Nat -- enforcement_state.next_holder_commit_num
deriving DecidableEq, Repr

structure Out where
  value : Nat
  pathLen : Nat               -- opaths[i].len()
  canSpend : Option Bool      -- wallet.can_spend(opath, script); consulted only when pathLen > 0
  scriptAllow : Bool          -- allowlist contains Allowable::Script(script)
  xpub : XpubRes              -- an allowlisted xpub derives the script at opath; consulted only when
                              -- pathLen > 0 ∧ ¬canSpend ∧ ¬scriptAllow
  chan : Option ChanFacts
deriving DecidableEq, Repr

/-- the facts `validate_onchain_tx` obtains from the wallet for one output, computed by the model of
    `impl Wallet for Node` (Model/Wallet.lean) from the structure of the script, the output's derivation path, the
    key-derivation style and the allowlist -/
def outOfScript (style : Wallet.Style) (allow : List Wallet.Allowable) (value : Nat) (path : List Nat) (s : Wallet.Script)
    (chan : Option ChanFacts) : Out :=
  { value := value, pathLen := path.length, canSpend := Wallet.canSpend style path s,
    scriptAllow := allow.contains (.script s),
    xpub := match Wallet.xpubLoop path s allow with
      | .yes => .yes | .no => .no | .panic => .panic,
    chan := chan }

/-- what one iteration of the output loop does -/
inductive OutRes
  | add (v : Nat)     -- beneficial: `beneficial_sum.checked_add(v)`
  | skip              -- a filtered (warn-only) violation: neither beneficial nor unknown
  | unknown           -- pushed onto `unknowns`
  | err (t : Tag)
  | panic
deriving DecidableEq, Repr

/-- the `ChannelSlot::Ready(chan)` arm, in the order of the source -/
def chanStep (flt : Filter) (o : Out) (c : ChanFacts) : OutRes :=
  if o.value ≠ c.value ∧ flt.matchCommitment then .err .matchCommitment
  else if c.scriptMatch = false ∧ flt.outputScript then .err .outputScript
  else if c.nextHolderCommit ≠ 1 ∧ flt.initialCountersigned then .err .initialCountersigned
  else if c.outbound = false ∧ flt.noFundInbound then .err .noFundInbound
  else if 0 < c.pushMsat / 1000 ∧ flt.noChannelPush then .err .noChannelPush
  else if c.value < c.pushMsat / 1000 then .err .feeRange      -- checked_sub, unfiltered
  else .add (c.value - c.pushMsat / 1000)

def classifyStep (flt : Filter) (o : Out) : OutRes :=
  if 0 < o.pathLen then
    match o.canSpend with
    | none => .err .outputScript                -- `policy_error(..)`: unfiltered
    | some true => .add o.value
    | some false =>
      if o.scriptAllow then .add o.value
      else match o.xpub with
        | .panic => .panic
        | .yes => .add o.value
        | .no => if flt.noUnknown then .err .noUnknown else .skip
  else if o.scriptAllow then .add o.value
  else match o.chan with
    | some c => chanStep flt o c
    | none => .unknown

inductive LoopRes
  | done (sum : Nat) (unknowns : List Nat)
  | err (t : Tag)
  | panic
deriving DecidableEq, Repr

/-- the output loop: `i` = current index, `sum` = beneficial_sum, `unk` = unknowns (newest first) -/
def outLoop (flt : Filter) (nOpaths : Nat) : List Out → Nat → Nat → List Nat → LoopRes
  | [], _, sum, unk => .done sum unk.reverse
  | o :: rest, i, sum, unk =>
    if nOpaths ≤ i then .panic            -- `opaths[outndx]`
    else match classifyStep flt o with
      | .add v =>
        match U64.checkedAdd sum v with
        | none => .err .feeRange           -- "beneficial outputs overflow", unfiltered
        | some s => outLoop flt nOpaths rest (i + 1) s unk
      | .skip => outLoop flt nOpaths rest (i + 1) sum unk
      | .unknown => outLoop flt nOpaths rest (i + 1) sum (i :: unk)
      | .err t => .err t
      | .panic => .panic

/-- `sum_inputs.checked_add(*val)` over `values_sat`; `none` = overflow -/
def sumInputs : List Nat → Nat → Option Nat
  | [], acc => some acc
  | v :: vs, acc =>
    match U64.checkedAdd acc v with
    | none => none
    | some a => sumInputs vs a

inductive Res
  | ok (nonBeneficial : Nat)
  | unknown (indices : List Nat)       -- ValidationErrorKind::UnknownDestinations
  | err (t : Tag)
  | panic
deriving DecidableEq, Repr

/-- `validate_beneficial_value` -/
def beneficialValue (p : Policy) (sumIn sumOut weight : Nat) : Res :=
  match U64.checkedSub sumIn sumOut with
  | none => .err .fmtStandard            -- "non-beneficial value underflow", unfiltered
  | some nb =>
    match impliedFeerate nb weight with
    | none => .panic
    | some fr =>
      if p.maxFeerate < fr ∧ p.devDisable = false ∧ p.flt.feeRange then .err .feeRange
      else .ok nb

/-- one entry of `uniclosekeys`, with what `check_onchain_tx` reads for it -/
structure Uck where
  inRange : Bool          -- idx < prev_outs.len()
  spendValid : Bool       -- SpendType::from_script_pubkey(prev_outs[idx].script_pubkey) != Invalid
  witLen : Option Nat     -- Some((_, stack)) => Σ (1 + len), None => default
deriving DecidableEq, Repr

structure Req where
  version : Nat           -- tx.version.0 (as u32)
  baseSize : Nat          -- tx.base_size()
  txWeight : Nat          -- tx.weight().to_wu()
  nInputs : Nat           -- tx.input.len()
  segwit : List Bool      -- segwit_flags
  inValues : List Nat     -- prev_outs[*].value
  ucks : List Uck
  nOpaths : Nat           -- opaths.len()
  outs : List Out
deriving DecidableEq, Repr

/-- weight lower bound of `check_onchain_tx`; `none` = `prev_outs[idx]` out of range -/
def weightLowerBound : List Uck → Nat → Option Nat
  | [], w => some w
  | u :: us, w =>
    if u.inRange = false then none
    else if u.spendValid = false then weightLowerBound us w
    else weightLowerBound us
      (w + Gen.Onchain.witnessWeightConst + (u.witLen.getD Gen.Onchain.witnessDefaultLen))

def anyChannel (outs : List Out) : Bool := outs.any (fun o => o.chan.isSome)

/-- `validate_onchain_tx` -/
def validateOnchain (p : Policy) (r : Req) (weight : Nat) : Res :=
  if r.version ≠ 2 ∧ p.flt.fmtStandard then .err .fmtStandard
  else if Gen.Onchain.maxOnchainTxSize < r.baseSize ∧ p.flt.maxSize then .err .maxSize
  else if anyChannel r.outs ∧ r.nInputs ≠ r.segwit.length then .panic   -- assert_eq! in is_tx_non_malleable
  else if anyChannel r.outs ∧ r.segwit.all id = false ∧ p.flt.nonMalleable then .err .nonMalleable
  else match outLoop p.flt r.nOpaths r.outs 0 0 [] with
    | .panic => .panic
    | .err t => .err t
    | .done sumOut unk =>
      if unk ≠ [] then .unknown unk
      else match sumInputs r.inValues 0 with
        | none => .err .feeRange
        | some sumIn => beneficialValue p sumIn sumOut weight

/-- `Node::check_onchain_tx`: returns the new fee velocity control and the result.  A refused velocity
    insert leaves the (shifted) control in place, exactly like the implementation. -/
def checkOnchain (p : Policy) (vc : Velocity.VC) (now : Nat) (r : Req) : Velocity.VC × Res :=
  match weightLowerBound r.ucks r.txWeight with
  | none => (vc, .panic)
  | some w =>
    match validateOnchain p r w with
    | .ok nb =>
      match U64.checkedMul nb 1000 with
      | none => (vc, .panic)                       -- `non_beneficial_sat * 1000` (debug build)
      | some msat =>
        match vc.insert now msat with
        | none => (vc, .panic)
        | some (vc', true) => (vc', .ok nb)
        | some (vc', false) => (vc', if p.flt.feeRange then .err .feeRange else .ok nb)
    | res => (vc, res)

/-- outcome of the whole signer-side flow `Approve::handle_proposed_onchain` (+ `unchecked_sign_onchain_tx`
    when it returns `Ok(true)`): the approver is consulted **only** on `UnknownDestinations` and only about the
    destinations; every other answer of `check_onchain_tx` is final. -/
inductive FlowRes
  | signed                 -- Ok(true): the caller goes on to sign
  | declined               -- Ok(false): the approver refused the unknown destinations
  | refused (t : Tag)      -- Err(failed_precondition)
  | panic
deriving DecidableEq, Repr

def flowOnchain (p : Policy) (vc : Velocity.VC) (now : Nat) (r : Req) (approve : Bool) :
    Velocity.VC × FlowRes :=
  match checkOnchain p vc now r with
  | (vc', .ok _) => (vc', .signed)
  | (vc', .unknown _) => (vc', if approve then .signed else .declined)
  | (vc', .err t) => (vc', .refused t)
  | (vc', .panic) => (vc', .panic)

/-! ### The approver stack of `vls-protocol-signer/src/approver.rs`, as far as `approve_onchain` goes (round 9)

`handle_proposed_onchain` consults `approve_onchain` only for `UnknownDestinations`; `flowOnchain` takes its answer as a
Boolean.  This is where that Boolean comes from: the three constant approvers, the two wrappers.  `Tx` is the whole
transaction (inputs and outputs): a memoized approval is consumed only by **the same** transaction. -/

inductive Memo (Tx : Type)
  | invoice            -- Approval::Invoice(_)
  | keysend            -- Approval::KeySend(_, _)
  | onchain (tx : Tx)  -- Approval::Onchain(tx)
deriving DecidableEq, Repr

inductive Approver (Tx : Type)
  | positive | warningPositive | negative
  | velocity (delegate : Approver Tx)                       -- VelocityApprover: on-chain requests go to the delegate
  | memo (memos : List (Memo Tx)) (delegate : Approver Tx)  -- MemoApprover
deriving Repr

/-- is an `Approval::Onchain(tx)` among the memoized approvals? -/
def memoHit {Tx : Type} [DecidableEq Tx] (memos : List (Memo Tx)) (tx : Tx) : Bool :=
  memos.any (fun m => match m with | .onchain t => t == tx | _ => false)

/-- `approve_onchain`: the answer and the approver afterwards (`MemoApprover` drains its memo list on every request,
    hit or miss: `drain(..)` empties the vector even when the iteration is left early) -/
def Approver.approveOnchain {Tx : Type} [DecidableEq Tx] : Approver Tx → Tx → Approver Tx × Bool
  | .positive, _ => (.positive, true)
  | .warningPositive, _ => (.warningPositive, true)
  | .negative, _ => (.negative, false)
  | .velocity d, tx => let (d', b) := d.approveOnchain tx; (.velocity d', b)
  | .memo memos d, tx =>
    if memoHit memos tx then (.memo [] d, true)
    else let (d', b) := d.approveOnchain tx; (.memo [] d', b)

/-! ### Specification-level classification (independent of the policy filter) -/

inductive OutClass
  | wallet | xpubAllow | scriptAllow
  | channel (c : ChanFacts)
  | unknown           -- no path, not allowlisted, no channel: reported for approval
  | bogusPath         -- a path was given but neither wallet nor allowlist matches: refused outright
  | fault             -- can_spend error or xpub derivation panic
deriving DecidableEq, Repr

def classify (o : Out) : OutClass :=
  if 0 < o.pathLen then
    match o.canSpend with
    | none => .fault
    | some true => .wallet
    | some false =>
      if o.scriptAllow then .scriptAllow
      else match o.xpub with
        | .panic => .fault
        | .yes => .xpubAllow
        | .no => .bogusPath
  else if o.scriptAllow then .scriptAllow
  else match o.chan with
    | some c => .channel c
    | none => .unknown

/-- value credited as beneficial for an output of a given class (over unbounded `Nat`) -/
def beneficialOf (o : Out) : Nat :=
  match classify o with
  | .wallet | .xpubAllow | .scriptAllow => o.value
  | .channel c => c.value
  | _ => 0

def sumBeneficial (outs : List Out) : Nat := (outs.map beneficialOf).sum

/-- indices (starting at `i`) of the outputs classified `unknown` -/
def unknownIdxs : List Out → Nat → List Nat
  | [], _ => []
  | o :: rest, i => if classify o = .unknown then i :: unknownIdxs rest (i + 1) else unknownIdxs rest (i + 1)

/-- what the property demands of a funded channel output -/
def ChanOk (o : Out) (c : ChanFacts) : Prop :=
  o.value = c.value ∧ c.scriptMatch = true ∧ c.outbound = true ∧ c.pushMsat / 1000 = 0 ∧ c.nextHolderCommit = 1

/-- the output is wallet, allowlisted, or a validated channel funding output -/
def Accepted (o : Out) : Prop :=
  match classify o with
  | .wallet | .xpubAllow | .scriptAllow => True
  | .channel c => ChanOk o c
  | _ => False

/-- the checks of `validate_onchain_tx` that do not concern destinations -/
def NonDestChecks (p : Policy) (r : Req) : Prop :=
  (p.flt.fmtStandard = true → r.version = 2) ∧
  (p.flt.maxSize = true → r.baseSize ≤ Gen.Onchain.maxOnchainTxSize) ∧
  (anyChannel r.outs = true → r.segwit.all id = true ∧ r.nInputs = r.segwit.length) ∧
  (∀ o ∈ r.outs, Accepted o ∨ classify o = .unknown)

/-- what the output loop credits for one output under an arbitrary filter -/
def credit (flt : Filter) (o : Out) : Nat :=
  match classifyStep flt o with
  | .add v => v
  | _ => 0

def sumCredit (flt : Filter) (outs : List Out) : Nat := (outs.map (credit flt)).sum

/-- the tags a non-permissive filter must keep as errors for the C08 argument -/
def Filter.Strict (f : Filter) : Prop :=
  f.nonMalleable = true ∧ f.noUnknown = true ∧ f.matchCommitment = true ∧ f.outputScript = true ∧
  f.initialCountersigned = true ∧ f.noFundInbound = true ∧ f.noChannelPush = true ∧ f.feeRange = true

instance (f : Filter) : Decidable f.Strict := by unfold Filter.Strict; infer_instance

end VlsModel.Onchain
