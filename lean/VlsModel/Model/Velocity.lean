import VlsModel.Prim.U64
import VlsModel.Gen.Velocity
/-
Model of `vls-core/src/util/velocity.rs` (`VelocityControl`).

Rust                                             Lean
----                                             ----
struct VelocityControl {start_sec, bucket_interval, buckets, limit}   `VC`
new_with_intervals / new_unlimited / new(spec)   `VC.newWithIntervals`, `VC.ofSpec`
spec_to_triple                                   `Spec.triple`
spec_matches / update_spec                       `VC.specMatches`, `VC.updateSpec`
load_from_state / get_state                      `VC.loadFromState`, `VC.getState`
insert (shift, align, saturating test)           `VC.insert`
velocity (saturating fold)                       `VC.velocity`
clear                                            `VC.clear`

`insert` computes `current_sec - start_sec` with a plain `-`: for `current_sec < start_sec`
the Rust code panics in debug builds and wraps in release builds; the model returns `none`
("panic") for that input and the property's quantifier (non-decreasing timestamps) excludes it.
-/
namespace VlsModel.Velocity
open VlsModel

inductive IntervalType | hourly | daily | unlimited
deriving DecidableEq, Repr

structure Spec where
  limit : Nat
  itype : IntervalType
deriving DecidableEq, Repr

/-- `spec_to_triple`: (limit, bucket_interval, num_buckets). The numeric constants are
    regenerated from the source by the translator (`Gen/Velocity.lean`). -/
def Spec.triple (s : Spec) : Nat × Nat × Nat :=
  match s.itype with
  | .hourly    => (s.limit, Gen.Velocity.hourlyInterval, Gen.Velocity.hourlyBuckets)
  | .daily     => (s.limit, Gen.Velocity.dailyInterval, Gen.Velocity.dailyBuckets)
  | .unlimited => (U64.MAX, Gen.Velocity.unlimitedInterval, Gen.Velocity.unlimitedBuckets)

structure VC where
  start : Nat
  bi : Nat
  buckets : List Nat
  limit : Nat
deriving DecidableEq, Repr

def VC.newWithIntervals (limit bi n : Nat) : VC :=
  { start := 0, bi := bi, buckets := List.replicate n 0, limit := limit }

def VC.ofSpec (s : Spec) : VC :=
  let (l, bi, n) := s.triple
  VC.newWithIntervals l bi n

def VC.specMatches (v : VC) (s : Spec) : Bool :=
  let (l, bi, n) := s.triple
  v.limit == l && v.bi == bi && v.buckets.length == n

def VC.updateSpec (v : VC) (s : Spec) : VC :=
  if v.specMatches s then v else VC.ofSpec s

def VC.getState (v : VC) : Nat × List Nat := (v.start, v.buckets)

def VC.loadFromState (s : Spec) (st : Nat × List Nat) : VC :=
  { VC.ofSpec s with start := st.1, buckets := st.2 }

def VC.isUnlimited (v : VC) : Bool := v.limit == U64.MAX

/-- saturating sum of the buckets -/
def VC.velocity (v : VC) : Nat := v.buckets.foldl U64.satAdd 0

/-- the bucket shift of `insert`: drop the `k` oldest, prepend `k` zeros (k already ≤ len) -/
def shift (b : List Nat) (k : Nat) : List Nat :=
  List.replicate k 0 ++ b.take (b.length - k)

/-- `insert(current_sec, velocity_msat)`; `none` = panic: `current_sec < start_sec` (subtraction),
    `bucket_interval = 0` (division), or `self.buckets[0]` on an empty bucket vector (only reached on
    the approving branch).  `new_with_intervals` asserts `bucket_interval > 0 && num_buckets > 0`. -/
def VC.insert (v : VC) (now amt : Nat) : Option (VC × Bool) :=
  if now < v.start ∨ v.bi = 0 then none else
  let nshift := min v.buckets.length ((now - v.start) / v.bi)
  let b := shift v.buckets nshift
  let v1 : VC := { v with buckets := b, start := now - now % v.bi }
  if U64.satAdd v1.velocity amt > v1.limit then some (v1, false)
  else match b with
    | [] => none
    | x :: xs => some ({ v1 with buckets := U64.satAdd x amt :: xs }, true)

def VC.clear (v : VC) : VC := { v with buckets := v.buckets.map (fun _ => 0) }

/-- `VelocityApprover::approve_invoice` / `approve_keysend` (vls-protocol-signer/src/approver.rs; form checked
    against the source by `translate/x_approver.py`): the request is approved automatically while the approver's own
    control accepts it; otherwise the delegate decides (`delegate` = what it would answer), and a manual approval
    clears the control.  Result: (control, approved, automatically). -/
def VC.approve (v : VC) (now amt : Nat) (delegate : Bool) : Option (VC × Bool × Bool) :=
  match v.insert now amt with
  | none => none
  | some (v', true) => some (v', true, true)
  | some (v', false) => if delegate then some (v'.clear, true, false) else some (v', false, false)

/-- What a restart does to a control (after the fix in `Node::new_full`): the persisted
    `NodeStateEntry` stores all four fields (`vls-persist/src/model.rs`), the restored control is
    that struct, and `new_full` applies `update_spec(policy spec)`. -/
def VC.restart (v : VC) (policySpec : Spec) : VC := v.updateSpec policySpec

/-- Node-level view: the control in memory and the copy inside the persisted `NodeStateEntry`.
    `add_invoice`/`add_keysend` persist the node state only when the insert was approved; a refused
    insert leaves the (already shifted) buckets in memory only.  A restart reloads the persisted copy
    and applies `update_spec`. -/
structure NodeVC where
  mem : VC
  disk : VC
deriving DecidableEq, Repr

def NodeVC.ofSpec (s : Spec) : NodeVC := { mem := VC.ofSpec s, disk := VC.ofSpec s }

def NodeVC.insert (n : NodeVC) (now amt : Nat) : Option (NodeVC × Bool) :=
  match n.mem.insert now amt with
  | none => none
  | some (v, true) => some ({ mem := v, disk := v }, true)
  | some (v, false) => some ({ n with mem := v }, false)

def NodeVC.restart (n : NodeVC) (policySpec : Spec) : NodeVC :=
  { n with mem := n.disk.restart policySpec }

end VlsModel.Velocity
