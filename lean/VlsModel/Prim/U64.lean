/-
Fixed-width unsigned arithmetic as used by the Rust code, modelled on `Nat` with the
range made explicit.  Every Rust operator has its own Lean counterpart with the same semantics:

* `checked_add`   ↦ `U64.checkedAdd : Nat → Nat → Option Nat`
* `saturating_add`↦ `U64.satAdd`
* `wrapping_*`    ↦ `U64.wrapAdd` …
* `as u32`        ↦ `U32.trunc`
* plain `+ - *`   ↦ the `checked*` variant; `none` = "debug build panics / release build wraps",
                    callers decide which one they model.

No Mathlib import: this file is linked into the `vlsmodel` executable.
-/
namespace VlsModel

namespace U64
def MAX : Nat := 18446744073709551615   -- 2^64 - 1
def SIZE : Nat := 18446744073709551616  -- 2^64

def satAdd (a b : Nat) : Nat := min (a + b) MAX
def satSub (a b : Nat) : Nat := a - b
def satMul (a b : Nat) : Nat := min (a * b) MAX
def wrapAdd (a b : Nat) : Nat := (a + b) % SIZE
def wrapSub (a b : Nat) : Nat := (a + SIZE - b % SIZE) % SIZE
def wrapMul (a b : Nat) : Nat := (a * b) % SIZE
def checkedAdd (a b : Nat) : Option Nat := if a + b ≤ MAX then some (a + b) else none
def checkedSub (a b : Nat) : Option Nat := if b ≤ a then some (a - b) else none
def checkedMul (a b : Nat) : Option Nat := if a * b ≤ MAX then some (a * b) else none
def inRange (a : Nat) : Prop := a ≤ MAX
instance (a : Nat) : Decidable (inRange a) := by unfold inRange; infer_instance

theorem satAdd_le_max (a b : Nat) : satAdd a b ≤ MAX := Nat.min_le_right _ _
theorem satAdd_exact {a b : Nat} (h : a + b ≤ MAX) : satAdd a b = a + b := Nat.min_eq_left h
theorem satAdd_ge_left {a b : Nat} (ha : a ≤ MAX) : a ≤ satAdd a b := by
  unfold satAdd; omega
theorem satAdd_zero_left (b : Nat) (hb : b ≤ MAX) : satAdd 0 b = b := by
  unfold satAdd; omega
end U64

namespace U32
def MAX : Nat := 4294967295
def SIZE : Nat := 4294967296
def trunc (a : Nat) : Nat := a % SIZE
def clamp (a : Nat) : Nat := min a MAX
def checkedAdd (a b : Nat) : Option Nat := if a + b ≤ MAX then some (a + b) else none
end U32

namespace U16
def MAX : Nat := 65535
def SIZE : Nat := 65536
def trunc (a : Nat) : Nat := a % SIZE
end U16

end VlsModel
