/-
Runtime library of the Rust-function-body translator `translate/rs2lean.py`.

Every generated definition (`Gen/Fn*.lean`) is built from these operators only, so this file *is* the
translator's semantics of the Rust subset (see `notes/rs2lean.md`).  It is part of the trusted base and is
validated by the differential harness `harness/src/props/fn_gen.rs` (real Rust function vs generated Lean
definition on boundary inputs).

Integers: unsigned types are `Nat` within `[0, MAX]`, signed ones `Int` within `[MIN, MAX]`; the width lives
in the *operator*, chosen by the translator from the Rust type of the operands.

Outcomes of a Rust evaluation (`M α = Except Fail α`):
* `.ok v`            the function returns `v` (for a `Result`-returning function: returns `Ok(v)`)
* `.error (.err t)`  the function returns `Err(e)`; `t` is the policy tag / the path of the error value
* `.error .panic`    the function panics in every build (assert!, unwrap on None, index out of bounds,
                     division by zero)
* `.error .overflow` plain `+ - * <<` left the range of the type: **panic in an overflow-checked (debug)
                     build, silent wrap-around in a release build** (evaluation is not followed further)

No Mathlib import: linked into the `vlsmodel` executable.
-/
namespace VlsModel.Rs

inductive Fail
  | panic
  | overflow
  | err (tag : String)
deriving DecidableEq, Repr

abbrev M := Except Fail

def panic {α : Type} : M α := .error .panic
def overflow {α : Type} : M α := .error .overflow
def fail {α : Type} (tag : String) : M α := .error (.err tag)

/-- `assert!(c)` -/
def assert (c : Bool) : M Unit := if c then pure () else panic

/-! ### unsigned integers of a given maximum -/

def uadd (max a b : Nat) : M Nat := if a + b ≤ max then pure (a + b) else overflow
def usub (a b : Nat) : M Nat := if b ≤ a then pure (a - b) else overflow
def umul (max a b : Nat) : M Nat := if a * b ≤ max then pure (a * b) else overflow
def udiv (a b : Nat) : M Nat := if b = 0 then panic else pure (a / b)
def urem (a b : Nat) : M Nat := if b = 0 then panic else pure (a % b)
/-- `a << b` on a type of `bits` bits: overflow iff `b ≥ bits`; the bits shifted out are dropped -/
def ushl (bits a b : Nat) : M Nat := if b < bits then pure ((a <<< b) % 2 ^ bits) else overflow
def ushr (bits a b : Nat) : M Nat := if b < bits then pure (a >>> b) else overflow

def usatAdd (max a b : Nat) : Nat := min (a + b) max
def usatSub (a b : Nat) : Nat := a - b
def usatMul (max a b : Nat) : Nat := min (a * b) max
def uwrapAdd (max a b : Nat) : Nat := (a + b) % (max + 1)
def uwrapSub (max a b : Nat) : Nat := (a + (max + 1) - b % (max + 1)) % (max + 1)
def uwrapMul (max a b : Nat) : Nat := (a * b) % (max + 1)
def ucheckedAdd (max a b : Nat) : Option Nat := if a + b ≤ max then some (a + b) else none
def ucheckedSub (a b : Nat) : Option Nat := if b ≤ a then some (a - b) else none
def ucheckedMul (max a b : Nat) : Option Nat := if a * b ≤ max then some (a * b) else none
def ucheckedDiv (a b : Nat) : Option Nat := if b = 0 then none else some (a / b)
/-- `x as uN` from an unsigned value: truncation (the translator emits nothing for a widening cast) -/
def utrunc (max a : Nat) : Nat := a % (max + 1)
/-- `uN::try_from(x)` from an unsigned value, as an `Option` (`.ok()` of the Rust `Result`) -/
def utryFrom (max a : Nat) : Option Nat := if a ≤ max then some a else none

def U8_MAX : Nat := 255
def U16_MAX : Nat := 65535
def U32_MAX : Nat := 4294967295
def U64_MAX : Nat := 18446744073709551615
def U128_MAX : Nat := 340282366920938463463374607431768211455
/-- `usize` of the 64-bit targets the signer is built for -/
def USIZE_MAX : Nat := 18446744073709551615

/-! ### signed integers (i32/i64) -/

def I32_MIN : Int := -2147483648
def I32_MAX : Int := 2147483647
def I64_MIN : Int := -9223372036854775808
def I64_MAX : Int := 9223372036854775807

def inR (lo hi : Int) (x : Int) : M Int := if lo ≤ x ∧ x ≤ hi then pure x else overflow
def iadd (lo hi a b : Int) : M Int := inR lo hi (a + b)
def isub (lo hi a b : Int) : M Int := inR lo hi (a - b)
def imul (lo hi a b : Int) : M Int := inR lo hi (a * b)
/-- Rust `/` on signed integers truncates toward zero; `MIN / -1` overflows -/
def idiv (lo hi a b : Int) : M Int := if b = 0 then panic else inR lo hi (Int.tdiv a b)
def irem (lo hi a b : Int) : M Int :=
  if b = 0 then panic else if a = lo ∧ b = -1 then overflow else inR lo hi (Int.tmod a b)
def ineg (lo hi a : Int) : M Int := inR lo hi (-a)
/-- `x as iN` (N bits) from any integer value: two's complement reinterpretation -/
def itrunc (bits : Nat) (a : Int) : Int :=
  let m := a % (2 ^ bits : Int)
  if m < (2 ^ (bits - 1) : Int) then m else m - (2 ^ bits : Int)
/-- `x as uN` from a signed value -/
def utruncI (max : Nat) (a : Int) : Nat := (a % ((max : Int) + 1)).toNat

/-! ### Vec / slices as lists -/

/-- `v[i]` -/
def index {α : Type} (l : List α) (i : Nat) : M α :=
  match l[i]? with
  | some x => pure x
  | none => panic

/-- `v[i] = x` -/
def setIndex {α : Type} (l : List α) (i : Nat) (x : α) : M (List α) :=
  if i < l.length then pure (l.set i x) else panic

/-- `v.insert(i, x)` -/
def vecInsert {α : Type} (l : List α) (i : Nat) (x : α) : M (List α) :=
  if i ≤ l.length then pure (l.take i ++ x :: l.drop i) else panic

/-- `v.resize(n, x)` -/
def vecResize {α : Type} (l : List α) (n : Nat) (x : α) : List α :=
  l.take n ++ List.replicate (n - l.length) x

/-! ### `BTreeMap<String, V>` as an association list kept sorted by key (no duplicate keys) -/

def smapGet {α : Type} : List (String × α) → String → Option α
  | [], _ => none
  | (k, v) :: r, key => if k = key then some v else smapGet r key

/-- `m.insert(key, x)` (the previous value, which the callers discard, is not returned) -/
def smapInsert {α : Type} : List (String × α) → String → α → List (String × α)
  | [], key, x => [(key, x)]
  | (k, v) :: r, key, x =>
    if k = key then (k, x) :: r
    else if key < k then (key, x) :: (k, v) :: r
    else (k, v) :: smapInsert r key x

def smapRemove {α : Type} (m : List (String × α)) (key : String) : List (String × α) :=
  m.filter (fun e => e.1 != key)

/-! ### maps keyed by an opaque type (`OrderedMap<ChannelId, V>`, `Map<PaymentHash, V>`) as association lists without
    duplicate keys.  The iteration order of the Rust map is NOT represented: the translator only admits the
    order-insensitive operations `get`, `contains_key`, `insert`, `len`, `is_empty`, `values().sum()`. -/

def omapGet {κ α : Type} [DecidableEq κ] : List (κ × α) → κ → Option α
  | [], _ => none
  | (k, v) :: r, key => if k = key then some v else omapGet r key

/-- `m.insert(key, x)`: replaces the value of an existing key in place, otherwise appends -/
def omapInsert {κ α : Type} [DecidableEq κ] : List (κ × α) → κ → α → List (κ × α)
  | [], key, x => [(key, x)]
  | (k, v) :: r, key, x => if k = key then (k, x) :: r else (k, v) :: omapInsert r key x

/-- `a..b` -/
def range (a b : Nat) : List Nat := List.range' a (b - a)

/-- `Option::unwrap` / `expect` -/
def unwrap {α : Type} : Option α → M α
  | some x => pure x
  | none => panic

/-- `res.unwrap()` / `res.expect(..)` on a `Result`: an `Err` is a panic; a panic or overflow inside stays what it is
    (b1012, round 9) -/
def unwrapOk {α : Type} (r : M α) : M α :=
  match r with
  | .error (.err _) => panic
  | r => r

/-- `opt.ok_or(e)?` with the error represented by its tag -/
def okOr {α : Type} (o : Option α) (tag : String) : M α :=
  match o with
  | some x => pure x
  | none => fail tag

/-- `iter.sum::<uN>()` : left fold with the checked `+` of the type -/
def usum (max : Nat) (l : List Nat) : M Nat := l.foldlM (fun acc x => uadd max acc x) 0

/-- (b0507) `a < b` on `Option<uN>` (derived `PartialOrd`): `None` is below every `Some` -/
def optLt : Option Nat → Option Nat → Bool
  | none, some _ => true
  | some x, some y => decide (x < y)
  | _, none => false

/-- (b0507) `let r = f(..);` for a `Result`-valued call whose value is inspected later (`r.is_ok()`, `Err(r.unwrap_err())`):
    an `Err` becomes a value, a panic / overflow still propagates at the call -/
def capture {α : Type} (x : M α) : M (Except String α) :=
  match x with
  | .ok v => .ok (.ok v)
  | .error (.err t) => .ok (.error t)
  | .error f => .error f

/-- `r.unwrap_err()` on a captured `Result` (panics on `Ok`) -/
def unwrapErr {α : Type} (r : Except String α) : M String :=
  match r with
  | .error t => pure t
  | .ok _ => panic

/-- `policy_err!(self, tag, ..)`: `filterErr tag` says whether the policy filter keeps `tag` an error; if not
    the macro only logs and **execution continues**. -/
def policyErr (filterErr : String → Bool) (tag : String) : M Unit :=
  if filterErr tag then fail tag else pure ()

/-- `if c { policy_err!(self, tag, ..) }` as one step (emitted for units translated with `compact_guards`) -/
def policyErrIf (filterErr : String → Bool) (tag : String) (c : Bool) : M Unit :=
  if c then policyErr filterErr tag else pure ()

/-- `if c { return Err(e) }` as one step (`transaction_format_err!` under `compact_guards`) -/
def failIf (tag : String) (c : Bool) : M Unit := if c then fail tag else pure ()

/-! ### round 8: bitwise operators, byte strings, slices -/

/-- `!x` on an unsigned type with maximum `max` (all bits flipped) -/
def unot (max a : Nat) : Nat := max - a

/-- `v[a..b]` (`v[a..]`: `b = len`, `v[..b]`: `a = 0`): panics unless `a ≤ b ≤ len` -/
def slice {α : Type} (l : List α) (a b : Nat) : M (List α) :=
  if a ≤ b ∧ b ≤ l.length then pure ((l.drop a).take (b - a)) else panic

/-- `x.to_be_bytes()` of a type of `n` bytes -/
def toBeBytes (n x : Nat) : List Nat := (List.range n).map (fun i => (x >>> (8 * (n - 1 - i))) % 256)
/-- `x.to_le_bytes()` of a type of `n` bytes -/
def toLeBytes (n x : Nat) : List Nat := (List.range n).map (fun i => (x >>> (8 * i)) % 256)
/-- `uN::from_be_bytes(arr)` -/
def fromBeBytes (l : List Nat) : Nat := l.foldl (fun acc b => acc * 256 + b) 0
/-- `uN::from_le_bytes(arr)` -/
def fromLeBytes (l : List Nat) : Nat := fromBeBytes l.reverse
/-- `slice.try_into().unwrap()` into `[u8; n]`: panics unless the length is `n` -/
def arrayOfSlice {α : Type} (n : Nat) (l : List α) : M (List α) := if l.length = n then pure l else panic

/-- `dst[a..b].copy_from_slice(src)` (`dst.copy_from_slice(src)`: `a = 0`, `b = len`): panics unless `a ≤ b ≤ len` and
    the lengths agree -/
def copyFromSlice {α : Type} (dst : List α) (a b : Nat) (src : List α) : M (List α) :=
  if a ≤ b ∧ b ≤ dst.length ∧ src.length = b - a then pure (dst.take a ++ src ++ dst.drop b) else panic

/-- `v.remove(i)`: the removed element and the rest; panics when out of range -/
def vecRemove {α : Type} (l : List α) (i : Nat) : M (α × List α) :=
  match l[i]? with
  | some x => pure (x, l.eraseIdx i)
  | none => panic

/-- `iter.enumerate()` -/
def enumerate {α : Type} (l : List α) : List (Nat × α) := (List.range l.length).zip l

/-! ### loops with early exit (`continue`, `break`, `return` inside `for` / the structural `while` forms)

The body of the loop maps the loop state (the tuple of outer variables the body assigns) and the element to
`.next s` (go on; also `continue`), `.brk s` (`break`) or `.ret r` (`return r` from the function, `r` already in the
shape the Lean function returns).  `?` and `Err` need nothing: they are errors of `M` and leave the fold. -/

inductive Flow (σ ρ : Type) where
  | next (s : σ)
  | brk (s : σ)
  | ret (r : ρ)

/-- `.inl s`: the loop ended (exhausted or `break`) with state `s`; `.inr r`: the function returned `r` -/
def loopM {α σ ρ : Type} : List α → σ → (σ → α → M (Flow σ ρ)) → M (σ ⊕ ρ)
  | [], s, _ => pure (.inl s)
  | x :: xs, s, f => do
    match ← f s x with
    | .next s' => loopM xs s' f
    | .brk s' => pure (.inl s')
    | .ret r => pure (.inr r)

/-- a loop with `continue`/`break` but no `return` -/
def loopB {α σ : Type} (l : List α) (s : σ) (f : σ → α → M (Flow σ Empty)) : M σ := do
  match ← loopM l s f with
  | .inl s' => pure s'
  | .inr e => nomatch e

/-! ### maps and sets with other than string keys

`BTreeMap<uN, V>` / `BTreeSet<uN>`: association list / list kept sorted by key (= Rust's iteration order).
Any other key type (opaque values, tuples) and `HashMap`/`HashSet`: insertion order (`omapGet`/`omapInsert` above,
`omapRemove`); the translator refuses to iterate over or compare such a collection (only order-insensitive consumers
of `values()`/`keys()` are admitted: `sum`, `count`, `any`, `all`, `min`, `max`), so the order is never observed. -/

def omapRemove {κ α : Type} [DecidableEq κ] (m : List (κ × α)) (key : κ) : List (κ × α) :=
  m.filter (fun e => e.1 != key)

def nmapInsert {α : Type} : List (Nat × α) → Nat → α → List (Nat × α)
  | [], key, x => [(key, x)]
  | (k, v) :: r, key, x =>
    if k = key then (k, x) :: r
    else if key < k then (key, x) :: (k, v) :: r
    else (k, v) :: nmapInsert r key x

def nsetInsert : List Nat → Nat → List Nat
  | [], x => [x]
  | k :: r, x => if k = x then k :: r else if x < k then x :: k :: r else k :: nsetInsert r x

def asetInsert {κ : Type} [DecidableEq κ] (l : List κ) (x : κ) : List κ := if l.contains x then l else l ++ [x]

/-! ### printing of outcomes for the line-protocol driver -/
def Fail.show : Fail → String
  | .panic => "panic"
  | .overflow => "overflow"
  | .err t => "err " ++ t

end VlsModel.Rs
