/-
Executable SHA-256 and HMAC-SHA256 over `List UInt8` (FIPS 180-4 / RFC 2104), used only for the
byte-exact correspondence with the Rust code (per-commitment secret derivation, HMAC inputs).
Theorems never rely on properties of these functions: where a hash appears in a theorem it is an
arbitrary function parameter.  No Mathlib import (linked into the `vlsmodel` executable).
-/
namespace VlsModel.Sha256

abbrev Bytes := List UInt8

def K : Array UInt32 := #[
  0x428a2f98, 0x71374491, 0xb5c0fbcf, 0xe9b5dba5, 0x3956c25b, 0x59f111f1, 0x923f82a4, 0xab1c5ed5,
  0xd807aa98, 0x12835b01, 0x243185be, 0x550c7dc3, 0x72be5d74, 0x80deb1fe, 0x9bdc06a7, 0xc19bf174,
  0xe49b69c1, 0xefbe4786, 0x0fc19dc6, 0x240ca1cc, 0x2de92c6f, 0x4a7484aa, 0x5cb0a9dc, 0x76f988da,
  0x983e5152, 0xa831c66d, 0xb00327c8, 0xbf597fc7, 0xc6e00bf3, 0xd5a79147, 0x06ca6351, 0x14292967,
  0x27b70a85, 0x2e1b2138, 0x4d2c6dfc, 0x53380d13, 0x650a7354, 0x766a0abb, 0x81c2c92e, 0x92722c85,
  0xa2bfe8a1, 0xa81a664b, 0xc24b8b70, 0xc76c51a3, 0xd192e819, 0xd6990624, 0xf40e3585, 0x106aa070,
  0x19a4c116, 0x1e376c08, 0x2748774c, 0x34b0bcb5, 0x391c0cb3, 0x4ed8aa4a, 0x5b9cca4f, 0x682e6ff3,
  0x748f82ee, 0x78a5636f, 0x84c87814, 0x8cc70208, 0x90befffa, 0xa4506ceb, 0xbef9a3f7, 0xc67178f2]

def H0 : Array UInt32 := #[
  0x6a09e667, 0xbb67ae85, 0x3c6ef372, 0xa54ff53a, 0x510e527f, 0x9b05688c, 0x1f83d9ab, 0x5be0cd19]

@[inline] def rotr (x : UInt32) (n : UInt32) : UInt32 := (x >>> n) ||| (x <<< (32 - n))

def be32 (a b c d : UInt8) : UInt32 :=
  (a.toUInt32 <<< 24) ||| (b.toUInt32 <<< 16) ||| (c.toUInt32 <<< 8) ||| d.toUInt32

def u32be (x : UInt32) : Bytes :=
  [(x >>> 24).toUInt8, (x >>> 16).toUInt8, (x >>> 8).toUInt8, x.toUInt8]

def u64be (n : Nat) : Bytes :=
  (List.range 8).map (fun i => UInt8.ofNat ((n >>> (8 * (7 - i))) % 256))

/-- message padding: 0x80, zeros, 64-bit big-endian bit length -/
def pad (msg : Bytes) : Bytes :=
  let l := msg.length
  let k := (55 + 64 - l % 64) % 64
  msg ++ [0x80] ++ List.replicate k 0 ++ u64be (l * 8)

def words (blk : Array UInt8) : Array UInt32 :=
  (Array.range 16).map (fun i => be32 blk[4*i]! blk[4*i+1]! blk[4*i+2]! blk[4*i+3]!)

def schedule (w0 : Array UInt32) : Array UInt32 := Id.run do
  let mut w := w0
  for i in [16:64] do
    let w15 := w[i-15]!
    let w2 := w[i-2]!
    let s0 := rotr w15 7 ^^^ rotr w15 18 ^^^ (w15 >>> 3)
    let s1 := rotr w2 17 ^^^ rotr w2 19 ^^^ (w2 >>> 10)
    w := w.push (w[i-16]! + s0 + w[i-7]! + s1)
  return w

def compress (h : Array UInt32) (blk : Array UInt8) : Array UInt32 := Id.run do
  let w := schedule (words blk)
  let mut a := h[0]!
  let mut b := h[1]!
  let mut c := h[2]!
  let mut d := h[3]!
  let mut e := h[4]!
  let mut f := h[5]!
  let mut g := h[6]!
  let mut hh := h[7]!
  for i in [0:64] do
    let s1 := rotr e 6 ^^^ rotr e 11 ^^^ rotr e 25
    let ch := (e &&& f) ^^^ ((~~~ e) &&& g)
    let t1 := hh + s1 + ch + K[i]! + w[i]!
    let s0 := rotr a 2 ^^^ rotr a 13 ^^^ rotr a 22
    let maj := (a &&& b) ^^^ (a &&& c) ^^^ (b &&& c)
    let t2 := s0 + maj
    hh := g; g := f; f := e; e := d + t1; d := c; c := b; b := a; a := t1 + t2
  return #[h[0]! + a, h[1]! + b, h[2]! + c, h[3]! + d, h[4]! + e, h[5]! + f, h[6]! + g, h[7]! + hh]

def sha256 (msg : Bytes) : Bytes := Id.run do
  let p := (pad msg).toArray
  let mut h := H0
  for i in [0:p.size / 64] do
    h := compress h (p.extract (64 * i) (64 * i + 64))
  return h.toList.flatMap u32be

def hmac (key msg : Bytes) : Bytes :=
  let k0 := if key.length > 64 then sha256 key else key
  let k := k0 ++ List.replicate (64 - k0.length) 0
  let ipad := k.map (· ^^^ 0x36)
  let opad := k.map (· ^^^ 0x5c)
  sha256 (opad ++ sha256 (ipad ++ msg))

end VlsModel.Sha256
