import VlsModel.Prim.Rs
/-
Runtime library of `translate/x_hmac.py` (property C17): the semantics given to the few library calls that the
byte-assembly functions of `vls-core/src/persist/mod.rs` and `lightning-storage-server/lib/src/{util,client/driver}.rs`
use.  Trusted (like `Prim/Rs.lean`), validated by the byte-exact differential harness of C17:

* `HmacEngine::<Sha256Hash>::new(key)` / `.input(bytes)` / `Hmac::from_engine(e).to_byte_array()`: the engine is the
  pair (key, everything input so far, in order); finishing applies the MAC — a parameter `mac : key → message → tag`
  of every generated definition (never an axiom about HMAC);
* `u64::to_be_bytes` / `i64::to_be_bytes` (the two's-complement bit pattern);
* `Vec::split_off(at)` (panics when `at > len`);
* `&str` / `String` values are their UTF-8 byte strings (`as_bytes` is the identity), `[u8; N]`, `&[u8]`, `Vec<u8>` are
  byte lists.
Core only (no Mathlib): may be linked into the driver.
-/
namespace VlsModel.Hm

abbrev Bytes := List UInt8

/-- `HmacEngine<Sha256Hash>`: the key it was created with and all bytes input so far -/
structure Eng where
  key : Bytes
  msg : Bytes
  deriving DecidableEq, Repr

def Eng.new (key : Bytes) : Eng := ⟨key, []⟩
def Eng.input (e : Eng) (b : Bytes) : Eng := { e with msg := e.msg ++ b }
def Eng.finish (mac : Bytes → Bytes → Bytes) (e : Eng) : Bytes := mac e.key e.msg

/-- `u64::to_be_bytes` -/
def beBytes8 (n : Nat) : Bytes :=
  [56, 48, 40, 32, 24, 16, 8, 0].map (fun s => UInt8.ofNat ((n >>> s) % 256))

/-- `i64::to_be_bytes`: the bytes of the two's-complement bit pattern -/
def ibeBytes8 (v : Int) : Bytes := beBytes8 (Rs.utruncI Rs.U64_MAX v)

/-- `let tail = v.split_off(at)`: (`v` afterwards, `tail`); panics if `at > len` -/
def splitOff (v : Bytes) (n : Nat) : Rs.M (Bytes × Bytes) :=
  if n ≤ v.length then pure (v.take n, v.drop n) else Rs.panic

/-- `&v[a..b]` (also `v[..b]` with `a = 0`, `v[a..]` with `b = len`): panics unless `a ≤ b ≤ len` -/
def slice (v : Bytes) (a b : Nat) : Rs.M Bytes :=
  if a ≤ b ∧ b ≤ v.length then pure ((v.take b).drop a) else Rs.panic

/-- `<[u8; N]>::try_from(slice).unwrap()` (`slice.try_into().unwrap()`): panics unless the length is exactly `N` -/
def toArray (n : Nat) (v : Bytes) : Rs.M Bytes :=
  if v.length = n then pure v else Rs.panic

/-- `u64::from_be_bytes` -/
def fromBe8 (b : Bytes) : Nat := b.foldl (fun acc x => acc * 256 + x.toNat) 0

/-- `BTreeMap<String, V>::insert` with the key as a byte string: replace the entry of the key or add one (the
    iteration order of the map is not represented; only lookups are meaningful) -/
def bmapInsert {α : Type} : List (Bytes × α) → Bytes → α → List (Bytes × α)
  | [], k, x => [(k, x)]
  | (k0, v0) :: r, k, x => if k0 = k then (k0, x) :: r else (k0, v0) :: bmapInsert r k x

def bmapGet {α : Type} : List (Bytes × α) → Bytes → Option α
  | [], _ => none
  | (k0, v0) :: r, k => if k0 = k then some v0 else bmapGet r k

end VlsModel.Hm
