import VlsModel.Lemmas.EnforcementC03
import VlsModel.Lemmas.Secrets
import VlsModel.Lemmas.SecretsSound
import VlsModel.Lemmas.EnforcementChain
/-
C03 — Counterparty commitments advance only over properly revoked predecessors.

Statement (properties.jsonl): the signer signs a new counterparty commitment n only when every
counterparty commitment below n-1 has been revoked by a secret it verified, so at most two unrevoked
counterparty commitments ever carry its signature.  It accepts a counterparty revocation only if the
secret's public point equals the per-commitment point it signed for that number and the secret is
consistent with all earlier secrets under the BOLT-3 derivation tree, and it re-signs an already
signed number only for the identical point and content.

Model: `VlsModel/Model/Enforcement.lean` (counter machine; the code after fix 9d527cd) and
`VlsModel/Model/Secrets.lean` (the 49-slot store over an arbitrary derivation step `F`).
Ghost ledger over the history: `CpSigned h n pt info` — a sign-counterparty-commitment request for
number `n`, point `pt`, content `info` was accepted; `CpRevoked h n pt` — a revocation of `n` by a
secret with public point `pt` was accepted.  "Point of the secret" is the harness-supplied fact
`PublicKey::from_secret_key`; equality of points is all the theorems use.
Only property theorems live here; helper lemmas are in `Lemmas/EnforcementC03.lean`, `Lemmas/Secrets.lean`.
-/
namespace VlsModel.Props.C03
open VlsModel VlsModel.Enforcement VlsModel.Secrets

/-- the invariant behind C03 holds after every request list -/
theorem C03_inv (F : Nat → Bytes → Bytes) (ops : List Op) :
    L (runH F init [] ops).1 (runH F init [] ops).2 :=
  (runL F ops init [] L_init trivial).1

/-- **C03_window** (counters): once anything was signed, the signing frontier is one or two ahead
    of the revocation frontier; every signed number lies below the signing frontier and everything
    below the revocation frontier was revoked by a verified secret with the signed point. -/
theorem C03_window (F : Nat → Bytes → Bytes) (ops : List Op) :
    let s := (runH F init [] ops).1.mem
    let h := (runH F init [] ops).2
    (s.cpCommit ≥ 1 → s.cpRevoke + 1 ≤ s.cpCommit ∧ s.cpCommit ≤ s.cpRevoke + 2) ∧
    (∀ n pt info, CpSigned h n pt info → n < s.cpRevoke + 2) ∧
    (∀ j, j < s.cpRevoke → ∃ pt info, CpRevoked h j pt ∧ CpSigned h j pt info) := by
  have inv := C03_inv F ops
  refine ⟨inv.w1, ?_, inv.c4⟩
  intro n pt info hs
  have h1 := inv.c1 n pt info hs
  have := inv.w1 (by omega)
  omega

/-- **C03_window** (requests): every accepted sign-counterparty-commitment for `n` found every
    number below `n-1` already revoked by a verified secret (so an accepted signature never creates a
    third unrevoked commitment), and every accepted revocation names a point that was signed for
    that number. -/
theorem C03_justified (F : Nat → Bytes → Bytes) (ops : List Op) :
    CpJustified (runH F init [] ops).2 :=
  (runL F ops init [] L_init trivial).2

/-- at most two unrevoked signed numbers: of any three distinct signed numbers the smallest has been
    revoked by a verified secret -/
theorem C03_at_most_two_unrevoked (F : Nat → Bytes → Bytes) (ops : List Op)
    (a b c pa pb pc ia ib ic : Nat) (hab : a < b) (hbc : b < c)
    (ha : CpSigned (runH F init [] ops).2 a pa ia) (_hb : CpSigned (runH F init [] ops).2 b pb ib)
    (hc : CpSigned (runH F init [] ops).2 c pc ic) :
    CpRevoked (runH F init [] ops).2 a pa := by
  have inv := C03_inv F ops
  have w := C03_window F ops
  have hc' := w.2.1 c pc ic hc
  obtain ⟨p, i, hr, hs⟩ := inv.c4 a (by omega)
  have := (inv.c5 a pa ia p i ha hs).1
  rw [this]; exact hr

/-- **C03_revocation_sound**: an accepted revocation of `n` carries a secret whose point is the
    point of an accepted sign-counterparty-commitment `n` earlier in the history; by
    `C03_resign_same` that point is unique. -/
theorem C03_revocation_sound (F : Nat → Bytes → Bytes) (ops : List Op) (post pre : Hist)
    (n : Nat) (sec : Bytes) (pt : Nat) (o : Out)
    (hh : (runH F init [] ops).2 = post ++ (.revokeCp n sec pt, o) :: pre) (hok : o.res = .ok) :
    ∃ info, CpSigned pre n pt info := by
  have cj := C03_justified F ops
  rw [hh] at cj
  clear hh
  induction post with
  | nil => exact cj.1.2 n sec pt rfl hok
  | cons x xs ih => exact ih cj.2

/-- the request form of the window: an accepted signature on `n` at any point of the history -/
theorem C03_sign_over_revoked (F : Nat → Bytes → Bytes) (ops : List Op) (post pre : Hist)
    (n pt info : Nat) (pk : Bool) (o : Out)
    (hh : (runH F init [] ops).2 = post ++ (.signCp n pt info pk, o) :: pre) (hok : o.res = .ok)
    (j : Nat) (hj : j + 1 < n) : ∃ p i, CpRevoked pre j p ∧ CpSigned pre j p i := by
  have cj := C03_justified F ops
  rw [hh] at cj
  clear hh
  induction post with
  | nil => exact cj.1.1 n pt info pk rfl hok j hj
  | cons x xs ih => exact ih cj.2

/-- **C03_resign_same**: all accepted signatures for one number carry the identical point and content. -/
theorem C03_resign_same (F : Nat → Bytes → Bytes) (ops : List Op) (n pt info pt' info' : Nat)
    (h1 : CpSigned (runH F init [] ops).2 n pt info) (h2 : CpSigned (runH F init [] ops).2 n pt' info') :
    pt = pt' ∧ info = info' :=
  (C03_inv F ops).c5 n pt info pt' info' h1 h2

/-! ### The compact secret store, for every derivation step `F` (hence every hash function `H`) -/

/-- **Secrets_size**: an accepted `provide_secret` keeps the store within 49 entries. -/
theorem Secrets_size {S : Type} [DecidableEq S] (F : Nat → S → S) (st st' : Store S) (idx : Nat) (secret : S)
    (h : provide F st idx secret = some st') (hl : st.length ≤ 49) : st'.length ≤ 49 :=
  provide_length F h hl

/-- the store of a reachable channel never exceeds 49 entries (every `F`) -/
theorem Secrets_size_run {S : Type} [DecidableEq S] (F : Nat → S → S) (reqs : List (Nat × S)) :
    ∀ st : Store S, st.length ≤ 49 →
      (reqs.foldl (fun st r => (provide F st r.1 r.2).getD st) st).length ≤ 49 := by
  induction reqs with
  | nil => intro st h; exact h
  | cons r rest ih =>
    intro st h
    apply ih
    cases hp : provide F st r.1 r.2 with
    | none => show ((provide F st r.1 r.2).getD st).length ≤ 49; rw [hp]; exact h
    | some st' => show ((provide F st r.1 r.2).getD st).length ≤ 49; rw [hp]; exact provide_length F hp h

/-- **tree law** (`derive_secret` composes along the BOLT-3 tree), for every `F` -/
theorem Secrets_tree_law {S : Type} (F : Nat → S → S) (s : S) (a c j : Nat) (hca : c ≤ a) :
    derive F s a j = derive F (derive F s a (hi c j)) c j :=
  derive_hi F j c a s hca

/-- **Secrets_store_sound_partial** (one step; the full statement is `Secrets_store_sound` below):
    `provide_secret` accepts a secret only if every stored lower
    slot is derivable from it, and then *everything* a lower slot can derive, the new secret derives
    identically: the accepted secret is consistent with all earlier secrets under the derivation tree.
    A rejected secret (`none`) leaves the store as it was (the function is pure). -/
theorem Secrets_store_sound_partial {S : Type} [DecidableEq S] (F : Nat → S → S) (st st' : Store S)
    (idx : Nat) (secret : S) (h : provide F st idx secret = some st')
    (i : Nat) (hi' : i < st.length) (hip : i < place idx) (j : Nat) (hcov : hi i j = (st[i]).2) :
    derive F (st[i]).1 i j = derive F secret (place idx) j := by
  obtain ⟨_, h2, _⟩ := provide_some F h
  rw [derive_hi F j i (place idx) secret (by omega), hcov, h2 i hi' hip]

/-- a secret read back at its own index is the stored one -/
theorem Secrets_get_own {S : Type} (F : Nat → S → S) (secret : S) (idx : Nat) :
    derive F secret (place idx) idx = secret := derive_self F secret idx

/-- **Secrets_store_sound** (full strength, for every derivation step `F`, i.e. every hash function):
    after any accepted sequence `provide (2^48-1) s₀, provide (2^48-2) s₁, …` with consecutive descending
    indices — the only pattern the channel produces — `get_secret` returns every provided secret:
    the 49-slot store equals the full list.  No assumption that the secrets come from one seed: the
    acceptance checks alone force consistency. -/
theorem Secrets_store_sound {S : Type} [DecidableEq S] (F : Nat → S → S) (ss : List S) (st' : Store S)
    (h : provideDesc F [] N48 ss = some st') (k : Nat) (hk : k < ss.length) :
    get F st' (N48 - 1 - k) = .some ss[k] := by
  obtain ⟨sec', inv', hlen, _, hnew⟩ :=
    provideDesc_inv F ss [] N48 (fun _ => ss[0]'(by omega)) st' (SInv_init F _) h
  rw [← hnew k hk]
  apply SInv_get F inv'
  · omega
  · have : 0 < N48 := by decide
    omega

/-- **Secrets_store_complete** (for every `F`): the secrets a counterparty derives from ONE seed by the
    BOLT-3 rule (`fromSeed F seed idx` = LDK's `build_commitment_secret`), revealed in descending order from
    index 2^48-1, are all accepted by `provide_secret`, and `get_secret` reproduces each of them. -/
theorem Secrets_store_complete {S : Type} [DecidableEq S] (F : Nat → S → S) (seed : S) (k : Nat) (hk : k ≤ N48) :
    ∃ st', provideDesc F [] N48 (seedDesc F seed N48 k) = some st' ∧
      ∀ i, i < k → get F st' (N48 - 1 - i) = .some (fromSeed F seed (N48 - 1 - i)) := by
  obtain ⟨st', h⟩ := provideDesc_complete F seed k N48 [] (fun j => fromSeed F seed j) (SInv_init F _)
    (fun _ _ _ => rfl) hk
  refine ⟨st', h, ?_⟩
  intro i hi
  have hlen := seedDesc_length F seed N48 k hk
  have := Secrets_store_sound F _ st' h i (by omega)
  rw [this, seedDesc_get]

/-! ### C03_chain: the channel's store is the compact image of the accepted revocations -/

/-- the invariant: after every request list the store of the channel is `provideDesc` of the list of the
    accepted revocation secrets, one per revoked number (retries re-provide an old index and leave the
    store as it is) -/
theorem C03_chain_inv (F : Nat → Bytes → Bytes) (ops : List Op) :
    Chain F (runH F init [] ops).1.mem (runH F init [] ops).2 :=
  runChain F ops init [] L_init trivial (Chain_init F)

/-- **C03_chain**: for every request list and every counterparty commitment `j` below the revocation
    frontier there is an accepted revocation of `j` in the history whose secret the store still returns at
    index `2^48 - 1 - j` — every accepted revocation is consistent with all earlier ones under the derivation
    tree and none is ever lost.  (For every `F`.  A *retried* revocation is accepted only with a secret of
    the same public point; that this is the same secret is injectivity of scalar multiplication, outside
    the model.) -/
theorem C03_chain (F : Nat → Bytes → Bytes) (ops : List Op) (j : Nat)
    (hj : j < (runH F init [] ops).1.mem.cpRevoke) :
    ∃ st sec, (runH F init [] ops).1.mem.secrets = some st ∧ AcceptedRev (runH F init [] ops).2 j sec ∧
      get F st (INITIAL - j) = .some sec := by
  obtain ⟨ss, st, a, b, c1, d, f⟩ := C03_chain_inv F ops
  have hjl : j < ss.length := by omega
  refine ⟨st, ss[j], a, f j hjl, ?_⟩
  have := Secrets_store_sound F ss st b j hjl
  have e : INITIAL - j = N48 - 1 - j := by have := INITIAL_succ; omega
  rw [e]; exact this

/-- the store of a reachable channel never exceeds 49 entries -/
theorem C03_chain_size (F : Nat → Bytes → Bytes) (ops : List Op) :
    ∃ st, (runH F init [] ops).1.mem.secrets = some st ∧ st.length ≤ 49 := by
  obtain ⟨ss, st, a, b, _, _, _⟩ := C03_chain_inv F ops
  refine ⟨st, a, ?_⟩
  -- provideDesc is a fold of accepted provides
  have key : ∀ (ss : List Bytes) (st0 : Store Bytes) (m : Nat) (st1 : Store Bytes),
      st0.length ≤ 49 → provideDesc F st0 m ss = some st1 → st1.length ≤ 49 := by
    intro ss
    induction ss with
    | nil => intro st0 m st1 h0 h; simp only [provideDesc, Option.some.injEq] at h; subst h; exact h0
    | cons x rest ih =>
      intro st0 m st1 h0 h
      cases m with
      | zero => simp [provideDesc] at h
      | succ m =>
        simp only [provideDesc] at h
        cases hp : provide F st0 m x with
        | none => rw [hp] at h; cases h
        | some st2 => rw [hp] at h; exact ih st2 m st1 (provide_length F hp h0) h
  exact key ss [] N48 st (by simp) b

/-! ### Non-vacuity -/

/-- sign 0, sign 1, revoke 0, sign 2: accepted; signing 3 before revoking 1 is refused -/
example : ((runH shaF init [] [.setup, .signCp 0 10 0 true, .signCp 1 11 0 true,
    .revokeCp 0 [1] 10, .signCp 2 12 0 true, .signCp 3 13 0 true]).2.map (·.2.res)) =
    [.errPolicy, .ok, .ok, .ok, .ok, .ok] := by decide

/-- a revocation with a secret of another point is refused; re-signing with a changed point too -/
example : ((runH shaF init [] [.setup, .signCp 0 10 0 true, .signCp 1 11 0 true,
    .revokeCp 0 [1] 11, .signCp 1 12 0 true, .signCp 1 11 1 true, .signCp 1 11 0 true]).2.map (·.2.res)) =
    [.ok, .errPolicy, .errPolicy, .errPolicy, .ok, .ok, .ok] := by decide

/-- C03_chain is not vacuous: two revocations accepted on a channel, frontier 2, both secrets in the store
    (toy step function; the secrets chain: slot 0 holds 5 = F 0 of … is checked by `provide`) -/
example : ((runH (fun b s => s ++ [UInt8.ofNat b]) init [] [.setup, .signCp 0 10 0 true, .signCp 1 11 0 true,
    .revokeCp 0 [7, 0] 10, .signCp 2 12 0 true, .revokeCp 1 [7] 11]).1.mem.cpRevoke,
   ((runH (fun b s => s ++ [UInt8.ofNat b]) init [] [.setup, .signCp 0 10 0 true, .signCp 1 11 0 true,
    .revokeCp 0 [7, 0] 10, .signCp 2 12 0 true, .revokeCp 1 [7] 11]).2.map (·.2.res)).take 2) =
    (2, [.ok, .ok]) := by decide

/-- the store accepts and returns a two-level chain for an arbitrary toy step function -/
example : (provide (fun b (s : Nat) => 2 * s + b + 1) [] 281474976710655 11).bind
    (fun st => provide (fun b (s : Nat) => 2 * s + b + 1) st 281474976710654 5) =
    some [(11, 281474976710655), (5, 281474976710654)] := by decide

/-- `Secrets_store_sound` is not vacuous: a seeded four-secret chain is accepted (toy step function) -/
example : (provideDesc (fun b (s : Nat) => s + b + 1) [] N48
    [fromSeed (fun b (s : Nat) => s + b + 1) 7 (N48 - 1), fromSeed (fun b (s : Nat) => s + b + 1) 7 (N48 - 2),
     fromSeed (fun b (s : Nat) => s + b + 1) 7 (N48 - 3), fromSeed (fun b (s : Nat) => s + b + 1) 7 (N48 - 4)]).isSome = true := by
  decide

end VlsModel.Props.C03
