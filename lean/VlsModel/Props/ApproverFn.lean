import VlsModel.Model.Velocity
import VlsModel.Gen.FnApprove
import VlsModel.Lemmas.FnGen
/-
`vls-protocol-signer/src/approver.rs` (anchor of C06, C08, C12) — facts about the approver bodies that
`translate/rs2lean.py` regenerates from the source on every run (`Gen/FnApprove.lean`, target file
`translate/fn_targets/Approve.bfn.json`).  The module is built and audited with C06, C08 and C12
(`bin/extra_modules.json`).

* `PositiveApprover` / `WarningPositiveApprover` answer `true`, `NegativeApprover` answers `false`, to every request,
  whatever the request is (the "permissive"/"refusing" delegates the property harnesses configure).
* `VelocityApprover::approve_invoice` / `approve_keysend`: the generated body — which calls the generated bodies of
  `VelocityControl::insert` and `VelocityControl::clear` of `vls-core/src/util/velocity.rs` (translated on demand into
  the same namespace) — **is** the model's `VC.approve`: insert first, at the clock's second, with the invoice's / the
  request's amount; the delegate decides only when the control refuses; the control is cleared only after a
  manual approval; a panic of `insert` is the panic of the approver.  Until now this form was only pattern-checked
  (`translate/x_approver.py`); the delegate, the clock and the invoice accessor are explicit (universally quantified)
  parameters.
* `approve_onchain` of the velocity approver is the delegate's answer, on the unchanged arguments.
* `Approve::handle_proposed_invoice` / `handle_proposed_keysend` (default methods, i.e. every approver): known payment →
  `true` without a question; else add iff allowlisted payee or approval; a refusal adds nothing.
-/
namespace VlsModel.Props.ApproverFn
open VlsModel VlsModel.Velocity
open VlsModel.Gen.FnApprove

/-! ### the constant approvers -/

theorem Approver_fn_positive_invoice {S I : Type} (s : S) (i : I) : PositiveApprover.approve_invoice s i = true := rfl
theorem Approver_fn_positive_keysend {S H : Type} (s : S) (h : H) (a : Nat) : PositiveApprover.approve_keysend s h a = true := rfl
theorem Approver_fn_positive_onchain {S T O : Type} (s : S) (t : T) (p : List O) (u : List Nat) :
    PositiveApprover.approve_onchain s t p u = true := rfl
theorem Approver_fn_warning_invoice {S I : Type} (s : S) (i : I) : WarningPositiveApprover.approve_invoice s i = true := rfl
theorem Approver_fn_warning_keysend {S H : Type} (s : S) (h : H) (a : Nat) :
    WarningPositiveApprover.approve_keysend s h a = true := rfl
theorem Approver_fn_warning_onchain {S T O : Type} (s : S) (t : T) (p : List O) (u : List Nat) :
    WarningPositiveApprover.approve_onchain s t p u = true := rfl
theorem Approver_fn_negative_invoice {S I : Type} (s : S) (i : I) : NegativeApprover.approve_invoice s i = false := rfl
theorem Approver_fn_negative_keysend {S H : Type} (s : S) (h : H) (a : Nat) : NegativeApprover.approve_keysend s h a = false := rfl
theorem Approver_fn_negative_onchain {S T O : Type} (s : S) (t : T) (p : List O) (u : List Nat) :
    NegativeApprover.approve_onchain s t p u = false := rfl

/-! ### the velocity control as translated into this namespace = the model's `VC` -/

def toVC (g : VelocityControl) : VC :=
  { start := g.start_sec, bi := g.bucket_interval, buckets := g.buckets, limit := g.limit }

def toRes (r : Rs.M (VelocityControl × Bool)) : Option (VC × Bool) :=
  match r with
  | .ok (g, b) => some (toVC g, b)
  | .error _ => none

theorem shift_loop (n : Nat) : ∀ s : VelocityControl,
    Rs.iter (fun s : VelocityControl => { s with buckets := 0 :: s.buckets }) n s
      = { s with buckets := List.replicate n 0 ++ s.buckets } := by
  induction n with
  | zero => intro s; rfl
  | succ k ih => intro s; simp [Rs.iter, ih, List.replicate_succ', List.append_assoc]

/-- `VelocityControl::insert` as reached from the approver (the same source function as `C12_fn_insert`, translated
    into this area): equal to the model on every input, including which inputs panic -/
theorem Approver_fn_control_insert (g : VelocityControl) (now amt : Nat) :
    toRes (g.insert now amt) = (toVC g).insert now amt := by
  unfold VelocityControl.insert VC.insert
  by_cases h1 : now < g.start_sec
  · simp [toVC, h1, Rs.usub, Nat.not_le.mpr h1, toRes, Rs.overflow]
  · by_cases h2 : g.bucket_interval = 0
    · simp [toVC, h1, h2, Rs.usub, Nat.le_of_not_lt h1, Rs.udiv, toRes, Rs.panic]
    · have hle : g.start_sec ≤ now := Nat.le_of_not_lt h1
      simp only [toVC, h1, h2, Rs.usub, hle, Rs.udiv, Rs.urem, Nat.min_le_left, if_true, if_false, false_or,
        Rs.bind_ok, Rs.pure_eq]
      rw [Rs.foldlM_ok _ (fun s : VelocityControl => { s with buckets := 0 :: s.buckets })
        (by intro s x; simp [Rs.vecInsert_zero])]
      simp only [Rs.range_length, shift_loop, Rs.bind_ok, h2, if_false, Nat.mod_le, if_true, Nat.sub_zero]
      rw [Rs.vecResize_le _ _ _ (Nat.sub_le _ _)]
      have hB : ∀ k, shift g.buckets k = List.replicate k 0 ++ g.buckets.take (g.buckets.length - k) := fun _ => rfl
      simp only [hB]
      generalize List.replicate _ 0 ++ List.take _ g.buckets = B
      have hv : ∀ (a c : Nat) (b : List Nat) (l : Nat),
          (VelocityControl.velocity { start_sec := a, bucket_interval := c, buckets := b, limit := l })
            = (VC.velocity { start := a, bi := c, buckets := b, limit := l }) := fun _ _ _ _ => rfl
      have hs : ∀ a b, Rs.usatAdd Rs.U64_MAX a b = U64.satAdd a b := fun _ _ => rfl
      simp only [hv, hs]
      cases B with
      | nil =>
        simp only [Rs.index, List.getElem?_nil, Rs.panic, Rs.bind_err]
        split <;> simp_all [toRes, toVC]
      | cons x xs =>
        simp only [Rs.index, Rs.setIndex, List.getElem?_cons_zero, Rs.bind_ok, Rs.pure_eq, List.length_cons,
          Nat.zero_lt_succ, if_true, List.set_cons_zero]
        split <;> simp_all [toRes, toVC]

/-- `VelocityControl::clear` (the `for bucket in self.buckets.iter_mut() { *bucket = 0 }` loop) = `VC.clear` -/
theorem Approver_fn_control_clear (g : VelocityControl) : toVC g.clear = (toVC g).clear := rfl

/-! ### `VelocityApprover` -/

/-- outcome of a generated approver method: the new control and the answer (`none` = panic/overflow) -/
def toApp {C A : Type} (r : Rs.M (VelocityApprover C A × Bool)) : Option (VC × Bool) :=
  match r with
  | .ok (s, b) => some (toVC s.control, b)
  | .error _ => none

/-- the first two components of the model's `VC.approve` (control, approved) -/
def approve2 (v : VC) (now amt : Nat) (delegate : Bool) : Option (VC × Bool) :=
  (v.approve now amt delegate).map (fun r => (r.1, r.2.1))

/-- **`VelocityApprover::approve_invoice` is the model's `VC.approve`**: for every clock, every invoice accessor and
    every delegate, at the clock's second and with the invoice's amount; the delegate's answer only matters when the
    control refused (it appears as the `delegate` argument of `VC.approve`, which ignores it otherwise). -/
theorem Approver_fn_velocity_invoice {C A I D : Type} (now : C → D) (secs : D → Nat) (amt : I → Nat) (appr : A → I → Bool)
    (self : VelocityApprover C A) (inv : I) :
    toApp (VelocityApprover.approve_invoice now secs amt appr self inv)
      = approve2 (toVC self.control) (secs (now self.clock)) (amt inv) (appr self.delegate inv) := by
  have h := Approver_fn_control_insert self.control (secs (now self.clock)) (amt inv)
  unfold VelocityApprover.approve_invoice approve2 VC.approve
  rw [← h]
  cases hi : VelocityControl.insert self.control (secs (now self.clock)) (amt inv) with
  | error e => simp [toRes, toApp, bind, Except.bind]
  | ok r =>
    obtain ⟨c, b⟩ := r
    cases b
    · cases hd : appr self.delegate inv <;>
        simp [toRes, toApp, bind, Except.bind, pure, Except.pure, hd, Approver_fn_control_clear]
    · simp [toRes, toApp, bind, Except.bind, pure, Except.pure]

/-- the same for `approve_keysend` (the amount is the request's `amount_msat`) -/
theorem Approver_fn_velocity_keysend {C A H D : Type} (now : C → D) (secs : D → Nat) (appr : A → H → Nat → Bool)
    (self : VelocityApprover C A) (ph : H) (amt : Nat) :
    toApp (VelocityApprover.approve_keysend now secs appr self ph amt)
      = approve2 (toVC self.control) (secs (now self.clock)) amt (appr self.delegate ph amt) := by
  have h := Approver_fn_control_insert self.control (secs (now self.clock)) amt
  unfold VelocityApprover.approve_keysend approve2 VC.approve
  rw [← h]
  cases hi : VelocityControl.insert self.control (secs (now self.clock)) amt with
  | error e => simp [toRes, toApp, bind, Except.bind]
  | ok r =>
    obtain ⟨c, b⟩ := r
    cases b
    · cases hd : appr self.delegate ph amt <;>
        simp [toRes, toApp, bind, Except.bind, pure, Except.pure, hd, Approver_fn_control_clear]
    · simp [toRes, toApp, bind, Except.bind, pure, Except.pure]

/-- the approver only ever replaces its control: clock and delegate of the returned approver are the old ones -/
theorem Approver_fn_velocity_invoice_frame {C A I D : Type} (now : C → D) (secs : D → Nat) (amt : I → Nat) (appr : A → I → Bool)
    (self s' : VelocityApprover C A) (inv : I) (b : Bool)
    (h : VelocityApprover.approve_invoice now secs amt appr self inv = .ok (s', b)) :
    s'.clock = self.clock ∧ s'.delegate = self.delegate := by
  unfold VelocityApprover.approve_invoice at h
  cases hi : VelocityControl.insert self.control (secs (now self.clock)) (amt inv) with
  | error e => simp [hi, bind, Except.bind] at h
  | ok r =>
    obtain ⟨c, ok⟩ := r
    cases ok <;> simp [hi, bind, Except.bind, pure, Except.pure] at h
    · split at h <;> (obtain ⟨h1, _⟩ := h; subst h1; exact ⟨rfl, rfl⟩)
    · obtain ⟨h1, _⟩ := h; subst h1; exact ⟨rfl, rfl⟩

/-- insert-then-approve order, stated on its own: when the control's `insert` panics (clock before the window start,
    zero bucket interval, empty bucket vector) the approver panics — the delegate is never consulted — and when the
    control accepts, the answer is `true` whatever the delegate would say. -/
theorem Approver_fn_velocity_insert_first {C A I D : Type} (now : C → D) (secs : D → Nat) (amt : I → Nat) (appr appr' : A → I → Bool)
    (self : VelocityApprover C A) (inv : I)
    (h : ∀ c, VelocityControl.insert self.control (secs (now self.clock)) (amt inv) ≠ .ok (c, false)) :
    VelocityApprover.approve_invoice now secs amt appr self inv = VelocityApprover.approve_invoice now secs amt appr' self inv := by
  unfold VelocityApprover.approve_invoice
  cases hi : VelocityControl.insert self.control (secs (now self.clock)) (amt inv) with
  | error e => rfl
  | ok r =>
    obtain ⟨c, ok⟩ := r
    cases ok
    · exact absurd hi (h c)
    · rfl

/-- `approve_onchain`: the delegate's answer on the unchanged arguments -/
theorem Approver_fn_velocity_onchain {C A T O : Type} (appr : A → T → List O → List Nat → Bool)
    (self : VelocityApprover C A) (tx : T) (p : List O) (u : List Nat) :
    VelocityApprover.approve_onchain appr self tx p u = appr self.delegate tx p u := rfl

/-- `control()` (the snapshot that is persisted) and `set_control` (restore) -/
theorem Approver_fn_velocity_control {C A : Type} (self : VelocityApprover C A) : self.control = VelocityApprover.control_fn self := rfl

/-- `VelocityApprover::new`: the approver starts from exactly the control it is given (e.g. the restored one) -/
theorem Approver_fn_velocity_new {C A : Type} (clock : C) (c : VelocityControl) (d : A) :
    (VelocityApprover.new clock c d).control = c ∧ (VelocityApprover.new clock c d).delegate = d
      ∧ (VelocityApprover.new clock c d).clock = clock := ⟨rfl, rfl, rfl⟩

theorem Approver_fn_velocity_set_control {C A : Type} (self : VelocityApprover C A) (c : VelocityControl) :
    VelocityApprover.set_control self c = { self with control := c } := rfl

/-! ### `Approve::handle_proposed_invoice` / `handle_proposed_keysend` (default methods of the trait: every approver) -/
section Proposed
variable {S Node Invoice PaymentHash PaymentState PublicKey Clock Duration : Type}

/-- **`handle_proposed_invoice`**, for every implementation of `approve_invoice` and of the node: a payment the node already
    has is answered `true` without asking anybody; otherwise the invoice is added (`Node::add_invoice`, whose answer is the
    result) iff the payee is on the allowlist **or** the approver says yes; a refusal is `Ok(false)` and adds nothing. -/
theorem Approver_fn_handle_proposed_invoice (psi : Invoice → Rs.M (PaymentHash × PaymentState × List Nat))
    (hp : Node → PaymentHash → List Nat → Rs.M Bool) (payee : Invoice → PublicKey) (allow : Node → PublicKey → Bool)
    (add : Node → Invoice → Rs.M Bool) (appr : S → Invoice → Bool) (self : S) (node : Node) (inv : Invoice) :
    Approve.handle_proposed_invoice psi hp payee allow add appr self node inv
      = psi inv >>= fun t => hp node t.1 t.2.2 >>= fun known =>
        if known then .ok true
        else if allow node (payee inv) || appr self inv then add node inv else .ok false := by
  unfold Approve.handle_proposed_invoice
  cases psi inv with
  | error e => rfl
  | ok t =>
    obtain ⟨h, st, ih⟩ := t
    simp only [Rs.bind_ok]
    cases hp node h ih with
    | error e => rfl
    | ok known =>
      cases known
      · simp only [Rs.bind_ok, Bool.false_eq_true, if_false]
        cases allow node (payee inv) <;> cases appr self inv <;> rfl
      · rfl

/-- a refused invoice is not added: the outcome `Ok(false)` does not depend on `add_invoice` -/
theorem Approver_fn_handle_proposed_invoice_refused (psi : Invoice → Rs.M (PaymentHash × PaymentState × List Nat))
    (hp : Node → PaymentHash → List Nat → Rs.M Bool) (payee : Invoice → PublicKey) (allow : Node → PublicKey → Bool)
    (add : Node → Invoice → Rs.M Bool) (appr : S → Invoice → Bool) (self : S) (node : Node) (inv : Invoice)
    (t : PaymentHash × PaymentState × List Nat) (h1 : psi inv = .ok t) (h2 : hp node t.1 t.2.2 = .ok false)
    (h3 : allow node (payee inv) = false) (h4 : appr self inv = false) :
    Approve.handle_proposed_invoice psi hp payee allow add appr self node inv = .ok false := by
  rw [Approver_fn_handle_proposed_invoice, h1]
  simp [h2, h3, h4]

/-- **`handle_proposed_keysend`**: the payment state is computed at the node's clock; known payment → `true`; otherwise
    `add_keysend(payee, hash, amount)` iff the approver approves exactly that hash and amount, else `Ok(false)` -/
theorem Approver_fn_handle_proposed_keysend (gc : Node → Clock) (now : Clock → Duration)
    (psk : PublicKey → PaymentHash → Nat → Duration → Rs.M (PaymentState × List Nat))
    (hp : Node → PaymentHash → List Nat → Rs.M Bool) (appr : S → PaymentHash → Nat → Bool)
    (add : Node → PublicKey → PaymentHash → Nat → Rs.M Bool) (self : S) (node : Node) (payee : PublicKey) (h : PaymentHash)
    (amt : Nat) :
    Approve.handle_proposed_keysend gc now psk hp appr add self node payee h amt
      = psk payee h amt (now (gc node)) >>= fun t => hp node h t.2 >>= fun known =>
        if known then .ok true else if appr self h amt then add node payee h amt else .ok false := by
  unfold Approve.handle_proposed_keysend
  dsimp only
  cases psk payee h amt (now (gc node)) with
  | error e => rfl
  | ok t =>
    obtain ⟨st, ih⟩ := t
    simp only [Rs.bind_ok]
    cases hp node h ih with
    | error e => rfl
    | ok known =>
      cases known
      · simp only [Rs.bind_ok, Bool.false_eq_true, if_false]
        cases appr self h amt <;> rfl
      · rfl
end Proposed

/-- non-vacuity: a control with limit 100 in one bucket; 60 msat is approved automatically, the next 60 msat goes to
    the delegate, whose approval clears the control -/
example :
    let vc : VelocityControl := { start_sec := 0, bucket_interval := 10, buckets := [0], limit := 100 }
    let a : VelocityApprover Unit Unit := { clock := (), control := vc, delegate := () }
    toApp (VelocityApprover.approve_keysend (fun _ => ()) (fun _ => 5) (fun _ (_ : Unit) _ => true) a () 60)
      = some ({ start := 0, bi := 10, buckets := [60], limit := 100 }, true) := by decide

example :
    let vc : VelocityControl := { start_sec := 0, bucket_interval := 10, buckets := [60], limit := 100 }
    let a : VelocityApprover Unit Unit := { clock := (), control := vc, delegate := () }
    toApp (VelocityApprover.approve_keysend (fun _ => ()) (fun _ => 5) (fun _ (_ : Unit) _ => true) a () 60)
      = some ({ start := 0, bi := 10, buckets := [0], limit := 100 }, true)
    ∧ toApp (VelocityApprover.approve_keysend (fun _ => ()) (fun _ => 5) (fun _ (_ : Unit) _ => false) a () 60)
      = some ({ start := 0, bi := 10, buckets := [60], limit := 100 }, false) := by decide

end VlsModel.Props.ApproverFn
