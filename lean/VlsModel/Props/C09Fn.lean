import VlsModel.Model.Sweep
import VlsModel.Gen.FnSweep
import VlsModel.Gen.FnChannel
import VlsModel.Gen.FnTxUtil
import VlsModel.Lemmas.FnGen
/-
C09 — the sweep model (`Model/Sweep.lean`) proved equal to the bodies of

  `SimpleValidator::validate_sweep`, `validate_delayed_sweep`, `validate_justice_sweep`,
  `validate_counterparty_htlc_sweep`          (vls-core/src/policy/simple_validator.rs → `Gen/FnSweep.lean`)
  `ChannelSetup::is_anchors`, `is_zero_fee_htlc`  (vls-core/src/channel.rs → `Gen/FnChannel.lean`)

that `translate/rs2lean.py` regenerates from the source on every run.  The generated definitions take the library
functions they call as explicit parameters (externals); this file *states* how they are instantiated, i.e. what
is assumed about rust-bitcoin and about the `Wallet` implementation:

  `Wallet::can_spend` / `allowlist_contains`  per output: the facts `SweepOut.canSpend` / `SweepOut.allow` of the model
                                             (`Err` ↦ `none`, the `derive_pub(..).unwrap()` panic ↦ `.panic`)
  `Height::from_consensus(n)`                `some n` iff `n < 500_000_000` (`LOCK_TIME_THRESHOLD`), else `Err`
  `lock_time.is_satisfied_by(h, Time::MIN)`  `Sweep.locktimeSatisfied`
  `lock_time.to_consensus_u32()`             the locktime itself
  `parse_received_htlc_script(..)` / `parse_offered_htlc_script(..)`   the model's `HtlcScript` (input of the model)

Everything else — the order of the checks, which check is filtered by the policy filter and which is a
`transaction_format` error, `current_height + MAX_CHAIN_LAG` in `u32` (overflow!), the `expect`, `tx.input[0]`,
the compared delay field (`counterparty_selected_contest_delay`), the sequence tables, the i64 range check of
`cltv_expiry` and its `as u32` truncation — is the generated text, and the theorems below are re-checked by the kernel
against it on every run.
-/
namespace VlsModel.Props.C09Fn
open VlsModel VlsModel.Sweep
open VlsModel.Gen.FnSweep (SimpleValidator Transaction ChainState ChannelSetup)

abbrev GTxIn := Gen.FnSweep.TxIn
abbrev GTxOut := Gen.FnSweep.TxOut

/-! ### instantiation of the externals -/

def canSpendE : Unit → Unit → SweepOut → Option Bool := fun _ _ o => o.canSpend

def allowE : Unit → SweepOut → Unit → Rs.M Bool := fun _ o _ =>
  match o.allow with
  | .yes => pure true
  | .no => pure false
  | .panic => Rs.panic

/-- the external of `policy_err!`: only `policy-sweep-destination-allowlisted` is raised through it here -/
def filt (destFilter : Bool) : String → Bool :=
  fun tag => if tag = "policy-sweep-destination-allowlisted" then destFilter else true

/-- rust-bitcoin `Height::from_consensus` -/
def heightE : Nat → Option Nat := fun n => if n < lockTimeThreshold then some n else none

/-- rust-bitcoin `LockTime::is_satisfied_by(height, Time::MIN)` -/
def satisfiedE : Nat → Nat → Bool := locktimeSatisfied

def received? : HtlcScript → Bool → Option Int
  | .received cltv, _ => some cltv
  | _, _ => none
def offered? : HtlcScript → Bool → Bool
  | .offered, _ => true
  | _, _ => false

/-- the generated transaction view of a model transaction; `ins` are its inputs -/
def toTx (tx : SweepTx) (ins : List GTxIn) : Transaction SweepOut Nat :=
  { version := (tx.version : Int), lock_time := tx.locktime, input := ins,
    output := tx.outs.map (fun o => { script_pubkey := o }) }

/-- `ins` is a list of `tx.nInputs` inputs whose first sequence is `tx.seq0` -/
def InsOf (tx : SweepTx) (ins : List GTxIn) : Prop :=
  ins.length = tx.nInputs ∧ ∀ x, ins.head? = some x → x.sequence = tx.seq0

/-- outcome of a validator as the model's result class (an arithmetic overflow is a panic in the overflow-checked
    build the harness runs; `transaction_format_error` vs. policy error by the error value) -/
def rel : Rs.M Unit → Res
  | .ok _ => .ok
  | .error (.err s) => if s = "transaction-format" then .errFormat else .errPolicy
  | .error _ => .panic

theorem rel_bind_unit (m : Rs.M Unit) : rel (m >>= fun _ => (Except.ok () : Rs.M Unit)) = rel m := by
  cases m <;> rfl

/-! ### `validate_sweep` -/

/-- one iteration of the output loop, written out -/
def stepOut (d : Bool) (o : SweepOut) : Rs.M Unit :=
  match o.canSpend with
  | none => Rs.fail "policy-onchain-output-scriptpubkey"
  | some true => pure ()
  | some false =>
    match o.allow with
    | .panic => Rs.panic
    | .yes => pure ()
    | .no => if d then Rs.fail "policy-sweep-destination-allowlisted" else pure ()

theorem foldl_step (d : Bool) (f : Unit → GTxOut SweepOut → Rs.M Unit)
    (hf : ∀ o, f () { script_pubkey := o } = stepOut d o) (outs : List SweepOut) :
    rel (List.foldlM f () (outs.map (fun o => ({ script_pubkey := o } : GTxOut SweepOut)))) = sweepOutsF d outs := by
  induction outs with
  | nil => simp [sweepOutsF, rel, pure, Except.pure]
  | cons o rest ih =>
    simp only [List.map_cons, List.foldlM_cons, hf]
    unfold sweepOutsF stepOut
    cases hc : o.canSpend with
    | none => simp [Rs.fail, rel, bind, Except.bind]
    | some b =>
      cases b with
      | true => simpa using ih
      | false =>
        cases ha : o.allow with
        | yes => simpa using ih
        | no =>
          cases d with
          | true => simp [Rs.fail, rel, bind, Except.bind]
          | false => simpa using ih
        | panic => simp [Rs.panic, rel, bind, Except.bind]

/-- **`validate_sweep` = `Sweep.validateSweep`**, for every transaction, output facts and filter -/
theorem C09_fn_validate_sweep (v : SimpleValidator) (d : Bool) (tx : SweepTx) (ins : List GTxIn) (i a : Nat) :
    rel (SimpleValidator.validate_sweep canSpendE allowE (filt d) v () (toTx tx ins) i a ()) = validateSweep d tx := by
  unfold SimpleValidator.validate_sweep validateSweep
  by_cases hv : tx.version = 2
  · have hv' : ((toTx tx ins).version != (2 : Int)) = false := by simp [toTx, hv]
    simp only [hv', Bool.false_eq_true, if_false]
    simp only [toTx, Rs.pure_eq, Rs.bind_ok, hv, ne_eq, not_true_eq_false, if_false]
    rw [rel_bind_unit]
    apply foldl_step
    intro o
    unfold stepOut
    cases hc : o.canSpend with
    | none => simp [canSpendE, hc, Rs.okOr, Rs.fail, bind, Except.bind]
    | some b =>
      cases b with
      | true => simp [canSpendE, hc, Rs.okOr]
      | false =>
        cases ha : o.allow with
        | yes => simp [canSpendE, allowE, hc, ha, Rs.okOr]
        | no => cases d <;> simp [canSpendE, allowE, hc, ha, Rs.okOr, Rs.policyErr, filt, Rs.fail, bind, Except.bind]
        | panic => simp [canSpendE, allowE, hc, ha, Rs.okOr, Rs.panic, bind, Except.bind]
  · have hv' : ((tx.version : Int) != (2 : Int)) = true := by
      simp only [bne_iff_ne, ne_eq]; intro h; exact hv (by exact_mod_cast h)
    simp [toTx, hv', hv, Rs.fail, rel, bind, Except.bind]

/-- `validate_sweep` either fails with the error the model's class stands for, or returns `Ok(())` -/
theorem validate_sweep_cases (v : SimpleValidator) (d : Bool) (tx : SweepTx) (ins : List GTxIn) (i a : Nat) :
    (∃ e, SimpleValidator.validate_sweep canSpendE allowE (filt d) v () (toTx tx ins) i a () = .error e ∧
          validateSweep d tx = rel (.error e)) ∨
    (SimpleValidator.validate_sweep canSpendE allowE (filt d) v () (toTx tx ins) i a () = .ok () ∧
          validateSweep d tx = .ok) := by
  have h := C09_fn_validate_sweep v d tx ins i a
  cases hr : SimpleValidator.validate_sweep canSpendE allowE (filt d) v () (toTx tx ins) i a () with
  | error e => left; exact ⟨e, rfl, by rw [← h, hr]⟩
  | ok u => right; cases u; exact ⟨rfl, by rw [← h, hr]; rfl⟩

/-- an error of `validate_sweep` is the result of every validator that starts with it -/
theorem rel_error_bind (e : Rs.Fail) (f : Unit → Rs.M Unit) :
    rel ((Except.error e : Rs.M Unit) >>= f) = rel (.error e) := rfl

theorem rel_error_ne_ok (e : Rs.Fail) : rel (.error e) ≠ .ok := by
  cases e <;> simp [rel]
  split <;> simp

/-! ### the lock-time guard shared by the three validators -/

theorem maxChainLag_gen : Gen.Onchain.maxChainLag = 2 := by decide
theorem u32max_eq : U32.MAX = Rs.U32_MAX := by decide
theorem nonAnchorSeqs_gen : ([0, 4294967293, 4294967295] : List Nat) = Gen.Onchain.nonAnchorSeqs := by decide
theorem anchorSeqs_gen : ([1] : List Nat) = Gen.Onchain.anchorSeqs := by decide

/-- the three ways `current_height + MAX_CHAIN_LAG` / `Height::from_consensus(..).expect(..)` can go -/
theorem lag_cases (h : Nat) :
    (h + 2 ≤ Rs.U32_MAX ∧ h + 2 < lockTimeThreshold ∧ lagHeight h = some (h + 2)) ∨
    (h + 2 ≤ Rs.U32_MAX ∧ ¬ h + 2 < lockTimeThreshold ∧ lagHeight h = none) ∨
    (¬ h + 2 ≤ Rs.U32_MAX ∧ lagHeight h = none) := by
  unfold lagHeight
  simp only [maxChainLag_gen, u32max_eq]
  by_cases h1 : h + 2 ≤ Rs.U32_MAX
  · by_cases h2 : h + 2 < lockTimeThreshold
    · left; refine ⟨h1, h2, ?_⟩
      have : ¬ (h + 2 > Rs.U32_MAX ∨ h + 2 ≥ lockTimeThreshold) := by omega
      simp [this]
    · right; left; refine ⟨h1, h2, ?_⟩
      have : (h + 2 > Rs.U32_MAX ∨ h + 2 ≥ lockTimeThreshold) := by omega
      simp [this]
  · right; right; refine ⟨h1, ?_⟩
    have : (h + 2 > Rs.U32_MAX ∨ h + 2 ≥ lockTimeThreshold) := by omega
    simp [this]

/-! ### `validate_delayed_sweep` -/

/-- **`validate_delayed_sweep` = the part of `Sweep.signDelayedSweep` behind its two front checks** (input index in
    range — so `tx.input[0]` exists — and the per-commitment point available) -/
theorem C09_fn_validate_delayed_sweep (v : SimpleValidator) (d : Bool) (tx : SweepTx) (ins : List GTxIn) (hins : InsOf tx ins)
    (input amount h delay : Nat) (hi : input < tx.nInputs) :
    rel (SimpleValidator.validate_delayed_sweep canSpendE allowE (filt d) heightE satisfiedE v ()
          { counterparty_selected_contest_delay := delay } { current_height := h } (toTx tx ins) input amount ())
      = signDelayedSweep d tx input true h delay := by
  obtain ⟨hl, hs⟩ := hins
  obtain ⟨x, rest, rfl⟩ : ∃ x rest, ins = x :: rest := by
    cases ins with
    | nil => simp at hl; omega
    | cons x rest => exact ⟨x, rest, rfl⟩
  have hx : x.sequence = tx.seq0 := hs x rfl
  unfold SimpleValidator.validate_delayed_sweep signDelayedSweep
  have hni : ¬ tx.nInputs ≤ input := by omega
  rcases validate_sweep_cases v d tx (x :: rest) input amount with ⟨e, he, hm⟩ | ⟨hok, hm⟩
  · rw [he, hm, rel_error_bind]
    have := rel_error_ne_ok e
    cases hr : rel (Except.error e) <;> simp_all
  · rw [hok, hm]
    rcases lag_cases h with ⟨h1, h2, hlag⟩ | ⟨h1, h2, hlag⟩ | ⟨h1, hlag⟩
    · cases hsat : locktimeSatisfied tx.locktime (h + 2) with
      | false =>
        simp [hni, toTx, hlag, Rs.uadd, h1, heightE, h2, Rs.unwrap, satisfiedE, hsat, Rs.fail, rel, bind, Except.bind]
      | true =>
        by_cases hd : tx.seq0 = delay
        · simp [hni, toTx, hlag, Rs.uadd, h1, heightE, h2, Rs.unwrap, satisfiedE, hsat, Rs.index, hx, hd, rel,
            bind, Except.bind]
        · simp [hni, toTx, hlag, Rs.uadd, h1, heightE, h2, Rs.unwrap, satisfiedE, hsat, Rs.index, hx, hd, Rs.fail, rel,
            bind, Except.bind]
    · simp [hni, hlag, Rs.uadd, h1, heightE, h2, Rs.unwrap, Rs.panic, rel, bind, Except.bind]
    · simp [hni, hlag, Rs.uadd, h1, Rs.overflow, rel, bind, Except.bind]

/-- outside the caller's guarantee: a transaction without inputs that passes the earlier checks panics at `tx.input[0]` -/
theorem C09_fn_validate_delayed_sweep_no_input (v : SimpleValidator) (d : Bool) (tx : SweepTx) (input amount h delay hh : Nat)
    (hv : validateSweep d tx = .ok) (hlag : lagHeight h = some hh) (hsat : locktimeSatisfied tx.locktime hh = true) :
    SimpleValidator.validate_delayed_sweep canSpendE allowE (filt d) heightE satisfiedE v ()
          { counterparty_selected_contest_delay := delay } { current_height := h } (toTx tx []) input amount ()
      = .error .panic := by
  unfold SimpleValidator.validate_delayed_sweep
  rcases validate_sweep_cases v d tx [] input amount with ⟨e, _, hm⟩ | ⟨hok, _⟩
  · rw [hv] at hm; exact absurd hm.symm (rel_error_ne_ok e)
  · rw [hok]
    rcases lag_cases h with ⟨h1, h2, hlag'⟩ | ⟨_, _, hlag'⟩ | ⟨_, hlag'⟩
    · rw [hlag'] at hlag; cases hlag
      simp [toTx, Rs.uadd, h1, heightE, h2, Rs.unwrap, satisfiedE, hsat, Rs.index, Rs.panic, bind, Except.bind]
    · rw [hlag'] at hlag; cases hlag
    · rw [hlag'] at hlag; cases hlag

/-! ### `validate_justice_sweep` -/

/-- **`validate_justice_sweep` = `Sweep.signJusticeSweep` behind its front check** -/
theorem C09_fn_validate_justice_sweep (v : SimpleValidator) (d : Bool) (tx : SweepTx) (ins : List GTxIn) (hins : InsOf tx ins)
    (input amount h delay : Nat) (hi : input < tx.nInputs) :
    rel (SimpleValidator.validate_justice_sweep canSpendE allowE (filt d) heightE satisfiedE v ()
          { counterparty_selected_contest_delay := delay } { current_height := h } (toTx tx ins) input amount ())
      = signJusticeSweep d tx input h := by
  obtain ⟨hl, hs⟩ := hins
  obtain ⟨x, rest, rfl⟩ : ∃ x rest, ins = x :: rest := by
    cases ins with
    | nil => simp at hl; omega
    | cons x rest => exact ⟨x, rest, rfl⟩
  have hx : x.sequence = tx.seq0 := hs x rfl
  unfold SimpleValidator.validate_justice_sweep signJusticeSweep
  have hni : ¬ tx.nInputs ≤ input := by omega
  rcases validate_sweep_cases v d tx (x :: rest) input amount with ⟨e, he, hm⟩ | ⟨hok, hm⟩
  · rw [he, hm, rel_error_bind]
    have := rel_error_ne_ok e
    cases hr : rel (Except.error e) <;> simp_all
  · rw [hok, hm]
    rcases lag_cases h with ⟨h1, h2, hlag⟩ | ⟨h1, h2, hlag⟩ | ⟨h1, hlag⟩
    · cases hsat : locktimeSatisfied tx.locktime (h + 2) with
      | false =>
        simp [hni, toTx, hlag, Rs.uadd, h1, heightE, h2, Rs.unwrap, satisfiedE, hsat, Rs.fail, rel, bind, Except.bind]
      | true =>
        by_cases hc : tx.seq0 ∈ Gen.Onchain.nonAnchorSeqs <;>
          simp [hni, toTx, hlag, Rs.uadd, h1, heightE, h2, Rs.unwrap, satisfiedE, hsat, Rs.index, hx, nonAnchorSeqs_gen, hc,
            Rs.fail, rel, bind, Except.bind]
    · simp [hni, hlag, Rs.uadd, h1, heightE, h2, Rs.unwrap, Rs.panic, rel, bind, Except.bind]
    · simp [hni, hlag, Rs.uadd, h1, Rs.overflow, rel, bind, Except.bind]

/-! ### `validate_counterparty_htlc_sweep` -/

theorem utruncI_u32 (c : Int) (h0 : 0 ≤ c) (h1 : c ≤ (Rs.U32_MAX : Int)) : Rs.utruncI Rs.U32_MAX c = c.toNat := by
  unfold Rs.utruncI
  have : c % ((Rs.U32_MAX : Int) + 1) = c := Int.emod_eq_of_lt h0 (by omega)
  rw [this]

/-- **`validate_counterparty_htlc_sweep` = `Sweep.signCounterpartyHtlcSweep` behind its front check**; `script` is
    how the redeemscript parses for the channel's `is_anchors()` form, `anchors` = `setup.is_anchors()` -/
theorem C09_fn_validate_counterparty_htlc_sweep (v : SimpleValidator) (d : Bool) (tx : SweepTx) (ins : List GTxIn) (hins : InsOf tx ins)
    (input amount h delay : Nat) (script : HtlcScript) (anchors : Bool) (rs : SweepOut) (hi : input < tx.nInputs) :
    rel (SimpleValidator.validate_counterparty_htlc_sweep canSpendE allowE (filt d) (fun _ => anchors)
          (fun (_ : SweepOut) a => received? script a) (fun (lt : Nat) => lt) (fun (_ : SweepOut) a => offered? script a)
          heightE satisfiedE v ()
          { counterparty_selected_contest_delay := delay } { current_height := h } (toTx tx ins) rs input amount ())
      = signCounterpartyHtlcSweep d tx input script anchors h := by
  obtain ⟨hl, hs⟩ := hins
  obtain ⟨x, rest, rfl⟩ : ∃ x rest, ins = x :: rest := by
    cases ins with
    | nil => simp at hl; omega
    | cons x rest => exact ⟨x, rest, rfl⟩
  have hx : x.sequence = tx.seq0 := hs x rfl
  unfold SimpleValidator.validate_counterparty_htlc_sweep signCounterpartyHtlcSweep
  have hni : ¬ tx.nInputs ≤ input := by omega
  rcases validate_sweep_cases v d tx (x :: rest) input amount with ⟨e, he, hm⟩ | ⟨hok, hm⟩
  · rw [he, hm, rel_error_bind]
    have := rel_error_ne_ok e
    cases hr : rel (Except.error e) <;> simp_all
  · rw [hok, hm]
    cases script with
    | received cltv =>
      have hu : (U32.MAX : Int) = (Rs.U32_MAX : Int) := by decide
      by_cases h0 : cltv < 0
      · simp [hni, received?, h0, Rs.fail, rel, bind, Except.bind]
      · by_cases h1 : cltv > (Rs.U32_MAX : Int)
        · simp [hni, received?, h0, h1, hu, Rs.fail, rel, bind, Except.bind]
        · have htr := utruncI_u32 cltv (by omega) (by omega)
          by_cases hlock : (tx.locktime : Int) > cltv
          · have hg : tx.locktime > cltv.toNat := by omega
            simp [hni, received?, h0, h1, hu, toTx, htr, hlock, hg, Rs.fail, rel, bind, Except.bind]
          · have hg : ¬ tx.locktime > cltv.toNat := by omega
            cases anchors <;>
              by_cases hc1 : tx.seq0 ∈ Gen.Onchain.anchorSeqs <;>
              by_cases hc2 : tx.seq0 ∈ Gen.Onchain.nonAnchorSeqs <;>
              simp [hni, received?, h0, h1, hu, toTx, htr, hlock, hg, Rs.index, hx, nonAnchorSeqs_gen, anchorSeqs_gen,
                hc1, hc2, Rs.fail, rel, bind, Except.bind]
    | offered =>
      rcases lag_cases h with ⟨h1, h2, hlag⟩ | ⟨h1, h2, hlag⟩ | ⟨h1, hlag⟩
      · cases hsat : locktimeSatisfied tx.locktime (h + 2) with
        | false =>
          simp [hni, received?, offered?, toTx, hlag, Rs.uadd, h1, heightE, h2, Rs.unwrap, satisfiedE, hsat, Rs.fail,
            rel, bind, Except.bind]
        | true =>
          cases anchors <;>
            by_cases hc1 : tx.seq0 ∈ Gen.Onchain.anchorSeqs <;>
            by_cases hc2 : tx.seq0 ∈ Gen.Onchain.nonAnchorSeqs <;>
            simp [hni, received?, offered?, toTx, hlag, Rs.uadd, h1, heightE, h2, Rs.unwrap, satisfiedE, hsat, Rs.index,
              hx, nonAnchorSeqs_gen, anchorSeqs_gen, hc1, hc2, Rs.fail, rel, bind, Except.bind]
      · simp [hni, received?, offered?, hlag, Rs.uadd, h1, heightE, h2, Rs.unwrap, Rs.panic, rel, bind, Except.bind]
      · simp [hni, received?, offered?, hlag, Rs.uadd, h1, Rs.overflow, rel, bind, Except.bind]
    | invalid =>
      simp [hni, received?, offered?, Rs.fail, rel, bind, Except.bind]

/-! ### `validate_htlc_tx` -/

def toV (pol : HtlcPolicy) : SimpleValidator :=
  { policy := { min_feerate_per_kw := pol.minFeerate, max_feerate_per_kw := pol.maxFeerate } }

/-- the external of `policy_err!` for the two tags `validate_htlc_tx` raises -/
def filtH (pol : HtlcPolicy) : String → Bool := fun tag =>
  if tag = "policy-htlc-locktime" then pol.fltLocktime
  else if tag = "policy-htlc-fee-range" then pol.fltFeeRange else true

/-- **`validate_htlc_tx` = `Sweep.validateHtlcTx`** (`ct.isZeroFee` = `setup.is_zero_fee_htlc()`, see below) -/
theorem C09_fn_validate_htlc_tx (pol : HtlcPolicy) (ct : CommitmentType) (offered : Bool) (cltv feerate : Nat)
    (setup : ChannelSetup) (cs : ChainState) (ic : Bool) :
    rel (SimpleValidator.validate_htlc_tx (filtH pol) (fun _ => ct.isZeroFee) (toV pol) setup cs ic
          { offered := offered, cltv_expiry := cltv } feerate)
      = validateHtlcTx pol ct offered cltv feerate := by
  unfold SimpleValidator.validate_htlc_tx validateHtlcTx
  cases offered <;> cases hz : ct.isZeroFee <;> cases hl : pol.fltLocktime <;> cases hf : pol.fltFeeRange <;>
    by_cases h1 : cltv = 0 <;> by_cases h2 : feerate < pol.minFeerate <;> by_cases h3 : pol.maxFeerate < feerate <;>
    simp [toV, filtH, hl, hf, h1, h2, h3, Rs.policyErr, Rs.fail, rel, bind, Except.bind]

/-! ### `estimate_feerate_per_kw` (the feerate `decode_and_validate_htlc_tx` rebuilds the HTLC transaction with) -/

/-- the generated `estimate_feerate_per_kw` (`Gen/FnTxUtil.lean`, translated for C04) is `Sweep.estimateFeerate`;
    the callers pass the constant HTLC weights 663 / 703 / 666 / 706, never 0 -/
theorem C09_fn_estimate_feerate (fee weight : Nat) (hw : weight ≠ 0) :
    Gen.FnTxUtil.estimate_feerate_per_kw fee weight = .ok (Sweep.estimateFeerate fee weight) := by
  unfold Gen.FnTxUtil.estimate_feerate_per_kw Sweep.estimateFeerate U32.clamp U64.satAdd U64.satMul
  simp only [Rs.udiv, hw, if_false, Rs.bind_ok, Rs.pure_eq, Rs.usatAdd, Rs.usatMul, Rs.utryFrom, Rs.U64_MAX, Rs.U32_MAX,
    U64.MAX, U32.MAX]
  have key : ∀ q m : Nat, (if q ≤ m then some q else none).getD m = min q m := by
    intro q m; by_cases h : q ≤ m <;> simp [h, Nat.min_def]
  exact congrArg Except.ok (key _ _)

theorem C09_fn_htlc_feerate (ct : CommitmentType) (offered : Bool) (totalFee : Nat) (hz : ct.isZeroFee = false) :
    Gen.FnTxUtil.estimate_feerate_per_kw totalFee (htlcWeight ct offered) = .ok (htlcFeerate ct offered totalFee) := by
  have hw : htlcWeight ct offered ≠ 0 := by unfold htlcWeight; cases offered <;> simp [hz]
  rw [C09_fn_estimate_feerate _ _ hw]
  simp [htlcFeerate, hz]

/-! ### `ChannelSetup::is_anchors` / `is_zero_fee_htlc` -/

def toCt : CommitmentType → Gen.FnChannel.CommitmentType
  | .legacy => .Legacy | .staticRemoteKey => .StaticRemoteKey | .anchors => .Anchors | .anchorsZeroFee => .AnchorsZeroFeeHtlc

theorem C09_fn_is_anchors (ct : CommitmentType) :
    Gen.FnChannel.ChannelSetup.is_anchors { commitment_type := toCt ct } = ct.isAnchors := by
  cases ct <;> rfl

theorem C09_fn_is_zero_fee_htlc (ct : CommitmentType) :
    Gen.FnChannel.ChannelSetup.is_zero_fee_htlc { commitment_type := toCt ct } = ct.isZeroFee := by
  cases ct <;> rfl

end VlsModel.Props.C09Fn
