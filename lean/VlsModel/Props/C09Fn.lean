import VlsModel.Model.Sweep
import VlsModel.Gen.FnSweep
import VlsModel.Gen.FnChannel
import VlsModel.Gen.FnTxUtil
import VlsModel.Gen.FnHtlcTx
import VlsModel.Gen.FnOnchainWrap
import VlsModel.Gen.FnChannelSweep
import VlsModel.Gen.FnHandlerSweep
import VlsModel.Gen.FnNodeAllowlist
import VlsModel.Lemmas.NodeWalletFn
import VlsModel.Lemmas.Sweep
import VlsModel.Lemmas.FnGen
/-
C09 — the sweep model (`Model/Sweep.lean`) proved equal to the bodies of

  `SimpleValidator::validate_sweep`, `validate_delayed_sweep`, `validate_justice_sweep`,
  `validate_counterparty_htlc_sweep`          (vls-core/src/policy/simple_validator.rs → `Gen/FnSweep.lean`)
  `ChannelSetup::is_anchors`, `is_zero_fee_htlc`  (vls-core/src/channel.rs → `Gen/FnChannel.lean`)

that `translate/rs2lean.py` regenerates from the source on every run.  The generated definitions take the library
functions they call as explicit parameters (externals); this file *states* how they are instantiated, i.e. what
is assumed about rust-bitcoin and about the `Wallet` implementation:

  `Wallet::can_spend` / `allowlist_contains`  per output: the facts `SweepOut.canSpend` / `SweepOut.allow` of the model
                                             (`Err` ↦ `none`, the `derive_pub(..).unwrap()` panic ↦ `.panic`)
  `Height::from_consensus(n)`                `some n` iff `n < 500_000_000` (`LOCK_TIME_THRESHOLD`), else `Err`
  `lock_time.is_satisfied_by(h, Time::MIN)`  `Sweep.locktimeSatisfied`
  `lock_time.to_consensus_u32()`             the locktime itself
  `parse_received_htlc_script(..)` / `parse_offered_htlc_script(..)`   the model's `HtlcScript` (input of the model)

Every external is passed **by name** (`(ext_is_zero_fee_htlc := …)`): calling another library function in the same
place (e.g. `is_anchors()` for `is_zero_fee_htlc()`) renames the parameter and the statement no longer elaborates.

Everything else — the order of the checks, which check is filtered by the policy filter and which is a
`transaction_format` error, `current_height + MAX_CHAIN_LAG` in `u32` (overflow!), the `expect`, `tx.input[0]`,
the compared delay field (`counterparty_selected_contest_delay`), the sequence tables, the i64 range check of
`cltv_expiry` and its `as u32` truncation — is the generated text, and the theorems below are re-checked by the kernel
against it on every run.
-/
namespace VlsModel.Props.C09Fn
open VlsModel VlsModel.Sweep
open VlsModel.Gen.FnSweep (SimpleValidator Transaction ChainState ChannelSetup)

abbrev GTxIn := Gen.FnSweep.TxIn
abbrev GTxOut := Gen.FnSweep.TxOut

/-! ### instantiation of the externals -/

def canSpendE : Unit → Unit → SweepOut → Option Bool := fun _ _ o => o.canSpend

def allowE : Unit → SweepOut → Unit → Rs.M Bool := fun _ o _ =>
  match o.allow with
  | .yes => pure true
  | .no => pure false
  | .panic => Rs.panic

/-- the external of `policy_err!`: only `policy-sweep-destination-allowlisted` is raised through it here -/
def filt (destFilter : Bool) : String → Bool :=
  fun tag => if tag = "policy-sweep-destination-allowlisted" then destFilter else true

/-- rust-bitcoin `Height::from_consensus` -/
def heightE : Nat → Option Nat := fun n => if n < lockTimeThreshold then some n else none

/-- rust-bitcoin `LockTime::is_satisfied_by(height, Time::MIN)` -/
def satisfiedE : Nat → Nat → Bool := locktimeSatisfied

def received? : HtlcScript → Bool → Option Int
  | .received cltv, _ => some cltv
  | _, _ => none
def offered? : HtlcScript → Bool → Bool
  | .offered, _ => true
  | _, _ => false

/-- the generated transaction view of a model transaction; `ins` are its inputs -/
def toTx (tx : SweepTx) (ins : List GTxIn) : Transaction SweepOut Nat :=
  { version := (tx.version : Int), lock_time := tx.locktime, input := ins,
    output := tx.outs.map (fun o => { script_pubkey := o }) }

/-- `ins` is a list of `tx.nInputs` inputs whose first sequence is `tx.seq0` -/
def InsOf (tx : SweepTx) (ins : List GTxIn) : Prop :=
  ins.length = tx.nInputs ∧ ∀ x, ins.head? = some x → x.sequence = tx.seq0

/-- outcome of a validator as the model's result class (an arithmetic overflow is a panic in the overflow-checked
    build the harness runs; `transaction_format_error` vs. policy error by the error value) -/
def rel : Rs.M Unit → Res
  | .ok _ => .ok
  | .error (.err s) => if s = "transaction-format" then .errFormat else .errPolicy
  | .error _ => .panic

theorem rel_bind_unit (m : Rs.M Unit) : rel (m >>= fun _ => (Except.ok () : Rs.M Unit)) = rel m := by
  cases m <;> rfl

/-! ### `validate_sweep` -/

/-- one iteration of the output loop, written out -/
def stepOut (d : Bool) (o : SweepOut) : Rs.M Unit :=
  match o.canSpend with
  | none => Rs.fail "policy-onchain-output-scriptpubkey"
  | some true => pure ()
  | some false =>
    match o.allow with
    | .panic => Rs.panic
    | .yes => pure ()
    | .no => if d then Rs.fail "policy-sweep-destination-allowlisted" else pure ()

theorem foldl_step (d : Bool) (f : Unit → GTxOut SweepOut → Rs.M Unit)
    (hf : ∀ o, f () { script_pubkey := o } = stepOut d o) (outs : List SweepOut) :
    rel (List.foldlM f () (outs.map (fun o => ({ script_pubkey := o } : GTxOut SweepOut)))) = sweepOutsF d outs := by
  induction outs with
  | nil => simp [sweepOutsF, rel, pure, Except.pure]
  | cons o rest ih =>
    simp only [List.map_cons, List.foldlM_cons, hf]
    unfold sweepOutsF stepOut
    cases hc : o.canSpend with
    | none => simp [Rs.fail, rel, bind, Except.bind]
    | some b =>
      cases b with
      | true => simpa using ih
      | false =>
        cases ha : o.allow with
        | yes => simpa using ih
        | no =>
          cases d with
          | true => simp [Rs.fail, rel, bind, Except.bind]
          | false => simpa using ih
        | panic => simp [Rs.panic, rel, bind, Except.bind]

/-- **`validate_sweep` = `Sweep.validateSweep`**, for every transaction, output facts and filter -/
theorem C09_fn_validate_sweep (v : SimpleValidator) (d : Bool) (tx : SweepTx) (ins : List GTxIn) (i a : Nat) :
    rel (SimpleValidator.validate_sweep (ext_can_spend := canSpendE) (ext_allowlist_contains := allowE) (policy_filter_err := filt d) v () (toTx tx ins) i a ()) = validateSweep d tx := by
  unfold SimpleValidator.validate_sweep validateSweep
  by_cases hv : tx.version = 2
  · have hv' : ((toTx tx ins).version != (2 : Int)) = false := by simp [toTx, hv]
    simp only [hv', Bool.false_eq_true, if_false]
    simp only [toTx, Rs.pure_eq, Rs.bind_ok, hv, ne_eq, not_true_eq_false, if_false]
    rw [rel_bind_unit]
    apply foldl_step
    intro o
    unfold stepOut
    cases hc : o.canSpend with
    | none => simp [canSpendE, hc, Rs.okOr, Rs.fail, bind, Except.bind]
    | some b =>
      cases b with
      | true => simp [canSpendE, hc, Rs.okOr]
      | false =>
        cases ha : o.allow with
        | yes => simp [canSpendE, allowE, hc, ha, Rs.okOr]
        | no => cases d <;> simp [canSpendE, allowE, hc, ha, Rs.okOr, Rs.policyErr, filt, Rs.fail, bind, Except.bind]
        | panic => simp [canSpendE, allowE, hc, ha, Rs.okOr, Rs.panic, bind, Except.bind]
  · have hv' : ((tx.version : Int) != (2 : Int)) = true := by
      simp only [bne_iff_ne, ne_eq]; intro h; exact hv (by exact_mod_cast h)
    simp [toTx, hv', hv, Rs.fail, rel, bind, Except.bind]

/-- `validate_sweep` either fails with the error the model's class stands for, or returns `Ok(())` -/
theorem validate_sweep_cases (v : SimpleValidator) (d : Bool) (tx : SweepTx) (ins : List GTxIn) (i a : Nat) :
    (∃ e, SimpleValidator.validate_sweep (ext_can_spend := canSpendE) (ext_allowlist_contains := allowE) (policy_filter_err := filt d) v () (toTx tx ins) i a () = .error e ∧
          validateSweep d tx = rel (.error e)) ∨
    (SimpleValidator.validate_sweep (ext_can_spend := canSpendE) (ext_allowlist_contains := allowE) (policy_filter_err := filt d) v () (toTx tx ins) i a () = .ok () ∧
          validateSweep d tx = .ok) := by
  have h := C09_fn_validate_sweep v d tx ins i a
  cases hr : SimpleValidator.validate_sweep (ext_can_spend := canSpendE) (ext_allowlist_contains := allowE) (policy_filter_err := filt d) v () (toTx tx ins) i a () with
  | error e => left; exact ⟨e, rfl, by rw [← h, hr]⟩
  | ok u => right; cases u; exact ⟨rfl, by rw [← h, hr]; rfl⟩

/-- an error of `validate_sweep` is the result of every validator that starts with it -/
theorem rel_error_bind (e : Rs.Fail) (f : Unit → Rs.M Unit) :
    rel ((Except.error e : Rs.M Unit) >>= f) = rel (.error e) := rfl

theorem rel_error_ne_ok (e : Rs.Fail) : rel (.error e) ≠ .ok := by
  cases e <;> simp [rel]
  split <;> simp


/-! ### composition with the generated wallet code of node.rs

The theorems above instantiate `can_spend` / `allowlist_contains` with the model's per-output facts.  Here the same
externals are instantiated with the **generated** `Node::can_spend` / `Node::allowlist_contains`
(`Gen/FnNodeWallet.lean`), outputs are scripts, and the model side computes the facts with `Sweep.outOfScript`: the
generated validators running on the generated wallet equal the model, end to end.  `*_natural`: the generated
validators do not look at scripts except through the two wallet externals. -/
section Composed
open VlsModel.Wallet VlsModel.Wallet.Fn
open VlsModel.Gen.FnNodeWallet (Node)

abbrev WScript := Wallet.Script

def allowM (o : SweepOut) : Rs.M Bool := allowE () o ()

def mkTx {σ : Type} (ver lt : Nat) (ins : List GTxIn) (scripts : List σ) : Transaction σ Nat :=
  { version := (ver : Int), lock_time := lt, input := ins, output := scripts.map (fun s => { script_pubkey := s }) }

theorem mkTx_toTx (tx : SweepTx) (ins : List GTxIn) : mkTx tx.version tx.locktime ins tx.outs = toTx tx ins := rfl

/-- one iteration of the output loop of `validate_sweep`, exactly (with the tag of every error) -/
def stepOutM (flt : String → Bool) (o : SweepOut) : Rs.M Unit :=
  match o.canSpend with
  | none => Rs.fail "policy-onchain-output-scriptpubkey"
  | some true => pure ()
  | some false =>
    match o.allow with
    | .panic => Rs.panic
    | .yes => pure ()
    | .no => Rs.policyErr flt "policy-sweep-destination-allowlisted"

/-- `validate_sweep`, exactly -/
def sweepM (flt : String → Bool) (ver : Nat) (outs : List SweepOut) : Rs.M Unit :=
  if ((ver : Int) != 2) = true then Rs.fail "transaction-format"
  else List.foldlM (fun _ o => stepOutM flt o) () outs >>= fun _ => pure ()

theorem foldlM_gen {σ : Type} (flt : String → Bool) (g : σ → SweepOut) (f : Unit → GTxOut σ → Rs.M Unit)
    (hf : ∀ s, f () { script_pubkey := s } = stepOutM flt (g s)) (scripts : List σ) :
    List.foldlM f () (scripts.map (fun s => ({ script_pubkey := s } : GTxOut σ)))
      = List.foldlM (fun _ o => stepOutM flt o) () (scripts.map g) := by
  induction scripts with
  | nil => rfl
  | cons x rest ih =>
    simp only [List.map_cons, List.foldlM_cons, hf]
    congr 1
    funext u; cases u; exact ih

/-- `validate_sweep` sees the scripts only through `can_spend` / `allowlist_contains`: for wallet externals that answer as
    the facts `g s` say, it is `sweepM` on those facts -/
theorem validate_sweep_spec {W P σ : Type} (cs : W → P → σ → Option Bool) (al : W → σ → P → Rs.M Bool)
    (g : σ → SweepOut) (w : W) (path : P) (hcs : ∀ s, cs w path s = (g s).canSpend) (hal : ∀ s, al w s path = allowM (g s))
    (flt : String → Bool) (v : SimpleValidator) (ver lt : Nat) (ins : List GTxIn) (scripts : List σ) (i a : Nat) :
    SimpleValidator.validate_sweep (ext_can_spend := cs) (ext_allowlist_contains := al) (policy_filter_err := flt) v w
        (mkTx ver lt ins scripts) i a path
      = sweepM flt ver (scripts.map g) := by
  unfold SimpleValidator.validate_sweep sweepM
  by_cases hv : ((ver : Int) != 2) = true
  · simp [mkTx, hv, Rs.fail, bind, Except.bind]
  · have hv' : ((ver : Int) != 2) = false := by simpa using hv
    simp only [mkTx, hv', Bool.false_eq_true, if_false, Rs.pure_eq, Rs.bind_ok]
    congr 1
    apply foldlM_gen flt g
    intro s
    unfold stepOutM
    rw [hcs, hal]
    cases hc : (g s).canSpend with
    | none => simp [Rs.okOr, Rs.fail, bind, Except.bind]
    | some b =>
      cases b with
      | true => simp [Rs.okOr]
      | false =>
        cases ha : (g s).allow with
        | yes => simp [allowM, allowE, ha, Rs.okOr]
        | no =>
          cases hfl : flt "policy-sweep-destination-allowlisted" <;>
            simp [allowM, allowE, ha, Rs.okOr, Rs.policyErr, hfl, Rs.fail, bind, Except.bind]
        | panic => simp [allowM, allowE, ha, Rs.okOr, Rs.panic, bind, Except.bind]

theorem validate_sweep_natural {W P σ : Type} (cs : W → P → σ → Option Bool) (al : W → σ → P → Rs.M Bool)
    (g : σ → SweepOut) (w : W) (path : P) (hcs : ∀ s, cs w path s = (g s).canSpend) (hal : ∀ s, al w s path = allowM (g s))
    (flt : String → Bool) (v : SimpleValidator) (ver lt : Nat) (ins : List GTxIn) (scripts : List σ) (i a : Nat) :
    SimpleValidator.validate_sweep (ext_can_spend := cs) (ext_allowlist_contains := al) (policy_filter_err := flt) v w
        (mkTx ver lt ins scripts) i a path
      = SimpleValidator.validate_sweep (ext_can_spend := canSpendE) (ext_allowlist_contains := allowE)
          (policy_filter_err := flt) v () (mkTx ver lt ins (scripts.map g)) i a () := by
  rw [validate_sweep_spec cs al g w path hcs hal,
    validate_sweep_spec canSpendE allowE (fun o => o) () () (fun _ => rfl) (fun _ => rfl), List.map_id']

/-- the facts of the generated wallet code are the facts of the wallet model -/
def csNode (style : Style) (allow : List Wallet.Allowable) : Node Style WScript Nat Nat → List Nat → WScript → Option Bool :=
  fun n p s =>
    match Node.can_spend (ext_len := List.length) (ext_get_key_path_len := Style.keyPathLen)
        (ext_account_privkey_at := fun p => Key.account p) (ext_pubkey_of := fun k => k)
        (ext_addr_p2wpkh := fun k => Wallet.Script.addr .p2wpkh k) (ext_addr_p2shwpkh := fun k => Wallet.Script.addr .p2shwpkh k)
        (ext_addr_p2tr := fun k => Wallet.Script.addr .p2tr k) (ext_script_pubkey := fun a => a) n p s with
    | .ok b => some b
    | .error _ => none

def alNode : Node Style WScript Nat Nat → WScript → List Nat → Rs.M Bool :=
  fun n s p =>
    Node.allowlist_contains (ext_is_empty := List.isEmpty) (ext_xpub_child := xpubChildE)
        (ext_addr_p2wpkh := fun k => Wallet.Script.addr .p2wpkh k) (ext_script_pubkey := fun a => a)
        (ext_addr_p2pkh := fun k => Wallet.Script.addr .p2pkh k) (ext_addr_p2tr := fun k => Wallet.Script.addr .p2tr k) n s p

theorem csNode_eq (style : Style) (allow : List Wallet.Allowable) (path : List Nat) (s : WScript) :
    csNode style allow (toNode style allow) path s = (outOfScript style allow path s).canSpend := by
  unfold csNode
  rw [can_spend_eq]
  cases h : canSpend style path s <;> simp [outOfScript, h]

theorem alNode_eq (style : Style) (allow : List Wallet.Allowable) (path : List Nat) (s : WScript) :
    alNode (toNode style allow) s path = allowM (outOfScript style allow path s) := by
  unfold alNode
  rw [allowlist_contains_eq]
  cases h : allowlistContains allow s path <;> simp [outOfScript, allowM, allowE, h, Rs.panic, pure, Except.pure]

/-- **generated `validate_sweep` on the generated `Node::can_spend` / `allowlist_contains` = the model on scripts** -/
theorem C09_fn_validate_sweep_node (v : SimpleValidator) (d : Bool) (style : Style) (allow : List Wallet.Allowable)
    (path : List Nat) (ver lt : Nat) (ins : List GTxIn) (scripts : List WScript) (i a : Nat) :
    rel (SimpleValidator.validate_sweep (ext_can_spend := csNode style allow) (ext_allowlist_contains := alNode)
          (policy_filter_err := filt d) v (toNode style allow) (mkTx ver lt ins scripts) i a path)
      = validateSweep d ⟨ver, lt, ins.length, 0, scripts.map (outOfScript style allow path)⟩ := by
  rw [validate_sweep_natural (csNode style allow) alNode (outOfScript style allow path) (toNode style allow) path
        (csNode_eq style allow path) (alNode_eq style allow path)]
  exact C09_fn_validate_sweep v d ⟨ver, lt, ins.length, 0, scripts.map (outOfScript style allow path)⟩ ins i a

end Composed

/-! ### the lock-time guard shared by the three validators -/

theorem maxChainLag_gen : Gen.Onchain.maxChainLag = 2 := by decide
theorem u32max_eq : U32.MAX = Rs.U32_MAX := by decide
theorem nonAnchorSeqs_gen : ([0, 4294967293, 4294967295] : List Nat) = Gen.Onchain.nonAnchorSeqs := by decide
theorem anchorSeqs_gen : ([1] : List Nat) = Gen.Onchain.anchorSeqs := by decide

/-- the three ways `current_height + MAX_CHAIN_LAG` / `Height::from_consensus(..).expect(..)` can go -/
theorem lag_cases (h : Nat) :
    (h + 2 ≤ Rs.U32_MAX ∧ h + 2 < lockTimeThreshold ∧ lagHeight h = some (h + 2)) ∨
    (h + 2 ≤ Rs.U32_MAX ∧ ¬ h + 2 < lockTimeThreshold ∧ lagHeight h = none) ∨
    (¬ h + 2 ≤ Rs.U32_MAX ∧ lagHeight h = none) := by
  unfold lagHeight
  simp only [maxChainLag_gen, u32max_eq]
  by_cases h1 : h + 2 ≤ Rs.U32_MAX
  · by_cases h2 : h + 2 < lockTimeThreshold
    · left; refine ⟨h1, h2, ?_⟩
      have : ¬ (h + 2 > Rs.U32_MAX ∨ h + 2 ≥ lockTimeThreshold) := by omega
      simp [this]
    · right; left; refine ⟨h1, h2, ?_⟩
      have : (h + 2 > Rs.U32_MAX ∨ h + 2 ≥ lockTimeThreshold) := by omega
      simp [this]
  · right; right; refine ⟨h1, ?_⟩
    have : (h + 2 > Rs.U32_MAX ∨ h + 2 ≥ lockTimeThreshold) := by omega
    simp [this]

/-! ### `validate_delayed_sweep` -/

/-- **`validate_delayed_sweep` = the part of `Sweep.signDelayedSweep` behind its two front checks** (input index in
    range — so `tx.input[0]` exists — and the per-commitment point available) -/
theorem C09_fn_validate_delayed_sweep (v : SimpleValidator) (d : Bool) (tx : SweepTx) (ins : List GTxIn) (hins : InsOf tx ins)
    (input amount h delay : Nat) (hi : input < tx.nInputs) :
    rel (SimpleValidator.validate_delayed_sweep (ext_can_spend := canSpendE) (ext_allowlist_contains := allowE) (policy_filter_err := filt d) (ext_height_from_consensus := heightE) (ext_is_satisfied_by_height := satisfiedE) v ()
          { counterparty_selected_contest_delay := delay } { current_height := h } (toTx tx ins) input amount ())
      = signDelayedSweep d tx input true h delay := by
  obtain ⟨hl, hs⟩ := hins
  obtain ⟨x, rest, rfl⟩ : ∃ x rest, ins = x :: rest := by
    cases ins with
    | nil => simp at hl; omega
    | cons x rest => exact ⟨x, rest, rfl⟩
  have hx : x.sequence = tx.seq0 := hs x rfl
  unfold SimpleValidator.validate_delayed_sweep signDelayedSweep
  have hni : ¬ tx.nInputs ≤ input := by omega
  rcases validate_sweep_cases v d tx (x :: rest) input amount with ⟨e, he, hm⟩ | ⟨hok, hm⟩
  · rw [he, hm, rel_error_bind]
    have := rel_error_ne_ok e
    cases hr : rel (Except.error e) <;> simp_all
  · rw [hok, hm]
    rcases lag_cases h with ⟨h1, h2, hlag⟩ | ⟨h1, h2, hlag⟩ | ⟨h1, hlag⟩
    · cases hsat : locktimeSatisfied tx.locktime (h + 2) with
      | false =>
        simp [hni, toTx, hlag, Rs.uadd, h1, heightE, h2, Rs.unwrap, satisfiedE, hsat, Rs.fail, rel, bind, Except.bind]
      | true =>
        by_cases hd : tx.seq0 = delay
        · simp [hni, toTx, hlag, Rs.uadd, h1, heightE, h2, Rs.unwrap, satisfiedE, hsat, Rs.index, hx, hd, rel,
            bind, Except.bind]
        · simp [hni, toTx, hlag, Rs.uadd, h1, heightE, h2, Rs.unwrap, satisfiedE, hsat, Rs.index, hx, hd, Rs.fail, rel,
            bind, Except.bind]
    · simp [hni, hlag, Rs.uadd, h1, heightE, h2, Rs.unwrap, Rs.panic, rel, bind, Except.bind]
    · simp [hni, hlag, Rs.uadd, h1, Rs.overflow, rel, bind, Except.bind]

/-- outside the caller's guarantee: a transaction without inputs that passes the earlier checks panics at `tx.input[0]` -/
theorem C09_fn_validate_delayed_sweep_no_input (v : SimpleValidator) (d : Bool) (tx : SweepTx) (input amount h delay hh : Nat)
    (hv : validateSweep d tx = .ok) (hlag : lagHeight h = some hh) (hsat : locktimeSatisfied tx.locktime hh = true) :
    SimpleValidator.validate_delayed_sweep (ext_can_spend := canSpendE) (ext_allowlist_contains := allowE) (policy_filter_err := filt d) (ext_height_from_consensus := heightE) (ext_is_satisfied_by_height := satisfiedE) v ()
          { counterparty_selected_contest_delay := delay } { current_height := h } (toTx tx []) input amount ()
      = .error .panic := by
  unfold SimpleValidator.validate_delayed_sweep
  rcases validate_sweep_cases v d tx [] input amount with ⟨e, _, hm⟩ | ⟨hok, _⟩
  · rw [hv] at hm; exact absurd hm.symm (rel_error_ne_ok e)
  · rw [hok]
    rcases lag_cases h with ⟨h1, h2, hlag'⟩ | ⟨_, _, hlag'⟩ | ⟨_, hlag'⟩
    · rw [hlag'] at hlag; cases hlag
      simp [toTx, Rs.uadd, h1, heightE, h2, Rs.unwrap, satisfiedE, hsat, Rs.index, Rs.panic, bind, Except.bind]
    · rw [hlag'] at hlag; cases hlag
    · rw [hlag'] at hlag; cases hlag

/-! ### `validate_justice_sweep` -/

/-- **`validate_justice_sweep` = `Sweep.signJusticeSweep` behind its front check** -/
theorem C09_fn_validate_justice_sweep (v : SimpleValidator) (d : Bool) (tx : SweepTx) (ins : List GTxIn) (hins : InsOf tx ins)
    (input amount h delay : Nat) (hi : input < tx.nInputs) :
    rel (SimpleValidator.validate_justice_sweep (ext_can_spend := canSpendE) (ext_allowlist_contains := allowE) (policy_filter_err := filt d) (ext_height_from_consensus := heightE) (ext_is_satisfied_by_height := satisfiedE) v ()
          { counterparty_selected_contest_delay := delay } { current_height := h } (toTx tx ins) input amount ())
      = signJusticeSweep d tx input h := by
  obtain ⟨hl, hs⟩ := hins
  obtain ⟨x, rest, rfl⟩ : ∃ x rest, ins = x :: rest := by
    cases ins with
    | nil => simp at hl; omega
    | cons x rest => exact ⟨x, rest, rfl⟩
  have hx : x.sequence = tx.seq0 := hs x rfl
  unfold SimpleValidator.validate_justice_sweep signJusticeSweep
  have hni : ¬ tx.nInputs ≤ input := by omega
  rcases validate_sweep_cases v d tx (x :: rest) input amount with ⟨e, he, hm⟩ | ⟨hok, hm⟩
  · rw [he, hm, rel_error_bind]
    have := rel_error_ne_ok e
    cases hr : rel (Except.error e) <;> simp_all
  · rw [hok, hm]
    rcases lag_cases h with ⟨h1, h2, hlag⟩ | ⟨h1, h2, hlag⟩ | ⟨h1, hlag⟩
    · cases hsat : locktimeSatisfied tx.locktime (h + 2) with
      | false =>
        simp [hni, toTx, hlag, Rs.uadd, h1, heightE, h2, Rs.unwrap, satisfiedE, hsat, Rs.fail, rel, bind, Except.bind]
      | true =>
        by_cases hc : tx.seq0 ∈ Gen.Onchain.nonAnchorSeqs <;>
          simp [hni, toTx, hlag, Rs.uadd, h1, heightE, h2, Rs.unwrap, satisfiedE, hsat, Rs.index, hx, nonAnchorSeqs_gen, hc,
            Rs.fail, rel, bind, Except.bind]
    · simp [hni, hlag, Rs.uadd, h1, heightE, h2, Rs.unwrap, Rs.panic, rel, bind, Except.bind]
    · simp [hni, hlag, Rs.uadd, h1, Rs.overflow, rel, bind, Except.bind]

/-! ### `validate_counterparty_htlc_sweep` -/

theorem utruncI_u32 (c : Int) (h0 : 0 ≤ c) (h1 : c ≤ (Rs.U32_MAX : Int)) : Rs.utruncI Rs.U32_MAX c = c.toNat := by
  unfold Rs.utruncI
  have : c % ((Rs.U32_MAX : Int) + 1) = c := Int.emod_eq_of_lt h0 (by omega)
  rw [this]

/-- **`validate_counterparty_htlc_sweep` = `Sweep.signCounterpartyHtlcSweep` behind its front check**; `script` is
    how the redeemscript parses for the channel's `is_anchors()` form, `anchors` = `setup.is_anchors()` -/
theorem C09_fn_validate_counterparty_htlc_sweep (v : SimpleValidator) (d : Bool) (tx : SweepTx) (ins : List GTxIn) (hins : InsOf tx ins)
    (input amount h delay : Nat) (script : HtlcScript) (anchors : Bool) (rs : SweepOut) (hi : input < tx.nInputs) :
    rel (SimpleValidator.validate_counterparty_htlc_sweep (ext_can_spend := canSpendE) (ext_allowlist_contains := allowE) (policy_filter_err := filt d) (ext_is_anchors := fun _ => anchors)
          (ext_received_htlc_cltv := fun (_ : SweepOut) a => received? script a) (ext_to_consensus_u32 := fun (lt : Nat) => lt)
          (ext_is_offered_htlc_script := fun (_ : SweepOut) a => offered? script a)
          (ext_height_from_consensus := heightE) (ext_is_satisfied_by_height := satisfiedE) v ()
          { counterparty_selected_contest_delay := delay } { current_height := h } (toTx tx ins) rs input amount ())
      = signCounterpartyHtlcSweep d tx input script anchors h := by
  obtain ⟨hl, hs⟩ := hins
  obtain ⟨x, rest, rfl⟩ : ∃ x rest, ins = x :: rest := by
    cases ins with
    | nil => simp at hl; omega
    | cons x rest => exact ⟨x, rest, rfl⟩
  have hx : x.sequence = tx.seq0 := hs x rfl
  unfold SimpleValidator.validate_counterparty_htlc_sweep signCounterpartyHtlcSweep
  have hni : ¬ tx.nInputs ≤ input := by omega
  rcases validate_sweep_cases v d tx (x :: rest) input amount with ⟨e, he, hm⟩ | ⟨hok, hm⟩
  · rw [he, hm, rel_error_bind]
    have := rel_error_ne_ok e
    cases hr : rel (Except.error e) <;> simp_all
  · rw [hok, hm]
    cases script with
    | received cltv =>
      have hu : (U32.MAX : Int) = (Rs.U32_MAX : Int) := by decide
      by_cases h0 : cltv < 0
      · simp [hni, received?, h0, Rs.fail, rel, bind, Except.bind]
      · by_cases h1 : cltv > (Rs.U32_MAX : Int)
        · simp [hni, received?, h0, h1, hu, Rs.fail, rel, bind, Except.bind]
        · have htr := utruncI_u32 cltv (by omega) (by omega)
          by_cases hlock : (tx.locktime : Int) > cltv
          · have hg : tx.locktime > cltv.toNat := by omega
            simp [hni, received?, h0, h1, hu, toTx, htr, hlock, hg, Rs.fail, rel, bind, Except.bind]
          · have hg : ¬ tx.locktime > cltv.toNat := by omega
            cases anchors <;>
              by_cases hc1 : tx.seq0 ∈ Gen.Onchain.anchorSeqs <;>
              by_cases hc2 : tx.seq0 ∈ Gen.Onchain.nonAnchorSeqs <;>
              simp [hni, received?, h0, h1, hu, toTx, htr, hlock, hg, Rs.index, hx, nonAnchorSeqs_gen, anchorSeqs_gen,
                hc1, hc2, Rs.fail, rel, bind, Except.bind]
    | offered =>
      rcases lag_cases h with ⟨h1, h2, hlag⟩ | ⟨h1, h2, hlag⟩ | ⟨h1, hlag⟩
      · cases hsat : locktimeSatisfied tx.locktime (h + 2) with
        | false =>
          simp [hni, received?, offered?, toTx, hlag, Rs.uadd, h1, heightE, h2, Rs.unwrap, satisfiedE, hsat, Rs.fail,
            rel, bind, Except.bind]
        | true =>
          cases anchors <;>
            by_cases hc1 : tx.seq0 ∈ Gen.Onchain.anchorSeqs <;>
            by_cases hc2 : tx.seq0 ∈ Gen.Onchain.nonAnchorSeqs <;>
            simp [hni, received?, offered?, toTx, hlag, Rs.uadd, h1, heightE, h2, Rs.unwrap, satisfiedE, hsat, Rs.index,
              hx, nonAnchorSeqs_gen, anchorSeqs_gen, hc1, hc2, Rs.fail, rel, bind, Except.bind]
      · simp [hni, received?, offered?, hlag, Rs.uadd, h1, heightE, h2, Rs.unwrap, Rs.panic, rel, bind, Except.bind]
      · simp [hni, received?, offered?, hlag, Rs.uadd, h1, Rs.overflow, rel, bind, Except.bind]
    | invalid =>
      simp [hni, received?, offered?, Rs.fail, rel, bind, Except.bind]

/-! ### the three sweep validators on the generated wallet code -/
section ComposedSweeps
open VlsModel.Wallet VlsModel.Wallet.Fn

/-- the model transaction of a generated one whose outputs are scripts -/
def mtx (style : Style) (allow : List Wallet.Allowable) (path : List Nat) (ver lt : Nat) (ins : List GTxIn)
    (scripts : List WScript) : SweepTx :=
  ⟨ver, lt, ins.length, (ins.head?.map (·.sequence)).getD 0, scripts.map (outOfScript style allow path)⟩

theorem insOf_mtx (style : Style) (allow : List Wallet.Allowable) (path : List Nat) (ver lt : Nat) (ins : List GTxIn)
    (scripts : List WScript) : InsOf (mtx style allow path ver lt ins scripts) ins := by
  refine ⟨rfl, ?_⟩
  intro x hx
  simp [mtx, hx]

theorem delayed_natural {W P σ : Type} (cs : W → P → σ → Option Bool) (al : W → σ → P → Rs.M Bool)
    (g : σ → SweepOut) (w : W) (path : P) (hcs : ∀ s, cs w path s = (g s).canSpend) (hal : ∀ s, al w s path = allowM (g s))
    (flt : String → Bool) (v : SimpleValidator) (setup : ChannelSetup) (cst : ChainState) (ver lt : Nat) (ins : List GTxIn)
    (scripts : List σ) (i a : Nat) :
    SimpleValidator.validate_delayed_sweep (ext_can_spend := cs) (ext_allowlist_contains := al) (policy_filter_err := flt)
        (ext_height_from_consensus := heightE) (ext_is_satisfied_by_height := satisfiedE) v w setup cst
        (mkTx ver lt ins scripts) i a path
      = SimpleValidator.validate_delayed_sweep (ext_can_spend := canSpendE) (ext_allowlist_contains := allowE)
          (policy_filter_err := flt) (ext_height_from_consensus := heightE) (ext_is_satisfied_by_height := satisfiedE) v ()
          setup cst (mkTx ver lt ins (scripts.map g)) i a () := by
  unfold SimpleValidator.validate_delayed_sweep
  rw [validate_sweep_natural cs al g w path hcs hal]
  rfl

theorem justice_natural {W P σ : Type} (cs : W → P → σ → Option Bool) (al : W → σ → P → Rs.M Bool)
    (g : σ → SweepOut) (w : W) (path : P) (hcs : ∀ s, cs w path s = (g s).canSpend) (hal : ∀ s, al w s path = allowM (g s))
    (flt : String → Bool) (v : SimpleValidator) (setup : ChannelSetup) (cst : ChainState) (ver lt : Nat) (ins : List GTxIn)
    (scripts : List σ) (i a : Nat) :
    SimpleValidator.validate_justice_sweep (ext_can_spend := cs) (ext_allowlist_contains := al) (policy_filter_err := flt)
        (ext_height_from_consensus := heightE) (ext_is_satisfied_by_height := satisfiedE) v w setup cst
        (mkTx ver lt ins scripts) i a path
      = SimpleValidator.validate_justice_sweep (ext_can_spend := canSpendE) (ext_allowlist_contains := allowE)
          (policy_filter_err := flt) (ext_height_from_consensus := heightE) (ext_is_satisfied_by_height := satisfiedE) v ()
          setup cst (mkTx ver lt ins (scripts.map g)) i a () := by
  unfold SimpleValidator.validate_justice_sweep
  rw [validate_sweep_natural cs al g w path hcs hal]
  rfl

/-- **generated `validate_delayed_sweep` on the generated `Node::can_spend` / `allowlist_contains` = the model on scripts** -/
theorem C09_fn_validate_delayed_sweep_node (v : SimpleValidator) (d : Bool) (style : Style) (allow : List Wallet.Allowable)
    (path : List Nat) (ver lt : Nat) (ins : List GTxIn) (scripts : List WScript) (input amount h delay : Nat)
    (hi : input < ins.length) :
    rel (SimpleValidator.validate_delayed_sweep (ext_can_spend := csNode style allow) (ext_allowlist_contains := alNode)
          (policy_filter_err := filt d) (ext_height_from_consensus := heightE) (ext_is_satisfied_by_height := satisfiedE) v
          (toNode style allow) { counterparty_selected_contest_delay := delay } { current_height := h }
          (mkTx ver lt ins scripts) input amount path)
      = signDelayedSweep d (mtx style allow path ver lt ins scripts) input true h delay := by
  rw [delayed_natural (csNode style allow) alNode (outOfScript style allow path) (toNode style allow) path
        (csNode_eq style allow path) (alNode_eq style allow path)]
  exact C09_fn_validate_delayed_sweep v d (mtx style allow path ver lt ins scripts) ins
    (insOf_mtx style allow path ver lt ins scripts) input amount h delay hi

/-- **generated `validate_justice_sweep` on the generated wallet code = the model on scripts** -/
theorem C09_fn_validate_justice_sweep_node (v : SimpleValidator) (d : Bool) (style : Style) (allow : List Wallet.Allowable)
    (path : List Nat) (ver lt : Nat) (ins : List GTxIn) (scripts : List WScript) (input amount h delay : Nat)
    (hi : input < ins.length) :
    rel (SimpleValidator.validate_justice_sweep (ext_can_spend := csNode style allow) (ext_allowlist_contains := alNode)
          (policy_filter_err := filt d) (ext_height_from_consensus := heightE) (ext_is_satisfied_by_height := satisfiedE) v
          (toNode style allow) { counterparty_selected_contest_delay := delay } { current_height := h }
          (mkTx ver lt ins scripts) input amount path)
      = signJusticeSweep d (mtx style allow path ver lt ins scripts) input h := by
  rw [justice_natural (csNode style allow) alNode (outOfScript style allow path) (toNode style allow) path
        (csNode_eq style allow path) (alNode_eq style allow path)]
  exact C09_fn_validate_justice_sweep v d (mtx style allow path ver lt ins scripts) ins
    (insOf_mtx style allow path ver lt ins scripts) input amount h delay hi

theorem cphtlc_natural {W P σ : Type} (cs : W → P → σ → Option Bool) (al : W → σ → P → Rs.M Bool)
    (g : σ → SweepOut) (w : W) (path : P) (hcs : ∀ s, cs w path s = (g s).canSpend) (hal : ∀ s, al w s path = allowM (g s))
    (flt : String → Bool) (v : SimpleValidator) (setup : ChannelSetup) (cst : ChainState) (ver lt : Nat) (ins : List GTxIn)
    (scripts : List σ) (r : σ) (i a : Nat) (anchors : Bool) (script : HtlcScript) :
    SimpleValidator.validate_counterparty_htlc_sweep (ext_can_spend := cs) (ext_allowlist_contains := al)
        (policy_filter_err := flt) (ext_is_anchors := fun _ => anchors)
        (ext_received_htlc_cltv := fun (_ : σ) b => received? script b) (ext_to_consensus_u32 := fun (x : Nat) => x)
        (ext_is_offered_htlc_script := fun (_ : σ) b => offered? script b)
        (ext_height_from_consensus := heightE) (ext_is_satisfied_by_height := satisfiedE) v w setup cst
        (mkTx ver lt ins scripts) r i a path
      = SimpleValidator.validate_counterparty_htlc_sweep (ext_can_spend := canSpendE) (ext_allowlist_contains := allowE)
          (policy_filter_err := flt) (ext_is_anchors := fun _ => anchors)
          (ext_received_htlc_cltv := fun (_ : SweepOut) b => received? script b) (ext_to_consensus_u32 := fun (x : Nat) => x)
          (ext_is_offered_htlc_script := fun (_ : SweepOut) b => offered? script b)
          (ext_height_from_consensus := heightE) (ext_is_satisfied_by_height := satisfiedE) v ()
          setup cst (mkTx ver lt ins (scripts.map g)) (g r) i a () := by
  unfold SimpleValidator.validate_counterparty_htlc_sweep
  rw [validate_sweep_natural cs al g w path hcs hal]
  rfl

/-- **generated `validate_counterparty_htlc_sweep` on the generated wallet code = the model on scripts** -/
theorem C09_fn_validate_counterparty_htlc_sweep_node (v : SimpleValidator) (d : Bool) (style : Style)
    (allow : List Wallet.Allowable) (path : List Nat) (ver lt : Nat) (ins : List GTxIn) (scripts : List WScript)
    (r : WScript) (input amount h delay : Nat) (script : HtlcScript) (anchors : Bool) (hi : input < ins.length) :
    rel (SimpleValidator.validate_counterparty_htlc_sweep (ext_can_spend := csNode style allow)
          (ext_allowlist_contains := alNode) (policy_filter_err := filt d) (ext_is_anchors := fun _ => anchors)
          (ext_received_htlc_cltv := fun (_ : WScript) b => received? script b) (ext_to_consensus_u32 := fun (x : Nat) => x)
          (ext_is_offered_htlc_script := fun (_ : WScript) b => offered? script b)
          (ext_height_from_consensus := heightE) (ext_is_satisfied_by_height := satisfiedE) v
          (toNode style allow) { counterparty_selected_contest_delay := delay } { current_height := h }
          (mkTx ver lt ins scripts) r input amount path)
      = signCounterpartyHtlcSweep d (mtx style allow path ver lt ins scripts) input script anchors h := by
  rw [cphtlc_natural (csNode style allow) alNode (outOfScript style allow path) (toNode style allow) path
        (csNode_eq style allow path) (alNode_eq style allow path)]
  exact C09_fn_validate_counterparty_htlc_sweep v d (mtx style allow path ver lt ins scripts) ins
    (insOf_mtx style allow path ver lt ins scripts) input amount h delay script anchors _ hi

end ComposedSweeps

/-! ### `validate_htlc_tx` -/

def toV (pol : HtlcPolicy) : SimpleValidator :=
  { policy := { min_feerate_per_kw := pol.minFeerate, max_feerate_per_kw := pol.maxFeerate } }

/-- the external of `policy_err!` for the two tags `validate_htlc_tx` raises -/
def filtH (pol : HtlcPolicy) : String → Bool := fun tag =>
  if tag = "policy-htlc-locktime" then pol.fltLocktime
  else if tag = "policy-htlc-fee-range" then pol.fltFeeRange else true

/-- **`validate_htlc_tx` = `Sweep.validateHtlcTx`** (`ct.isZeroFee` = `setup.is_zero_fee_htlc()`, see below) -/
theorem C09_fn_validate_htlc_tx (pol : HtlcPolicy) (ct : CommitmentType) (offered : Bool) (cltv feerate : Nat)
    (setup : ChannelSetup) (cs : ChainState) (ic : Bool) :
    rel (SimpleValidator.validate_htlc_tx (policy_filter_err := filtH pol) (ext_is_zero_fee_htlc := fun _ => ct.isZeroFee) (toV pol) setup cs ic
          { offered := offered, cltv_expiry := cltv } feerate)
      = validateHtlcTx pol ct offered cltv feerate := by
  unfold SimpleValidator.validate_htlc_tx validateHtlcTx
  cases offered <;> cases hz : ct.isZeroFee <;> cases hl : pol.fltLocktime <;> cases hf : pol.fltFeeRange <;>
    by_cases h1 : cltv = 0 <;> by_cases h2 : feerate < pol.minFeerate <;> by_cases h3 : pol.maxFeerate < feerate <;>
    simp [toV, filtH, hl, hf, h1, h2, h3, Rs.policyErr, Rs.fail, rel, bind, Except.bind]

/-! ### `estimate_feerate_per_kw` (the feerate `decode_and_validate_htlc_tx` rebuilds the HTLC transaction with) -/

/-- the generated `estimate_feerate_per_kw` (`Gen/FnTxUtil.lean`, translated for C04) is `Sweep.estimateFeerate`;
    the callers pass the constant HTLC weights 663 / 703 / 666 / 706, never 0 -/
theorem C09_fn_estimate_feerate (fee weight : Nat) (hw : weight ≠ 0) :
    Gen.FnTxUtil.estimate_feerate_per_kw fee weight = .ok (Sweep.estimateFeerate fee weight) := by
  unfold Gen.FnTxUtil.estimate_feerate_per_kw Sweep.estimateFeerate U32.clamp U64.satAdd U64.satMul
  simp only [Rs.udiv, hw, if_false, Rs.bind_ok, Rs.pure_eq, Rs.usatAdd, Rs.usatMul, Rs.utryFrom, Rs.U64_MAX, Rs.U32_MAX,
    U64.MAX, U32.MAX]
  have key : ∀ q m : Nat, (if q ≤ m then some q else none).getD m = min q m := by
    intro q m; by_cases h : q ≤ m <;> simp [h, Nat.min_def]
  exact congrArg Except.ok (key _ _)

theorem C09_fn_htlc_feerate (ct : CommitmentType) (offered : Bool) (totalFee : Nat) (hz : ct.isZeroFee = false) :
    Gen.FnTxUtil.estimate_feerate_per_kw totalFee (htlcWeight ct offered) = .ok (htlcFeerate ct offered totalFee) := by
  have hw : htlcWeight ct offered ≠ 0 := by unfold htlcWeight; cases offered <;> simp [hz]
  rw [C09_fn_estimate_feerate _ _ hw]
  simp [htlcFeerate, hz]


/-! ### `decode_and_validate_htlc_tx` (recomposition of the second-level HTLC transaction and sighash comparison)

`Gen/FnHtlcTx.lean` is the regenerated body.  The rust-bitcoin `Transaction` stays an opaque value (= the model's
structured `HtlcTx`), read through three projections; the BIP-143 sighash of input 0 is an external, instantiated with
*what the sighash commits to* (`sighashOf`: the whole transaction for SIGHASH_ALL; version, locktime, input 0 and output 0
for SINGLE|ANYONECANPAY; `None` without inputs) — the one cryptographic assumption of C09 (no collisions);
LDK's `build_htlc_transaction` is `Sweep.recompose`, `estimate_feerate_per_kw` is the *generated* function of
transaction_utils.rs, the HTLC weights are `Sweep.htlcWeight`. -/
section HtlcTx
open VlsModel.Gen.FnHtlcTx (HTLCOutputInCommitment TxCreationKeys OutPoint)

abbrev Commit := Sum (Nat × Nat × Option Sweep.TxIn × Option Sweep.TxOut) HtlcTx

/-- the generated code compares sighashes with the `BEq` of `DecidableEq` -/
instance (priority := high) commitBEq : BEq Commit := instBEqOfDecidableEq

/-- what the BIP-143 sighash of input 0 commits to; `none`: there is no input 0 -/
def sighashOf (tx : HtlcTx) (singleAcp : Bool) : Option Commit :=
  match tx.ins with
  | [] => none
  | _ :: _ => some (if singleAcp then .inl (tx.version, tx.locktime, tx.ins.head?, tx.outs.head?) else .inr tx)

def buildE (txid feerate delay : Nat) (htlc : HTLCOutputInCommitment Unit) (ct : CommitmentType) (dkey rkey : Nat) :
    Rs.M HtlcTx :=
  match recompose ct txid (htlc.transaction_output_index.getD 0) feerate delay htlc.offered htlc.cltv_expiry
      (htlc.amount_msat / 1000) rkey dkey with
  | some t => pure t
  | none => Rs.panic

theorem commit_ne (b : Bool) (tx rtx : HtlcTx) :
    (((if b then Sum.inl (rtx.version, rtx.locktime, rtx.ins.head?, rtx.outs.head?) else Sum.inr rtx) : Commit)
        != (if b then Sum.inl (tx.version, tx.locktime, tx.ins.head?, tx.outs.head?) else Sum.inr tx))
      = !(sighashEq b tx rtx) := by
  cases b with
  | true =>
    simp only [if_true, sighashEq]
    by_cases hP : tx.version = rtx.version ∧ tx.locktime = rtx.locktime ∧ tx.ins.head? = rtx.ins.head? ∧
        tx.outs.head? = rtx.outs.head?
    · obtain ⟨h1, h2, h3, h4⟩ := hP
      simp [h1, h2, h3, h4]
    · have hr : (tx.version == rtx.version && tx.locktime == rtx.locktime && tx.ins.head? == rtx.ins.head? &&
          tx.outs.head? == rtx.outs.head?) = false := by
        rw [Bool.eq_false_iff]
        intro hc
        apply hP
        simpa [Bool.and_eq_true, beq_iff_eq, and_assoc] using hc
      have hl : ((Sum.inl (rtx.version, rtx.locktime, rtx.ins.head?, rtx.outs.head?) : Commit)
          != Sum.inl (tx.version, tx.locktime, tx.ins.head?, tx.outs.head?)) = true := by
        rw [bne_iff_ne]
        intro hc
        apply hP
        have h' := Sum.inl.inj hc
        simp only [Prod.mk.injEq] at h'
        obtain ⟨a, b, c, d⟩ := h'
        exact ⟨a.symm, b.symm, c.symm, d.symm⟩
      rw [hl, hr]; rfl
  | false =>
    simp only [Bool.false_eq_true, if_false, sighashEq]
    by_cases hP : tx = rtx
    · subst hP; simp
    · have hr : (tx == rtx) = false := by
        rw [Bool.eq_false_iff]; intro hc; exact hP (by simpa using hc)
      have hl : ((Sum.inr rtx : Commit) != Sum.inr tx) = true := by
        rw [bne_iff_ne]; intro hc; exact hP (Sum.inr.inj hc).symm
      rw [hl, hr]; rfl

theorem sighashOf_recomposed (ct : CommitmentType) (txid vout feerate delay : Nat) (offered : Bool)
    (cltv amountSat r k : Nat) (rtx : HtlcTx) (b : Bool)
    (h : recompose ct txid vout feerate delay offered cltv amountSat r k = some rtx) :
    sighashOf rtx b = some (if b then .inl (rtx.version, rtx.locktime, rtx.ins.head?, rtx.outs.head?) else .inr rtx) := by
  obtain ⟨_, rfl⟩ := recompose_some ct txid vout feerate delay offered cltv amountSat r k rtx h
  simp [sighashOf]

theorem umul_1000 (a : Nat) :
    Rs.umul Rs.U64_MAX a 1000 = match U64.checkedMul a 1000 with
      | some m => .ok m
      | none => .error .overflow := by
  unfold Rs.umul U64.checkedMul
  have : U64.MAX = Rs.U64_MAX := by decide
  by_cases h : a * 1000 ≤ Rs.U64_MAX <;> simp [h, this, Rs.overflow, pure, Except.pure]

/-- result classes of the errors of the decode step (every `policy_error` is a policy failure) -/
def relE : Rs.Fail → Res
  | .err _ => .errPolicy
  | _ => .panic

/-- **`decode_and_validate_htlc_tx` + `validate_htlc_tx` = `Sweep.signHtlcTx`**: when the generated decode step fails,
    the model's answer is that failure's class; when it returns `(feerate, htlc, ..)`, the model's answer is
    `validateHtlcTx` on exactly these values (which `C09_fn_validate_htlc_tx` ties to the generated `validate_htlc_tx`) -/
theorem C09_fn_decode_and_validate_htlc_tx (pol : HtlcPolicy) (ct : CommitmentType) (isCp : Bool) (hd cd : Nat)
    (tx : HtlcTx) (redeem : RedeemKind) (amountSat : Nat) (v : Gen.FnHtlcTx.SimpleValidator) (rs ws : Unit) :
    match Gen.FnHtlcTx.SimpleValidator.decode_and_validate_htlc_tx
        (ext_is_anchors := fun _ => ct.isAnchors) (ext_sighash_single_acp := true) (ext_sighash_all := false)
        (ext_p2wsh_sighash := fun (t : HtlcTx) (_ : Unit) _ ty => sighashOf t ty)
        (ext_is_offered_htlc_script := fun _ _ => redeem == .offered)
        (ext_is_received_htlc_script := fun _ _ => redeem == .received)
        (ext_tx_locktime := fun (t : HtlcTx) => t.locktime)
        (ext_tx_inputs := fun (t : HtlcTx) => t.ins.map (fun i => { previous_output := { txid := i.txid, vout := i.vout } }))
        (ext_tx_outputs := fun (t : HtlcTx) => t.outs.map (fun o => { value := o.value }))
        (ext_features := fun _ => ct) (ext_is_zero_fee_htlc := fun _ => ct.isZeroFee)
        (ext_htlc_timeout_tx_weight := fun c => htlcWeight c true) (ext_htlc_success_tx_weight := fun c => htlcWeight c false)
        (ext_estimate_feerate_per_kw := Gen.FnTxUtil.estimate_feerate_per_kw) (ext_zero_payment_hash := ())
        (ext_build_htlc_transaction := buildE)
        v isCp { holder_selected_contest_delay := hd, counterparty_selected_contest_delay := cd }
        ({ broadcaster_delayed_payment_key := 0, revocation_key := 0 } : TxCreationKeys Nat Nat) tx rs amountSat ws with
    | .ok (feerate, htlc, _, _) =>
        signHtlcTx pol ct (if isCp then hd else cd) tx redeem amountSat
          = validateHtlcTx pol ct htlc.offered htlc.cltv_expiry feerate
    | .error e => signHtlcTx pol ct (if isCp then hd else cd) tx redeem amountSat = relE e := by
  unfold Gen.FnHtlcTx.SimpleValidator.decode_and_validate_htlc_tx signHtlcTx
  cases hins : tx.ins with
  | nil => simp [sighashOf, hins, Rs.okOr, Rs.fail, relE, bind, Except.bind]
  | cons in0 restIn =>
    have hso : ∀ b, sighashOf tx b = some (if b then .inl (tx.version, tx.locktime, tx.ins.head?, tx.outs.head?) else .inr tx) := by
      intro b; simp [sighashOf, hins]
    cases redeem with
    | invalid => simp [hso, Rs.okOr, Rs.fail, relE, bind, Except.bind]
    | offered =>
      cases houts : tx.outs with
      | nil => simp [hso, hins, houts, Rs.okOr, Rs.index, Rs.panic, relE, bind, Except.bind]
      | cons out0 restOut =>
        cases hsub : U64.checkedSub amountSat out0.value with
        | none =>
          have hs' : Rs.ucheckedSub amountSat out0.value = none := hsub
          simp [hso, hins, houts, Rs.okOr, Rs.index, hs', hsub, Rs.fail, relE, bind, Except.bind]
        | some totalFee =>
          have hs' : Rs.ucheckedSub amountSat out0.value = some totalFee := hsub
          have hw : htlcWeight ct true ≠ 0 := by unfold htlcWeight; cases ct.isZeroFee <;> simp
          have hest := C09_fn_estimate_feerate totalFee (htlcWeight ct true) hw
          have hmul := umul_1000 amountSat
          cases hm : U64.checkedMul amountSat 1000 with
          | none =>
            rw [hm] at hmul
            cases hz : ct.isZeroFee <;>
              simp [hso, hins, houts, Rs.okOr, Rs.index, hs', hsub, hm, hz, hest, hmul, relE, bind, Except.bind, pure, Except.pure]
          | some m =>
            rw [hm] at hmul
            have hmv : m = amountSat * 1000 := by
              unfold U64.checkedMul at hm; split at hm <;> simp_all
            have hdiv : amountSat * 1000 / 1000 = amountSat := Nat.mul_div_cancel _ (by decide)
            have hfr : htlcFeerate ct true totalFee = if ct.isZeroFee then 0 else estimateFeerate totalFee (htlcWeight ct true) := rfl
            cases hrec : recompose ct in0.txid in0.vout (htlcFeerate ct true totalFee) (if isCp then hd else cd) true
                (if true then tx.locktime else 0) amountSat 0 0 with
            | none =>
              cases hz : ct.isZeroFee <;> cases ha : ct.isAnchors <;>
                simp_all [Rs.okOr, Rs.index, buildE, htlcFeerate, Rs.panic, relE, bind, Except.bind, pure, Except.pure]
            | some rtx =>
              have hsr := sighashOf_recomposed ct in0.txid in0.vout (htlcFeerate ct true totalFee) (if isCp then hd else cd) true
                (if true then tx.locktime else 0) amountSat 0 0 rtx ct.isAnchors hrec
              have hne := commit_ne ct.isAnchors tx rtx
              cases hz : ct.isZeroFee <;> cases ha : ct.isAnchors <;> cases heq : sighashEq ct.isAnchors tx rtx <;>
                simp_all [Rs.okOr, Rs.index, buildE, htlcFeerate, Rs.unwrap, Rs.fail, relE, bind, Except.bind, pure, Except.pure]
    | received =>
      have hro : (RedeemKind.received == RedeemKind.offered) = false := by decide
      have hrr : (RedeemKind.received == RedeemKind.received) = true := by decide
      simp only [hro, hrr]
      cases houts : tx.outs with
      | nil => simp [hso, hins, houts, Rs.okOr, Rs.index, Rs.panic, relE, bind, Except.bind]
      | cons out0 restOut =>
        cases hsub : U64.checkedSub amountSat out0.value with
        | none =>
          have hs' : Rs.ucheckedSub amountSat out0.value = none := hsub
          simp [hso, hins, houts, Rs.okOr, Rs.index, hs', hsub, Rs.fail, relE, bind, Except.bind]
        | some totalFee =>
          have hs' : Rs.ucheckedSub amountSat out0.value = some totalFee := hsub
          have hw : htlcWeight ct false ≠ 0 := by unfold htlcWeight; cases ct.isZeroFee <;> simp
          have hest := C09_fn_estimate_feerate totalFee (htlcWeight ct false) hw
          have hmul := umul_1000 amountSat
          cases hm : U64.checkedMul amountSat 1000 with
          | none =>
            rw [hm] at hmul
            cases hz : ct.isZeroFee <;>
              simp [hso, hins, houts, Rs.okOr, Rs.index, hs', hsub, hm, hz, hest, hmul, relE, bind, Except.bind, pure, Except.pure]
          | some m =>
            rw [hm] at hmul
            have hmv : m = amountSat * 1000 := by
              unfold U64.checkedMul at hm; split at hm <;> simp_all
            have hdiv : amountSat * 1000 / 1000 = amountSat := Nat.mul_div_cancel _ (by decide)
            have hfr : htlcFeerate ct false totalFee = if ct.isZeroFee then 0 else estimateFeerate totalFee (htlcWeight ct false) := rfl
            cases hrec : recompose ct in0.txid in0.vout (htlcFeerate ct false totalFee) (if isCp then hd else cd) false
                (if false then tx.locktime else 0) amountSat 0 0 with
            | none =>
              cases hz : ct.isZeroFee <;> cases ha : ct.isAnchors <;>
                simp_all [Rs.okOr, Rs.index, buildE, htlcFeerate, Rs.panic, relE, bind, Except.bind, pure, Except.pure]
            | some rtx =>
              have hsr := sighashOf_recomposed ct in0.txid in0.vout (htlcFeerate ct false totalFee) (if isCp then hd else cd) false
                (if false then tx.locktime else 0) amountSat 0 0 rtx ct.isAnchors hrec
              have hne := commit_ne ct.isAnchors tx rtx
              cases hz : ct.isZeroFee <;> cases ha : ct.isAnchors <;> cases heq : sighashEq ct.isAnchors tx rtx <;>
                simp_all [Rs.okOr, Rs.index, buildE, htlcFeerate, Rs.unwrap, Rs.fail, relE, bind, Except.bind, pure, Except.pure]

end HtlcTx

/-! ### `ChannelSetup::is_anchors` / `is_zero_fee_htlc` -/

def toCt : CommitmentType → Gen.FnChannel.CommitmentType
  | .legacy => .Legacy | .staticRemoteKey => .StaticRemoteKey | .anchors => .Anchors | .anchorsZeroFee => .AnchorsZeroFeeHtlc

theorem C09_fn_is_anchors (ct : CommitmentType) :
    Gen.FnChannel.ChannelSetup.is_anchors { commitment_type := toCt ct } = ct.isAnchors := by
  cases ct <;> rfl

theorem C09_fn_is_zero_fee_htlc (ct : CommitmentType) :
    Gen.FnChannel.ChannelSetup.is_zero_fee_htlc { commitment_type := toCt ct } = ct.isZeroFee := by
  cases ct <;> rfl

/-! ## Round 9: the `OnchainValidator` wrapper (`vls-core/src/policy/onchain_validator.rs`, `Gen/FnOnchainWrap.lean`)

vlsd installs `OnchainValidatorFactory` by default: every sweep / HTLC validation reaches `SimpleValidator` through these
forwarding methods.  Each is proved to be the inner validator's method **of the same name** on the same arguments, for every
inner validator `F`.  The externals are passed by name: a wrapper that forwards to another method with the same signature
(`validate_justice_sweep` → `inner.validate_delayed_sweep`) has another parameter name and the statement no longer
elaborates.  The `_simple` corollaries compose with the ties above: wrapper ∘ regenerated `SimpleValidator` = the model. -/
section OnchainWrap
open VlsModel.Gen.FnOnchainWrap (OnchainValidator)

variable {V W S C T P R H K G E : Type}

theorem C09_fn_onchain_validate_delayed_sweep (F : V → W → S → C → T → Nat → Nat → P → Rs.M Unit)
    (v : V) (w : W) (s : S) (c : C) (tx : T) (i a : Nat) (p : P) :
    OnchainValidator.validate_delayed_sweep (ext_inner_validate_delayed_sweep := F) ⟨v⟩ w s c tx i a p = F v w s c tx i a p := rfl

theorem C09_fn_onchain_validate_justice_sweep (F : V → W → S → C → T → Nat → Nat → P → Rs.M Unit)
    (v : V) (w : W) (s : S) (c : C) (tx : T) (i a : Nat) (p : P) :
    OnchainValidator.validate_justice_sweep (ext_inner_validate_justice_sweep := F) ⟨v⟩ w s c tx i a p = F v w s c tx i a p := rfl

theorem C09_fn_onchain_validate_counterparty_htlc_sweep (F : V → W → S → C → T → R → Nat → Nat → P → Rs.M Unit)
    (v : V) (w : W) (s : S) (c : C) (tx : T) (r : R) (i a : Nat) (p : P) :
    OnchainValidator.validate_counterparty_htlc_sweep (ext_inner_validate_counterparty_htlc_sweep := F) ⟨v⟩ w s c tx r i a p
      = F v w s c tx r i a p := rfl

theorem C09_fn_onchain_validate_htlc_tx (F : V → S → C → Bool → H → Nat → Rs.M Unit)
    (v : V) (s : S) (c : C) (isCp : Bool) (h : H) (feerate : Nat) :
    OnchainValidator.validate_htlc_tx (ext_inner_validate_htlc_tx := F) ⟨v⟩ s c isCp h feerate = F v s c isCp h feerate := rfl

theorem C09_fn_onchain_decode_and_validate_htlc_tx (F : V → Bool → S → K → T → R → Nat → R → Rs.M (Nat × H × G × E))
    (v : V) (isCp : Bool) (s : S) (k : K) (tx : T) (r : R) (amount : Nat) (ws : R) :
    OnchainValidator.decode_and_validate_htlc_tx (ext_inner_decode_and_validate_htlc_tx := F) ⟨v⟩ isCp s k tx r amount ws
      = F v isCp s k tx r amount ws := rfl

/-- wrapper ∘ regenerated `SimpleValidator::validate_justice_sweep` = `signJusticeSweep` -/
theorem C09_fn_onchain_validate_justice_sweep_simple (v : SimpleValidator) (d : Bool) (tx : SweepTx) (ins : List GTxIn) (hins : InsOf tx ins)
    (input amount h delay : Nat) (hi : input < tx.nInputs) :
    rel (OnchainValidator.validate_justice_sweep
          (ext_inner_validate_justice_sweep := SimpleValidator.validate_justice_sweep (ext_can_spend := canSpendE) (ext_allowlist_contains := allowE) (policy_filter_err := filt d) (ext_height_from_consensus := heightE) (ext_is_satisfied_by_height := satisfiedE))
          ⟨v⟩ () { counterparty_selected_contest_delay := delay } { current_height := h } (toTx tx ins) input amount ())
      = signJusticeSweep d tx input h :=
  C09_fn_validate_justice_sweep v d tx ins hins input amount h delay hi

/-- wrapper ∘ regenerated `SimpleValidator::validate_delayed_sweep` = `signDelayedSweep` behind its front checks -/
theorem C09_fn_onchain_validate_delayed_sweep_simple (v : SimpleValidator) (d : Bool) (tx : SweepTx) (ins : List GTxIn) (hins : InsOf tx ins)
    (input amount h delay : Nat) (hi : input < tx.nInputs) :
    rel (OnchainValidator.validate_delayed_sweep
          (ext_inner_validate_delayed_sweep := SimpleValidator.validate_delayed_sweep (ext_can_spend := canSpendE) (ext_allowlist_contains := allowE) (policy_filter_err := filt d) (ext_height_from_consensus := heightE) (ext_is_satisfied_by_height := satisfiedE))
          ⟨v⟩ () { counterparty_selected_contest_delay := delay } { current_height := h } (toTx tx ins) input amount ())
      = signDelayedSweep d tx input true h delay :=
  C09_fn_validate_delayed_sweep v d tx ins hins input amount h delay hi

end OnchainWrap

/-! ## Round 9: the entry points `Channel::sign_delayed_sweep / sign_counterparty_htlc_sweep / sign_justice_sweep`
(`vls-core/src/channel.rs`, `Gen/FnChannelSweep.lean`)

Which check comes first, which validator method is consulted, **which key signs which digest over which amount**.  The
`*_spec` theorems hold for every instantiation of the externals (validator, sighash, key derivation, signing — passed by
name): the signature is `sign(p2wsh_sighash_all(tx, input, redeemscript, amount), derive(point or secret, base key))` with
the delayed-payment / HTLC / revocation base key respectively, and it is produced only after the input-index check,
(`get_per_commitment_point`,) and the validator method of the *same* sweep kind accepted.  The `*_model` theorems compose
with the ties of the regenerated `SimpleValidator` methods above: entry point = `Sweep.sign…Sweep` including the front
checks (formerly "model only").  Normalisation rules `sweep_sighash*`, `sweep_revocation_key`. -/
section ChannelSweep
open VlsModel.Gen.FnChannelSweep (Channel)
abbrev CTx (I : Type) := Gen.FnChannelSweep.Transaction I
abbrev CSetup := Gen.FnChannelSweep.ChannelSetup

variable {Secp SK I Scr DP Sig PK Val Nd CS Msg : Type}

theorem C09_fn_sign_delayed_sweep_spec (pcpE : Nat → Rs.M PK) (val : Val) (node : Nd) (cs : CS)
    (V : Val → Nd → CSetup → CS → CTx I → Nat → Nat → DP → Rs.M Unit) (S : CTx I → Nat → Scr → Nat → Rs.M Msg)
    (D : Secp → PK → SK → SK) (G : Secp → Msg → SK → Sig)
    (ch : Channel Secp SK) (tx : CTx I) (input n : Nat) (script : Scr) (amount : Nat) (path : DP) :
    Channel.sign_delayed_sweep (ext_self_get_per_commitment_point := pcpE) (ext_self_validator := val) (ext_self_get_node := node)
        (ext_self_get_chain_state := cs) (ext_Validator_validate_delayed_sweep := V) (ext_p2wsh_sighash_all := S)
        (ext_derive_private_key := D) (ext_secp_ctx_sign_ecdsa := G) ch tx input n script amount path
      = (if tx.input.length ≤ input then Rs.fail "invalid-argument"
        else do
          let point ← pcpE n
          V val node ch.setup cs tx input amount path
          let digest ← S tx input script amount
          pure (G ch.secp_ctx digest (D ch.secp_ctx point ch.keys.delayed_payment_base_key))) := by
  unfold Channel.sign_delayed_sweep
  by_cases h : tx.input.length ≤ input <;> simp [h, GE.ge]

theorem C09_fn_sign_counterparty_htlc_sweep_spec (val : Val) (node : Nd) (cs : CS)
    (V : Val → Nd → CSetup → CS → CTx I → Scr → Nat → Nat → DP → Rs.M Unit) (S : CTx I → Nat → Scr → Nat → Rs.M Msg)
    (D : Secp → PK → SK → SK) (G : Secp → Msg → SK → Sig)
    (ch : Channel Secp SK) (tx : CTx I) (input : Nat) (point : PK) (script : Scr) (amount : Nat) (path : DP) :
    Channel.sign_counterparty_htlc_sweep (ext_self_validator := val) (ext_self_get_node := node)
        (ext_self_get_chain_state := cs) (ext_Validator_validate_counterparty_htlc_sweep := V) (ext_p2wsh_sighash_all_buf := S)
        (ext_derive_private_key := D) (ext_secp_ctx_sign_ecdsa := G) ch tx input point script amount path
      = (if tx.input.length ≤ input then Rs.fail "invalid-argument"
        else do
          V val node ch.setup cs tx script input amount path
          let digest ← S tx input script amount
          pure (G ch.secp_ctx digest (D ch.secp_ctx point ch.keys.htlc_base_key))) := by
  unfold Channel.sign_counterparty_htlc_sweep
  by_cases h : tx.input.length ≤ input <;> simp [h, GE.ge]

theorem C09_fn_sign_justice_sweep_spec (val : Val) (node : Nd) (cs : CS)
    (V : Val → Nd → CSetup → CS → CTx I → Nat → Nat → DP → Rs.M Unit) (S : CTx I → Nat → Scr → Nat → Rs.M Msg)
    (D : Secp → SK → SK → SK) (G : Secp → Msg → SK → Sig)
    (ch : Channel Secp SK) (tx : CTx I) (input : Nat) (secret : SK) (script : Scr) (amount : Nat) (path : DP) :
    Channel.sign_justice_sweep (ext_self_validator := val) (ext_self_get_node := node)
        (ext_self_get_chain_state := cs) (ext_Validator_validate_justice_sweep := V) (ext_p2wsh_sighash_all := S)
        (ext_derive_private_revocation_key := D) (ext_secp_ctx_sign_ecdsa := G) ch tx input secret script amount path
      = (if tx.input.length ≤ input then Rs.fail "invalid-argument"
        else do
          V val node ch.setup cs tx input amount path
          let digest ← S tx input script amount
          pure (G ch.secp_ctx digest (D ch.secp_ctx secret ch.keys.revocation_base_key))) := by
  unfold Channel.sign_justice_sweep
  by_cases h : tx.input.length ≤ input <;> simp [h, GE.ge]

theorem rel_map_bind {σ : Type} (m : Rs.M Unit) (x : σ) :
    rel ((m >>= fun _ => (Except.ok x : Rs.M σ)).map fun _ => ()) = rel m := by
  cases m <;> rfl

/-- the three entry points with the **regenerated `SimpleValidator` methods** as the validator, a symbolic digest
    `(input, script, amount)`, symbolic key derivation and signing; `get_per_commitment_point` succeeds iff `commitOk` -/
def pcpE (commitOk : Bool) (point : Nat) : Nat → Rs.M Nat := fun _ => if commitOk then .ok point else Rs.fail "policy-error"
def digestE {T : Type} : T → Nat → SweepOut → Nat → Rs.M (Nat × SweepOut × Nat) := fun _ i s a => .ok (i, s, a)

def delayedGen (v : SimpleValidator) (d : Bool) (tx : SweepTx) (h delay : Nat) (commitOk : Bool) (point : Nat)
    (ch : Channel Unit Nat) (ins : List GTxIn) (input n : Nat) (script : SweepOut) (amount : Nat) :=
  Channel.sign_delayed_sweep (ext_self_get_per_commitment_point := pcpE commitOk point) (ext_self_validator := v)
    (ext_self_get_node := ()) (ext_self_get_chain_state := ({ current_height := h } : ChainState))
    (ext_Validator_validate_delayed_sweep := fun v w _ c (t : CTx GTxIn) i a p =>
      SimpleValidator.validate_delayed_sweep (ext_can_spend := canSpendE) (ext_allowlist_contains := allowE) (policy_filter_err := filt d)
        (ext_height_from_consensus := heightE) (ext_is_satisfied_by_height := satisfiedE) v w
        { counterparty_selected_contest_delay := delay } c (toTx tx t.input) i a p)
    (ext_p2wsh_sighash_all := digestE) (ext_derive_private_key := fun _ p k => p + k)
    (ext_secp_ctx_sign_ecdsa := fun _ m k => (m, k)) ch { input := ins } input n script amount ()

/-- **`Channel::sign_delayed_sweep` = `Sweep.signDelayedSweep`** behind a valid input index … -/
theorem C09_fn_sign_delayed_sweep_model (v : SimpleValidator) (d : Bool) (tx : SweepTx) (ins : List GTxIn) (hins : InsOf tx ins)
    (input amount h delay n point : Nat) (commitOk : Bool) (ch : Channel Unit Nat) (script : SweepOut) (hi : input < tx.nInputs) :
    rel ((delayedGen v d tx h delay commitOk point ch ins input n script amount).map fun _ => ())
      = signDelayedSweep d tx input commitOk h delay := by
  unfold delayedGen
  rw [C09_fn_sign_delayed_sweep_spec]
  have hl : ¬ ins.length ≤ input := by rw [hins.1]; omega
  have hm := C09_fn_validate_delayed_sweep v d tx ins hins input amount h delay hi
  cases commitOk with
  | false => simp [hl, pcpE, Rs.fail, rel, signDelayedSweep, Nat.not_le.mpr hi, bind, Except.bind, Except.map]
  | true =>
    simp only [hl, if_false, pcpE, if_true, Rs.bind_ok, digestE, Rs.pure_eq]
    rw [rel_map_bind, hm]

/-- … and the front check: a bad input index is `invalid_argument` in both -/
theorem C09_fn_sign_delayed_sweep_bad_input (v : SimpleValidator) (d : Bool) (tx : SweepTx) (ins : List GTxIn) (hins : InsOf tx ins)
    (input amount h delay n point : Nat) (commitOk : Bool) (ch : Channel Unit Nat) (script : SweepOut) (hi : tx.nInputs ≤ input) :
    delayedGen v d tx h delay commitOk point ch ins input n script amount = Rs.fail "invalid-argument"
      ∧ signDelayedSweep d tx input commitOk h delay = .errInvalid := by
  unfold delayedGen
  rw [C09_fn_sign_delayed_sweep_spec]
  have hl : ins.length ≤ input := by rw [hins.1]; exact hi
  simp [hl, signDelayedSweep, hi]

/-- on success the signature is made with the delayed-payment base key tweaked by the per-commitment point, over the
    digest of exactly (input, redeemscript, amount) -/
theorem C09_fn_sign_delayed_sweep_signs (v : SimpleValidator) (d : Bool) (tx : SweepTx) (ins : List GTxIn)
    (input amount h delay n point : Nat) (commitOk : Bool) (ch : Channel Unit Nat) (script : SweepOut) (sig : (Nat × SweepOut × Nat) × Nat)
    (hs : delayedGen v d tx h delay commitOk point ch ins input n script amount = .ok sig) :
    sig = ((input, script, amount), point + ch.keys.delayed_payment_base_key) ∧ commitOk = true ∧ input < ins.length := by
  unfold delayedGen at hs
  rw [C09_fn_sign_delayed_sweep_spec] at hs
  by_cases hl : ins.length ≤ input
  · simp [hl, Rs.fail] at hs
  · cases commitOk with
    | false => simp [hl, pcpE, Rs.fail, bind, Except.bind] at hs
    | true =>
      simp only [hl, if_false, pcpE, if_true, Rs.bind_ok, digestE, Rs.pure_eq] at hs
      refine ⟨?_, rfl, by omega⟩
      revert hs
      generalize SimpleValidator.validate_delayed_sweep _ _ _ _ _ _ _ _ _ _ _ _ _ = m
      cases m with
      | ok u => intro hs; simp [bind, Except.bind] at hs; exact hs.symm
      | error e => intro hs; simp [bind, Except.bind] at hs

def justiceGen (v : SimpleValidator) (d : Bool) (tx : SweepTx) (h delay : Nat)
    (ch : Channel Unit Nat) (ins : List GTxIn) (input secret : Nat) (script : SweepOut) (amount : Nat) :=
  Channel.sign_justice_sweep (ext_self_validator := v)
    (ext_self_get_node := ()) (ext_self_get_chain_state := ({ current_height := h } : ChainState))
    (ext_Validator_validate_justice_sweep := fun v w _ c (t : CTx GTxIn) i a p =>
      SimpleValidator.validate_justice_sweep (ext_can_spend := canSpendE) (ext_allowlist_contains := allowE) (policy_filter_err := filt d)
        (ext_height_from_consensus := heightE) (ext_is_satisfied_by_height := satisfiedE) v w
        { counterparty_selected_contest_delay := delay } c (toTx tx t.input) i a p)
    (ext_p2wsh_sighash_all := digestE) (ext_derive_private_revocation_key := fun _ s k => s + k)
    (ext_secp_ctx_sign_ecdsa := fun _ m k => (m, k)) ch { input := ins } input secret script amount ()

theorem C09_fn_sign_justice_sweep_model (v : SimpleValidator) (d : Bool) (tx : SweepTx) (ins : List GTxIn) (hins : InsOf tx ins)
    (input amount h delay secret : Nat) (ch : Channel Unit Nat) (script : SweepOut) (hi : input < tx.nInputs) :
    rel ((justiceGen v d tx h delay ch ins input secret script amount).map fun _ => ())
      = signJusticeSweep d tx input h := by
  unfold justiceGen
  rw [C09_fn_sign_justice_sweep_spec]
  have hl : ¬ ins.length ≤ input := by rw [hins.1]; omega
  have hm := C09_fn_validate_justice_sweep v d tx ins hins input amount h delay hi
  simp only [hl, if_false, Rs.bind_ok, digestE, Rs.pure_eq]
  rw [rel_map_bind, hm]

theorem C09_fn_sign_justice_sweep_bad_input (v : SimpleValidator) (d : Bool) (tx : SweepTx) (ins : List GTxIn) (hins : InsOf tx ins)
    (input amount h delay secret : Nat) (ch : Channel Unit Nat) (script : SweepOut) (hi : tx.nInputs ≤ input) :
    justiceGen v d tx h delay ch ins input secret script amount = Rs.fail "invalid-argument"
      ∧ signJusticeSweep d tx input h = .errInvalid := by
  unfold justiceGen
  rw [C09_fn_sign_justice_sweep_spec]
  have hl : ins.length ≤ input := by rw [hins.1]; exact hi
  simp [hl, signJusticeSweep, hi]

def cpHtlcGen (v : SimpleValidator) (d : Bool) (tx : SweepTx) (h delay : Nat) (hscript : HtlcScript) (anchors : Bool)
    (ch : Channel Unit Nat) (ins : List GTxIn) (input point : Nat) (script : SweepOut) (amount : Nat) :=
  Channel.sign_counterparty_htlc_sweep (ext_self_validator := v)
    (ext_self_get_node := ()) (ext_self_get_chain_state := ({ current_height := h } : ChainState))
    (ext_Validator_validate_counterparty_htlc_sweep := fun v w _ c (t : CTx GTxIn) rs i a p =>
      SimpleValidator.validate_counterparty_htlc_sweep (ext_can_spend := canSpendE) (ext_allowlist_contains := allowE) (policy_filter_err := filt d)
        (ext_is_anchors := fun _ => anchors)
        (ext_received_htlc_cltv := fun (_ : SweepOut) a => received? hscript a) (ext_to_consensus_u32 := fun (lt : Nat) => lt)
        (ext_is_offered_htlc_script := fun (_ : SweepOut) a => offered? hscript a)
        (ext_height_from_consensus := heightE) (ext_is_satisfied_by_height := satisfiedE) v w
        { counterparty_selected_contest_delay := delay } c (toTx tx t.input) rs i a p)
    (ext_p2wsh_sighash_all_buf := digestE) (ext_derive_private_key := fun _ p k => p + k)
    (ext_secp_ctx_sign_ecdsa := fun _ m k => (m, k)) ch { input := ins } input point script amount ()

theorem C09_fn_sign_counterparty_htlc_sweep_model (v : SimpleValidator) (d : Bool) (tx : SweepTx) (ins : List GTxIn) (hins : InsOf tx ins)
    (input amount h delay point : Nat) (hscript : HtlcScript) (anchors : Bool) (ch : Channel Unit Nat) (script : SweepOut)
    (hi : input < tx.nInputs) :
    rel ((cpHtlcGen v d tx h delay hscript anchors ch ins input point script amount).map fun _ => ())
      = signCounterpartyHtlcSweep d tx input hscript anchors h := by
  unfold cpHtlcGen
  rw [C09_fn_sign_counterparty_htlc_sweep_spec]
  have hl : ¬ ins.length ≤ input := by rw [hins.1]; omega
  have hm := C09_fn_validate_counterparty_htlc_sweep v d tx ins hins input amount h delay hscript anchors script hi
  simp only [hl, if_false, Rs.bind_ok, digestE, Rs.pure_eq]
  rw [rel_map_bind, hm]

theorem C09_fn_sign_counterparty_htlc_sweep_bad_input (v : SimpleValidator) (d : Bool) (tx : SweepTx) (ins : List GTxIn) (hins : InsOf tx ins)
    (input amount h delay point : Nat) (hscript : HtlcScript) (anchors : Bool) (ch : Channel Unit Nat) (script : SweepOut)
    (hi : tx.nInputs ≤ input) :
    cpHtlcGen v d tx h delay hscript anchors ch ins input point script amount = Rs.fail "invalid-argument"
      ∧ signCounterpartyHtlcSweep d tx input hscript anchors h = .errInvalid := by
  unfold cpHtlcGen
  rw [C09_fn_sign_counterparty_htlc_sweep_spec]
  have hl : ins.length ≤ input := by rw [hins.1]; exact hi
  simp [hl, signCounterpartyHtlcSweep, hi]

/-! ### the second-level HTLC transaction entry points `sign_htlc_tx`, `sign_holder_htlc_tx`, `sign_counterparty_htlc_tx`

`sign_htlc_tx` signs **only after** `decode_and_validate_htlc_tx` and then `validate_htlc_tx` (same validator, the decoded
HTLC and fee rate handed from the first to the second) accepted; the signature is over the *recomposed* sighash the decoder
returned (not over the submitted transaction), with the HTLC base key tweaked by the per-commitment point, and carries the
sighash type the decoder chose.  The holder variant validates with `is_counterparty = false` and the holder's tx keys at the
supplied point (or at `get_per_commitment_point(commitment_number)`), the counterparty variant with `true` and the
counterparty's tx keys.  Together with `C09_fn_decode_and_validate_htlc_tx` and `C09_fn_validate_htlc_tx` (the regenerated
`SimpleValidator` methods = `Sweep.signHtlcTx` / `validateHtlcTx`) this is clause 6/7 from the handler's entry to the signature. -/

variable {TK H SH ET : Type}

theorem C09_fn_sign_htlc_tx_spec (val : Val) (cs : CS)
    (Dec : Val → Bool → CSetup → TK → CTx I → Scr → Nat → Scr → Rs.M (Nat × H × SH × ET))
    (Vh : Val → CSetup → CS → Bool → H → Nat → Rs.M Unit)
    (D : Secp → PK → SK → SK) (M : SH → Msg) (G : Secp → Msg → SK → Sig)
    (ch : Channel Secp SK) (tx : CTx I) (point : PK) (rs : Scr) (amount : Nat) (ws : Scr) (isCp : Bool) (txkeys : TK) :
    Channel.sign_htlc_tx (ext_self_validator := val) (ext_Validator_decode_and_validate_htlc_tx := Dec)
        (ext_self_get_chain_state := cs) (ext_Validator_validate_htlc_tx := Vh) (ext_derive_private_key := D)
        (ext_message_of_sighash := M) (ext_secp_ctx_sign_ecdsa := G) ch tx point rs amount ws isCp txkeys
      = (Dec val isCp ch.setup txkeys tx rs amount ws >>= fun t =>
          Vh val ch.setup cs isCp t.2.1 t.1 >>= fun _ =>
            pure { sig := G ch.secp_ctx (M t.2.2.1) (D ch.secp_ctx point ch.keys.htlc_base_key), typ := t.2.2.2 }) := by
  unfold Channel.sign_htlc_tx
  congr 1

theorem C09_fn_sign_holder_htlc_tx_spec (pcpF : Nat → Rs.M PK) (HK : PK → TK) (val : Val) (cs : CS)
    (Dec : Val → Bool → CSetup → TK → CTx I → Scr → Nat → Scr → Rs.M (Nat × H × SH × ET))
    (Vh : Val → CSetup → CS → Bool → H → Nat → Rs.M Unit)
    (D : Secp → PK → SK → SK) (M : SH → Msg) (G : Secp → Msg → SK → Sig)
    (ch : Channel Secp SK) (tx : CTx I) (n : Nat) (opt : Option PK) (rs : Scr) (amount : Nat) (ws : Scr) :
    Channel.sign_holder_htlc_tx (ext_self_get_per_commitment_point := pcpF) (ext_self_make_holder_tx_keys := HK)
        (ext_self_validator := val) (ext_Validator_decode_and_validate_htlc_tx := Dec)
        (ext_self_get_chain_state := cs) (ext_Validator_validate_htlc_tx := Vh) (ext_derive_private_key := D)
        (ext_message_of_sighash := M) (ext_secp_ctx_sign_ecdsa := G) ch tx n opt rs amount ws
      = ((match opt with | some p => pure p | none => pcpF n) >>= fun point =>
          Channel.sign_htlc_tx (ext_self_validator := val) (ext_Validator_decode_and_validate_htlc_tx := Dec)
            (ext_self_get_chain_state := cs) (ext_Validator_validate_htlc_tx := Vh) (ext_derive_private_key := D)
            (ext_message_of_sighash := M) (ext_secp_ctx_sign_ecdsa := G) ch tx point rs amount ws false (HK point)) := by
  unfold Channel.sign_holder_htlc_tx
  cases opt with
  | none => cases h : pcpF n <;> simp [h, bind, Except.bind, pure, Except.pure]
  | some p => simp [Rs.unwrap, bind, Except.bind, pure, Except.pure]

theorem C09_fn_sign_counterparty_htlc_tx_spec (CK : PK → TK) (val : Val) (cs : CS)
    (Dec : Val → Bool → CSetup → TK → CTx I → Scr → Nat → Scr → Rs.M (Nat × H × SH × ET))
    (Vh : Val → CSetup → CS → Bool → H → Nat → Rs.M Unit)
    (D : Secp → PK → SK → SK) (M : SH → Msg) (G : Secp → Msg → SK → Sig)
    (ch : Channel Secp SK) (tx : CTx I) (point : PK) (rs : Scr) (amount : Nat) (ws : Scr) :
    Channel.sign_counterparty_htlc_tx (ext_self_make_counterparty_tx_keys := CK)
        (ext_self_validator := val) (ext_Validator_decode_and_validate_htlc_tx := Dec)
        (ext_self_get_chain_state := cs) (ext_Validator_validate_htlc_tx := Vh) (ext_derive_private_key := D)
        (ext_message_of_sighash := M) (ext_secp_ctx_sign_ecdsa := G) ch tx point rs amount ws
      = Channel.sign_htlc_tx (ext_self_validator := val) (ext_Validator_decode_and_validate_htlc_tx := Dec)
          (ext_self_get_chain_state := cs) (ext_Validator_validate_htlc_tx := Vh) (ext_derive_private_key := D)
          (ext_message_of_sighash := M) (ext_secp_ctx_sign_ecdsa := G) ch tx point rs amount ws true (CK point) := rfl

/-- a signature leaves `sign_htlc_tx` only if both validator calls accepted, and then it is the signature over the
    decoder's recomposed sighash with the tweaked HTLC base key, typed as the decoder said -/
theorem C09_fn_sign_htlc_tx_signs (val : Val) (cs : CS)
    (Dec : Val → Bool → CSetup → TK → CTx I → Scr → Nat → Scr → Rs.M (Nat × H × SH × ET))
    (Vh : Val → CSetup → CS → Bool → H → Nat → Rs.M Unit)
    (D : Secp → PK → SK → SK) (M : SH → Msg) (G : Secp → Msg → SK → Sig)
    (ch : Channel Secp SK) (tx : CTx I) (point : PK) (rs : Scr) (amount : Nat) (ws : Scr) (isCp : Bool) (txkeys : TK)
    (out : Gen.FnChannelSweep.TypedSignature Sig ET)
    (h : Channel.sign_htlc_tx (ext_self_validator := val) (ext_Validator_decode_and_validate_htlc_tx := Dec)
        (ext_self_get_chain_state := cs) (ext_Validator_validate_htlc_tx := Vh) (ext_derive_private_key := D)
        (ext_message_of_sighash := M) (ext_secp_ctx_sign_ecdsa := G) ch tx point rs amount ws isCp txkeys = .ok out) :
    ∃ fr htlc sh ty, Dec val isCp ch.setup txkeys tx rs amount ws = .ok (fr, htlc, sh, ty)
      ∧ Vh val ch.setup cs isCp htlc fr = .ok ()
      ∧ out = { sig := G ch.secp_ctx (M sh) (D ch.secp_ctx point ch.keys.htlc_base_key), typ := ty } := by
  rw [C09_fn_sign_htlc_tx_spec] at h
  cases hd : Dec val isCp ch.setup txkeys tx rs amount ws with
  | error e => simp [hd, bind, Except.bind] at h
  | ok t =>
    obtain ⟨fr, htlc, sh, ty⟩ := t
    simp only [hd, Rs.bind_ok] at h
    cases hv : Vh val ch.setup cs isCp htlc fr with
    | error e => simp [hv, bind, Except.bind] at h
    | ok u =>
      simp only [hv, Rs.bind_ok, Rs.pure_eq, Except.ok.injEq] at h
      exact ⟨fr, htlc, sh, ty, rfl, by cases u; exact hv, h.symm⟩

end ChannelSweep

/-! ## Round 9: the protocol handler's sweep helpers (`vls-protocol-signer/src/handler.rs`, `Gen/FnHandlerSweep.lean`)

`sign_delayed_payment_to_us`, `sign_remote_htlc_to_us`, `sign_penalty_to_us`, `sign_local_htlc_tx`: the bodies behind the arms
`SignDelayedPaymentToUs` / `SignAnyDelayedPaymentToUs`, `SignRemoteHtlcToUs` / `SignAnyRemoteHtlcToUs`, `SignPenaltyToUs` /
`SignAnyPenaltyToUs`, `SignLocalHtlcTx` / `SignAnyLocalHtlcTx`.  For every instantiation of the externals: **the amount the
channel is asked to sign for is the value of the `witness_utxo` of the PSBT input with the signed index** (panic if the
index is out of range or the input has no witness utxo), the redeemscript is the message's `wscript`, the wallet path is the
first output's derivation path (panic without outputs; evaluated after the channel lookup), the channel method is the one
of the same sweep kind, and the reply carries that signature. -/
section HandlerSweep
open VlsModel.Gen.FnHandlerSweep

variable {Nd Cid Tx Scr Oct SB DP Ch Sig PKb PK DS SK ET : Type}

theorem C09_fn_sign_delayed_payment_to_us (SO : Oct → Scr) (XP : Psbt Scr → List DP) (RC : Nd → Cid → Rs.M Ch)
    (SD : Ch → Tx → Nat → Nat → Scr → Nat → DP → Rs.M Sig) (RA : Sig → SB)
    (node : Nd) (cid : Cid) (n : Nat) (tx : Tx) (psbt : Psbt Scr) (wscript : Oct) (input : Nat) :
    sign_delayed_payment_to_us (ext_script_of_octets := SO) (ext_extract_psbt_output_paths := XP) (ext_Node_ready_channel := RC)
        (ext_Channel_sign_delayed_sweep := SD) (ext_sign_tx_reply_all := RA) node cid n tx psbt wscript input
      = (do let o ← Rs.index psbt.inputs input
            let u ← Rs.unwrap o.witness_utxo
            let ch ← RC node cid
            let path ← Rs.index (XP psbt) 0
            let sig ← SD ch tx input n (SO wscript) u.value path
            pure (RA sig)) := rfl

theorem C09_fn_sign_remote_htlc_to_us (PB : PKb → Rs.M PK) (SO : Oct → Scr) (XP : Psbt Scr → List DP) (RC : Nd → Cid → Rs.M Ch)
    (SH : Ch → Tx → Nat → PK → Scr → Nat → DP → Rs.M Sig) (RA : Sig → SB)
    (node : Nd) (cid : Cid) (point : PKb) (tx : Tx) (psbt : Psbt Scr) (wscript : Oct) (anchors : Bool) (input : Nat) :
    sign_remote_htlc_to_us (ext_pubkey_of_bytes := PB) (ext_script_of_octets := SO) (ext_extract_psbt_output_paths := XP)
        (ext_Node_ready_channel := RC) (ext_Channel_sign_counterparty_htlc_sweep := SH) (ext_sign_tx_reply_all := RA)
        node cid point tx psbt wscript anchors input
      = (do let pt ← PB point
            let o ← Rs.index psbt.inputs input
            let u ← Rs.unwrap o.witness_utxo
            let ch ← RC node cid
            let path ← Rs.index (XP psbt) 0
            let sig ← SH ch tx input pt (SO wscript) u.value path
            pure (RA sig)) := rfl

theorem C09_fn_sign_penalty_to_us (SB' : DS → Rs.M SK) (SO : Oct → Scr) (XP : Psbt Scr → List DP) (RC : Nd → Cid → Rs.M Ch)
    (SJ : Ch → Tx → Nat → SK → Scr → Nat → DP → Rs.M Sig) (RA : Sig → SB)
    (node : Nd) (cid : Cid) (secret : DS) (tx : Tx) (psbt : Psbt Scr) (wscript : Oct) (input : Nat) :
    sign_penalty_to_us (ext_secret_of_bytes := SB') (ext_script_of_octets := SO) (ext_extract_psbt_output_paths := XP)
        (ext_Node_ready_channel := RC) (ext_Channel_sign_justice_sweep := SJ) (ext_sign_tx_reply_all := RA)
        node cid secret tx psbt wscript input
      = (do let sk ← SB' secret
            let o ← Rs.index psbt.inputs input
            let u ← Rs.unwrap o.witness_utxo
            let ch ← RC node cid
            let path ← Rs.index (XP psbt) 0
            let sig ← SJ ch tx input sk (SO wscript) u.value path
            pure (RA sig)) := rfl

theorem C09_fn_sign_local_htlc_tx (SO : Oct → Scr) (RC : Nd → Cid → Rs.M Ch)
    (SHT : Ch → Tx → Nat → Option PK → Scr → Nat → Scr → Rs.M (TypedSignature Sig ET)) (RT : Sig → ET → SB)
    (node : Nd) (cid : Cid) (n : Nat) (tx : Tx) (psbt : Psbt Scr) (wscript : Oct) (anchors : Bool) (input : Nat) :
    sign_local_htlc_tx (ext_script_of_octets := SO) (ext_Node_ready_channel := RC) (ext_Channel_sign_holder_htlc_tx := SHT)
        (ext_sign_tx_reply_typed := RT) node cid n tx psbt wscript anchors input
      = (do let o ← Rs.index psbt.inputs input
            let u ← Rs.unwrap o.witness_utxo
            let out0 ← Rs.index psbt.outputs 0
            let ws ← Rs.unwrap out0.witness_script
            let ch ← RC node cid
            let sig ← SHT ch tx n none (SO wscript) u.value ws
            pure (RT sig.sig sig.typ)) := rfl

/-- a reply leaves `sign_delayed_payment_to_us` only with a signature the channel made for **the value the PSBT states for
    the signed input**, the message's script and the first output's path -/
theorem C09_fn_sign_delayed_payment_to_us_signed (SO : Oct → Scr) (XP : Psbt Scr → List DP) (RC : Nd → Cid → Rs.M Ch)
    (SD : Ch → Tx → Nat → Nat → Scr → Nat → DP → Rs.M Sig) (RA : Sig → SB)
    (node : Nd) (cid : Cid) (n : Nat) (tx : Tx) (psbt : Psbt Scr) (wscript : Oct) (input : Nat) (reply : SB)
    (h : sign_delayed_payment_to_us (ext_script_of_octets := SO) (ext_extract_psbt_output_paths := XP) (ext_Node_ready_channel := RC)
        (ext_Channel_sign_delayed_sweep := SD) (ext_sign_tx_reply_all := RA) node cid n tx psbt wscript input = .ok reply) :
    ∃ o u ch path sig, psbt.inputs[input]? = some o ∧ o.witness_utxo = some u ∧ RC node cid = .ok ch ∧ (XP psbt)[0]? = some path
      ∧ SD ch tx input n (SO wscript) u.value path = .ok sig ∧ reply = RA sig := by
  rw [C09_fn_sign_delayed_payment_to_us] at h
  cases ho : psbt.inputs[input]? with
  | none => simp [Rs.index, ho, Rs.panic, bind, Except.bind] at h
  | some o =>
    cases hu : o.witness_utxo with
    | none => simp [Rs.index, ho, Rs.unwrap, hu, Rs.panic, bind, Except.bind, pure, Except.pure] at h
    | some u =>
      cases hc : RC node cid with
      | error e => simp [Rs.index, ho, Rs.unwrap, hu, hc, bind, Except.bind, pure, Except.pure] at h
      | ok ch =>
        cases hp : (XP psbt)[0]? with
        | none => simp [Rs.index, ho, Rs.unwrap, hu, hc, hp, Rs.panic, bind, Except.bind, pure, Except.pure] at h
        | some path =>
          cases hs : SD ch tx input n (SO wscript) u.value path with
          | error e => simp [Rs.index, ho, Rs.unwrap, hu, hc, hp, hs, bind, Except.bind, pure, Except.pure] at h
          | ok sig =>
            simp [Rs.index, ho, Rs.unwrap, hu, hc, hp, hs, bind, Except.bind, pure, Except.pure] at h
            exact ⟨o, u, ch, path, sig, rfl, hu, rfl, rfl, hs, h.symm⟩

end HandlerSweep

/-! ## Round 9: allowlist maintenance (`Node::add_allowlist / set_allowlist / remove_allowlist`, node.rs, `Gen/FnNodeAllowlist.lean`)

"Allowlisted" in clause 1 means: in the list the operator last established.  For every parser `P` and persister `U`
(externals): the three functions compute the new list, hand **that** list to `update_allowlist` (what is stored = what is
in memory), and fail without changing anything if parsing fails.  `set_allowlist` keeps nothing of the old list
(`mem_set`), `remove_allowlist` leaves no removed entry (`mem_remove`) — the two stored seeds C09-r3-2 (persist before
the removal) and C09-r5-2 (`retain` instead of `clear`) change the regenerated text and break these equalities. -/
section NodeAllowlist
open VlsModel.Gen.FnNodeAllowlist (Node NodeState Allowable)

variable {S X K : Type} [DecidableEq S] [DecidableEq X] [DecidableEq K]

theorem fold_state (f : List (Allowable S X K) → Allowable S X K → List (Allowable S X K)) (as : List (Allowable S X K)) :
    ∀ n : Node S X K,
    List.foldl (fun (self : Node S X K) a => { self with state := { self.state with allowlist := f self.state.allowlist a } }) n as
      = { state := { allowlist := as.foldl f n.state.allowlist } } := by
  induction as with
  | nil => intro n; rfl
  | cons a rest ih => intro n; simp only [List.foldl_cons]; rw [ih]

/-- the new list of each operation -/
def addedTo (old as : List (Allowable S X K)) : List (Allowable S X K) := as.foldl Rs.asetInsert old
def removedFrom (old as : List (Allowable S X K)) : List (Allowable S X K) := as.foldl (fun l a => l.filter (fun e => e != a)) old

theorem C09_fn_add_allowlist (P : List String → Rs.M (List (Allowable S X K))) (U : NodeState S X K → Rs.M Unit)
    (n : Node S X K) (adds : List String) :
    Node.add_allowlist (ext_self_parse_allowables := P) (ext_self_update_allowlist := U) n adds
      = (do let as ← P adds
            U { allowlist := addedTo n.state.allowlist as }
            pure { state := { allowlist := addedTo n.state.allowlist as } }) := by
  unfold Node.add_allowlist addedTo
  cases P adds with
  | error e => rfl
  | ok as =>
    simp only [Rs.bind_ok]
    rw [fold_state Rs.asetInsert as n]

theorem C09_fn_set_allowlist (P : List String → Rs.M (List (Allowable S X K))) (U : NodeState S X K → Rs.M Unit)
    (n : Node S X K) (list : List String) :
    Node.set_allowlist (ext_self_parse_allowables := P) (ext_self_update_allowlist := U) n list
      = (do let as ← P list
            U { allowlist := addedTo [] as }
            pure { state := { allowlist := addedTo [] as } }) := by
  unfold Node.set_allowlist addedTo
  cases P list with
  | error e => rfl
  | ok as =>
    simp only [Rs.bind_ok]
    rw [fold_state Rs.asetInsert as { state := { allowlist := [] } }]

theorem C09_fn_remove_allowlist (P : List String → Rs.M (List (Allowable S X K))) (U : NodeState S X K → Rs.M Unit)
    (n : Node S X K) (removes : List String) :
    Node.remove_allowlist (ext_self_parse_allowables := P) (ext_self_update_allowlist := U) n removes
      = (do let as ← P removes
            U { allowlist := removedFrom n.state.allowlist as }
            pure { state := { allowlist := removedFrom n.state.allowlist as } }) := by
  unfold Node.remove_allowlist removedFrom
  cases P removes with
  | error e => rfl
  | ok as =>
    simp only [Rs.bind_ok]
    rw [fold_state (fun l a => l.filter (fun e => e != a)) as n]

theorem mem_asetInsert (l : List (Allowable S X K)) (a x : Allowable S X K) : x ∈ Rs.asetInsert l a ↔ x ∈ l ∨ x = a := by
  unfold Rs.asetInsert
  by_cases h : l.contains a = true
  · have : a ∈ l := by simpa using h
    simp only [h, if_true]
    constructor
    · exact Or.inl
    · rintro (h1 | rfl)
      · exact h1
      · exact this
  · have hn : a ∉ l := by simpa using h
    simp [hn]

theorem mem_addedTo (as : List (Allowable S X K)) : ∀ (old : List (Allowable S X K)) (x : Allowable S X K),
    x ∈ addedTo old as ↔ x ∈ old ∨ x ∈ as := by
  induction as with
  | nil => intro old x; simp [addedTo]
  | cons a rest ih =>
    intro old x
    have := ih (Rs.asetInsert old a) x
    simp only [addedTo, List.foldl_cons] at this ⊢
    rw [this, mem_asetInsert]
    simp only [List.mem_cons]
    exact or_assoc

/-- after `set_allowlist` exactly the entries of the new list are allowlisted: nothing of the old list survives -/
theorem mem_set (as : List (Allowable S X K)) (x : Allowable S X K) : x ∈ addedTo [] as ↔ x ∈ as := by
  simp [mem_addedTo]

theorem mem_removedFrom (as : List (Allowable S X K)) : ∀ (old : List (Allowable S X K)) (x : Allowable S X K),
    x ∈ removedFrom old as ↔ x ∈ old ∧ x ∉ as := by
  induction as with
  | nil => intro old x; simp [removedFrom]
  | cons a rest ih =>
    intro old x
    have := ih (old.filter (fun e => e != a)) x
    simp only [removedFrom, List.foldl_cons] at this ⊢
    rw [this]
    simp only [List.mem_filter, List.mem_cons, bne_iff_ne, ne_eq, not_or]
    exact and_assoc

/-- after `remove_allowlist` no removed entry is allowlisted (in memory and in what was handed to the persister) -/
theorem mem_remove (old as : List (Allowable S X K)) (x : Allowable S X K) (hx : x ∈ as) : x ∉ removedFrom old as := by
  rw [mem_removedFrom]; exact fun h => h.2 hx

example : removedFrom [Allowable.Script 1, .XPub 2, .Payee (3 : Nat)] [Allowable.XPub 2] = [Allowable.Script 1, .Payee 3]
    ∧ addedTo [] [Allowable.Script (5 : Nat), .Script 5, .XPub (6 : Nat)] = [Allowable.Script 5, Allowable.XPub 6 (PublicKey := Nat)] := by decide

end NodeAllowlist

end VlsModel.Props.C09Fn
