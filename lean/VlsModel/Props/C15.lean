import VlsModel.Lemmas.Prune
/-
C15 — Channels are forgotten only when it is safe, and their ids are never reused.

Statement (properties.jsonl): the signer forgets a ready channel only after the node has asked to
forget it and a funding double-spend, a mutual close, or a unilateral close with all of the node's
outputs swept has been buried by the required number of blocks on the current best chain; an open
or merely closing channel survives any number of heartbeats and restarts.  Once a channel with a
given node-assigned id has been forgotten, no channel with that or a lower id is created again,
also after a restart.

Model: `VlsModel/Model/Prune.lean` (in-memory node + persisted `Store`; `restart` reloads memory
from the store).  The invariant `Prune.Inv` (store and memory agree on the high-water mark and the
channel map, channel ids are distinct, persisted listeners equal the in-memory ones up to a missing
forget flag) holds initially and is preserved by every operation, for *both* values of the
generated `forgetPersistsTracker` (it is never unfolded).  Only property theorems live here; helper
lemmas are in `VlsModel/Lemmas/Prune.lean`.
-/
namespace VlsModel.Props.C15
open VlsModel VlsModel.Monitor VlsModel.Prune VlsModel.Gen.Chain

/-! ## The invariant -/

theorem C15_inv_init (height : Nat) (regtest : Bool) : Inv (Node.init height regtest) :=
  inv_init height regtest

theorem C15_inv_step (n : Node) (op : Op) (i : Inv n) : Inv (step n op).1 := inv_step i op

theorem C15_inv_run (n : Node) (ops : List Op) (i : Inv n) : Inv (run n ops) := inv_run i ops

/-- every reachable node satisfies the invariant -/
theorem C15_inv_reachable (height : Nat) (regtest : Bool) (ops : List Op) :
    Inv (run (Node.init height regtest) ops) := inv_run (inv_init height regtest) ops

/-! ## 1. No reuse of forgotten ids -/

/-- the high-water mark never decreases, restart included -/
theorem hwm_mono (n : Node) (op : Op) (i : Inv n) : n.hwm ≤ (step n op).1.hwm := hwm_step i op

theorem hwm_mono_run (n : Node) (ops : List Op) (i : Inv n) : n.hwm ≤ (run n ops).hwm :=
  hwm_run i ops

/-- forgetting an existing channel raises the high-water mark to its id (in memory and, by the
invariant, in the store) -/
theorem forget_sets_hwm (n : Node) (d : Nat) (slot : ChanSlot)
    (h : lookup d n.channels = some slot) : d ≤ (forget n d).1.hwm := forget_hwm h

theorem forget_sets_hwm_store (n : Node) (d : Nat) (slot : ChanSlot) (i : Inv n)
    (h : lookup d n.channels = some slot) : d ≤ (forget n d).1.store.hwm := by
  rw [(inv_forget i d).hwm]; exact forget_hwm h

/-- **C15, no reuse.** After an existing channel `d` was forgotten, and after any further history
`ops` (restarts included), creating a channel with id `d' ≤ d` is refused and changes nothing. -/
theorem C15_no_reuse (n : Node) (d : Nat) (i : Inv n) (hd : lookup d n.channels ≠ none)
    (ops : List Op) (d' : Nat) (hle : d' ≤ d) :
    (newChannel (run (forget n d).1 ops) d').2 = .err ∧
    (newChannel (run (forget n d).1 ops) d').1 = run (forget n d).1 ops := by
  cases hs : lookup d n.channels with
  | none => exact absurd hs hd
  | some slot =>
    have h1 : d ≤ (forget n d).1.hwm := forget_hwm hs
    have h2 := hwm_run (inv_forget i d) ops
    have h3 : (run (forget n d).1 ops).hwm ≥ d' := by omega
    unfold newChannel
    rw [if_pos h3]
    exact ⟨rfl, rfl⟩

/-- the same for a node reached from the initial state (no invariant hypothesis needed) -/
theorem C15_no_reuse_reachable (height : Nat) (regtest : Bool) (pre ops : List Op) (d d' : Nat)
    (hd : lookup d (run (Node.init height regtest) pre).channels ≠ none) (hle : d' ≤ d) :
    (newChannel (run (forget (run (Node.init height regtest) pre) d).1 ops) d').2 = .err :=
  (C15_no_reuse _ d (C15_inv_reachable height regtest pre) hd ops d' hle).1

/-! ## 2. A ready channel disappears only by a justified prune -/

/-- **C15, prune.** If a ready channel is gone (or no longer the same ready entry) after one step,
the step was a heartbeat, the node had asked to forget the channel and one of the three closing
events is buried at least `minDepth` deep as seen by the channel's monitor. -/
theorem C15_prune (n : Node) (op : Op) (d k : Nat) (i : Inv n)
    (h : lookup d n.channels = some (.ready k))
    (hgone : lookup d (step n op).1.channels ≠ some (.ready k)) :
    op = .heartbeat ∧
    ∃ l, lookup k n.listeners = some l ∧ l.st.sawForget = true ∧
      (minDepth ≤ l.st.depthOf l.st.dsHeight ∨ minDepth ≤ l.st.depthOf l.st.mutualHeight ∨
        minDepth ≤ l.st.depthOf l.st.closingSweptHeight) := by
  have hop : op = .heartbeat := by
    cases op with
    | heartbeat => rfl
    | _ => exact absurd (ready_step_of_ne_heartbeat i h _ (by intro e; cases e)) hgone
  subst hop
  refine ⟨rfl, ?_⟩
  cases hp : prunable n (.ready k) with
  | false => exact absurd (ready_heartbeat_of_not_prunable h hp) hgone
  | true =>
    obtain ⟨l, hl, hdone⟩ := prunable_ready_true hp
    obtain ⟨hf, hdepth⟩ := isDone_true hdone
    exact ⟨l, hl, hf, hdepth⟩

/-- The same over a whole history: if a ready channel is no longer there after `ops`, the history
contains a heartbeat at which the channel was still ready, had been forgotten by the node and had a
closing event buried `minDepth` deep. -/
theorem C15_prune_run (n : Node) (ops : List Op) (d k : Nat) (i : Inv n)
    (h : lookup d n.channels = some (.ready k))
    (hgone : lookup d (run n ops).channels ≠ some (.ready k)) :
    ∃ pre post l, ops = pre ++ .heartbeat :: post ∧
      lookup d (run n pre).channels = some (.ready k) ∧
      lookup k (run n pre).listeners = some l ∧ l.st.sawForget = true ∧
      (minDepth ≤ l.st.depthOf l.st.dsHeight ∨ minDepth ≤ l.st.depthOf l.st.mutualHeight ∨
        minDepth ≤ l.st.depthOf l.st.closingSweptHeight) := by
  induction ops generalizing n with
  | nil => exact absurd h hgone
  | cons op ops ih =>
    by_cases hs : lookup d (step n op).1.channels = some (.ready k)
    · obtain ⟨pre, post, l, he, hc, hl, hf, hd⟩ := ih (step n op).1 (inv_step i op) hs hgone
      exact ⟨op :: pre, post, l, by rw [he]; rfl, hc, hl, hf, hd⟩
    · obtain ⟨rfl, l, hl, hf, hd⟩ := C15_prune n op d k i h hs
      exact ⟨[], ops, l, rfl, h, hl, hf, hd⟩

/-! ## 3. Open or merely closing channels survive heartbeats and restarts -/

/-- operation lists consisting of heartbeats and restarts only -/
def HeartbeatsRestarts : List Op → Prop
  | [] => True
  | .heartbeat :: r => HeartbeatsRestarts r
  | .restart :: r => HeartbeatsRestarts r
  | _ :: _ => False

/-- one step of the survival argument -/
theorem survive_step (n : Node) (op : Op) (d k : Nat) (i : Inv n)
    (hop : op = .heartbeat ∨ op = .restart)
    (hc : lookup d n.channels = some (.ready k))
    (hl : ∃ l, lookup k n.listeners = some l ∧ l.st.isDone minDepth = false) :
    lookup d (step n op).1.channels = some (.ready k) ∧
    ∃ l, lookup k (step n op).1.listeners = some l ∧ l.st.isDone minDepth = false := by
  obtain ⟨l, hl, hnd⟩ := hl
  rcases hop with rfl | rfl
  · have hp := prunable_ready_false hl hnd
    refine ⟨ready_heartbeat_of_not_prunable hc hp, l, ?_, hnd⟩
    simp only [step]
    rw [listener_heartbeat_of_not_prunable hp]; exact hl
  · refine ⟨ready_step_of_ne_heartbeat i hc _ (by intro e; cases e), ?_⟩
    simp only [step, restart]
    have hr := i.lrel k
    rw [hl] at hr
    cases hs : lookup k n.store.listeners with
    | none => rw [hs] at hr; exact absurd hr (by simp [OptWeaker])
    | some l' =>
      rw [hs] at hr
      exact ⟨l', rfl, Weaker.isDone_false hr hnd⟩

/-- **C15, survival.** A ready channel whose monitor is not done (not forgotten by the node, or no
closing event buried `minDepth` deep) is still there, with the same monitor key, after any number
of heartbeats and restarts; its monitor is still registered and still not done. -/
theorem C15_survive (n : Node) (ops : List Op) (d k : Nat) (l : Listener) (i : Inv n)
    (hops : HeartbeatsRestarts ops)
    (hc : lookup d n.channels = some (.ready k))
    (hl : lookup k n.listeners = some l) (hnd : l.st.isDone minDepth = false) :
    lookup d (run n ops).channels = some (.ready k) ∧
    ∃ l', lookup k (run n ops).listeners = some l' ∧ l'.st.isDone minDepth = false := by
  have hl' : ∃ l, lookup k n.listeners = some l ∧ l.st.isDone minDepth = false := ⟨l, hl, hnd⟩
  clear hl hnd
  induction ops generalizing n with
  | nil => exact ⟨hc, hl'⟩
  | cons op ops ih =>
    have hop : (op = .heartbeat ∨ op = .restart) ∧ HeartbeatsRestarts ops := by
      cases op <;> simp_all [HeartbeatsRestarts]
    obtain ⟨h1, h2⟩ := survive_step n op d k i hop.1 hc hl'
    exact ih (step n op).1 (inv_step i op) hop.2 h1 h2

/-- in particular for heartbeats only -/
theorem C15_survive_heartbeats (n : Node) (m : Nat) (d k : Nat) (l : Listener) (i : Inv n)
    (hc : lookup d n.channels = some (.ready k))
    (hl : lookup k n.listeners = some l) (hnd : l.st.isDone minDepth = false) :
    lookup d (run n (List.replicate m .heartbeat)).channels = some (.ready k) := by
  refine (C15_survive n _ d k l i ?_ hc hl hnd).1
  induction m with
  | zero => trivial
  | succ m ih => exact ih

/-- A channel the node never asked to forget is never done, whatever its depth. -/
theorem C15_not_done_without_forget (s : State) (m : Nat) (h : s.sawForget = false) :
    s.isDone m = false := by
  unfold State.isDone State.deepEnough
  simp [h]

/-! ## 4. Non-vacuity -/

def exState (height : Nat) : State :=
  { State.init 0 77 0 [] with height, mutualHeight := some 1, sawForget := true }

def exListener (height : Nat) : Listener :=
  { st := exState height, slot := { txidWatches := [77], watches := [], seen := [] } }

/-- channel 5 is ready with monitor key 1; forgotten; mutual close at height 1 -/
def exNode (height : Nat) : Node :=
  { channels := [(5, .ready 1)], hwm := 5, height, listeners := [(1, exListener height)],
    regtest := false,
    store := { channels := [(5, .ready 1)], hwm := 5, height, listeners := [(1, exListener height)] } }

example : Inv (exNode 100) :=
  ⟨rfl, rfl, by unfold KeysNodup; decide, fun _ => OptWeaker.refl _⟩

/-- buried `minDepth` = 100 deep (heights 1 … 100): pruned by the heartbeat, in memory and store -/
example : lookup 5 (heartbeat (exNode 100)).1.channels = none ∧
    lookup 5 (heartbeat (exNode 100)).1.store.channels = none ∧
    lookup 1 (heartbeat (exNode 100)).1.listeners = none := by decide

/-- only 99 deep: not pruned -/
example : lookup 5 (heartbeat (exNode 99)).1.channels = some (.ready 1) ∧
    (exListener 99).st.isDone minDepth = false := by decide

/-- deep enough but the node never asked to forget: not pruned -/
example :
    let n : Node := { exNode 100 with
      listeners := [(1, { exListener 100 with st := { exState 100 with sawForget := false } })] }
    lookup 5 (heartbeat n).1.channels = some (.ready 1) := by decide

/-- new 5, forget 5, restart; then new 5 and new 3 are refused, new 6 is accepted -/
example :
    let n := run (Node.init 0 false) [.newChannel 5, .forget 5, .restart]
    (newChannel n 5).2 = .err ∧ (newChannel n 3).2 = .err ∧ (newChannel n 6).2 = .ok ∧
    lookup 5 n.channels = none := by decide

/-- the hypotheses of `C15_no_reuse` are satisfiable: channel 5 exists before the forget -/
example : lookup 5 (run (Node.init 0 false) [.newChannel 5]).channels ≠ none := by decide

end VlsModel.Props.C15
