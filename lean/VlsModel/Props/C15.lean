import VlsModel.Lemmas.Prune
import VlsModel.Lemmas.PruneChain
/-
C15 — Channels are forgotten only when it is safe, and their ids are never reused.

Statement (properties.jsonl): the signer forgets a ready channel only after the node has asked to
forget it and a funding double-spend, a mutual close, or a unilateral close with all of the node's
outputs swept has been buried by the required number of blocks on the current best chain; an open
or merely closing channel survives any number of heartbeats and restarts.  Once a channel with a
given node-assigned id has been forgotten, no channel with that or a lower id is created again,
also after a restart.

Model: `VlsModel/Model/Prune.lean` (in-memory node + persisted `Store`; `restart` reloads memory
from the store).  The invariant `Prune.Inv` (store and memory agree on the high-water mark and the
channel map, channel ids are distinct, persisted listeners equal the in-memory ones up to a missing
forget flag) holds initially and is preserved by every operation, for *both* values of the
generated `forgetPersistsTracker` (it is never unfolded).  Only property theorems live here; helper
lemmas are in `VlsModel/Lemmas/Prune.lean`.

Section 5 composes C15 with C14 (`C15_prune_best_chain`): the depth condition under which a channel
is pruned holds of the *replay of the surviving best chain*, not merely of whatever the monitor
recorded.  Helper lemmas (the monitor ignores the forget flag, projection of a node history onto the
block history of one monitor): `VlsModel/Lemmas/PruneChain.lean`.
-/
namespace VlsModel.Props.C15
open VlsModel VlsModel.Monitor VlsModel.Prune VlsModel.Gen.Chain VlsModel.Props

/-! ## The invariant -/

theorem C15_inv_init (height : Nat) (regtest : Bool) (mc : Nat := maxChannelsDefault) :
    Inv (Node.init height regtest mc) :=
  inv_init height regtest mc

theorem C15_inv_step (n : Node) (op : Op) (i : Inv n) : Inv (step n op).1 := inv_step i op

theorem C15_inv_run (n : Node) (ops : List Op) (i : Inv n) : Inv (run n ops) := inv_run i ops

/-- every reachable node satisfies the invariant -/
theorem C15_inv_reachable (height : Nat) (regtest : Bool) (ops : List Op) (mc : Nat := maxChannelsDefault) :
    Inv (run (Node.init height regtest mc) ops) := inv_run (inv_init height regtest mc) ops

/-! ## 1. No reuse of forgotten ids -/

/-- the high-water mark never decreases, restart included -/
theorem hwm_mono (n : Node) (op : Op) (i : Inv n) : n.hwm ≤ (step n op).1.hwm := hwm_step i op

theorem hwm_mono_run (n : Node) (ops : List Op) (i : Inv n) : n.hwm ≤ (run n ops).hwm :=
  hwm_run i ops

/-- forgetting an existing channel raises the high-water mark to its id (in memory and, by the
invariant, in the store) -/
theorem forget_sets_hwm (n : Node) (d : Nat) (slot : ChanSlot)
    (h : lookup d n.channels = some slot) : d ≤ (forget n d).1.hwm := forget_hwm h

theorem forget_sets_hwm_store (n : Node) (d : Nat) (slot : ChanSlot) (i : Inv n)
    (h : lookup d n.channels = some slot) : d ≤ (forget n d).1.store.hwm := by
  rw [(inv_forget i d).hwm]; exact forget_hwm h

/-- **C15, no reuse.** After an existing channel `d` was forgotten, and after any further history
`ops` (restarts included), creating a channel with id `d' ≤ d` is refused and changes nothing. -/
theorem C15_no_reuse (n : Node) (d : Nat) (i : Inv n) (hd : lookup d n.channels ≠ none)
    (ops : List Op) (d' : Nat) (hle : d' ≤ d) :
    (newChannel (run (forget n d).1 ops) d').2 = .err ∧
    (newChannel (run (forget n d).1 ops) d').1 = run (forget n d).1 ops := by
  cases hs : lookup d n.channels with
  | none => exact absurd hs hd
  | some slot =>
    have h1 : d ≤ (forget n d).1.hwm := forget_hwm hs
    have h2 := hwm_run (inv_forget i d) ops
    have h3 : (run (forget n d).1 ops).hwm ≥ d' := by omega
    unfold newChannel
    rw [if_pos h3]
    exact ⟨rfl, rfl⟩

/-- the same for a node reached from the initial state (no invariant hypothesis needed) -/
theorem C15_no_reuse_reachable (height : Nat) (regtest : Bool) (pre ops : List Op) (d d' : Nat)
    (mc : Nat := maxChannelsDefault)
    (hd : lookup d (run (Node.init height regtest mc) pre).channels ≠ none) (hle : d' ≤ d) :
    (newChannel (run (forget (run (Node.init height regtest mc) pre) d).1 ops) d').2 = .err :=
  (C15_no_reuse _ d (C15_inv_reachable height regtest pre mc) hd ops d' hle).1

/-! ### 1b. The capacity guard of `find_or_create_channel` (`channels.len() >= policy.max_channels()`)

It sits between the high-water-mark guard and the slot lookup.  It can only refuse: the id rule above is untouched
(`C15_no_reuse` holds for every configured limit, the limit being a field of the node), a refusal changes nothing,
and the channel map of a reachable node never exceeds the limit. -/

/-- at capacity `new_channel` is refused and changes nothing, **even for an id that already exists** (the guard
    precedes the lookup) -/
theorem C15_new_at_capacity (n : Node) (d : Nat) (hc : n.maxChannels ≤ n.channels.length) :
    newChannel n d = (n, .err) := by
  unfold newChannel
  by_cases hh : n.hwm ≥ d
  · rw [if_pos hh]
  · rw [if_neg hh, if_pos hc]

/-- a channel entry is created only for an id above the high-water mark and strictly below capacity -/
theorem C15_new_creates_only_below_capacity (n : Node) (d : Nat)
    (h0 : lookup d n.channels = none) (h1 : lookup d (newChannel n d).1.channels ≠ none) :
    n.hwm < d ∧ n.channels.length < n.maxChannels := by
  unfold newChannel at h1
  split at h1
  · exact absurd h0 h1
  · split at h1
    · exact absurd h0 h1
    · rename_i ha hb
      exact ⟨by omega, by omega⟩

/-- an accepted `new_channel` answers with a slot for `d`: the existing one or a fresh stub -/
theorem C15_new_ok_exists (n : Node) (d : Nat) (h : (newChannel n d).2 = .ok) :
    lookup d (newChannel n d).1.channels ≠ none := by
  unfold newChannel at h ⊢
  split
  · rename_i hh; rw [if_pos hh] at h; cases h
  · split
    · rename_i hh hc; rw [if_neg hh, if_pos hc] at h; cases h
    · split
      · rename_i s hs; rw [hs]; simp
      · simp only; rw [lookup_insert]; simp

/-- the channel map of a reachable node never exceeds the configured capacity -/
theorem C15_capacity_reachable (height : Nat) (regtest : Bool) (mc : Nat) (ops : List Op) :
    (run (Node.init height regtest mc) ops).channels.length ≤ mc :=
  capacity_run (n := Node.init height regtest mc) (inv_init height regtest mc) (Nat.zero_le _) ops

/-- capacity 2: ids 1 and 2 are created, 3 is refused, asking again for the existing id 1 is refused as well (guard
    before lookup); after `forget 2` (a stub: removed) id 3 is accepted, id 2 never again -/
example :
    let n := run (Node.init 0 false 2) [.newChannel 1, .newChannel 2]
    (newChannel n 3).2 = .err ∧ (newChannel n 1).2 = .err ∧
    (newChannel (forget n 2).1 3).2 = .ok ∧ (newChannel (forget n 2).1 2).2 = .err := by decide

/-! ## 2. A ready channel disappears only by a justified prune -/

/-- **C15, prune.** If a ready channel is gone (or no longer the same ready entry) after one step,
the step was a heartbeat, the node had asked to forget the channel and one of the three closing
events is buried at least `minDepth` deep as seen by the channel's monitor. -/
theorem C15_prune (n : Node) (op : Op) (d k : Nat) (i : Inv n)
    (h : lookup d n.channels = some (.ready k))
    (hgone : lookup d (step n op).1.channels ≠ some (.ready k)) :
    op = .heartbeat ∧
    ∃ l, lookup k n.listeners = some l ∧ l.st.sawForget = true ∧
      (minDepth ≤ l.st.depthOf l.st.dsHeight ∨ minDepth ≤ l.st.depthOf l.st.mutualHeight ∨
        minDepth ≤ l.st.depthOf l.st.closingSweptHeight) := by
  have hop : op = .heartbeat := by
    cases op with
    | heartbeat => rfl
    | _ => exact absurd (ready_step_of_ne_heartbeat i h _ (by intro e; cases e)) hgone
  subst hop
  refine ⟨rfl, ?_⟩
  cases hp : prunable n (.ready k) with
  | false => exact absurd (ready_heartbeat_of_not_prunable h hp) hgone
  | true =>
    obtain ⟨l, hl, hdone⟩ := prunable_ready_true hp
    obtain ⟨hf, hdepth⟩ := isDone_true hdone
    exact ⟨l, hl, hf, hdepth⟩

/-- The same over a whole history: if a ready channel is no longer there after `ops`, the history
contains a heartbeat at which the channel was still ready, had been forgotten by the node and had a
closing event buried `minDepth` deep. -/
theorem C15_prune_run (n : Node) (ops : List Op) (d k : Nat) (i : Inv n)
    (h : lookup d n.channels = some (.ready k))
    (hgone : lookup d (run n ops).channels ≠ some (.ready k)) :
    ∃ pre post l, ops = pre ++ .heartbeat :: post ∧
      lookup d (run n pre).channels = some (.ready k) ∧
      lookup k (run n pre).listeners = some l ∧ l.st.sawForget = true ∧
      (minDepth ≤ l.st.depthOf l.st.dsHeight ∨ minDepth ≤ l.st.depthOf l.st.mutualHeight ∨
        minDepth ≤ l.st.depthOf l.st.closingSweptHeight) := by
  induction ops generalizing n with
  | nil => exact absurd h hgone
  | cons op ops ih =>
    by_cases hs : lookup d (step n op).1.channels = some (.ready k)
    · obtain ⟨pre, post, l, he, hc, hl, hf, hd⟩ := ih (step n op).1 (inv_step i op) hs hgone
      exact ⟨op :: pre, post, l, by rw [he]; rfl, hc, hl, hf, hd⟩
    · obtain ⟨rfl, l, hl, hf, hd⟩ := C15_prune n op d k i h hs
      exact ⟨[], ops, l, rfl, h, hl, hf, hd⟩

/-! ## 3. Open or merely closing channels survive heartbeats and restarts -/

/-- operation lists consisting of heartbeats and restarts only -/
def HeartbeatsRestarts : List Op → Prop
  | [] => True
  | .heartbeat :: r => HeartbeatsRestarts r
  | .restart :: r => HeartbeatsRestarts r
  | _ :: _ => False

/-- one step of the survival argument -/
theorem survive_step (n : Node) (op : Op) (d k : Nat) (i : Inv n)
    (hop : op = .heartbeat ∨ op = .restart)
    (hc : lookup d n.channels = some (.ready k))
    (hl : ∃ l, lookup k n.listeners = some l ∧ l.st.isDone minDepth = false) :
    lookup d (step n op).1.channels = some (.ready k) ∧
    ∃ l, lookup k (step n op).1.listeners = some l ∧ l.st.isDone minDepth = false := by
  obtain ⟨l, hl, hnd⟩ := hl
  rcases hop with rfl | rfl
  · have hp := prunable_ready_false hl hnd
    refine ⟨ready_heartbeat_of_not_prunable hc hp, l, ?_, hnd⟩
    simp only [step]
    rw [listener_heartbeat_of_not_prunable hp]; exact hl
  · refine ⟨ready_step_of_ne_heartbeat i hc _ (by intro e; cases e), ?_⟩
    simp only [step, restart]
    have hr := i.lrel k
    rw [hl] at hr
    cases hs : lookup k n.store.listeners with
    | none => rw [hs] at hr; exact absurd hr (by simp [OptWeaker])
    | some l' =>
      rw [hs] at hr
      exact ⟨l', rfl, Weaker.isDone_false hr hnd⟩

/-- **C15, survival.** A ready channel whose monitor is not done (not forgotten by the node, or no
closing event buried `minDepth` deep) is still there, with the same monitor key, after any number
of heartbeats and restarts; its monitor is still registered and still not done. -/
theorem C15_survive (n : Node) (ops : List Op) (d k : Nat) (l : Listener) (i : Inv n)
    (hops : HeartbeatsRestarts ops)
    (hc : lookup d n.channels = some (.ready k))
    (hl : lookup k n.listeners = some l) (hnd : l.st.isDone minDepth = false) :
    lookup d (run n ops).channels = some (.ready k) ∧
    ∃ l', lookup k (run n ops).listeners = some l' ∧ l'.st.isDone minDepth = false := by
  have hl' : ∃ l, lookup k n.listeners = some l ∧ l.st.isDone minDepth = false := ⟨l, hl, hnd⟩
  clear hl hnd
  induction ops generalizing n with
  | nil => exact ⟨hc, hl'⟩
  | cons op ops ih =>
    have hop : (op = .heartbeat ∨ op = .restart) ∧ HeartbeatsRestarts ops := by
      cases op <;> simp_all [HeartbeatsRestarts]
    obtain ⟨h1, h2⟩ := survive_step n op d k i hop.1 hc hl'
    exact ih (step n op).1 (inv_step i op) hop.2 h1 h2

/-- in particular for heartbeats only -/
theorem C15_survive_heartbeats (n : Node) (m : Nat) (d k : Nat) (l : Listener) (i : Inv n)
    (hc : lookup d n.channels = some (.ready k))
    (hl : lookup k n.listeners = some l) (hnd : l.st.isDone minDepth = false) :
    lookup d (run n (List.replicate m .heartbeat)).channels = some (.ready k) := by
  refine (C15_survive n _ d k l i ?_ hc hl hnd).1
  induction m with
  | zero => trivial
  | succ m ih => exact ih

/-- A channel the node never asked to forget is never done, whatever its depth. -/
theorem C15_not_done_without_forget (s : State) (m : Nat) (h : s.sawForget = false) :
    s.isDone m = false := by
  unfold State.isDone State.deepEnough
  simp [h]

/-! ## 4. Non-vacuity -/

def exState (height : Nat) : State :=
  { State.init 0 77 0 [] with height, mutualHeight := some 1, sawForget := true }

def exListener (height : Nat) : Listener :=
  { st := exState height, slot := { txidWatches := [77], watches := [], seen := [] } }

/-- channel 5 is ready with monitor key 1; forgotten; mutual close at height 1 -/
def exNode (height : Nat) : Node :=
  { channels := [(5, .ready 1)], hwm := 5, height, listeners := [(1, exListener height)],
    regtest := false, maxChannels := maxChannelsDefault,
    store := { channels := [(5, .ready 1)], hwm := 5, height, listeners := [(1, exListener height)] } }

example : Inv (exNode 100) :=
  ⟨rfl, rfl, by unfold KeysNodup; decide, fun _ => OptWeaker.refl _⟩

/-- buried `minDepth` = 100 deep (heights 1 … 100): pruned by the heartbeat, in memory and store -/
example : lookup 5 (heartbeat (exNode 100)).1.channels = none ∧
    lookup 5 (heartbeat (exNode 100)).1.store.channels = none ∧
    lookup 1 (heartbeat (exNode 100)).1.listeners = none := by decide

/-- only 99 deep: not pruned -/
example : lookup 5 (heartbeat (exNode 99)).1.channels = some (.ready 1) ∧
    (exListener 99).st.isDone minDepth = false := by decide

/-- deep enough but the node never asked to forget: not pruned -/
example :
    let n : Node := { exNode 100 with
      listeners := [(1, { exListener 100 with st := { exState 100 with sawForget := false } })] }
    lookup 5 (heartbeat n).1.channels = some (.ready 1) := by decide

/-- new 5, forget 5, restart; then new 5 and new 3 are refused, new 6 is accepted -/
example :
    let n := run (Node.init 0 false) [.newChannel 5, .forget 5, .restart]
    (newChannel n 5).2 = .err ∧ (newChannel n 3).2 = .err ∧ (newChannel n 6).2 = .ok ∧
    lookup 5 n.channels = none := by decide

/-- the hypotheses of `C15_no_reuse` are satisfiable: channel 5 exists before the forget -/
example : lookup 5 (run (Node.init 0 false) [.newChannel 5]).channels ≠ none := by decide

/-! ## 5. The pruning condition is evaluated on the best-chain view (composition with C14)

`C15_prune` states the depth condition on the state the monitor *recorded*.  C14 shows that after
any valid history of block connections and disconnections the recorded state is the replay of the
surviving chain.  The two are composed here, for node histories with every operation (restarts
included: `Inv` relates the persisted to the in-memory listener up to the forget flag).

`proj` maps a node history to the block history seen by one monitor; the monitor never reads or
writes the forget flag (`addBlock_setF`, `removeBlock_setF`), so the projection is exact on
`eraseForget`-ed states (`proj_run`). -/

/-- **Projection lemma** (restated from `VlsModel/Lemmas/PruneChain.lean`).  Listener `k` is
registered in `n` with monitor state `l0.st`; `ops` is a node history from `n` (any operations,
restarts included) in which no `setup` re-registers key `k`, no operation panics and the block
operations are well-bracketed over the stack `st0`.  If the listener is still registered at the end
with state `l.st`, then C14's `run` of the projected history from `l0.st` succeeds and its final
state equals `l.st` up to the forget flag. -/
theorem C15_projection (n : Node) (ops : List Op) (k : Nat) (l0 l : Listener)
    (st0 : List (List Tx)) (i : Inv n)
    (h0 : lookup k n.listeners = some l0) (hk : NoRekey k ops) (hp : NoPanic n ops)
    (hw : WellStacked st0 ops) (h : lookup k (run n ops).listeners = some l) :
    ∃ s st, C14.run (l0.st, st0) (proj ops) = some (s, st) ∧ eraseForget s = eraseForget l.st :=
  proj_run' i h0 hk hp hw h

/-- **C15, prune, on the best chain.**  `n0` satisfies `Inv` and has listener `k` registered with a
monitor state `l0.st` that has seen a block.  `pre` is a node history from `n0` (any operations,
restarts included) that never re-registers key `k`, in which nothing panics, whose block operations
are well-bracketed (`WellStacked []`: every `removeBlock txs` disconnects the block on top), and
whose projection onto the monitor satisfies C14's structural validity `ValidRun`.  If channel `d`
is ready with monitor key `k` after `pre` and is gone after one more operation `op`, then `op` is a
heartbeat, and for the surviving chain `st` (the stack of the projected history) the replay of `st`
from `l0.st` (forget flag erased) succeeds and yields a state `sStar` which *is* the live monitor
state up to the forget flag; the node had asked to forget the channel, and one of the three closing
events is buried `minDepth` deep **in `sStar`, the replay of the best chain**. -/
theorem C15_prune_best_chain (n0 : Node) (pre : List Op) (op : Op) (d k : Nat) (l0 : Listener)
    (i : Inv n0)
    (hl0 : lookup k n0.listeners = some l0) (hsb : l0.st.sawBlock = true)
    (hkey : NoRekey k pre) (hnp : NoPanic n0 pre) (hws : WellStacked [] pre)
    (hv : C14.ValidRun (l0.st, []) (proj pre))
    (h : lookup d (run n0 pre).channels = some (.ready k))
    (hgone : lookup d (step (run n0 pre) op).1.channels ≠ some (.ready k)) :
    op = .heartbeat ∧
    ∃ l st sStar, lookup k (run n0 pre).listeners = some l ∧ l.st.sawForget = true ∧
      (C14.run (l0.st, []) (proj pre)).map (·.2) = some st ∧
      C14.replay (eraseForget l0.st) st = some sStar ∧ sStar = eraseForget l.st ∧
      (minDepth ≤ sStar.depthOf sStar.dsHeight ∨ minDepth ≤ sStar.depthOf sStar.mutualHeight ∨
        minDepth ≤ sStar.depthOf sStar.closingSweptHeight) := by
  obtain ⟨hop, l, hl, hf, hdepth⟩ := C15_prune (run n0 pre) op d k (inv_run i pre) h hgone
  obtain ⟨s, st, hrun, hs⟩ := proj_run' i hl0 hkey hnp hws hl
  have hrep : C14.replay l0.st st = some s := C14.C14_best_chain_valid hsb hv hrun
  refine ⟨hop, l, st, eraseForget l.st, hl, hf, by rw [hrun]; rfl, ?_, rfl, hdepth⟩
  rw [show eraseForget l0.st = setF false l0.st from rfl, replay_setF, hrep]
  exact congrArg some hs

/-- the same with the conclusion on the unerased replay: `C14.replay l0.st st = some s` where `s`
agrees with the live monitor state on everything but the forget flag, in particular on the depths -/
theorem C15_prune_best_chain_unerased (n0 : Node) (pre : List Op) (op : Op) (d k : Nat) (l0 : Listener)
    (i : Inv n0)
    (hl0 : lookup k n0.listeners = some l0) (hsb : l0.st.sawBlock = true)
    (hkey : NoRekey k pre) (hnp : NoPanic n0 pre) (hws : WellStacked [] pre)
    (hv : C14.ValidRun (l0.st, []) (proj pre))
    (h : lookup d (run n0 pre).channels = some (.ready k))
    (hgone : lookup d (step (run n0 pre) op).1.channels ≠ some (.ready k)) :
    op = .heartbeat ∧
    ∃ l s st, lookup k (run n0 pre).listeners = some l ∧ l.st.sawForget = true ∧
      C14.run (l0.st, []) (proj pre) = some (s, st) ∧ C14.replay l0.st st = some s ∧
      (minDepth ≤ s.depthOf s.dsHeight ∨ minDepth ≤ s.depthOf s.mutualHeight ∨
        minDepth ≤ s.depthOf s.closingSweptHeight) := by
  obtain ⟨hop, l, hl, hf, hdepth⟩ := C15_prune (run n0 pre) op d k (inv_run i pre) h hgone
  obtain ⟨s, st, hrun, hs⟩ := proj_run' i hl0 hkey hnp hws hl
  refine ⟨hop, l, s, st, hl, hf, hrun, C14.C14_best_chain_valid hsb hv hrun, ?_⟩
  have e : ∀ x : State, (x.depthOf x.dsHeight, x.depthOf x.mutualHeight,
      x.depthOf x.closingSweptHeight) =
      ((eraseForget x).depthOf (eraseForget x).dsHeight,
        (eraseForget x).depthOf (eraseForget x).mutualHeight,
        (eraseForget x).depthOf (eraseForget x).closingSweptHeight) := fun _ => rfl
  have e' := (e s).trans ((congrArg (fun x : State => (x.depthOf x.dsHeight,
    x.depthOf x.mutualHeight, x.depthOf x.closingSweptHeight)) hs).trans (e l.st).symm)
  simp only [Prod.mk.injEq] at e'
  obtain ⟨e1, e2, e3⟩ := e'
  rw [e1, e2, e3]
  exact hdepth

/-- **C15, prune, on the best chain, whole history.**  If channel `d` is ready with monitor key `k`
in `n0` and no longer so after the history `ops` (same hypotheses on `ops` as in
`C15_prune_best_chain`), then `ops = pre ++ heartbeat :: post` where after `pre` the channel was
still ready, the node had asked to forget it, and a closing event is buried `minDepth` deep in the
replay of the chain surviving `pre`. -/
theorem C15_prune_best_chain_run (n0 : Node) (ops : List Op) (d k : Nat) (l0 : Listener)
    (i : Inv n0)
    (hl0 : lookup k n0.listeners = some l0) (hsb : l0.st.sawBlock = true)
    (hkey : NoRekey k ops) (hnp : NoPanic n0 ops) (hws : WellStacked [] ops)
    (hv : C14.ValidRun (l0.st, []) (proj ops))
    (h : lookup d n0.channels = some (.ready k))
    (hgone : lookup d (run n0 ops).channels ≠ some (.ready k)) :
    ∃ pre post l st sStar, ops = pre ++ .heartbeat :: post ∧
      lookup d (run n0 pre).channels = some (.ready k) ∧
      lookup k (run n0 pre).listeners = some l ∧ l.st.sawForget = true ∧
      (C14.run (l0.st, []) (proj pre)).map (·.2) = some st ∧
      C14.replay (eraseForget l0.st) st = some sStar ∧ sStar = eraseForget l.st ∧
      (minDepth ≤ sStar.depthOf sStar.dsHeight ∨ minDepth ≤ sStar.depthOf sStar.mutualHeight ∨
        minDepth ≤ sStar.depthOf sStar.closingSweptHeight) := by
  obtain ⟨pre, post, l, rfl, hc, hl, hf, hdepth⟩ := C15_prune_run n0 ops d k i h hgone
  obtain ⟨s, st, hrun, hs⟩ := proj_run' i hl0 hkey.prefix hnp.prefix hws.prefix hl
  rw [proj_append] at hv
  have hrep : C14.replay l0.st st = some s :=
    C14.C14_best_chain_valid hsb (validRun_prefix hv) hrun
  refine ⟨pre, post, l, st, eraseForget l.st, rfl, hc, hl, hf, by rw [hrun]; rfl, ?_, rfl, hdepth⟩
  rw [show eraseForget l0.st = setF false l0.st from rfl, replay_setF, hrep]
  exact congrArg some hs

/-! ## 6. Non-vacuity of section 5

`minDepth` is the generated constant 100, so a history that actually prunes needs 100 blocks (too
slow for `decide`); the projection lemma and the hypotheses of `C15_prune_best_chain` are exercised
on short concrete histories instead: new channel, setup, funding block (= `bcN0`), then mutual
close, forget, further blocks, a disconnection, a restart, a heartbeat. -/

def bcFunding : List Tx := [{ txid := 7, inputs := [(1, 0)], nOut := 1, kind := .plain }]
def bcMutual : List Tx := [{ txid := 20, inputs := [(7, 0)], nOut := 1, kind := .plain }]
def bcOther : List Tx := [{ txid := 30, inputs := [(29, 0)], nOut := 2, kind := .plain }]

def bcN0 : Node :=
  run (Node.init 100 false) [.newChannel 5, .setup 5 1 7 0 [(1, 0)], .addBlock bcFunding]

def bcL0 : Listener :=
  { st := { State.init 100 7 0 [(1, 0)] with
      height := 101, fundingHeight := some 101, fundingOutpoint := some (7, 0), sawBlock := true },
    slot := { txidWatches := [7], watches := [(7, 0)], seen := [(1, 0)] } }

def bcOps : List Op :=
  [.addBlock bcMutual, .forget 5, .addBlock bcOther, .restart, .addBlock [], .removeBlock [],
   .heartbeat, .newChannel 6, .addBlock []]

/-- every hypothesis of the projection lemma holds for `bcN0`, `bcOps` -/
example : Inv bcN0 := C15_inv_reachable 100 false _
example : lookup 5 bcN0.channels = some (.ready 1) ∧ lookup 1 bcN0.listeners = some bcL0 ∧
    bcL0.st.sawBlock = true := by decide
example : NoRekey 1 bcOps := by simp [NoRekey, bcOps, Op.rekeys]
example : NoPanic bcN0 bcOps := by decide
example : WellStacked [] bcOps := by simp [WellStacked, bcOps]
example : proj bcOps = [.add bcMutual, .add bcOther, .add [], .remove, .add []] := rfl

/-- the conclusion computed: the live monitor state (flag erased) equals the run of the projected
history, the surviving stack is `[[], bcOther, bcMutual]` (the block `[]` connected after the restart
was disconnected again, another empty block was connected at the end), the forget flag is set, the mutual close is 3 deep, and the live state is
the replay of the surviving chain -/
example :
    (lookup 1 (run bcN0 bcOps).listeners).map (fun l => eraseForget l.st) =
      (C14.run (bcL0.st, []) (proj bcOps)).map (fun p => eraseForget p.1) ∧
    (C14.run (bcL0.st, []) (proj bcOps)).map (·.2) = some [[], bcOther, bcMutual] ∧
    (lookup 1 (run bcN0 bcOps).listeners).map
        (fun l => (l.st.sawForget, l.st.height, l.st.mutualHeight, l.st.depthOf l.st.mutualHeight)) =
      some (true, 104, some 102, 3) ∧
    C14.replay (eraseForget bcL0.st) [[], bcOther, bcMutual] =
      (lookup 1 (run bcN0 bcOps).listeners).map (fun l => eraseForget l.st) := by decide

/-- the monitor state after the mutual-close block -/
def bcS1 : State := { bcL0.st with height := 102, mutualHeight := some 102 }

def bcOps2 : List Op :=
  [.addBlock bcMutual, .forget 5, .addBlock [], .removeBlock [], .restart]

/-- the projected history `[add bcMutual, add [], remove]` satisfies C14's `ValidRun`: all hypotheses
of `C15_prune_best_chain` are jointly satisfiable -/
theorem bc_valid : C14.ValidRun (bcL0.st, []) (proj bcOps2) := by
  have hstep : C14.step (bcL0.st, []) (.add bcMutual) = some (bcS1, [bcMutual]) := by decide
  refine ⟨⟨⟨by decide, by decide, by intro h0 h; simp [bcL0, State.init] at h⟩, ?_, ?_, by decide⟩, ?_⟩
  · exact {
      topo := by simp [Topo, bcMutual]
      noDoubleSpend := by simp [NoDoubleSpend, bcMutual]
      fundOnce := by simp [FundOnce, bcMutual, bcL0, State.init]
      fundFresh := by simp [bcMutual, bcL0, State.init]
      closeOnce := by simp [bcL0, State.init]
      closingFunded := by simp [bcL0, State.init] }
  · exact {
      inputsNodup := by decide
      txidsNodup := by decide
      ourUnspent := by simp [bcL0, State.init]
      htlcUnspent := by simp [bcL0, State.init]
      secondUnspent := by simp [bcL0, State.init]
      secondFresh := by simp [bcL0, State.init]
      fundingLinked := by simp [bcL0, State.init]
      uniLinked := by simp [bcL0, State.init]
      mutualFinal := by simp [bcL0, State.init]
      dsFresh := by simp [bcMutual, bcL0, State.init] }
  · intro p' hp
    rw [hstep] at hp
    cases hp
    show C14.ValidRun (bcS1, [bcMutual]) [.add [], .remove]
    refine ⟨⟨⟨by decide, by decide, by intro h0 h; simp [bcS1, bcL0, State.init] at h⟩, ?_, ?_, by decide⟩,
      fun _ _ => ⟨trivial, fun _ _ => trivial⟩⟩
    · exact {
        topo := trivial
        noDoubleSpend := trivial
        fundOnce := trivial
        fundFresh := by simp
        closeOnce := by simp
        closingFunded := by simp [bcS1, bcL0, State.init] }
    · exact {
        inputsNodup := by decide
        txidsNodup := by decide
        ourUnspent := by simp
        htlcUnspent := by simp
        secondUnspent := by simp
        secondFresh := by simp
        fundingLinked := by simp [bcS1, bcL0, State.init]
        uniLinked := by simp [bcS1, bcL0, State.init]
        mutualFinal := by simp [bcS1, bcL0, State.init]
        dsFresh := by simp }

/-- use of the theorem: after `bcOps2` the mutual close is only 1 deep on the best chain, so no
operation whatsoever makes channel 5 disappear -/
example (op : Op) : lookup 5 (step (run bcN0 bcOps2) op).1.channels = some (.ready 1) := by
  apply Classical.byContradiction
  intro hg
  obtain ⟨_, l, st, sStar, hl, _, _, _, rfl, hd⟩ :=
    C15_prune_best_chain bcN0 bcOps2 op 5 1 bcL0 (C15_inv_reachable 100 false _) (by decide)
      (by decide) (by simp [NoRekey, bcOps2, Op.rekeys]) (by decide)
      (by simp [WellStacked, bcOps2]) bc_valid (by decide) hg
  have hfacts : (lookup 1 (run bcN0 bcOps2).listeners).map
      (fun l => (l.st.depthOf l.st.dsHeight, l.st.depthOf l.st.mutualHeight,
        l.st.depthOf l.st.closingSweptHeight)) = some (0, 1, 0) := by decide
  rw [hl] at hfacts
  simp only [Option.map_some, Option.some.injEq, Prod.mk.injEq] at hfacts
  obtain ⟨h1, h2, h3⟩ := hfacts
  change minDepth ≤ l.st.depthOf l.st.dsHeight ∨ minDepth ≤ l.st.depthOf l.st.mutualHeight ∨
    minDepth ≤ l.st.depthOf l.st.closingSweptHeight at hd
  rw [h1, h2, h3] at hd
  simp [minDepth] at hd

end VlsModel.Props.C15
