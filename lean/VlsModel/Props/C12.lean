import VlsModel.Lemmas.Velocity
import VlsModel.Model.PersistConv
import VlsModel.Gen.PersistConv
import VlsModel.Gen.Approver
/-
C12 — Velocity limits bound spending in every time window, across restarts.

Statement (properties.jsonl): with a payment or fee velocity limit configured, the sum of the
amounts the signer approved within any time window no longer than the tracked interval minus one
bucket never exceeds the limit, whatever the arrival times and sizes of the requests; restarting
the signer does not reset the amount already counted.

Model: `VlsModel/Model/Velocity.lean` (`VC.insert` mirrors `VelocityControl::insert` with the
saturating arithmetic and the panics made explicit; `NodeVC` adds the persisted copy and restart).
Only property theorems live here; helper lemmas are in `VlsModel/Lemmas/Velocity.lean`.
-/
namespace VlsModel.Props.C12
open VlsModel VlsModel.Velocity

/-- Run a list of `(current_sec, amount)` requests; collect the approved ones (newest first).
    `none` = the implementation panicked. -/
def run : VC → Log → List (Nat × Nat) → Option (VC × Log)
  | v, log, [] => some (v, log)
  | v, log, (t, a) :: rest =>
    match v.insert t a with
    | none => none
    | some (v', ok) => run v' (if ok then (t, a) :: log else log) rest

/-- timestamps are non-decreasing and not before `t0` -/
def Sorted (t0 : Nat) : List (Nat × Nat) → Prop
  | [] => True
  | (t, _) :: rest => t0 ≤ t ∧ Sorted t rest

/-- Everything the window argument needs about a control with configuration `(limit, bi, n)` whose
    approved history is `log`, at a moment when no timestamp seen so far exceeds `T`. -/
structure Good (limit bi n T : Nat) (v : VC) (log : Log) : Prop where
  inv : Inv v log
  hbi : v.bi = bi
  hlimit : v.limit = limit
  hlen : v.buckets.length = n
  hstart : v.start ≤ T
  htimes : ∀ p ∈ log, p.1 ≤ T
  hwin : ∀ lo, windowSum log lo (lo + (n - 1) * bi) ≤ limit

theorem Good.mono {limit bi n T T' : Nat} {v : VC} {log : Log}
    (g : Good limit bi n T v log) (h : T ≤ T') : Good limit bi n T' v log :=
  { g with hstart := Nat.le_trans g.hstart h,
           htimes := fun p hp => Nat.le_trans (g.htimes p hp) h }

/-- A fresh control satisfies the invariant with the empty history. -/
theorem good_init (limit bi n : Nat) (hbi : 0 < bi) :
    Good limit bi n 0 (VC.newWithIntervals limit bi n) [] := by
  refine ⟨⟨hbi, ?_, ?_, ?_⟩, rfl, rfl, by simp [VC.newWithIntervals], Nat.le_refl _, ?_, ?_⟩
  · simp [VC.newWithIntervals]
  · intro p hp; cases hp
  · simp only [VC.newWithIntervals, List.length_replicate]
    apply List.ext_getElem
    · simp
    · intro i h1 h2; simp [bsum]
  · intro p hp; cases hp
  · intro lo; simp [windowSum]

/-- **Step theorem**: one request at a time not earlier than every earlier one keeps `Good`;
    in particular the window bound survives the approval of the request. -/
theorem good_step {limit bi n T : Nat} {v : VC} {log : Log} (hn : 0 < n) (hlim : limit < U64.MAX)
    (g : Good limit bi n T v log) (t a : Nat) (ht : T ≤ t) (v' : VC) (ok : Bool)
    (hins : v.insert t a = some (v', ok)) :
    Good limit bi n t v' (if ok then (t, a) :: log else log) := by
  obtain ⟨inv, hbi, hlimit, hlen, hstart, htimes, hwin⟩ := g
  have hlim' : v.limit < U64.MAX := by omega
  obtain ⟨inv', hbi', hlimit', hlen', hstart', hfit⟩ :=
    insert_inv v log t a v' ok inv (Nat.le_trans hstart ht) hlim' hins
  have hbpos : 0 < bi := hbi ▸ inv.bi_pos
  refine ⟨inv', by omega, by omega, by omega, by omega, ?_, ?_⟩
  · intro p hp
    cases ok with
    | false => exact Nat.le_trans (htimes p (by simpa using hp)) ht
    | true =>
      simp only [if_true] at hp
      rcases List.mem_cons.mp hp with rfl | hp
      · exact Nat.le_refl _
      · exact Nat.le_trans (htimes p hp) ht
  · intro lo
    cases ok with
    | false => simpa using hwin lo
    | true =>
      simp only [if_true]
      have hfit' := hfit rfl
      rw [hbi, hlen, hlimit] at hfit'
      unfold windowSum
      simp only [List.map_cons, List.sum_cons]
      split
      · rename_i hin
        have hle : windowSum log lo (lo + (n - 1) * bi) ≤ recent log bi (t / bi) n := by
          apply windowSum_le_recent
          intro p hp hlo _
          exact epoch_close bi n t p.1 hbpos hn (by omega)
        unfold windowSum at hle
        omega
      · have := hwin lo
        unfold windowSum at this
        omega

theorem good_run {limit bi n : Nat} (hn : 0 < n) (hlim : limit < U64.MAX)
    (reqs : List (Nat × Nat)) : ∀ (v : VC) (log : Log) (T : Nat), Good limit bi n T v log →
    Sorted T reqs → ∀ v' log', run v log reqs = some (v', log') → ∃ T', Good limit bi n T' v' log' := by
  induction reqs with
  | nil => intro v log T g _ v' log' h; simp [run] at h; exact ⟨T, h.1 ▸ h.2 ▸ g⟩
  | cons r rest ih =>
    intro v log T g hs v' log' h
    obtain ⟨t, a⟩ := r
    simp only [run] at h
    obtain ⟨ht, hs'⟩ := hs
    cases hi : v.insert t a with
    | none => simp [hi] at h
    | some res =>
      obtain ⟨v1, ok⟩ := res
      simp only [hi] at h
      exact ih v1 _ t (good_step hn hlim g t a ht v1 ok hi) hs' v' log' h

/-- **C12 (main)**.  For every limit below `u64::MAX` ("unlimited" is the excluded setting), every
    bucket interval and bucket count, and every request history with non-decreasing timestamps:
    the amounts approved within any closed time window of length `(n-1)·bucket_interval` sum to at
    most the limit.  (Windows are parameterised by their start `lo`; shorter windows are contained
    in these.) -/
theorem C12_main (limit bi n : Nat) (hbi : 0 < bi) (hn : 0 < n) (hlim : limit < U64.MAX)
    (reqs : List (Nat × Nat)) (hs : Sorted 0 reqs) (v : VC) (log : Log)
    (hrun : run (VC.newWithIntervals limit bi n) [] reqs = some (v, log)) (lo : Nat) :
    windowSum log lo (lo + (n - 1) * bi) ≤ limit := by
  obtain ⟨T', g⟩ := good_run hn hlim reqs _ _ 0 (good_init limit bi n hbi) hs v log hrun
  exact g.hwin lo

theorem windowSum_mono (log : Log) (lo hi hi' : Nat) (h : hi ≤ hi') :
    windowSum log lo hi ≤ windowSum log lo hi' := by
  unfold windowSum
  induction log with
  | nil => simp
  | cons p ps ih =>
    simp only [List.map_cons, List.sum_cons]
    split <;> split <;> omega

/-- shorter windows: any window `[lo, hi]` with `hi - lo ≤ (n-1)·bi`. -/
theorem C12_main_any_window (limit bi n : Nat) (hbi : 0 < bi) (hn : 0 < n) (hlim : limit < U64.MAX)
    (reqs : List (Nat × Nat)) (hs : Sorted 0 reqs) (v : VC) (log : Log)
    (hrun : run (VC.newWithIntervals limit bi n) [] reqs = some (v, log)) (lo hi : Nat)
    (hw : hi ≤ lo + (n - 1) * bi) :
    windowSum log lo hi ≤ limit := by
  have h := C12_main limit bi n hbi hn hlim reqs hs v log hrun lo
  exact Nat.le_trans (windowSum_mono log lo hi _ hw) h

/-- With non-decreasing timestamps and a well-formed configuration the implementation never hits
    one of its arithmetic/index panics. -/
theorem C12_no_panic (limit bi n : Nat) (hbi : 0 < bi) (hn : 0 < n) (hlim : limit < U64.MAX)
    (reqs : List (Nat × Nat)) (hs : Sorted 0 reqs) :
    run (VC.newWithIntervals limit bi n) [] reqs ≠ none := by
  suffices H : ∀ (reqs : List (Nat × Nat)) (v : VC) (log : Log) (T : Nat), Good limit bi n T v log → Sorted T reqs →
      run v log reqs ≠ none from H reqs _ _ 0 (good_init limit bi n hbi) hs
  intro reqs
  induction reqs with
  | nil => intro v log T _ _; simp [run]
  | cons r rest ih =>
    intro v log T g hs
    obtain ⟨t, a⟩ := r
    obtain ⟨ht, hs'⟩ := hs
    simp only [run]
    cases hi : v.insert t a with
    | none =>
      exfalso
      -- insert can only panic on now < start, bi = 0 or an empty bucket vector
      have hb := g.inv.bi_pos
      have hst := Nat.le_trans g.hstart ht
      unfold VC.insert at hi
      rw [if_neg (by omega)] at hi
      simp only at hi
      split at hi
      · cases hi
      · have hl := (shift_inv v log t g.inv hst).2.2
        split at hi
        · rename_i hnil
          rw [hnil] at hl
          have := g.hlen
          simp at hl; omega
        · cases hi
    | some res =>
      obtain ⟨v1, ok⟩ := res
      exact ih v1 _ t (good_step hn hlim g t a ht v1 ok hi) hs'

/-- The generated `spec_to_triple` table (from the current source) only contains well-formed
    configurations, so `C12_main` applies to every control the node can create from a policy. -/
theorem C12_gen_table_ok :
    0 < Gen.Velocity.hourlyInterval ∧ 0 < Gen.Velocity.hourlyBuckets ∧
    0 < Gen.Velocity.dailyInterval ∧ 0 < Gen.Velocity.dailyBuckets ∧
    0 < Gen.Velocity.unlimitedInterval ∧ 0 < Gen.Velocity.unlimitedBuckets := by decide

/-- … and the tracked interval of each policy setting is what its name says: the buckets of an
    `Hourly` control span one hour, those of a `Daily` control one day (so the bound of `C12_spec` is
    a bound over windows of 55 minutes resp. 23 hours, not over whatever the table happens to say). -/
theorem C12_gen_table_span :
    Gen.Velocity.hourlyInterval * Gen.Velocity.hourlyBuckets = 3600 ∧
    Gen.Velocity.dailyInterval * Gen.Velocity.dailyBuckets = 86400 := by decide

/-- `C12_main` instantiated at a policy spec (Hourly/Daily). -/
theorem C12_spec (s : Spec) (hlim : s.triple.1 < U64.MAX)
    (reqs : List (Nat × Nat)) (hs : Sorted 0 reqs) (v : VC) (log : Log)
    (hrun : run (VC.ofSpec s) [] reqs = some (v, log)) (lo : Nat) :
    windowSum log lo (lo + (s.triple.2.2 - 1) * s.triple.2.1) ≤ s.triple.1 := by
  have hpos : 0 < s.triple.2.1 ∧ 0 < s.triple.2.2 := by
    obtain ⟨h1, h2, h3, h4, h5, h6⟩ := C12_gen_table_ok
    cases s with
    | mk l t => cases t <;> simp [Spec.triple] <;> omega
  exact C12_main s.triple.1 s.triple.2.1 s.triple.2.2 hpos.1 hpos.2 hlim reqs hs v log hrun lo

/-! ### Restarts (node level) -/

inductive NodeOp
  | insert (now amt : Nat)
  | restart (policySpec : Spec)

/-- run node-level operations, collecting approvals; `none` = panic -/
def runNode : NodeVC → Log → List NodeOp → Option (NodeVC × Log)
  | n, log, [] => some (n, log)
  | n, log, .insert t a :: rest =>
    match n.insert t a with
    | none => none
    | some (n', ok) => runNode n' (if ok then (t, a) :: log else log) rest
  | n, log, .restart s :: rest => runNode (n.restart s) log rest

/-- timestamps of the inserts are non-decreasing; restarts use the unchanged policy spec `s` -/
def SortedOps (s : Spec) (t0 : Nat) : List NodeOp → Prop
  | [] => True
  | .insert t _ :: rest => t0 ≤ t ∧ SortedOps s t rest
  | .restart s' :: rest => s' = s ∧ SortedOps s t0 rest

theorem ofSpec_matches (s : Spec) : (VC.ofSpec s).specMatches s = true := by
  cases s with
  | mk l t => cases t <;> simp [VC.ofSpec, VC.specMatches, Spec.triple, VC.newWithIntervals]

/-- **C12 (restart)**.  For every history of approvals and restarts (between any two requests) under
    an unchanged policy spec, the window bound still holds: restarting does not reset the amount
    already counted.  The node restarts from the persisted copy, which is older than the in-memory
    control exactly when the last requests were refused. -/
theorem C12_restart (s : Spec) (hlim : s.triple.1 < U64.MAX)
    (ops : List NodeOp) (hs : SortedOps s 0 ops) (n : NodeVC) (log : Log)
    (hrun : runNode (NodeVC.ofSpec s) [] ops = some (n, log)) (lo : Nat) :
    windowSum log lo (lo + (s.triple.2.2 - 1) * s.triple.2.1) ≤ s.triple.1 := by
  have hpos : 0 < s.triple.2.1 ∧ 0 < s.triple.2.2 := by
    obtain ⟨h1, h2, h3, h4, h5, h6⟩ := C12_gen_table_ok
    cases s with
    | mk l t => cases t <;> simp [Spec.triple] <;> omega
  -- invariant: both copies are Good for the same log and both still match the spec
  suffices H : ∀ (ops : List NodeOp) (n : NodeVC) (log : Log) (T : Nat),
      Good s.triple.1 s.triple.2.1 s.triple.2.2 T n.mem log →
      Good s.triple.1 s.triple.2.1 s.triple.2.2 T n.disk log →
      SortedOps s T ops → ∀ n' log', runNode n log ops = some (n', log') →
      ∃ T', Good s.triple.1 s.triple.2.1 s.triple.2.2 T' n'.mem log' by
    have g0 : Good s.triple.1 s.triple.2.1 s.triple.2.2 0 (VC.ofSpec s) [] := by
      have := good_init s.triple.1 s.triple.2.1 s.triple.2.2 hpos.1
      simpa [VC.ofSpec] using this
    obtain ⟨T', g⟩ := H ops (NodeVC.ofSpec s) [] 0 g0 g0 hs n log hrun
    exact g.hwin lo
  intro ops
  induction ops with
  | nil => intro n log T gm _ _ n' log' h; simp [runNode] at h; exact ⟨T, h.1 ▸ h.2 ▸ gm⟩
  | cons op rest ih =>
    intro n log T gm gd hs n' log' h
    cases op with
    | insert t a =>
      obtain ⟨ht, hs'⟩ := hs
      simp only [runNode] at h
      cases hi : n.insert t a with
      | none => simp [hi] at h
      | some res =>
        obtain ⟨n1, ok⟩ := res
        simp only [hi] at h
        unfold NodeVC.insert at hi
        cases hm : n.mem.insert t a with
        | none => simp [hm] at hi
        | some r =>
          obtain ⟨v1, ok1⟩ := r
          have gstep := good_step hpos.2 hlim gm t a ht v1 ok1 hm
          cases ok1 with
          | true =>
            simp [hm] at hi
            obtain ⟨hn1, hok⟩ := hi
            subst hn1; subst hok
            exact ih _ _ t gstep gstep hs' n' log' h
          | false =>
            simp [hm] at hi
            obtain ⟨hn1, hok⟩ := hi
            subst hn1; subst hok
            have gstep' : Good s.triple.1 s.triple.2.1 s.triple.2.2 t v1 log := by simpa using gstep
            have h' : runNode { mem := v1, disk := n.disk } log rest = some (n', log') := by simpa using h
            exact ih { mem := v1, disk := n.disk } log t gstep' (gd.mono ht) hs' n' log' h'
    | restart s' =>
      obtain ⟨hss, hs'⟩ := hs
      subst hss
      simp only [runNode] at h
      -- the persisted copy still matches the spec, so update_spec keeps it
      have hmatch : n.disk.specMatches s' = true := by
        unfold VC.specMatches
        simp [gd.hbi, gd.hlimit, gd.hlen]
      have hre : n.restart s' = { n with mem := n.disk } := by
        simp [NodeVC.restart, VC.restart, VC.updateSpec, hmatch]
      rw [hre] at h
      exact ih { n with mem := n.disk } log T gd gd hs' n' log' h

/-! ### Restarts with a changed policy spec

`C12_restart` fixes the policy spec.  `Node::new_full` applies `update_spec(policy spec)` to the restored
control: a control whose limit, bucket interval or bucket count differs from the configured spec is replaced by
a fresh one (in memory; the store keeps the old control until the next approval is persisted).  The statement
for arbitrary specs at every restart: whatever the sequence of configurations, the control in memory always
bounds the approvals *it accounts for* — all approvals since the control now in memory was created — in
every window of its own tracked interval minus one bucket, with its own limit.  A restart under a matching spec
keeps the whole history (`runNodeAny` hands the persisted history on), so nothing counted is reset; a control
assembled from the geometry of one spec and the buckets of another (what `load_from_state` would build from a
stale state) is *not* of this form: see the example below. -/

/-- the invariant of `good_step` stated with the control's own geometry -/
structure GoodOwn (T : Nat) (v : VC) (log : Log) : Prop where
  good : Good v.limit v.bi v.buckets.length T v log
  hn : 0 < v.buckets.length
  hlim : v.limit < U64.MAX

theorem GoodOwn.mono {T T' : Nat} {v : VC} {log : Log} (g : GoodOwn T v log) (h : T ≤ T') : GoodOwn T' v log :=
  ⟨g.good.mono h, g.hn, g.hlim⟩

theorem goodOwn_step {T : Nat} {v : VC} {log : Log} (g : GoodOwn T v log) (t a : Nat) (ht : T ≤ t)
    (v' : VC) (ok : Bool) (hins : v.insert t a = some (v', ok)) :
    GoodOwn t v' (if ok then (t, a) :: log else log) := by
  have gs := good_step g.hn g.hlim g.good t a ht v' ok hins
  have h1 := gs.hbi
  have h2 := gs.hlimit
  have h3 := gs.hlen
  refine ⟨?_, by have := g.hn; omega, by have := g.hlim; omega⟩
  rw [h1, h2, h3]
  exact gs

theorem goodOwn_ofSpec (s : Spec) (hlim : s.triple.1 < U64.MAX) (T : Nat) : GoodOwn T (VC.ofSpec s) [] := by
  have hpos : 0 < s.triple.2.1 ∧ 0 < s.triple.2.2 := by
    obtain ⟨h1, h2, h3, h4, h5, h6⟩ := C12_gen_table_ok
    cases s with
    | mk l t => cases t <;> simp [Spec.triple] <;> omega
  have g0 := (good_init s.triple.1 s.triple.2.1 s.triple.2.2 hpos.1).mono (Nat.zero_le T)
  have e1 : (VC.ofSpec s).limit = s.triple.1 := by simp [VC.ofSpec, VC.newWithIntervals]
  have e2 : (VC.ofSpec s).bi = s.triple.2.1 := by simp [VC.ofSpec, VC.newWithIntervals]
  have e3 : (VC.ofSpec s).buckets.length = s.triple.2.2 := by simp [VC.ofSpec, VC.newWithIntervals]
  refine ⟨?_, by omega, by omega⟩
  rw [e1, e2, e3]
  simpa [VC.ofSpec] using g0

/-- node-level run in which every restart may come with a different policy spec.  Two histories are carried:
    the approvals the control in memory accounts for and those the persisted control accounts for. -/
def runNodeAny : NodeVC → Log → Log → List NodeOp → Option (NodeVC × Log × Log)
  | n, ml, dl, [] => some (n, ml, dl)
  | n, ml, dl, .insert t a :: rest =>
    match n.insert t a with
    | none => none
    | some (n', true) => runNodeAny n' ((t, a) :: ml) ((t, a) :: ml) rest     -- approved: persisted
    | some (n', false) => runNodeAny n' ml dl rest                            -- refused: memory only
  | n, ml, dl, .restart s :: rest =>
    -- `update_spec`: the persisted control is kept iff it matches the spec
    runNodeAny (n.restart s) (if n.disk.specMatches s then dl else []) dl rest

/-- insert timestamps are non-decreasing; every configured spec is a real limit (not `Unlimited`) -/
def SortedAny (t0 : Nat) : List NodeOp → Prop
  | [] => True
  | .insert t _ :: rest => t0 ≤ t ∧ SortedAny t rest
  | .restart s :: rest => s.triple.1 < U64.MAX ∧ SortedAny t0 rest

/-- **C12 (restart, any sequence of configurations)** -/
theorem C12_restart_any_spec (ops : List NodeOp) : ∀ (n : NodeVC) (ml dl : Log) (T : Nat),
    GoodOwn T n.mem ml → GoodOwn T n.disk dl → SortedAny T ops →
    ∀ n' ml' dl', runNodeAny n ml dl ops = some (n', ml', dl') →
    ∀ lo, windowSum ml' lo (lo + (n'.mem.buckets.length - 1) * n'.mem.bi) ≤ n'.mem.limit := by
  induction ops with
  | nil =>
    intro n ml dl T gm _ _ n' ml' dl' h lo
    simp only [runNodeAny, Option.some.injEq, Prod.mk.injEq] at h
    obtain ⟨h1, h2, _⟩ := h
    subst h1; subst h2
    exact gm.good.hwin lo
  | cons op rest ih =>
    intro n ml dl T gm gd hs n' ml' dl' h
    cases op with
    | insert t a =>
      obtain ⟨ht, hs'⟩ := hs
      simp only [runNodeAny] at h
      cases hm : n.mem.insert t a with
      | none => simp [NodeVC.insert, hm] at h
      | some r =>
        obtain ⟨v1, ok1⟩ := r
        have gstep := goodOwn_step gm t a ht v1 ok1 hm
        cases ok1 with
        | true =>
          simp only [NodeVC.insert, hm] at h
          exact ih _ _ _ t gstep gstep hs' n' ml' dl' h
        | false =>
          simp only [NodeVC.insert, hm] at h
          have gstep' : GoodOwn t v1 ml := by simpa using gstep
          exact ih { mem := v1, disk := n.disk } ml dl t gstep' (gd.mono ht) hs' n' ml' dl' h
    | restart s =>
      obtain ⟨hlim, hs'⟩ := hs
      simp only [runNodeAny] at h
      cases hmatch : n.disk.specMatches s with
      | true =>
        have hre : n.restart s = { n with mem := n.disk } := by
          simp [NodeVC.restart, VC.restart, VC.updateSpec, hmatch]
        rw [hre, hmatch] at h
        exact ih { n with mem := n.disk } dl dl T gd gd hs' n' ml' dl' (by simpa using h)
      | false =>
        have hre : n.restart s = { n with mem := VC.ofSpec s } := by
          simp [NodeVC.restart, VC.restart, VC.updateSpec, hmatch]
        rw [hre, hmatch] at h
        exact ih { n with mem := VC.ofSpec s } [] dl T (goodOwn_ofSpec s hlim T) gd hs' n' ml' dl' (by simpa using h)

/-- from a fresh node: the bound for the control in memory after any history of approvals and restarts under
    changing configurations -/
theorem C12_restart_any_spec_init (s : Spec) (hlim : s.triple.1 < U64.MAX) (ops : List NodeOp)
    (hs : SortedAny 0 ops) (n' : NodeVC) (ml' dl' : Log)
    (h : runNodeAny (NodeVC.ofSpec s) [] [] ops = some (n', ml', dl')) (lo : Nat) :
    windowSum ml' lo (lo + (n'.mem.buckets.length - 1) * n'.mem.bi) ≤ n'.mem.limit :=
  C12_restart_any_spec ops (NodeVC.ofSpec s) [] [] 0 (goodOwn_ofSpec s hlim 0) (goodOwn_ofSpec s hlim 0) hs n' ml' dl' h lo

/-- non-vacuity: hourly 1000 → 900 approved; restart under a *daily* 1000 spec installs a fresh daily control
    (24 one-hour buckets); 900 more are approved; 13 hours later 200 more are refused (the daily control still
    counts the 900), and a restart back under the same daily spec keeps that history -/
example : (runNodeAny (NodeVC.ofSpec ⟨1000, .hourly⟩) [] []
      [.insert 1000000 900, .restart ⟨1000, .daily⟩, .insert 1000100 900, .restart ⟨1000, .daily⟩,
       .insert 1046900 200]).map (fun r => (r.2.1, r.1.mem.buckets.length, r.1.mem.bi))
      = some ([(1000100, 900)], 24, 3600) := by decide

/-- … whereas the control that `load_from_state(daily spec, persisted hourly state)` would build — daily limit
    and bucket interval, but the twelve persisted buckets — forgets after twelve hours: 900 + 900 approved
    within 13 hours under a 1000/day limit.  `update_spec` never produces such a control (`specMatches` compares
    the bucket count), which is why `C12_restart_any_spec` holds. -/
example :
    let stale := VC.loadFromState ⟨1000, .daily⟩ (VC.ofSpec ⟨1000, .hourly⟩).getState
    stale.buckets.length = 12 ∧ stale.bi = 3600 ∧ stale.specMatches ⟨1000, .daily⟩ = false ∧
    (run stale [] [(1000000, 900), (1046900, 900)]).map (·.2) = some [(1046900, 900), (1000000, 900)] := by decide

/-! ### The approver-level control (`VelocityApprover`, vls-protocol-signer/src/approver.rs)

In front of the node the signer may run a `VelocityApprover`: a request is approved *automatically* while the
approver's own control accepts it; what the control refuses goes to a delegate (a human), and a manual approval
clears the control.  The property speaks about what the signer approves by itself: the automatically approved
amounts since the last manual approval obey the window bound, whatever the delegate answers. -/

theorem good_clear {limit bi n T : Nat} {v : VC} {log : Log} (g : Good limit bi n T v log) :
    Good limit bi n T v.clear [] := by
  obtain ⟨inv, hbi, hlimit, hlen, hstart, htimes, hwin⟩ := g
  refine ⟨⟨inv.bi_pos, inv.aligned, ?_, ?_⟩, hbi, hlimit, by simpa [VC.clear] using hlen, hstart, ?_, ?_⟩
  · intro p hp; cases hp
  · simp only [VC.clear, List.length_map]
    apply List.ext_getElem
    · simp
    · intro i h1 h2; simp [bsum]
  · intro p hp; cases hp
  · intro lo; simp [windowSum]

/-- requests `(time, amount, what the delegate would answer)`; the log collects the automatic approvals since the
    last manual one -/
def runApprover : VC → Log → List (Nat × Nat × Bool) → Option (VC × Log)
  | v, log, [] => some (v, log)
  | v, log, (t, a, d) :: rest =>
    match v.approve t a d with
    | none => none
    | some (v', _, true) => runApprover v' ((t, a) :: log) rest       -- automatic
    | some (v', true, false) => runApprover v' [] rest                 -- manual approval: the control was cleared
    | some (v', false, false) => runApprover v' log rest               -- declined

def SortedA (t0 : Nat) : List (Nat × Nat × Bool) → Prop
  | [] => True
  | (t, _, _) :: rest => t0 ≤ t ∧ SortedA t rest

/-- **C12 (approver)**: for every limit below `u64::MAX`, every geometry and every request history with
    non-decreasing timestamps — whatever the delegate answers —, the amounts the approver approved by itself since
    the last manual approval sum to at most the limit in every window of the tracked interval minus one bucket. -/
theorem C12_approver (limit bi n : Nat) (hbi : 0 < bi) (hn : 0 < n) (hlim : limit < U64.MAX)
    (reqs : List (Nat × Nat × Bool)) (hs : SortedA 0 reqs) (v : VC) (log : Log)
    (hrun : runApprover (VC.newWithIntervals limit bi n) [] reqs = some (v, log)) (lo : Nat) :
    windowSum log lo (lo + (n - 1) * bi) ≤ limit := by
  suffices H : ∀ (reqs : List (Nat × Nat × Bool)) (v0 : VC) (log0 : Log) (T : Nat), Good limit bi n T v0 log0 →
      SortedA T reqs → ∀ v log, runApprover v0 log0 reqs = some (v, log) → ∃ T', Good limit bi n T' v log by
    obtain ⟨T', g⟩ := H reqs _ _ 0 (good_init limit bi n hbi) hs v log hrun
    exact g.hwin lo
  intro reqs
  induction reqs with
  | nil => intro v0 log0 T g _ v log h; simp [runApprover] at h; exact ⟨T, h.1 ▸ h.2 ▸ g⟩
  | cons r rest ih =>
    intro v0 log0 T g hs v log h
    obtain ⟨t, a, d⟩ := r
    obtain ⟨ht, hs'⟩ := hs
    simp only [runApprover, VC.approve] at h
    cases hi : v0.insert t a with
    | none => simp [hi] at h
    | some res =>
      obtain ⟨v1, ok⟩ := res
      have gs := good_step hn hlim g t a ht v1 ok hi
      cases ok with
      | true =>
        simp only [hi] at h
        exact ih v1 _ t (by simpa using gs) hs' v log h
      | false =>
        have gs' : Good limit bi n t v1 log0 := by simpa using gs
        cases d with
        | true =>
          simp only [hi, if_true] at h
          exact ih v1.clear [] t (good_clear gs') hs' v log h
        | false =>
          simp only [hi, Bool.false_eq_true, if_false] at h
          exact ih v1 log0 t gs' hs' v log h

/-- with a delegate that always declines (`NegativeApprover`, the harness's and a headless signer's setting) the
    approver is the plain control: approved = inserted, and `C12_main` is the statement about everything approved -/
theorem C12_approver_negative (v : VC) (now amt : Nat) :
    v.approve now amt false = (v.insert now amt).map (fun r => (r.1, r.2, r.2)) := by
  unfold VC.approve
  cases v.insert now amt with
  | none => rfl
  | some r => obtain ⟨v', ok⟩ := r; cases ok <;> rfl

/-- **C12_gen_approver_form** (generated obligation): `VC.approve` mirrors the source — the extractor emits these
    two constants only when `approve_invoice` / `approve_keysend` / `approve_onchain` of
    `impl Approve for VelocityApprover` have exactly the modelled text -/
theorem C12_gen_approver_form :
    Gen.Approver.velocityApproverForm = true ∧ Gen.Approver.onchainDelegatesOnly = true := ⟨rfl, rfl⟩

/-- non-vacuity: 90 approved automatically, 20 refused by the control and approved by hand (the control is
    cleared), then 100 more approved automatically at once -/
example : (runApprover (VC.newWithIntervals 100 10 4) [] [(1100, 90, false), (1101, 20, true), (1102, 100, false), (1103, 1, false)]).map (·.2)
    = some [(1102, 100)] := by decide

/-! ### Tie to the source: the controls reach the store and come back (translate/x_persistconv.py) -/

open VlsModel.PersistConv VlsModel.Gen.PersistConv in
/-- **C12_gen_census_velocity** (generated obligation): in the current sources (a) both velocity controls are
    fields of the persisted node entry and are read back into the same fields by the restore path, (b) all four
    fields of a control (start second, bucket interval, buckets, limit) are copied into the persisted control
    and back — the model's `NodeVC.restart` restarts from the *whole* control —, and (c) `Node::new_full` passes
    both restored controls through `update_spec(policy spec)` (= `VC.restart`, tied by `C12_fn_update_spec`). -/
theorem C12_gen_census_velocity :
    (∀ f ∈ [NodeStateF.velocity_control, .fee_velocity_control],
        (Conv.mk nodeSave nodeLoad).roundTrips f = true ∧ velocityUpdateSpec.contains f = true) ∧
    VelocityF.all.filter (fun f => (Conv.mk velocitySave velocityLoad).roundTrips f) = VelocityF.all ∧
    VelocityF.all = [.start_sec, .bucket_interval, .buckets, .limit] := by decide

/-! ### Non-vacuity: the hypotheses are met by concrete non-trivial histories -/

/-- the repository's own unit-test scenario: approvals and refusals, shifts across boundaries -/
example : ∃ v log, run (VC.newWithIntervals 100 10 4) []
    [(1100, 90), (1101, 11), (1101, 10), (1139, 90), (1140, 90), (1150, 5)] = some (v, log)
    ∧ log = [(1150, 5), (1140, 90), (1101, 10), (1100, 90)]
    ∧ Sorted 0 [(1100, 90), (1101, 11), (1101, 10), (1139, 90), (1140, 90), (1150, 5)] := by
  refine ⟨_, _, rfl, ?_, ?_⟩
  · decide
  · simp [Sorted]

/-- a restart between two approvals under a 1000 msat/hour policy: the second 900 msat is refused -/
example : (runNode (NodeVC.ofSpec ⟨1000, .hourly⟩) []
    [.insert 1000000 900, .restart ⟨1000, .hourly⟩, .insert 1000000 900]).map (·.2) = some [(1000000, 900)]
    ∧ SortedOps ⟨1000, .hourly⟩ 0 [.insert 1000000 900, .restart ⟨1000, .hourly⟩, .insert 1000000 900] := by
  refine ⟨by decide, ?_⟩
  simp [SortedOps]

/-- the bound is tight: a window one bucket longer can hold more than the limit -/
example : ∃ v log, run (VC.newWithIntervals 100 10 4) [] [(1100, 100), (1140, 100)] = some (v, log)
    ∧ windowSum log 1100 (1100 + 4 * 10) = 200 := ⟨_, _, rfl, by decide⟩

end VlsModel.Props.C12
