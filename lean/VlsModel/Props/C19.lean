import VlsModel.Model.Wire
import VlsModel.Gen.WireSchema
namespace VlsModel.Props.C19
open VlsModel.Wire VlsModel.Gen.WireSchema

theorem C19_schema_wf : registryAll.all (fun e => e.ty.okAt true) = true := by decide +kernel

end VlsModel.Props.C19
