import VlsModel.Lemmas.Wire
import VlsModel.Gen.WireSchema
import VlsModel.Gen.WireFrame
/-
C19 — protocol messages survive the wire unchanged.

Full statement: for every message type of the protocol registry and every field value,
`from_vec (as_vec m)` is `m`, of the same type; a streamed PSBT decodes to the same tx, per-input
previous outputs and segwit flags.

What is proved (all unbounded; the schema and registry are regenerated from msgs.rs / model.rs):
 * `Wire_roundtrip`   generic codec: ∀ type code, ∀ well-formed value, `dec t (enc t v ++ rest) = (v, rest)`
 * `C19_main`         ∀ registry, ∀ entry that is not shadowed, ∀ well-formed value within the message size
                      limit: `fromVec (asVec m) = m` with the same variant
 * `C19_main_registry` / `C19_main_registryAll`   the same instantiated on the generated registry
                      (default build / with feature `developer`)
 * `C19_schema_wf`, `C19_registry`, `C19_registry_dispatch`   facts of the generated table (`decide +kernel`)
 * `C19_psbt`         StreamedPSBT decode on the parsed PSBT: tx unchanged, per input prevout and flag
The full statement (`C19_full`) holds for the generated registry since fix 8f90c81 of /repo gave
SignLocalHtlcTx2 its own id (it shared id 20 with SignRemoteHtlcTx and could never be decoded).  Values outside `wf` are outside the theorem: the real encoder
panics (Octets > 65535, NUL in WireString), truncates (Array length ≥ 65536: `C19_array_truncates`) or the
decoder refuses (message > MAX_MESSAGE_SIZE: `C19_too_large_rejected`).
Opaque leaves (Transaction, PSBT, TxoProof, TLV options) enter through the hypothesis `L.RT`.
-/
namespace VlsModel.Props.C19
open VlsModel.Wire VlsModel.Gen.WireSchema

variable {α : Type} (L : LeafCodec α)

/-- Generic round trip, by induction on the type code.  `tl = true`: `t` is decoded at the end of a
    window, so nothing may follow; `tl = false`: arbitrary bytes may follow and are left untouched. -/
theorem Wire_roundtrip (hL : L.RT) : ∀ (t : Ty) (tl : Bool) (v : Val α) (rest : Bytes),
    t.okAt tl = true → wf L t v = true → (tl = true → rest = []) →
    dec L t (enc L t v ++ rest) = some (v.norm L.norm, rest) := by
  intro t
  induction t with
  | uint k le =>
    intro tl v rest _ hw _
    cases v <;> simp [wf] at hw
    rename_i n
    cases le
    · simp [enc, dec, splitAt?_append _ _ _ (beBytes_length k n), beVal_beBytes k n hw, Val.norm]
    · have : (beBytes k n).reverse.length = k := by simp [beBytes_length]
      simp [enc, dec, splitAt?_append _ _ _ this, beVal_beBytes k n hw, Val.norm]
  | bool =>
    intro tl v rest _ hw _
    cases v <;> simp [wf] at hw
    simp [enc, dec, bool_byte, Val.norm]
  | fixed n =>
    intro tl v rest _ hw _
    cases v <;> simp [wf] at hw
    simp [enc, dec, splitAt?_append _ _ _ hw, Val.norm]
  | octets =>
    intro tl v rest _ hw _
    cases v <;> simp [wf] at hw
    rename_i b
    simp [enc, dec, List.append_assoc, splitAt?_append _ _ _ (beBytes_length 2 b.length),
      beVal_beBytes 2 b.length (by simpa using hw), splitAt?_append _ b rest rfl, Val.norm]
  | largeOctets =>
    intro tl v rest _ hw _
    cases v <;> simp [wf] at hw
    rename_i b
    have h4 : b.length < 256 ^ 4 := by simp [MAX_VEC_SIZE] at hw; omega
    simp [enc, dec, List.append_assoc, splitAt?_append _ _ _ (beBytes_length 4 b.length),
      beVal_beBytes 4 b.length h4, splitAt?_append _ b rest rfl, Val.norm, hw]
  | wireString =>
    intro tl v rest _ hw _
    cases v <;> simp [wf] at hw
    rename_i b
    have hb : b.contains 0 = false := by simpa using hw
    simp [enc, dec, List.append_assoc, splitNul_append b rest hb, Val.norm]
  | array t ih =>
    intro tl v rest hok hw _
    simp [wf] at hw
    simp [Ty.okAt] at hok
    have := decArr_encArr (enc L t) (dec L t) (wf L t) L.norm
      (fun x r hx => ih false x r hok hx (by simp)) v rest hw.1
    simp [enc, dec, List.append_assoc, splitAt?_append _ _ _ (beBytes_length 2 (vlen v)),
      beVal_beBytes 2 (vlen v) (by simpa using hw.2), this]
  | option t ih =>
    intro tl v rest hok hw hr
    simp [Ty.okAt] at hok
    cases v <;> simp [wf] at hw
    · simp [enc, dec, Val.norm]
    · rename_i x
      simp [enc, dec, ih tl x rest hok hw hr, Val.norm]
  | withSize t ih =>
    intro tl v rest hok hw _
    simp [Ty.okAt] at hok
    simp [wf] at hw
    have h4 : (enc L t v).length < 256 ^ 4 := by have := hw.2; simp [MAX_VEC_SIZE] at this; omega
    have hi := ih true v [] hok hw.1 (fun _ => rfl)
    simp at hi
    simp [enc, dec, List.append_assoc, splitAt?_append _ _ _ (beBytes_length 4 _),
      beVal_beBytes 4 _ h4, splitAt?_append _ (enc L t v) rest rfl, hi, hw.2]
  | leaf l =>
    intro tl v rest hok hw hr
    simp [Ty.okAt] at hok
    cases v <;> simp [wf] at hw
    rename_i a
    simp [enc, dec, hr hok, hL l a hw, Val.norm]
  | unit =>
    intro tl v rest _ hw _
    cases v <;> simp [wf] at hw
    simp [enc, dec, Val.norm]
  | pair a b iha ihb =>
    intro tl v rest hok hw hr
    simp [Ty.okAt] at hok
    cases v <;> simp [wf] at hw
    rename_i x y
    simp [enc, dec, List.append_assoc, iha false x _ hok.1 hw.1 (by simp), ihb tl y rest hok.2 hw.2 hr, Val.norm]


/-- `from_vec (as_vec m) = m` for every entry of any registry whose id dispatches to itself. -/
theorem C19_main (hL : L.RT) (reg : List Entry) (maxMsg i : Nat) (e : Entry) (v : Val α)
    (hi : reg[i]? = some e) (hns : i ∉ shadowedIdx reg)
    (hid : e.id < 65536) (hok : e.ty.okAt true = true)
    (hw : wf L e.ty v = true) (hlen : (asVec L e v).length ≤ maxMsg) :
    fromVec L reg maxMsg (asVec L e v) = .ok (.msg i (v.norm L.norm)) := by
  have hd := dispatch_of_not_shadowed reg i e hi hns
  have hrt := Wire_roundtrip L hL e.ty true v [] hok hw (fun _ => rfl)
  simp at hrt
  have h2 : ¬ (asVec L e v).length < 2 := by simp [asVec, beBytes_length]
  have h3 : ¬ (asVec L e v).length > maxMsg := by omega
  have ht : (asVec L e v).take 2 = beBytes 2 e.id := by
    simp [asVec, List.take_left' (beBytes_length 2 e.id)]
  have hdr : (asVec L e v).drop 2 = enc L e.ty v := by
    simp [asVec, List.drop_left' (beBytes_length 2 e.id)]
  simp only [fromVec, h2, h3, if_false, ht, hdr, beVal_beBytes 2 e.id (by simpa using hid), hd, hi, hrt]
  simp

/-- table facts used by the instantiation -/
def regOk (reg : List Entry) : Bool := reg.all fun e => decide (e.id < 65536) && e.ty.okAt true

theorem regOk_get (reg : List Entry) (h : regOk reg = true) (i : Nat) (e : Entry) (hi : reg[i]? = some e) :
    e.id < 65536 ∧ e.ty.okAt true = true := by
  have hm : e ∈ reg := List.mem_of_getElem? hi
  have := List.all_eq_true.mp h e hm
  simpa using this

/-- generated table: every message id fits u16 and every message struct keeps its greedy leaves
    (PSBT, proof, TLV options) at the end of a decode window -/
theorem C19_schema_wf : regOk registryAll = true ∧ regOk registry = true := by
  constructor <;> decide +kernel

/-- generated table: no message id is shadowed, in both build configurations: every variant's id
    dispatches to that variant (hence the ids are pairwise distinct, next theorems).  Before fix
    8f90c81 of /repo this table had exactly one shadowed id (20: SignLocalHtlcTx2 behind
    SignRemoteHtlcTx) and the full statement was refuted by that witness. -/
theorem C19_registry : shadowedIdx registryAll = [] ∧ shadowedIdx registry = [] := by
  constructor <;> decide +kernel

/-- every variant that is not shadowed dispatches to its own struct, and `dispatch` never returns a
    struct with another id (general, by induction on the table) -/
theorem C19_registry_dispatch (reg : List Entry) (i : Nat) (e : Entry) (hi : reg[i]? = some e)
    (hns : i ∉ shadowedIdx reg) :
    dispatch reg e.id = some i ∧ ∀ j e', j < i → reg[j]? = some e' → e'.id ≠ e.id :=
  ⟨dispatch_of_not_shadowed reg i e hi hns, (dispatch_spec reg e.id i (dispatch_of_not_shadowed reg i e hi hns)).2⟩

/-- the ids of the not-shadowed variants are pairwise distinct -/
theorem C19_registry_distinct (reg : List Entry) (i j : Nat) (e e' : Entry)
    (hi : reg[i]? = some e) (hj : reg[j]? = some e')
    (hni : i ∉ shadowedIdx reg) (hnj : j ∉ shadowedIdx reg) (hid : e.id = e'.id) : i = j := by
  have h1 := dispatch_of_not_shadowed reg i e hi hni
  have h2 := dispatch_of_not_shadowed reg j e' hj hnj
  rw [hid, h2] at h1
  exact (Option.some.inj h1).symm

/-- C19 for the generated registry (default build) -/
theorem C19_main_registry (hL : L.RT) (i : Nat) (e : Entry) (v : Val α)
    (hi : registry[i]? = some e) (hns : i ∉ shadowedIdx registry)
    (hw : wf L e.ty v = true) (hlen : (asVec L e v).length ≤ maxMessageSize) :
    fromVec L registry maxMessageSize (asVec L e v) = .ok (.msg i (v.norm L.norm)) :=
  have h := regOk_get registry C19_schema_wf.2 i e hi
  C19_main L hL registry maxMessageSize i e v hi hns h.1 h.2 hw hlen

/-- C19 for the generated registry with feature `developer` -/
theorem C19_main_registryAll (hL : L.RT) (i : Nat) (e : Entry) (v : Val α)
    (hi : registryAll[i]? = some e) (hns : i ∉ shadowedIdx registryAll)
    (hw : wf L e.ty v = true) (hlen : (asVec L e v).length ≤ maxMessageSize) :
    fromVec L registryAll maxMessageSize (asVec L e v) = .ok (.msg i (v.norm L.norm)) :=
  have h := regOk_get registryAll C19_schema_wf.1 i e hi
  C19_main L hL registryAll maxMessageSize i e v hi hns h.1 h.2 hw hlen

/-- when every leaf decodes to itself (everything but StreamedPSBT) the decoded message is equal -/
theorem C19_main_equal (hL : L.RT) (hn : L.norm = id) (i : Nat) (e : Entry) (v : Val α)
    (hi : registry[i]? = some e) (hns : i ∉ shadowedIdx registry)
    (hw : wf L e.ty v = true) (hlen : (asVec L e v).length ≤ maxMessageSize) :
    fromVec L registry maxMessageSize (asVec L e v) = .ok (.msg i v) := by
  have := C19_main_registry L hL i e v hi hns hw hlen
  rwa [hn, Val.norm_id] at this

/-! ### the full statement; outside `wf` -/

/-- leaf codec in which a leaf is its own serialisation (what the driver uses) -/
def Lid : LeafCodec Bytes := { ser := id, de := fun _ b => some b, norm := id, ok := fun _ _ => true }

theorem Lid_RT : Lid.RT := by intro l a _; rfl

/-- entry `i` of the default registry (closed term for `decide`) -/
def entryAt (i : Nat) : Entry := registry.getD i { name := "", id := 0, ty := .unit }

/-- index the id dispatches to -/
def idxOfId (id : Nat) : Nat := (dispatch registry id).getD 0

/-- **C19 at full strength** for the generated registry of the current source: EVERY message type of
    the registry and every well-formed value within the size limit decodes from its own encoding to
    the same variant with the same content (no side condition on the variant any more). -/
theorem C19_full (hL : L.RT) (i : Nat) (e : Entry) (v : Val α)
    (hi : registry[i]? = some e)
    (hw : wf L e.ty v = true) (hlen : (asVec L e v).length ≤ maxMessageSize) :
    fromVec L registry maxMessageSize (asVec L e v) = .ok (.msg i (v.norm L.norm)) :=
  C19_main_registry L hL i e v hi (by rw [C19_registry.2]; simp) hw hlen

/-- the same with feature `developer` -/
theorem C19_full_all (hL : L.RT) (i : Nat) (e : Entry) (v : Val α)
    (hi : registryAll[i]? = some e)
    (hw : wf L e.ty v = true) (hlen : (asVec L e v).length ≤ maxMessageSize) :
    fromVec L registryAll maxMessageSize (asVec L e v) = .ok (.msg i (v.norm L.norm)) :=
  C19_main_registryAll L hL i e v hi (by rw [C19_registry.1]; simp) hw hlen

/-- a SignLocalHtlcTx2 (the formerly shadowed message): tx, input, per_commitment_number, offered,
    cltv_expiry, htlc_amount_msat, payment_hash — now it comes back as itself -/
def formerlyShadowed : Val Bytes :=
  .pair (.leaf [1, 2]) (.pair (.nat 0) (.pair (.nat 7) (.pair (.bool true) (.pair (.nat 500) (.pair (.nat 1000)
    (.bytes (List.replicate 32 0xab)))))))

example : (entryAt (idxOfId 1020)).name = "SignLocalHtlcTx2" ∧
    isMsg (fromVec Lid registry maxMessageSize (asVec Lid (entryAt (idxOfId 1020)) formerlyShadowed))
      (idxOfId 1020) formerlyShadowed = true := by decide +kernel

/-- outside `wf`: an `Array` of 65536 elements is encoded with count 0 (`len as u16`), what follows is
    read as trailing bytes (here: HsmdInit2 with 65536 empty allowlist strings would be rejected) -/
theorem C19_array_truncates (t : Ty) (v : Val α) (h : vlen v = 65536) :
    (enc L (.array t) v).take 2 = [0, 0] := by
  have : beBytes 2 65536 = [0, 0] := by decide
  simp [enc, h, this]

/-- outside `wf`: anything longer than MAX_MESSAGE_SIZE is refused by `from_vec` -/
theorem C19_too_large_rejected (reg : List Entry) (maxMsg : Nat) (bs : Bytes)
    (h : bs.length > maxMsg) (h2 : 2 ≤ bs.length) : fromVec L reg maxMsg bs = .error .tooLarge := by
  have : ¬ bs.length < 2 := by omega
  simp [fromVec, this, h]

/-! ### no 16-bit cap on u32-prefixed parts

`wf` bounds a `WithSize` content and a `LargeOctets` only by `MAX_VEC_SIZE` (4 000 000), never by 2^16;
the only other bound is the message frame.  So PSBTs / transactions / proofs of 65 536 bytes and more
are inside the domain of `Wire_roundtrip` / `C19_full`. -/

theorem C19_wf_withSize_leaf (l : Leaf) (a : α) :
    wf L (.withSize (.leaf l)) (.leaf a) = true ↔ (L.ok l a = true ∧ (L.ser a).length ≤ MAX_VEC_SIZE) := by
  simp only [wf, enc, Bool.and_eq_true]
  constructor
  · intro ⟨h1, h2⟩; exact ⟨h1, of_decide_eq_true h2⟩
  · intro ⟨h1, h2⟩; exact ⟨h1, decide_eq_true h2⟩

theorem C19_wf_largeOctets (b : Bytes) :
    wf L .largeOctets (.bytes b) = true ↔ b.length ≤ MAX_VEC_SIZE := by
  simp [wf]

/-- SignWithdrawalReply {psbt: WithSize<PsbtWrapper>} (id 107): EVERY valid PSBT that fits the message
    frame (131072 - 2 - 4 bytes, i.e. far beyond 65535) decodes from its own encoding. -/
theorem C19_large_psbt_reply (hL : L.RT) (a : α) (hok : L.ok .psbt a = true)
    (hlen : (L.ser a).length + 6 ≤ maxMessageSize) :
    fromVec L registry maxMessageSize (asVec L (entryAt (idxOfId 107)) (.leaf a))
      = .ok (.msg (idxOfId 107) (.leaf (L.norm a))) := by
  have hget : registry[idxOfId 107]? = some (entryAt (idxOfId 107)) := by
    have hlt : idxOfId 107 < registry.length := by decide +kernel
    simp [entryAt, List.getD, List.getElem?_eq_getElem hlt]
  have hty : (entryAt (idxOfId 107)).ty = .withSize (.leaf .psbt) := by decide +kernel
  have hmax : maxMessageSize ≤ MAX_VEC_SIZE := by decide
  have h := C19_full L hL (idxOfId 107) (entryAt (idxOfId 107)) (.leaf a) hget
    (by rw [hty, C19_wf_withSize_leaf]; exact ⟨hok, by omega⟩)
    (by simp [asVec, hty, enc, beBytes_length]; omega)
  simpa [Val.norm] using h

/-! ### length-framed stream -/

/-- generated constant: the message frame admits every u16-prefixed payload at its maximum plus a
    header, and its length fits the u32 length field of `write_vec` -/
theorem C19_frame_size : 2 + 2 + 65535 + 64 ≤ maxMessageSize ∧ maxMessageSize < 256 ^ 4 := by decide

/-- (Quantifies over the byte string of the stream; independence of the delivery granularity — short
    reads of the transport — is validated by the correspondence harness only, see `Model/Wire.lean`.)
    `msgs::read (write_vec (as_vec m) ++ rest) = m`: the framed path (`write`/`write_vec` → `read`), with
    arbitrary bytes of the next frame following -/
theorem C19_framed (hL : L.RT) (reg : List Entry) (maxMsg i : Nat) (e : Entry) (v : Val α) (rest : Bytes)
    (hi : reg[i]? = some e) (hns : i ∉ shadowedIdx reg)
    (hid : e.id < 65536) (hok : e.ty.okAt true = true)
    (hw : wf L e.ty v = true) (hlen : (asVec L e v).length ≤ maxMsg) (hmax : maxMsg < 256 ^ 4) :
    readFrame L reg maxMsg (writeVec (asVec L e v) ++ rest) = .ok (.msg i (v.norm L.norm)) := by
  have hm := C19_main L hL reg maxMsg i e v hi hns hid hok hw hlen
  have h2 : 2 ≤ (asVec L e v).length := by simp [asVec, beBytes_length]
  have hb : beVal (beBytes 4 (asVec L e v).length) = (asVec L e v).length :=
    beVal_beBytes 4 _ (by omega)
  have hn1 : ¬ (asVec L e v).length < 2 := by omega
  have hn2 : ¬ (asVec L e v).length > maxMsg := by omega
  have hn3 : (asVec L e v).length ≤ (asVec L e v ++ rest).length := by simp
  simp only [readFrame, writeVec, List.append_assoc,
    splitAt?_append 4 _ _ (beBytes_length 4 _), hb, hn1, hn2, hn3, if_false, if_true,
    List.take_left' rfl, hm]

/-- the framed path on the generated registry -/
theorem C19_framed_registry (hL : L.RT) (i : Nat) (e : Entry) (v : Val α) (rest : Bytes)
    (hi : registry[i]? = some e)
    (hw : wf L e.ty v = true) (hlen : (asVec L e v).length ≤ maxMessageSize) :
    readFrame L registry maxMessageSize (writeVec (asVec L e v) ++ rest) = .ok (.msg i (v.norm L.norm)) :=
  have h := regOk_get registry C19_schema_wf.2 i e hi
  C19_framed L hL registry maxMessageSize i e v rest hi (by rw [C19_registry.2]; simp) h.1 h.2 hw hlen
    C19_frame_size.2

/-! ### the typed decoders (`T::from_vec`, `read_message::<T>`): what the client side of the protocol uses for
    replies (`vls-protocol-client`), and the signer for the first message of a connection -/

/-- **C19_typed.** `T::from_vec(m.as_vec()) = m` for the decoder generated by `#[derive(SerBolt)]`, for any
    message struct (no registry involved: the typed decoder compares the type prefix with `T::TYPE` itself, so a
    shadowed id does not matter here) -/
theorem C19_typed (hL : L.RT) (e : Entry) (v : Val α)
    (hid : e.id < 65536) (hok : e.ty.okAt true = true) (hw : wf L e.ty v = true) :
    fromVecTyped L e (asVec L e v) = .ok (v.norm L.norm) := by
  have hrt := Wire_roundtrip L hL e.ty true v [] hok hw (fun _ => rfl)
  simp at hrt
  have hb : beVal (beBytes 2 e.id) = e.id := beVal_beBytes 2 e.id (by simpa using hid)
  simp [fromVecTyped, asVec, splitAt?_append 2 _ _ (beBytes_length 2 _), hb, hrt]

/-- **C19_read_message_typed.** `read_message::<T>(write(m) ++ next frames) = m` -/
theorem C19_read_message_typed (hL : L.RT) (maxMsg : Nat) (e : Entry) (v : Val α) (rest : Bytes)
    (hid : e.id < 65536) (hok : e.ty.okAt true = true) (hw : wf L e.ty v = true)
    (hlen : (asVec L e v).length ≤ maxMsg) (hmax : maxMsg < 256 ^ 4) :
    readMessageTyped L maxMsg e (writeVec (asVec L e v) ++ rest) = some (v.norm L.norm) := by
  have hrt := Wire_roundtrip L hL e.ty true v [] hok hw (fun _ => rfl)
  simp at hrt
  have h2 : 2 ≤ (asVec L e v).length := by simp [asVec, beBytes_length]
  have hb : beVal (beBytes 4 (asVec L e v).length) = (asVec L e v).length := beVal_beBytes 4 _ (by omega)
  have hb2 : beVal (beBytes 2 e.id) = e.id := beVal_beBytes 2 e.id (by simpa using hid)
  have hn : ¬ ((asVec L e v).length < 2 ∨ (asVec L e v).length > maxMsg ∨
      (asVec L e v ++ rest).length < (asVec L e v).length) := by
    simp only [List.length_append]; omega
  have ht : (asVec L e v ++ rest).take (asVec L e v).length = asVec L e v := List.take_left' rfl
  have hs : splitAt? 2 (asVec L e v) = some (beBytes 2 e.id, enc L e.ty v) := by
    have := splitAt?_append 2 (beBytes 2 e.id) (enc L e.ty v) (beBytes_length 2 _)
    simpa [asVec] using this
  simp only [readMessageTyped, writeVec, List.append_assoc,
    splitAt?_append 4 _ _ (beBytes_length 4 _), hb, hn, if_false, ht, hs, hb2, ne_eq, not_true_eq_false, hrt]

/-- both typed decoders on the generated registry (every message type, default build and `developer`) -/
theorem C19_typed_registry (hL : L.RT) (i : Nat) (e : Entry) (v : Val α) (rest : Bytes)
    (hi : registryAll[i]? = some e) (hw : wf L e.ty v = true) (hlen : (asVec L e v).length ≤ maxMessageSize) :
    fromVecTyped L e (asVec L e v) = .ok (v.norm L.norm) ∧
    readMessageTyped L maxMessageSize e (writeVec (asVec L e v) ++ rest) = some (v.norm L.norm) :=
  have h := regOk_get registryAll C19_schema_wf.1 i e hi
  ⟨C19_typed L hL e v h.1 h.2 hw,
   C19_read_message_typed L hL maxMessageSize e v rest h.1 h.2 hw hlen C19_frame_size.2⟩

/-- serial headers come back as written -/
theorem C19_serial_request (seq dbid : Nat) (peer rest : Bytes) (hs : seq < 65536) (hp : peer.length = 33)
    (hd : dbid < 2 ^ 64) :
    readSerialRequest (writeSerialRequest seq peer dbid ++ rest) = some (seq, peer, dbid) := by
  have h64 : dbid < 256 ^ 8 := by omega
  have hm : beVal (beBytes 2 0xaa55) = 0xaa55 := by decide
  simp [readSerialRequest, writeSerialRequest, List.append_assoc,
    splitAt?_append 2 _ _ (beBytes_length 2 _), splitAt?_append 33 peer _ hp,
    splitAt?_append 8 _ _ (beBytes_length 8 _), hm, beVal_beBytes 2 seq (by simpa using hs),
    beVal_beBytes 8 dbid h64]

theorem C19_serial_response (seq : Nat) (rest : Bytes) (hs : seq < 65536) :
    readSerialResponse (writeSerialResponse seq ++ rest) seq = true := by
  have hm : beVal (beBytes 2 0x5aa5) = 0x5aa5 := by decide
  simp [readSerialResponse, writeSerialResponse, List.append_assoc,
    splitAt?_append 2 _ _ (beBytes_length 2 _), hm, beVal_beBytes 2 seq (by simpa using hs)]

/-! ### the hand-written framing code of msgs.rs, tied to its source text (`Gen/WireFrame.lean`) -/
section GenFrame
open VlsModel.Gen.WireFrame

/-- **C19_gen_serial_request.** `writeSerialRequest` / `readSerialRequest` of the model are the interpretation of
    the step lists `x_wireframe.py` reads off `write_serial_request_header` / `read_serial_request_header`
    (magic value, widths, field order `sequence, peer_id, dbid`, the `BadFraming` comparison) -/
theorem C19_gen_serial_request (seq dbid : Nat) (peer bs : Bytes) (hp : peer.length = 33) :
    hWrite serialRequestWrite [.n seq, .b peer, .n dbid] = some (writeSerialRequest seq peer dbid) ∧
    readSerialRequest bs = (hRead serialRequestRead 0 bs).bind (fun p =>
      match p.1 with
      | [.n s, .b q, .n d] => some (s, q, d)
      | _ => none) := by
  constructor
  · simp [serialRequestWrite, hWrite, writeSerialRequest, hp]
  · simp only [serialRequestRead, hRead, readSerialRequest]
    cases h1 : splitAt? 2 bs with
    | none => rfl
    | some p1 =>
      obtain ⟨m, r1⟩ := p1
      by_cases hm : beVal m ≠ 43605
      · simp [hm]
      · simp only [hm, if_false]
        cases h2 : splitAt? 2 r1 with
        | none => rfl
        | some p2 =>
          obtain ⟨s, r2⟩ := p2
          cases h3 : splitAt? 33 r2 with
          | none => simp [h3]
          | some p3 =>
            obtain ⟨q, r3⟩ := p3
            cases h4 : splitAt? 8 r3 with
            | none => simp [h3, h4]
            | some p4 => simp [h3, h4]

/-- **C19_gen_serial_response.** the same for `write_serial_response_header` / `read_serial_response_header`
    (magic, then the sequence number compared with the expected one) -/
theorem C19_gen_serial_response (seq expected : Nat) (bs : Bytes) :
    hWrite serialResponseWrite [.n seq] = some (writeSerialResponse seq) ∧
    readSerialResponse bs expected = (hRead serialResponseRead expected bs).isSome := by
  constructor
  · simp [serialResponseWrite, hWrite, writeSerialResponse]
  · simp only [serialResponseRead, hRead, readSerialResponse]
    cases h1 : splitAt? 2 bs with
    | none => rfl
    | some p1 =>
      obtain ⟨m, r1⟩ := p1
      by_cases hm : beVal m ≠ 23205
      · simp [hm]
      · simp only [hm, if_false]
        cases h2 : splitAt? 2 r1 with
        | none => rfl
        | some p2 =>
          obtain ⟨s, r2⟩ := p2
          by_cases he : beVal s = expected <;> simp [he]

/-- **C19_gen_frame.** the widths the model uses for the frame length (`write_vec`, `read*`) and for the type
    prefix (`write`, `as_vec`, `from_reader`) are the ones of the source -/
theorem C19_gen_frame {α : Type} (L : LeafCodec α) (e : Entry) (v : Val α) (bs : Bytes) :
    writeVec bs = beBytes frameLenWidth bs.length ++ bs ∧
    asVec L e v = beBytes typeWidth e.id ++ enc L e.ty v := ⟨rfl, rfl⟩

/-- **C19_gen_reader_order.** the statement order of the readers that the model's `fromVec` / `readFrame` /
    `readMessageTyped` / `readRaw` rely on: `read` = u32 length + `from_reader`; `from_reader` checks the length
    first, reads inside a window of exactly `len` bytes, takes a u16 type, refuses trailing bytes; `from_vec` passes
    its own length; `read_message` checks length, type and trailing bytes; `read_raw` has no length check -/
theorem C19_gen_reader_order :
    readIsLenThenFromReader = true ∧ fromReaderChecksLengthFirst = true ∧ fromReaderWindowIsLen = true ∧
    fromReaderTypeIsU16 = true ∧ fromReaderRefusesTrailing = true ∧ fromVecPassesItsLength = true ∧
    readMessageChecksLengthFirst = true ∧ readMessageChecksType = true ∧ readMessageRefusesTrailing = true ∧
    readRawHasNoLengthCheck = true := by decide

end GenFrame

/-! ### StreamedPSBT -/
open Streamed

theorem stepInput_spec (ti : TxIn) (pi pi' : PInput) (f : Bool) (h : stepInput ti pi = some (pi', f)) :
    match pi.nonWitnessUtxo with
    | none => pi' = pi ∧ f = false ∧ ∀ w, pi.witnessUtxo = some w → isP2pkh w.script = false
    | some ptx =>
      ptx.txid = ti.prevTxid ∧ ∃ o, ptx.outputs[ti.vout]? = some o ∧
        pi'.witnessUtxo = some o ∧ f = isWitnessProgram o.script ∧
        (pi.witnessUtxo = none ∨ pi.witnessUtxo = some o) := by
  unfold stepInput at h
  cases hn : pi.nonWitnessUtxo with
  | none =>
    simp only [hn] at h
    cases hw : pi.witnessUtxo with
    | none => simp [hw] at h; simp [h.1, h.2]
    | some w =>
      simp only [hw] at h
      split at h
      · cases h
      · rename_i hp
        simp at h
        refine ⟨h.1.symm, h.2, ?_⟩
        intro w' hw'
        cases hw'
        simpa using hp
  | some ptx =>
    simp only [hn] at h
    split at h
    · cases h
    · rename_i htx
      cases ho : ptx.outputs[ti.vout]? with
      | none => simp [ho] at h
      | some o =>
        simp only [ho] at h
        cases hw : pi.witnessUtxo with
        | none =>
          simp [hw] at h
          refine ⟨by simpa using htx, o, ho, ?_, ?_, Or.inl rfl⟩
          · rw [← h.1]
          · exact h.2.symm
        | some w =>
          simp only [hw] at h
          split at h
          · cases h
          · rename_i hwo
            have hwo' : w = o := by simpa using hwo
            subst hwo'
            simp at h
            refine ⟨by simpa using htx, w, ho, ?_, ?_, Or.inr rfl⟩
            · rw [← h.1]
            · exact h.2.symm

theorem stepAll_get (tis : List TxIn) (pis ps : List PInput) (fs : List Bool)
    (h : stepAll tis pis = some (ps, fs)) :
    ps.length = pis.length ∧ fs.length = pis.length ∧
    ∀ (i : Nat) ti pi, tis[i]? = some ti → pis[i]? = some pi →
      ∃ pi' f, ps[i]? = some pi' ∧ fs[i]? = some f ∧ stepInput ti pi = some (pi', f) := by
  induction tis generalizing pis ps fs with
  | nil =>
    cases pis with
    | nil => simp [stepAll] at h; simp [h.1, h.2]
    | cons p pis => simp [stepAll] at h
  | cons t tis ih =>
    cases pis with
    | nil =>
      simp [stepAll] at h
      obtain ⟨h1, h2⟩ := h
      subst h1 h2
      simp
    | cons p pis =>
      simp only [stepAll] at h
      cases hs : stepInput t p with
      | none => simp [hs] at h
      | some r =>
        obtain ⟨p', f⟩ := r
        simp only [hs] at h
        cases hr : stepAll tis pis with
        | none => simp [hr] at h
        | some r2 =>
          obtain ⟨ps2, fs2⟩ := r2
          simp [hr] at h
          obtain ⟨h1, h2⟩ := h
          subst h1 h2
          have ⟨l1, l2, l3⟩ := ih pis ps2 fs2 hr
          refine ⟨by simp [l1], by simp [l2], ?_⟩
          intro i ti pi hti hpi
          cases i with
          | zero =>
            simp at hti hpi; subst hti hpi
            exact ⟨p', f, by simp, by simp, hs⟩
          | succ i =>
            simp at hti hpi
            have ⟨pi', f', a, b, c⟩ := l3 i ti pi hti hpi
            exact ⟨pi', f', by simpa using a, by simpa using b, c⟩

/-- C19, second sentence, on the parsed PSBT: if the streamed decode succeeds then the transaction is
    unchanged, there is one flag and one summarised input per PSBT input, and for every input:
    with a supplied previous tx, its txid is the one the input spends, the decoded previous output is
    output `vout` of that tx (and agrees with a supplied witness_utxo), and the segwit flag is true
    iff that output is a witness program; without one, the input is unchanged, the flag is false, and a supplied witness_utxo is not a
    legacy p2pkh output (such a PSBT is refused: the value could not be verified). -/
theorem C19_psbt (p p' : Psbt) (flags : List Bool) (h : decode p = some (p', flags)) :
    p'.txInputs = p.txInputs ∧ p'.txRest = p.txRest ∧
    p'.inputs.length = p.inputs.length ∧ flags.length = p.inputs.length ∧
    ∀ (i : Nat) ti pi, p.txInputs[i]? = some ti → p.inputs[i]? = some pi →
      ∃ pi' f, p'.inputs[i]? = some pi' ∧ flags[i]? = some f ∧
        match pi.nonWitnessUtxo with
        | none => pi' = pi ∧ f = false ∧ ∀ w, pi.witnessUtxo = some w → isP2pkh w.script = false
        | some ptx =>
          ptx.txid = ti.prevTxid ∧ ∃ o, ptx.outputs[ti.vout]? = some o ∧
            pi'.witnessUtxo = some o ∧ f = isWitnessProgram o.script ∧
            (pi.witnessUtxo = none ∨ pi.witnessUtxo = some o) := by
  unfold decode at h
  split at h
  · cases hs : stepAll p.txInputs p.inputs with
    | none => simp [hs] at h
    | some r =>
      obtain ⟨ins, fl⟩ := r
      simp [hs] at h
      obtain ⟨h1, h2⟩ := h
      subst h1 h2
      have ⟨l1, l2, l3⟩ := stepAll_get _ _ _ _ hs
      refine ⟨rfl, rfl, l1, l2, ?_⟩
      intro i ti pi hti hpi
      have ⟨pi', f, a, b, c⟩ := l3 i ti pi hti hpi
      exact ⟨pi', f, a, b, stepInput_spec ti pi pi' f c⟩
  · cases h

/-! ### non-vacuity -/

/-- a concrete SetupChannel-like value is not needed to see that the hypotheses are satisfiable: here
    HsmdInit2 {derivation_style 3, "test", dev_seed None, allowlist ["a", ""]} round-trips through the
    generated registry -/
def exHsmdInit2 : Val Bytes :=
  .pair (.nat 3) (.pair (.bytes [116, 101, 115, 116]) (.pair .none (.pair (.bytes [97]) (.pair (.bytes []) .unit))))

example : idxOfId 1011 < registry.length ∧ (entryAt (idxOfId 1011)).id = 1011 ∧
    idxOfId 1011 ∉ shadowedIdx registry ∧
    wf Lid (entryAt (idxOfId 1011)).ty exHsmdInit2 = true ∧
    (asVec Lid (entryAt (idxOfId 1011)) exHsmdInit2).length ≤ maxMessageSize ∧
    isMsg (fromVec Lid registry maxMessageSize (asVec Lid (entryAt (idxOfId 1011)) exHsmdInit2))
      (idxOfId 1011) exHsmdInit2 = true := by
  decide +kernel

/-- SignCommitmentTx with opaque tx / PSBT leaves, options and integers at their maximum -/
def exSignCommitmentTx : Val Bytes :=
  .pair (.bytes (List.replicate 33 2)) (.pair (.nat (2^64 - 1)) (.pair (.leaf [1, 0, 0, 0]) (.pair (.leaf [0x70, 0x73, 0x62, 0x74, 0xff])
    (.pair (.bytes (List.replicate 33 3)) (.nat 0)))))

example : idxOfId 5 < registry.length ∧ (entryAt (idxOfId 5)).id = 5 ∧
    idxOfId 5 ∉ shadowedIdx registry ∧
    wf Lid (entryAt (idxOfId 5)).ty exSignCommitmentTx = true ∧
    isMsg (fromVec Lid registry maxMessageSize (asVec Lid (entryAt (idxOfId 5)) exSignCommitmentTx))
      (idxOfId 5) exSignCommitmentTx = true := by
  decide +kernel

/-- StreamedPSBT: one segwit input with a previous tx, one input without -/
example : decode
    { txInputs := [{ prevTxid := [1], vout := 1 }, { prevTxid := [2], vout := 0 }], txRest := [],
      inputs := [{ nonWitnessUtxo := some { txid := [1], outputs := [⟨5, []⟩, ⟨7, [0, 2, 9, 9]⟩] }, witnessUtxo := none },
                 { nonWitnessUtxo := none, witnessUtxo := none }] }
  = some ({ txInputs := [{ prevTxid := [1], vout := 1 }, { prevTxid := [2], vout := 0 }], txRest := [],
            inputs := [{ nonWitnessUtxo := none, witnessUtxo := some ⟨7, [0, 2, 9, 9]⟩ },
                       { nonWitnessUtxo := none, witnessUtxo := none }] }, [true, false]) := by
  decide +kernel

/-- a legacy p2pkh coin presented only through witness_utxo is refused; the same script with the
    previous transaction supplied is accepted (flag false) -/
example : stepInput { prevTxid := [1], vout := 0 }
    { nonWitnessUtxo := none,
      witnessUtxo := some ⟨1500000, [0x76, 0xa9, 0x14] ++ List.replicate 20 7 ++ [0x88, 0xac]⟩ } = none := by
  decide +kernel

example : stepInput { prevTxid := [1], vout := 0 }
    { nonWitnessUtxo := some { txid := [1], outputs := [⟨2000000, [0x76, 0xa9, 0x14] ++ List.replicate 20 7 ++ [0x88, 0xac]⟩] },
      witnessUtxo := none }
    = some ({ nonWitnessUtxo := none,
              witnessUtxo := some ⟨2000000, [0x76, 0xa9, 0x14] ++ List.replicate 20 7 ++ [0x88, 0xac]⟩ }, false) := by
  decide +kernel

end VlsModel.Props.C19
