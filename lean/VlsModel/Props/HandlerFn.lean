import VlsModel.Gen.FnHandler
import VlsModel.Lemmas.FnGen
/-
`vls-protocol-signer/src/handler.rs` (anchor of C01, C10, C13) — facts about the dispatch arms of `do_handle` that
`translate/rs2lean.py` regenerates from the source on every run (`Gen/FnHandler.lean`; target file
`translate/fn_targets/Handler.bfn.json`, key `arms`: every listed arm `Message::X(m) => body` of `ChannelHandler` /
`RootHandler::do_handle` is translated as a method `do_handle__X(&self, m: msgs::X) -> Result<msgs::XReply>`).  Built and
audited with C01, C10 and C13 (`bin/extra_modules.json`).

Shape of the generated definitions.  The core of vls-core is *not* part of this file: every method of `Channel`/`Node`
an arm calls is an explicit, universally quantified parameter —

* `Channel` methods that change the channel (`"updates": true`): `Channel → args → Rs.M (Channel × R)`;
* `Node::with_channel(&id, |chan| BODY)`: the closure BODY is a definition of its own, `…__with_channel_1 : captured →
  Channel → Rs.M (Channel × T)`, and `with_channel` is the higher-order parameter
  `wc : {T : Type} → Node → ChannelId → (Channel → Rs.M (Channel × T)) → Rs.M T`;
* wire conversions (`PubKey(p.serialize())`, `DisclosedSecret(..)`, signature parsing with `expect`) are uninterpreted
  functions of exactly the variables they read (`ext_let_*`; `Rs.M` when they can panic).

So each theorem below holds for **every** implementation of the core; what it pins is the handler's own logic: which core
function an arm reaches, with which arguments, under which protocol-version branch, in which order, and that nothing
that changes the channel has run before a failing step.
-/
namespace VlsModel.Props.HandlerFn
open VlsModel VlsModel.Gen.FnHandler

/-- the version from which `RevokeCommitmentTx` is a message of its own (`PROTOCOL_VERSION_REVOKE`, msgs.rs) -/
def REVOKE : Nat := 5

/-! ### `Message::RevokeCommitmentTx` -/
section Revoke
variable {Node ChannelId PubKey DisclosedSecret Channel PublicKey SecretKey : Type}
variable (rev : Channel → Nat → Rs.M (Channel × (PublicKey × Option SecretKey)))
variable (wc : {T : Type} → Node → ChannelId → (Channel → Rs.M (Channel × T)) → Rs.M T)
variable (osr : Option SecretKey → Option DisclosedSecret) (npp : PublicKey → PubKey)

/-- what runs inside `with_channel`: `revoke_previous_holder_commitment`, once, on the channel handed in, with exactly
    the message's commitment number **plus one** (`u64` overflow of that `+ 1` panics before the core is reached) -/
theorem Handler_fn_revoke_closure (n : Nat) (chan : Channel) :
    ChannelHandler.do_handle__RevokeCommitmentTx__with_channel_1 rev n chan
      = if n + 1 ≤ Rs.U64_MAX then rev chan (n + 1) else .error .overflow := by
  unfold ChannelHandler.do_handle__RevokeCommitmentTx__with_channel_1 Rs.uadd
  by_cases h : n + 1 ≤ Rs.U64_MAX
  · simp only [h, if_true, Rs.pure_eq, Rs.bind_ok]
    cases rev chan (n + 1) with
    | error e => rfl
    | ok r => obtain ⟨c, p, s⟩ := r; rfl
  · simp only [h, if_false, Rs.overflow, Rs.bind_err]

/-- an old protocol version (`< 5`) is refused with `invalid_argument` **before anything is called**: the result does not
    depend on the core at all -/
theorem Handler_fn_revoke_old_version (self : ChannelHandler Node ChannelId) (m : RevokeCommitmentTx)
    (h : self.protocol_version < REVOKE) :
    ChannelHandler.do_handle__RevokeCommitmentTx rev wc osr npp self m
      = (.error (.err "Status::invalid_argument") : Rs.M (RevokeCommitmentTxReply PubKey DisclosedSecret)) := by
  unfold ChannelHandler.do_handle__RevokeCommitmentTx
  have h' : decide (self.protocol_version < 5) = true := by simpa [REVOKE] using h
  simp [h', Rs.fail]

/-- **the arm**: from version 5 on it is one `with_channel` on the handler's own node and channel id, running the closure
    above for `m.commitment_number`; the reply carries the point the core returned and the old secret, and a missing old
    secret is an `invalid_argument` (after the revocation has happened: the core call is the only state change) -/
theorem Handler_fn_revoke_commitment_tx (self : ChannelHandler Node ChannelId) (m : RevokeCommitmentTx)
    (h : ¬ self.protocol_version < REVOKE) :
    ChannelHandler.do_handle__RevokeCommitmentTx rev wc osr npp self m
      = (wc self.node self.channel_id
            (ChannelHandler.do_handle__RevokeCommitmentTx__with_channel_1 rev m.commitment_number)) >>= fun r =>
          match osr r.2 with
          | some s => .ok { next_per_commitment_point := npp r.1, old_commitment_secret := s }
          | none => .error (.err "Status::invalid_argument") := by
  unfold ChannelHandler.do_handle__RevokeCommitmentTx
  have h' : decide (self.protocol_version < 5) = false := by simpa [REVOKE] using h
  simp only [h', if_false, Bool.false_eq_true]
  cases wc self.node self.channel_id
      (ChannelHandler.do_handle__RevokeCommitmentTx__with_channel_1 rev m.commitment_number) with
  | error e => rfl
  | ok r =>
    obtain ⟨p, s⟩ := r
    simp only [Rs.bind_ok]
    cases hs : osr s <;> simp [Rs.okOr, hs, Rs.fail]
end Revoke

/-! ### `Message::ValidateCommitmentTx2` (and the older `ValidateCommitmentTx`) -/
section Validate
variable {Node ChannelId Sha256 PubKey DisclosedSecret PaymentHash Signature Channel PublicKey SecretKey : Type}
variable (val : Channel → Nat → Nat → Nat → Nat → List (HTLCInfo2 PaymentHash) → List (HTLCInfo2 PaymentHash) → Signature →
                  List Signature → Rs.M Channel)
variable (rev : Channel → Nat → Rs.M (Channel × (PublicKey × Option SecretKey)))
variable (pt : Channel → Nat → Rs.M PublicKey)
variable (act : Channel → Rs.M (Channel × PublicKey))

/-- **validate, then revoke / activate — on the validated channel.**  The closure of the arm, spelled out: first
    `validate_holder_commitment_tx_phase2` with the message's commitment number, feerate, `to_local`/`to_remote` values
    and the HTLC lists (offered first); only on its success, and on the channel *it* returned:
    version `< 5` → `revoke_previous_holder_commitment(commit_num)` (the old protocol revokes at once);
    else `commit_num > 0` → only `get_per_commitment_point(commit_num + 1)` (a read), no secret;
    else (`commit_num = 0`) → `activate_initial_commitment()`, no secret. -/
theorem Handler_fn_validate_commitment_tx2_closure (self : ChannelHandler Node ChannelId) (m : ValidateCommitmentTx2 Sha256)
    (off rcv : List (HTLCInfo2 PaymentHash)) (sig : Signature) (hs : List Signature) (chan : Channel) :
    ChannelHandler.do_handle__ValidateCommitmentTx2__with_channel_1 val rev pt act self m.commitment_number m.feerate m off rcv sig hs chan
      = (val chan m.commitment_number m.feerate m.to_local_value_sat m.to_remote_value_sat off rcv sig hs) >>= fun c1 =>
          if self.protocol_version < REVOKE then rev c1 m.commitment_number
          else if m.commitment_number > 0 then
            (Rs.uadd Rs.U64_MAX m.commitment_number 1 >>= pt c1) >>= fun p => .ok (c1, (p, none))
          else act c1 >>= fun r => .ok (r.1, (r.2, none)) := by
  unfold ChannelHandler.do_handle__ValidateCommitmentTx2__with_channel_1
  cases val chan m.commitment_number m.feerate m.to_local_value_sat m.to_remote_value_sat off rcv sig hs with
  | error e => rfl
  | ok c1 =>
    simp only [Rs.bind_ok, REVOKE]
    by_cases h1 : self.protocol_version < 5
    · simp only [h1, decide_true, if_true]
      cases rev c1 m.commitment_number with
      | error e => rfl
      | ok r => obtain ⟨c, p, s⟩ := r; rfl
    · simp only [h1, decide_false, if_false, Bool.false_eq_true]
      by_cases h2 : m.commitment_number > 0
      · simp only [h2, decide_true, if_true]
        cases Rs.uadd Rs.U64_MAX m.commitment_number 1 with
        | error e => rfl
        | ok k =>
          simp only [Rs.bind_ok]
          cases pt c1 k <;> rfl
      · simp only [h2, decide_false, if_false, Bool.false_eq_true]
        cases act c1 with
        | error e => rfl
        | ok r => obtain ⟨c, p⟩ := r; rfl

/-- a commitment that does not validate is neither revoked against nor activated: when the validation fails, the closure
    fails with that error whatever `revoke`/`get_per_commitment_point`/`activate` would do (they are not reached) -/
theorem Handler_fn_validate_commitment_tx2_fail_closed (self : ChannelHandler Node ChannelId) (m : ValidateCommitmentTx2 Sha256)
    (off rcv : List (HTLCInfo2 PaymentHash)) (sig : Signature) (hs : List Signature) (chan : Channel) (e : Rs.Fail)
    (hv : val chan m.commitment_number m.feerate m.to_local_value_sat m.to_remote_value_sat off rcv sig hs = .error e) :
    ChannelHandler.do_handle__ValidateCommitmentTx2__with_channel_1 val rev pt act self m.commitment_number m.feerate m off rcv sig hs chan
      = .error e := by
  rw [Handler_fn_validate_commitment_tx2_closure, hv]; rfl

/-- and conversely: whenever the closure succeeds, the validation succeeded on the channel handed in, and the channel that
    comes out is what revoke / activate made of the *validated* channel (or the validated channel itself) -/
theorem Handler_fn_validate_commitment_tx2_validated (self : ChannelHandler Node ChannelId) (m : ValidateCommitmentTx2 Sha256)
    (off rcv : List (HTLCInfo2 PaymentHash)) (sig : Signature) (hs : List Signature) (chan c' : Channel)
    (r : PublicKey × Option SecretKey)
    (hok : ChannelHandler.do_handle__ValidateCommitmentTx2__with_channel_1 val rev pt act self m.commitment_number m.feerate m off rcv sig hs chan
              = .ok (c', r)) :
    ∃ c1, val chan m.commitment_number m.feerate m.to_local_value_sat m.to_remote_value_sat off rcv sig hs = .ok c1 ∧
      (if self.protocol_version < REVOKE then rev c1 m.commitment_number = .ok (c', r)
       else if m.commitment_number > 0 then c' = c1 ∧ r.2 = none
       else ∃ p, act c1 = .ok (c', p) ∧ r = (p, none)) := by
  rw [Handler_fn_validate_commitment_tx2_closure] at hok
  cases hv : val chan m.commitment_number m.feerate m.to_local_value_sat m.to_remote_value_sat off rcv sig hs with
  | error e => rw [hv] at hok; cases hok
  | ok c1 =>
    refine ⟨c1, rfl, ?_⟩
    rw [hv] at hok
    simp only [Rs.bind_ok] at hok
    by_cases h1 : self.protocol_version < REVOKE
    · simpa [h1] using hok
    · simp only [h1, if_false] at hok ⊢
      by_cases h2 : m.commitment_number > 0
      · simp only [h2, if_true] at hok ⊢
        cases hu : (Rs.uadd Rs.U64_MAX m.commitment_number 1 >>= pt c1) with
        | error e => rw [hu] at hok; cases hok
        | ok p =>
          rw [hu] at hok
          simp only [Rs.bind_ok, Except.ok.injEq, Prod.mk.injEq] at hok
          obtain ⟨h3, h4⟩ := hok
          exact ⟨h3.symm, by rw [← h4]⟩
      · simp only [h2, if_false] at hok ⊢
        cases ha : act c1 with
        | error e => rw [ha] at hok; cases hok
        | ok q =>
          obtain ⟨c, p⟩ := q
          rw [ha] at hok
          simp only [Rs.bind_ok, Except.ok.injEq, Prod.mk.injEq] at hok
          obtain ⟨h3, h4⟩ := hok
          exact ⟨p, by rw [h3], h4.symm⟩

variable (sha0 : Sha256 → List Nat) (ph : List Nat → PaymentHash)
variable (csig : ValidateCommitmentTx2 Sha256 → Rs.M Signature) (hsigs : ValidateCommitmentTx2 Sha256 → Rs.M (List Signature))
variable (wc : {T : Type} → Node → ChannelId → (Channel → Rs.M (Channel × T)) → Rs.M T)
variable (osr : Option SecretKey → Option DisclosedSecret) (ser : PublicKey → List Nat) (pk : List Nat → PubKey)

/-- **the arm**: HTLC extraction, signature parsing and the `sighash == SIGHASH_ALL` assertion come first and touch
    nothing; then exactly one `with_channel` on the handler's node / channel id with the closure above, whose arguments are
    the message's fields — the *offered* list is the second component of `extract_htlcs`, the *received* list the first. -/
theorem Handler_fn_validate_commitment_tx2 (self : ChannelHandler Node ChannelId) (m : ValidateCommitmentTx2 Sha256) :
    ChannelHandler.do_handle__ValidateCommitmentTx2 sha0 ph csig hsigs val rev pt act wc osr ser pk self m
      = extract_htlcs sha0 ph m.htlcs >>= fun hh =>
        csig m >>= fun sig =>
        Rs.assert (m.signature.sighash == 1) >>= fun _ =>
        hsigs m >>= fun hs =>
        wc self.node self.channel_id
          (ChannelHandler.do_handle__ValidateCommitmentTx2__with_channel_1 val rev pt act self m.commitment_number m.feerate m
            hh.2 hh.1 sig hs) >>= fun r =>
        .ok { next_per_commitment_point := pk (ser r.1), old_commitment_secret := osr r.2 } := by
  unfold ChannelHandler.do_handle__ValidateCommitmentTx2
  cases extract_htlcs sha0 ph m.htlcs with
  | error e => rfl
  | ok hh =>
    obtain ⟨rc, of⟩ := hh
    simp only [Rs.bind_ok]
    cases csig m with
    | error e => rfl
    | ok sig =>
      simp only [Rs.bind_ok]
      cases Rs.assert (m.signature.sighash == 1) with
      | error e => rfl
      | ok u =>
        simp only [Rs.bind_ok]
        cases hsigs m with
        | error e => rfl
        | ok hs =>
          simp only [Rs.bind_ok]
          cases wc self.node self.channel_id
            (ChannelHandler.do_handle__ValidateCommitmentTx2__with_channel_1 val rev pt act self m.commitment_number m.feerate m
              of rc sig hs) with
          | error e => rfl
          | ok r => obtain ⟨p, s⟩ := r; rfl

/-- **an arm that fails before the channel is entered has changed nothing**: when the signature bytes do not parse, the
    sighash byte is not `SIGHASH_ALL`, or an HTLC signature is malformed, the outcome is the same for every `with_channel`
    and every core — none of them is called -/
theorem Handler_fn_validate_commitment_tx2_early_failure (self : ChannelHandler Node ChannelId) (m : ValidateCommitmentTx2 Sha256)
    (wc' : {T : Type} → Node → ChannelId → (Channel → Rs.M (Channel × T)) → Rs.M T)
    (val' : Channel → Nat → Nat → Nat → Nat → List (HTLCInfo2 PaymentHash) → List (HTLCInfo2 PaymentHash) → Signature →
              List Signature → Rs.M Channel)
    (h : (∃ e, csig m = .error e) ∨ m.signature.sighash ≠ 1 ∨ (∃ e, hsigs m = .error e)) :
    ChannelHandler.do_handle__ValidateCommitmentTx2 sha0 ph csig hsigs val rev pt act wc osr ser pk self m
      = ChannelHandler.do_handle__ValidateCommitmentTx2 sha0 ph csig hsigs val' rev pt act wc' osr ser pk self m := by
  rw [Handler_fn_validate_commitment_tx2, Handler_fn_validate_commitment_tx2]
  cases extract_htlcs sha0 ph m.htlcs with
  | error e => rfl
  | ok hh =>
    simp only [Rs.bind_ok]
    rcases h with ⟨e, he⟩ | hne | ⟨e, he⟩
    · rw [he]; rfl
    · cases csig m with
      | error e => rfl
      | ok sig =>
        have : (m.signature.sighash == 1) = false := by simpa using hne
        simp [Rs.assert, this, Rs.panic]
    · cases csig m with
      | error e => rfl
      | ok sig =>
        simp only [Rs.bind_ok]
        cases Rs.assert (m.signature.sighash == 1) with
        | error e => rfl
        | ok u => simp only [Rs.bind_ok]; rw [he]; rfl
end Validate

/-! ### `extract_htlcs` -/
section Htlcs
variable {Sha256 PaymentHash : Type} (sha0 : Sha256 → List Nat) (ph : List Nat → PaymentHash)

/-- the protocol's HTLC list split by side: `side == 0` (LOCAL) are the offered ones, `side == 1` (REMOTE) the received
    ones; amounts are msat on the wire and sat in the core (`/ 1000`, rounding down); the pair is `(received, offered)` -/
theorem Handler_fn_extract_htlcs (l : List (Htlc Sha256)) :
    extract_htlcs sha0 ph l
      = .ok ((l.filter (fun h => h.side == 1)).map (fun h => { value_sat := h.amount / 1000, payment_hash := ph (sha0 h.payment_hash), cltv_expiry := h.ctlv_expiry }),
             (l.filter (fun h => h.side == 0)).map (fun h => { value_sat := h.amount / 1000, payment_hash := ph (sha0 h.payment_hash), cltv_expiry := h.ctlv_expiry })) := by
  have hm : ∀ (l : List (Htlc Sha256)),
      List.mapM (m := Rs.M) (fun h => do
        let t ← Rs.udiv h.amount 1000
        pure ({ value_sat := t, payment_hash := ph (sha0 h.payment_hash), cltv_expiry := h.ctlv_expiry } : HTLCInfo2 PaymentHash)) l
      = .ok (l.map (fun h => { value_sat := h.amount / 1000, payment_hash := ph (sha0 h.payment_hash), cltv_expiry := h.ctlv_expiry })) := by
    intro l
    induction l with
    | nil => rfl
    | cons x xs ih =>
      rw [List.mapM_cons, ih]
      simp [Rs.udiv, bind, Except.bind, pure, Except.pure]
  unfold extract_htlcs
  rw [hm, hm]
  rfl
end Htlcs

/-! ### the one-call arms: which core function, with which arguments -/
section Simple
variable {Node ChannelId Channel Signature SecretKey : Type}
variable (wc : {T : Type} → Node → ChannelId → (Channel → Rs.M (Channel × T)) → Rs.M T)

/-- `SignLocalCommitmentTx2`: `sign_holder_commitment_tx_phase2(m.commitment_number)` inside `with_channel`, nothing else -/
theorem Handler_fn_sign_local_commitment_tx2 (sgn : Channel → Nat → Rs.M (Channel × Signature)) (tb : Signature → BitcoinSignature)
    (self : ChannelHandler Node ChannelId) (m : SignLocalCommitmentTx2) :
    ChannelHandler.do_handle__SignLocalCommitmentTx2 sgn wc tb self m
      = wc self.node self.channel_id (fun chan => sgn chan m.commitment_number) >>= fun s => .ok { signature := tb s } := by
  unfold ChannelHandler.do_handle__SignLocalCommitmentTx2
  have hc : ChannelHandler.do_handle__SignLocalCommitmentTx2__with_channel_1 sgn m = fun chan => sgn chan m.commitment_number := by
    funext chan
    unfold ChannelHandler.do_handle__SignLocalCommitmentTx2__with_channel_1
    cases sgn chan m.commitment_number with
    | error e => rfl
    | ok r => obtain ⟨c, s⟩ := r; rfl
  rw [hc]
  rfl

/-- `ValidateRevocation`: `validate_counterparty_revocation(m.commitment_number, secret)` inside `with_channel` -/
theorem Handler_fn_validate_revocation (sec : ValidateRevocation → SecretKey) (vr : Channel → Nat → SecretKey → Rs.M Channel)
    (self : ChannelHandler Node ChannelId) (m : ValidateRevocation) :
    ChannelHandler.do_handle__ValidateRevocation sec vr wc self m
      = wc self.node self.channel_id (fun chan => vr chan m.commitment_number (sec m) >>= fun c => .ok (c, ())) >>= fun _ => .ok ⟨⟩ := by
  unfold ChannelHandler.do_handle__ValidateRevocation
  have hc : (fun x_ => do
        let s_ ← ChannelHandler.do_handle__ValidateRevocation__with_channel_1 vr m.commitment_number (sec m) x_
        pure (s_, ())) = fun chan => vr chan m.commitment_number (sec m) >>= fun c => (.ok (c, ()) : Rs.M (Channel × Unit)) := by
    funext chan
    unfold ChannelHandler.do_handle__ValidateRevocation__with_channel_1
    cases vr chan m.commitment_number (sec m) <;> rfl
  simp only [hc]
  rfl
end Simple

/-! ### the other translated arms -/
section More
variable {Node ChannelId Channel ChannelBase Signature SecretKey PublicKey PubKey Sha256 PaymentHash Octets DerivationPath ScriptBuf
          Approve Invoice WireString Transaction DisclosedSecret : Type}
variable (wc : {T : Type} → Node → ChannelId → (Channel → Rs.M (Channel × T)) → Rs.M T)

/-- `ValidateCommitmentTx` (the variant that carries the transaction): the same order as `ValidateCommitmentTx2` —
    `validate_holder_commitment_tx` first, revoke (old protocol) / read the next point / activate only on its success and on
    the channel it returned -/
theorem Handler_fn_validate_commitment_tx_closure
    (val : Channel → Transaction → List (List Nat) → Nat → Nat → List (HTLCInfo2 PaymentHash) → List (HTLCInfo2 PaymentHash) →
             Signature → List Signature → Rs.M Channel)
    (rev : Channel → Nat → Rs.M (Channel × (PublicKey × Option SecretKey))) (pt : Channel → Nat → Rs.M PublicKey)
    (act : Channel → Rs.M (Channel × PublicKey))
    (self : ChannelHandler Node ChannelId) (tx : Transaction) (ws : List (List Nat)) (n fr : Nat)
    (off rcv : List (HTLCInfo2 PaymentHash)) (sig : Signature) (hs : List Signature) (chan : Channel) :
    ChannelHandler.do_handle__ValidateCommitmentTx__with_channel_1 val rev pt act self tx ws n fr off rcv sig hs chan
      = (val chan tx ws n fr off rcv sig hs) >>= fun c1 =>
          if self.protocol_version < REVOKE then rev c1 n
          else if n > 0 then (Rs.uadd Rs.U64_MAX n 1 >>= pt c1) >>= fun p => .ok (c1, (p, none))
          else act c1 >>= fun r => .ok (r.1, (r.2, none)) := by
  unfold ChannelHandler.do_handle__ValidateCommitmentTx__with_channel_1
  cases val chan tx ws n fr off rcv sig hs with
  | error e => rfl
  | ok c1 =>
    simp only [Rs.bind_ok, REVOKE]
    by_cases h1 : self.protocol_version < 5
    · simp only [h1, decide_true, if_true]
      cases rev c1 n with
      | error e => rfl
      | ok r => obtain ⟨c, p, s⟩ := r; rfl
    · simp only [h1, decide_false, if_false, Bool.false_eq_true]
      by_cases h2 : n > 0
      · simp only [h2, decide_true, if_true]
        cases Rs.uadd Rs.U64_MAX n 1 with
        | error e => rfl
        | ok k =>
          simp only [Rs.bind_ok]
          cases pt c1 k <;> rfl
      · simp only [h2, decide_false, if_false, Bool.false_eq_true]
        cases act c1 with
        | error e => rfl
        | ok r => obtain ⟨c, p⟩ := r; rfl

/-- `CheckFutureSecret`: a read — the closure hands the channel back unchanged -/
theorem Handler_fn_check_future_secret_closure (cfs : Channel → Nat → SecretKey → Rs.M Bool) (m : CheckFutureSecret) (s : SecretKey)
    (chan : Channel) :
    ChannelHandler.do_handle__CheckFutureSecret__with_channel_1 cfs m s chan
      = cfs chan m.commitment_number s >>= fun r => .ok (chan, r) := rfl

theorem Handler_fn_check_future_secret (sk : CheckFutureSecret → Rs.M SecretKey) (cfs : Channel → Nat → SecretKey → Rs.M Bool)
    (self : ChannelHandler Node ChannelId) (m : CheckFutureSecret) :
    ChannelHandler.do_handle__CheckFutureSecret sk cfs wc self m
      = sk m >>= fun s =>
        wc self.node self.channel_id (ChannelHandler.do_handle__CheckFutureSecret__with_channel_1 cfs m s) >>= fun r =>
        .ok { result := r } := rfl

/-- `GetPerCommitmentPoint2`: `get_per_commitment_point(m.commitment_number)` through `with_channel_base` (works on a stub
    too), a read -/
theorem Handler_fn_get_per_commitment_point2 (pt : ChannelBase → Nat → Rs.M PublicKey)
    (wcb : {T : Type} → Node → ChannelId → (ChannelBase → Rs.M (ChannelBase × T)) → Rs.M T)
    (ser : PublicKey → List Nat) (pk : List Nat → PubKey) (self : ChannelHandler Node ChannelId) (m : GetPerCommitmentPoint2) :
    ChannelHandler.do_handle__GetPerCommitmentPoint2 pt wcb ser pk self m
      = wcb self.node self.channel_id (fun base => pt base m.commitment_number >>= fun r => .ok (base, r)) >>= fun p =>
        .ok { point := pk (ser p) } := rfl

/-- `SignRemoteCommitmentTx2`: the counterparty's commitment — **offered and received are flipped** (what `extract_htlcs`
    calls received, i.e. `side == REMOTE`, is passed as *offered*), the rest are the message's fields -/
theorem Handler_fn_sign_remote_commitment_tx2 (rp : SignRemoteCommitmentTx2 Sha256 → Rs.M PublicKey) (sha0 : Sha256 → List Nat)
    (ph : List Nat → PaymentHash)
    (sgn : Channel → PublicKey → Nat → Nat → Nat → Nat → List (HTLCInfo2 PaymentHash) → List (HTLCInfo2 PaymentHash) →
             Rs.M (Channel × (Signature × List Signature)))
    (tb : Signature → BitcoinSignature) (arr : List BitcoinSignature → List BitcoinSignature)
    (self : ChannelHandler Node ChannelId) (m : SignRemoteCommitmentTx2 Sha256) :
    ChannelHandler.do_handle__SignRemoteCommitmentTx2 rp sha0 ph sgn wc tb arr self m
      = rp m >>= fun p =>
        extract_htlcs sha0 ph m.htlcs >>= fun hh =>
        wc self.node self.channel_id
          (ChannelHandler.do_handle__SignRemoteCommitmentTx2__with_channel_1 sgn p m.commitment_number m.feerate m hh.1 hh.2) >>= fun r =>
        .ok { signature := tb r.1, htlc_signatures := arr (r.2.map tb) } := by
  unfold ChannelHandler.do_handle__SignRemoteCommitmentTx2
  cases rp m with
  | error e => rfl
  | ok p =>
    simp only [Rs.bind_ok]
    cases extract_htlcs sha0 ph m.htlcs with
    | error e => rfl
    | ok hh =>
      obtain ⟨a, b⟩ := hh
      simp only [Rs.bind_ok]
      cases wc self.node self.channel_id
          (ChannelHandler.do_handle__SignRemoteCommitmentTx2__with_channel_1 sgn p m.commitment_number m.feerate m a b) with
      | error e => rfl
      | ok r => obtain ⟨x, y⟩ := r; rfl

theorem Handler_fn_sign_remote_commitment_tx2_closure
    (sgn : Channel → PublicKey → Nat → Nat → Nat → Nat → List (HTLCInfo2 PaymentHash) → List (HTLCInfo2 PaymentHash) →
             Rs.M (Channel × (Signature × List Signature)))
    (p : PublicKey) (n fr : Nat) (m : SignRemoteCommitmentTx2 Sha256) (off rcv : List (HTLCInfo2 PaymentHash)) (chan : Channel) :
    ChannelHandler.do_handle__SignRemoteCommitmentTx2__with_channel_1 sgn p n fr m off rcv chan
      = sgn chan p n fr m.to_local_value_sat m.to_remote_value_sat off rcv := by
  unfold ChannelHandler.do_handle__SignRemoteCommitmentTx2__with_channel_1
  cases sgn chan p n fr m.to_local_value_sat m.to_remote_value_sat off rcv with
  | error e => rfl
  | ok r => obtain ⟨c, x, y⟩ := r; rfl

/-- `SignMutualCloseTx2`: `sign_mutual_close_tx_phase2` with the message's two values, its two scripts and wallet path hint -/
theorem Handler_fn_sign_mutual_close_tx2_closure (ts : Octets → ScriptBuf)
    (sgn : Channel → Nat → Nat → ScriptBuf → ScriptBuf → DerivationPath → Rs.M (Channel × Signature))
    (m : SignMutualCloseTx2 Octets) (hint : DerivationPath) (chan : Channel) :
    ChannelHandler.do_handle__SignMutualCloseTx2__with_channel_1 ts sgn m hint chan
      = sgn chan m.to_local_value_sat m.to_remote_value_sat (ts m.local_script) (ts m.remote_script) hint := by
  unfold ChannelHandler.do_handle__SignMutualCloseTx2__with_channel_1
  cases sgn chan m.to_local_value_sat m.to_remote_value_sat (ts m.local_script) (ts m.remote_script) hint with
  | error e => rfl
  | ok r => obtain ⟨c, x⟩ := r; rfl

theorem Handler_fn_sign_mutual_close_tx2 (hint : SignMutualCloseTx2 Octets → DerivationPath) (ts : Octets → ScriptBuf)
    (sgn : Channel → Nat → Nat → ScriptBuf → ScriptBuf → DerivationPath → Rs.M (Channel × Signature))
    (tb : Signature → BitcoinSignature) (self : ChannelHandler Node ChannelId) (m : SignMutualCloseTx2 Octets) :
    ChannelHandler.do_handle__SignMutualCloseTx2 hint ts sgn wc tb self m
      = wc self.node self.channel_id (ChannelHandler.do_handle__SignMutualCloseTx2__with_channel_1 ts sgn m (hint m)) >>= fun s =>
        .ok { signature := tb s } := rfl

/-- `NewChannel` / `ForgetChannel` (RootHandler): one node call each, with the message's dbid / peer id -/
theorem Handler_fn_new_channel (pk0 : PubKey → List Nat) (nc : Node → Nat → List Nat → Node → Rs.M Unit)
    (self : RootHandler Node Approve) (m : NewChannel PubKey) :
    RootHandler.do_handle__NewChannel pk0 nc self m = nc self.node m.dbid (pk0 m.peer_id) self.node >>= fun _ => .ok ⟨⟩ := rfl

theorem Handler_fn_forget_channel (cid : PubKey → Nat → ChannelId) (fc : Node → ChannelId → Rs.M Unit)
    (self : RootHandler Node Approve) (m : ForgetChannel PubKey) :
    RootHandler.do_handle__ForgetChannel cid fc self m = fc self.node (cid m.node_id m.dbid) >>= fun _ => .ok ⟨⟩ := rfl

/-- `PreapproveKeysend`: a destination that is not a public key is `invalid_argument` **without asking the approver**;
    otherwise the handler's own approver decides, on the handler's node, for exactly the message's hash and amount, and the
    reply is its answer -/
theorem Handler_fn_preapprove_keysend (pk0 : PubKey → List Nat) (fs : List Nat → Option PublicKey) (sha0 : Sha256 → List Nat)
    (ph : List Nat → PaymentHash) (hk : Approve → Node → PublicKey → PaymentHash → Nat → Rs.M Bool)
    (self : RootHandler Node Approve) (m : PreapproveKeysend PubKey Sha256) :
    RootHandler.do_handle__PreapproveKeysend pk0 fs sha0 ph hk self m
      = match fs (pk0 m.destination) with
        | none => .error (.err "Status::invalid_argument")
        | some k => hk self.approver self.node k (ph (sha0 m.payment_hash)) m.amount_msat >>= fun r => .ok { result := r } := by
  unfold RootHandler.do_handle__PreapproveKeysend
  cases fs (pk0 m.destination) <;> rfl

/-- `PreapproveInvoice`: not UTF-8 / not an invoice → `invalid_argument` without asking the approver; else its answer -/
theorem Handler_fn_preapprove_invoice (w0 : WireString → List Nat) (utf : List Nat → Option String) (inv : String → Option Invoice)
    (hi : Approve → Node → Invoice → Rs.M Bool) (self : RootHandler Node Approve) (m : PreapproveInvoice WireString) :
    RootHandler.do_handle__PreapproveInvoice w0 utf inv hi self m
      = Rs.okOr (utf (w0 m.invstring)) "Status::invalid_argument" >>= fun s =>
        Rs.okOr (inv s) "Status::invalid_argument" >>= fun i =>
        hi self.approver self.node i >>= fun r => .ok { result := r } := rfl

theorem Handler_fn_preapprove_invoice_malformed (w0 : WireString → List Nat) (utf : List Nat → Option String)
    (inv : String → Option Invoice) (hi hi' : Approve → Node → Invoice → Rs.M Bool) (self : RootHandler Node Approve)
    (m : PreapproveInvoice WireString) (h : utf (w0 m.invstring) = none ∨ ∃ s, utf (w0 m.invstring) = some s ∧ inv s = none) :
    RootHandler.do_handle__PreapproveInvoice w0 utf inv hi self m = .error (.err "Status::invalid_argument") := by
  rw [Handler_fn_preapprove_invoice]
  rcases h with h | ⟨s, h1, h2⟩
  · rw [h]; rfl
  · rw [h1]; simp only [Rs.okOr, Rs.pure_eq, Rs.bind_ok, h2]; rfl
end More

/-! ### placeholders and one more signing arm -/
section Placeholders
variable {Node ChannelId Txid WithSize Sha256 Transaction PaymentHash Channel TypedSignature : Type}

/-- `CheckOutpoint` is a placeholder in the source (`FIXME - make the call on the node!`): it answers `is_buried = true` for
    every outpoint, on every channel, **without consulting the node or the chain tracker** (the definition has no external
    at all); `LockOutpoint` likewise does nothing.  Stated so that a property that would rely on the signer's answer here
    (funding depth) finds the fact, and so that the day the call is made the theorem breaks and is re-examined. -/
theorem Handler_fn_check_outpoint (self : ChannelHandler Node ChannelId) (m : CheckOutpoint Txid) :
    ChannelHandler.do_handle__CheckOutpoint self m = .ok { is_buried := true } := rfl

theorem Handler_fn_lock_outpoint (self : ChannelHandler Node ChannelId) (m : LockOutpoint Txid) :
    ChannelHandler.do_handle__LockOutpoint self m = .ok ⟨⟩ := rfl

/-- `SignLocalHtlcTx2`: `sign_holder_htlc_tx_phase2` with the message's transaction, input, commitment number, direction,
    expiry, amount and payment hash, in that order -/
theorem Handler_fn_sign_local_htlc_tx2 (w0 : WithSize → Transaction) (sha0 : Sha256 → List Nat) (ph : List Nat → PaymentHash)
    (sgn : Channel → Transaction → Nat → Nat → Bool → Nat → Nat → PaymentHash → Rs.M (Channel × TypedSignature))
    (wc : {T : Type} → Node → ChannelId → (Channel → Rs.M (Channel × T)) → Rs.M T) (tb : TypedSignature → BitcoinSignature)
    (self : ChannelHandler Node ChannelId) (m : SignLocalHtlcTx2 WithSize Sha256) :
    ChannelHandler.do_handle__SignLocalHtlcTx2 w0 sha0 ph sgn wc tb self m
      = wc self.node self.channel_id (ChannelHandler.do_handle__SignLocalHtlcTx2__with_channel_1 w0 sha0 ph sgn m) >>= fun s =>
        .ok { signature := tb s } := rfl

theorem Handler_fn_sign_local_htlc_tx2_closure (w0 : WithSize → Transaction) (sha0 : Sha256 → List Nat) (ph : List Nat → PaymentHash)
    (sgn : Channel → Transaction → Nat → Nat → Bool → Nat → Nat → PaymentHash → Rs.M (Channel × TypedSignature))
    (m : SignLocalHtlcTx2 WithSize Sha256) (chan : Channel) :
    ChannelHandler.do_handle__SignLocalHtlcTx2__with_channel_1 w0 sha0 ph sgn m chan
      = sgn chan (w0 m.tx) m.input m.per_commitment_number m.offered m.cltv_expiry m.htlc_amount_msat (ph (sha0 m.payment_hash)) := by
  unfold ChannelHandler.do_handle__SignLocalHtlcTx2__with_channel_1
  cases sgn chan (w0 m.tx) m.input m.per_commitment_number m.offered m.cltv_expiry m.htlc_amount_msat (ph (sha0 m.payment_hash)) with
  | error e => rfl
  | ok r => obtain ⟨c, x⟩ := r; rfl
end Placeholders

/-! ### chain-tracker arms of the RootHandler (C13) -/
section Tracker
variable {Node Approve LargeOctets ChainTracker TxoProof Headers BlockHash Octets : Type}

/-- `RemoveBlock`: without a proof nothing is removed and nothing is persisted (`invalid_argument`); with a proof the block
    is removed from the node's tracker and **then** the tracker that `remove_block` returned is persisted; a failing
    `remove_block` (a panic: `expect`) persists nothing -/
theorem Handler_fn_remove_block (gt : Node → ChainTracker) (ab : ChainTracker → ChainTracker) (pr : LargeOctets → Rs.M TxoProof)
    (hd : RemoveBlock LargeOctets → Headers) (rb : ChainTracker → TxoProof → Headers → Rs.M ChainTracker)
    (ps : Node → ChainTracker → Rs.M Unit) (self : RootHandler Node Approve) (m : RemoveBlock LargeOctets) :
    RootHandler.do_handle__RemoveBlock gt ab pr hd rb ps self m
      = match m.unspent_proof with
        | none => .error (.err "Status::invalid_argument")
        | some prf => pr prf >>= fun p => rb (gt self.node) p (hd m) >>= fun t => ps self.node t >>= fun _ => .ok ⟨⟩ := by
  unfold RootHandler.do_handle__RemoveBlock
  cases m.unspent_proof <;> rfl

theorem Handler_fn_remove_block_not_persisted (gt : Node → ChainTracker) (ab : ChainTracker → ChainTracker)
    (pr : LargeOctets → Rs.M TxoProof) (hd : RemoveBlock LargeOctets → Headers)
    (rb : ChainTracker → TxoProof → Headers → Rs.M ChainTracker) (ps ps' : Node → ChainTracker → Rs.M Unit)
    (self : RootHandler Node Approve) (m : RemoveBlock LargeOctets)
    (h : m.unspent_proof = none ∨ ∃ prf p e, m.unspent_proof = some prf ∧ pr prf = .ok p ∧ rb (gt self.node) p (hd m) = .error e) :
    RootHandler.do_handle__RemoveBlock gt ab pr hd rb ps self m = RootHandler.do_handle__RemoveBlock gt ab pr hd rb ps' self m := by
  rw [Handler_fn_remove_block, Handler_fn_remove_block]
  rcases h with h | ⟨prf, p, e, h1, h2, h3⟩
  · rw [h]
  · rw [h1]; simp only [h2, h3, Rs.bind_ok, Rs.bind_err]

/-- `BlockChunk`: the chunk goes to the node's tracker with the message's hash, offset and content; nothing is persisted -/
theorem Handler_fn_block_chunk (gt : Node → ChainTracker) (o0 : Octets → List Nat)
    (bc : ChainTracker → BlockHash → Nat → List Nat → Rs.M ChainTracker) (self : RootHandler Node Approve) (m : BlockChunk BlockHash Octets) :
    RootHandler.do_handle__BlockChunk gt o0 bc self m = bc (gt self.node) m.hash m.offset (o0 m.content) >>= fun _ => .ok ⟨⟩ := rfl
end Tracker

/-! ### non-vacuity: a concrete core in which the arms run -/

/-- a toy channel: the next holder commitment number; `revoke n` succeeds iff `n` is that number -/
def toyRevoke (c n : Nat) : Rs.M (Nat × (Nat × Option Nat)) :=
  if n = c then .ok (c + 1, (100 + n, some (n - 1))) else .error (.err "policy-revoke")
def toyWc : {T : Type} → Unit → Nat → (Nat → Rs.M (Nat × T)) → Rs.M T := fun _ id f =>
  if id = 7 then (f 3) >>= fun r => .ok r.2 else .error (.err "Status::invalid_argument")

example : ChannelHandler.do_handle__RevokeCommitmentTx (PubKey := Nat) (DisclosedSecret := Nat) toyRevoke toyWc id id
    { node := (), protocol_version := 5, channel_id := 7 } { commitment_number := 2 }
    = .ok { old_commitment_secret := 2, next_per_commitment_point := 103 } := by rfl
example : ChannelHandler.do_handle__RevokeCommitmentTx (PubKey := Nat) (DisclosedSecret := Nat) toyRevoke toyWc id id
    { node := (), protocol_version := 4, channel_id := 7 } { commitment_number := 2 }
    = .error (.err "Status::invalid_argument") := by rfl
example : ChannelHandler.do_handle__RevokeCommitmentTx (PubKey := Nat) (DisclosedSecret := Nat) toyRevoke toyWc id id
    { node := (), protocol_version := 5, channel_id := 7 } { commitment_number := 5 }
    = .error (.err "policy-revoke") := by rfl

end VlsModel.Props.HandlerFn
