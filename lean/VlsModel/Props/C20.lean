import VlsModel.Model.Locks
import VlsModel.Lemmas.Locks
import VlsModel.Gen.LockTable
import VlsModel.Model.Locks2pl
import VlsModel.Lemmas.Locks2pl
import VlsModel.Lemmas.LocksAtomic
import VlsModel.Lemmas.LocksErase
/-
Property C20 — concurrent requests neither deadlock nor break per-channel atomicity.

* `Locks_order_deadlock_free` (GENERAL, unbounded: any lock type, any number of threads/requests,
  any schedule): requests that acquire locks in increasing order of some strict partial order (the
  held-while-acquiring relation is acyclic) never deadlock, and every execution has at most
  `measure` steps, i.e. every request completes under every schedule.
  `Locks_rank_deadlock_free`: the same for a rank function into `Nat × Nat` (class rank, instance:
  instances of `slot` ordered by id) stated on the held-while-acquiring edges.
* `C20_main_statement` = the full property instantiated at the GENERATED lock table (every request
  kind).  For the current code it is FALSE: `C20_full_false` / `C20_cycle_slot_monitor` exhibit the
  deadlocked interleaving of a channel request with `add_block` (slot(i) ↔ monitor(i), the remaining
  cycle of finding F11; the node_state and tracker cycles were removed by re-ordering).
* `C20_partial`: deadlock freedom + termination for any number of concurrent requests of the kinds
  in `subKinds` (15 of the 17 scanned kinds: everything except add_block / remove_block); lock order
  tracker < channels < slot < node_state < monitor < monitor_decode < validator_factory < store; the
  acyclicity of that sub-table is `C20_subtable_acyclic`, by `decide +kernel` over the generated table.
* `Locks_2pl_exclusive_partial`: mutual exclusion (two threads never hold the same lock, so the events a
  channel request executes between acquiring and releasing `slot i` are never interleaved with
  another holder of `slot i`).
* `Locks_2pl_serializable` (general, unbounded; lock model with data `Model/Locks2pl.lean`): strict
  two-phase requests — acquire/update first, then only release; `slot i` held for the whole
  read-modify-write of channel `i`, `node_state` for the node ledger — are serializable: the final
  data of every complete interleaved execution equals the data after running all requests
  sequentially in the order of their first releases.  Limits: the theorem is about the model class
  of strict two-phase requests with deterministic critical sections; replies are not modelled; a
  request of the code that opens several independent critical sections (e.g. the channel-map
  lookup of `with_channel`, `get_heartbeat`: node_state, then tracker) is a sequence of such
  transactions and is covered per transaction only.  Serializability of whole requests of the
  implementation (replies + final state) is validated by the harness against all sequential orders.
-/
namespace VlsModel.Props.C20
open VlsModel.Locks VlsModel.Gen.LockTable

/-! ### General theorems -/

/-- **General deadlock freedom.**  `lt` is any strict partial order on locks; every request acquires
only locks `lt`-above everything it holds and ends holding nothing.  Then from every reachable state
of any multiset of requests under any schedule some thread can step unless all are finished, and
every execution has at most `measure` (= total number of events) steps. -/
theorem Locks_order_deadlock_free {L : Type} [DecidableEq L] (lt : L → L → Prop)
    (irrefl : ∀ a, ¬ lt a a) (trans : ∀ a b c, lt a b → lt b c → lt a c)
    (reqs : List (List (Ev L))) (hord : ∀ r ∈ reqs, Ordered lt [] r) :
    ∀ n s, Steps n (mkState reqs) s →
      n ≤ measure (mkState reqs) ∧ (allDone s ∨ ∃ s', Step s s') ∧ ¬ Deadlocked s := by
  intro n s hs
  have inv := ordered_steps lt (mkState_ordered lt reqs hord) hs
  have hm := measure_steps hs
  have hp := progress lt irrefl trans s inv
  refine ⟨by omega, hp, ?_⟩
  intro ⟨hnd, hno⟩
  rcases hp with hd | ⟨s', i, hi⟩
  · exact hnd hd
  · rw [hno i] at hi; cases hi

/-- the same, stated on the held-while-acquiring edges with a rank function (lexicographic
`Nat × Nat`: e.g. class rank, then instance id) -/
theorem Locks_rank_deadlock_free {L : Type} [DecidableEq L] (rank : L → Nat × Nat)
    (reqs : List (List (Ev L)))
    (hacyc : ∀ r ∈ reqs, (∀ e ∈ edgesOf [] r, rlt (rank e.1) (rank e.2)) ∧ endsEmpty [] r = true) :
    ∀ n s, Steps n (mkState reqs) s →
      n ≤ measure (mkState reqs) ∧ (allDone s ∨ ∃ s', Step s s') ∧ ¬ Deadlocked s :=
  Locks_order_deadlock_free (fun a b => rlt (rank a) (rank b))
    (fun _ => rlt_irrefl _) (fun _ _ _ => rlt_trans _ _ _) reqs
    (fun r hr => ordered_of_edges _ r [] (hacyc r hr).1 (hacyc r hr).2)

/-! ### Instantiation at the generated table -/

/-- a concrete request conforms to kind `k` of the table: every held-while-acquiring pair of its
events is (class-wise) an edge of the table row, and it ends holding nothing -/
def Conforms (k : Kind) (r : List (Ev Lock)) : Prop :=
  (∀ e ∈ edgesOf [] r, (e.1.cls, e.2.cls) ∈ edges k) ∧ endsEmpty [] r = true

instance (k : Kind) (r : List (Ev Lock)) : Decidable (Conforms k r) := by
  unfold Conforms; infer_instance

/-- the property for a set of request kinds: any number of concurrent requests of these kinds, on any
channels, under any schedule: no reachable state is stuck, and executions are bounded -/
def DeadlockFreeFor (kinds : List Kind) : Prop :=
  ∀ reqs : List (List (Ev Lock)), (∀ r ∈ reqs, ∃ k ∈ kinds, Conforms k r) →
    ∀ n s, Steps n (mkState reqs) s →
      n ≤ measure (mkState reqs) ∧ (allDone s ∨ ∃ s', Step s s')

/-- the full statement of C20's liveness half at the generated table: all scanned request kinds -/
def C20_main_statement : Prop := DeadlockFreeFor Kind.all

/-- rank of the lock classes that orders the acyclic sub-table -/
def rankCls : Cls → Nat
  | .tracker => 0 | .channels => 1 | .slot => 2 | .nodeState => 3 | .monitor => 4
  | .monitorDecode => 5 | .validatorFactory => 6 | .store => 7 | .approver => 8

/-- the request kinds whose rows are rank-increasing in the current table -/
def subKinds : List Kind :=
  [.channel_request, .channel_base_request, .forget_channel, .channel_balance, .chaninfo,
   .check_onchain_tx, .unchecked_sign_onchain_tx, .new_channel, .setup_channel, .get_heartbeat,
   .add_invoice, .add_keysend, .add_allowlist, .set_allowlist, .remove_allowlist,
   .sign_bolt11_invoice, .has_payment]

/-- generated-table obligation: every edge of every row of the sub-table increases the rank -/
theorem C20_subtable_acyclic : ∀ k ∈ subKinds, ∀ e ∈ edges k, rankCls e.1 < rankCls e.2 := by
  decide +kernel

/-- **C20 (partial).**  Any number of concurrent requests of the kinds in `subKinds`, on any
channels, under any schedule: every reachable state can step unless all requests are finished, and
every execution has at most `measure` steps — every request completes. -/
theorem C20_partial : DeadlockFreeFor subKinds := by
  intro reqs hconf n s hs
  have h := Locks_order_deadlock_free (L := Lock) (fun a b => rankCls a.cls < rankCls b.cls)
    (fun _ => Nat.lt_irrefl _) (fun _ _ _ => Nat.lt_trans) reqs (by
      intro r hr
      obtain ⟨k, hk, hc, he⟩ := hconf r hr
      exact ordered_of_edges _ r [] (fun e hmem => C20_subtable_acyclic k hk _ (hc e hmem)) he) n s hs
  exact ⟨h.1, h.2.1⟩

/-! ### Census of the protocol front end: every arm of handler.rs

`Gen.LockTable.arms` lists, for EVERY `Message::X` arm of the three `do_handle` functions of
vls-protocol-signer/src/handler.rs (InitHandler, RootHandler, ChannelHandler), for the other `self` methods
of handler.rs, for the approver entry points it calls and for the Node API no arm calls, the
held-while-acquiring edges of the program (closure literals of `with_channel` bound to the slot section,
helper functions and `tracker.add_block/remove_block/block_chunk/abort_streamed_block` followed into
tracker.rs and the monitors).  The extraction fails closed on an arm it cannot split, a `node.<f>` that is
not in node.rs, a `with_channel` without a closure literal, an unclassified `.lock()` receiver, and on a lock
acquisition in any function that no program reaches (except `unreachedSites`). -/

/-- an edge list respects the class rank -/
def rankOk (es : List (Cls × Cls)) : Bool := es.all (fun e => decide (rankCls e.1 < rankCls e.2))

/-- names of the front-end programs whose edges do not all increase the rank -/
def cyclicArms : List String := (arms.filter (fun a => !rankOk a.2)).map (·.1)

/-- generated-table obligation (census): the ONLY front-end programs that do not respect the lock order
are the three block arms of the root handler (known finding slot ↔ monitor) and the maintenance API
`Node::persist_all` (finding F11d: it holds node_state while taking the channel map, the slots and the
tracker; no caller inside the repository) -/
theorem C20_handler_census_names :
    cyclicArms = ["Root.AddBlock", "Root.RemoveBlock", "Root.BlockChunk", "Node.persist_all"] := by rfl

/-- the row of `Node::persist_all` as it is today (finding F11d) -/
def persistAllRow : List (Cls × Cls) :=
  [(.tracker, .store), (.channels, .slot), (.channels, .store), (.slot, .store),
   (.nodeState, .tracker), (.nodeState, .channels), (.nodeState, .slot), (.nodeState, .store)]

/-- generated-table obligation (census): every front-end program either acquires locks in rank order, or
all its edges are edges of the `add_block` / `remove_block` rows (the listed known-finding cycle), or it is
the `persist_all` row (F11d) -/
theorem C20_handler_census :
    ∀ a ∈ arms, (∀ e ∈ a.2, rankCls e.1 < rankCls e.2) ∨
      (∀ e ∈ a.2, e ∈ edges .add_block ∨ e ∈ edges .remove_block) ∨ a.2 = persistAllRow := by
  decide +kernel

/-- generated-table obligation (site census): the functions that contain a lock acquisition and are reached
by no request program are exactly the reviewed constructors / restore code / test-only accessors
(`provider::new` — the constructor of the commitment-point provider, which locks the new slot — is reached from
`setup_channel` since the call-graph resolution follows `ChannelCommitmentPointProvider::new`) -/
theorem C20_site_census :
    unreachedSites = ["monitor::add_funding", "monitor::closing_depth", "monitor::funding_depth",
      "monitor::funding_double_spent_depth", "monitor::new_from_persistence", "node::maybe_sync_persister",
      "node::new_from_persistence", "node::restore_node"] := by rfl

/-- generated-table obligation (call census — lock scopes taken through helper functions): the calls in scanned
bodies that the call-graph resolution does NOT follow although a function of that NAME in the scanned files takes
a lock are exactly these thirty reviewed ones: the `Approve` delegate chain (trait object, trusted base), constructors
and restore code, same-name dispatch (`ChannelSlot::chaninfo`), same-name methods of the guarded data
(`State::is_done` behind `ChainMonitorBase::is_done`), the factory's own `policy`, the closure parameter of
`ChainTracker::do_push`, and `do_handle` (split into its arms).  In particular NO call on a validator object
(`validator.x(`, `self.validator().x(`, the `inner` validator of `OnchainValidator`) is left unresolved: the validators
reach `Node::allowlist_contains` / `can_spend` (node_state) through their `wallet` argument while the slot is held. -/
theorem C20_call_census :
    unresolvedCalls = ["approver: delegate.approve_invoice", "approver: delegate.approve_keysend",
      "approver: delegate.approve_onchain", "channel: chan.chaninfo", "channel: enforcement_state.balance",
      "channel: keys.release_commitment_secret", "channel: stub.chaninfo", "handler: InitHandler.new",
      "handler: Node.new", "handler: Node.restore_node", "handler: self.do_handle",
      "monitor: get_state().diagnostic", "monitor: get_state().is_done", "monitor: state.on_add_block_end",
      "node: ChainMonitorBase.new", "node: ChainMonitorBase.new_from_persistence",
      "node: Node.new_from_persistence", "node: Node.restore_node", "node: NodeState.new",
      "node: channel.restore_payments", "node: validator_factory().policy", "node: validator_factory.policy",
      "onchain_validator: SimpleValidatorFactory.new", "onchain_validator: inner_factory.policy",
      "tracker: pl.on_block_end", "tracker: pl.on_block_start", "tracker: pl.on_transaction_end",
      "tracker: pl.on_transaction_input", "tracker: pl.on_transaction_output",
      "tracker: pl.on_transaction_start"] := by rfl

/-- generated-table obligation (file census): the only files of vls-core/src and vls-protocol-signer/src outside the
scanned ones (tests excluded) that contain a lock expression are the hook's tap, the manual clock, the mocks and the
`MultiSigner` front end (reviewed: its `nodes` mutex is outermost, its `with_channel` copies `Node::with_channel`) -/
theorem C20_file_census :
    unscannedLockFiles = [("vls-core/src/signer/multi_signer.rs", 8), ("vls-core/src/util/clock.rs", 2),
      ("vls-core/src/util/mocks.rs", 1), ("vls-core/src/verif_sync.rs", 4)] := by decide

/-- generated-table obligation: the sweep-signing arms validate their destination against the wallet/allowlist
(node_state) while the slot is held — the edge the validator calls contribute (it was missing from these rows
before the resolution followed calls on validator objects) -/
theorem C20_sweep_arms_reach_node_state :
    ∀ n ∈ ["Channel.SignDelayedPaymentToUs", "Channel.SignRemoteHtlcToUs", "Channel.SignPenaltyToUs",
           "Root.SignAnyDelayedPaymentToUs", "Root.SignAnyRemoteHtlcToUs", "Root.SignAnyPenaltyToUs",
           "Channel.SignMutualCloseTx2"],
      ∃ a ∈ arms, a.1 = n ∧ (Cls.slot, Cls.nodeState) ∈ a.2 := by
  decide +kernel

/-- generated-table obligation: every lock order that a comment of the sources documents (`lock order:
tracker -> channels -> channel -> node state`, `tracker before channels`, monitor.rs "after `self.state`") is
strictly increasing in the rank that orders the table: documentation, code and proof agree on ONE order
(a comment about a lock order that the extractor cannot read fails the extraction) -/
theorem C20_documented_orders_respect_rank :
    documentedOrders.length ≥ 5 ∧
    ∀ d ∈ documentedOrders, (d.2.zip d.2.tail).all (fun p => decide (rankCls p.1 < rankCls p.2)) = true := by
  decide +kernel

/-- a concrete request conforms to a row of edges -/
def ConformsRow (row : List (Cls × Cls)) (r : List (Ev Lock)) : Prop :=
  (∀ e ∈ edgesOf [] r, (e.1.cls, e.2.cls) ∈ row) ∧ endsEmpty [] r = true

instance (row : List (Cls × Cls)) (r : List (Ev Lock)) : Decidable (ConformsRow row r) := by
  unfold ConformsRow; infer_instance

/-- deadlock freedom + termination for any number of concurrent requests each conforming to one of `rows` -/
def DeadlockFreeForRows (rows : List (List (Cls × Cls))) : Prop :=
  ∀ reqs : List (List (Ev Lock)), (∀ r ∈ reqs, ∃ row ∈ rows, ConformsRow row r) →
    ∀ n s, Steps n (mkState reqs) s →
      n ≤ measure (mkState reqs) ∧ (allDone s ∨ ∃ s', Step s s')

theorem deadlockFreeForRows_of_rank (rows : List (List (Cls × Cls)))
    (h : ∀ row ∈ rows, ∀ e ∈ row, rankCls e.1 < rankCls e.2) : DeadlockFreeForRows rows := by
  intro reqs hconf n s hs
  have h' := Locks_order_deadlock_free (L := Lock) (fun a b => rankCls a.cls < rankCls b.cls)
    (fun _ => Nat.lt_irrefl _) (fun _ _ _ => Nat.lt_trans) reqs (by
      intro r hr
      obtain ⟨row, hrow, hc, he⟩ := hconf r hr
      exact ordered_of_edges _ r [] (fun e hmem => h row hrow _ (hc e hmem)) he) n s hs
  exact ⟨h'.1, h'.2.1⟩

/-- the rows of all front-end programs that respect the rank, together with the node-level rows of `subKinds` -/
def orderedRows : List (List (Cls × Cls)) :=
  (arms.filter (fun a => rankOk a.2)).map (·.2) ++ subKinds.map edges

/-- **C20 (partial, protocol level).**  Any number of concurrent protocol requests — any `Message` arm of the
Init/Root/Channel handlers except AddBlock / RemoveBlock / BlockChunk, any approver call, any other scanned
API — on any channels, under any schedule: no reachable state is stuck and every execution is bounded. -/
theorem C20_handler_partial : DeadlockFreeForRows orderedRows :=
  deadlockFreeForRows_of_rank _ (by decide +kernel)

/-- the order discipline composes: a request that respects it and ends holding nothing, followed by another
such request, is again such a request -/
theorem ordered_append {L : Type} [DecidableEq L] (lt : L → L → Prop) :
    ∀ (r1 r2 : List (Ev L)) (held : List L), Ordered lt held r1 → Ordered lt [] r2 →
      Ordered lt held (r1 ++ r2) := by
  intro r1
  induction r1 with
  | nil =>
    intro r2 held h1 h2
    simp only [Ordered] at h1
    subst h1
    simpa using h2
  | cons e r ih =>
    intro r2 held h1 h2
    cases e with
    | acq l =>
      simp only [List.cons_append, Ordered] at h1 ⊢
      exact ⟨h1.1, ih r2 (l :: held) h1.2 h2⟩
    | rel l =>
      simp only [List.cons_append, Ordered] at h1 ⊢
      exact ih r2 (held.erase l) h1 h2

theorem ordered_flatten {L : Type} [DecidableEq L] (lt : L → L → Prop) :
    ∀ (rs : List (List (Ev L))), (∀ r ∈ rs, Ordered lt [] r) → Ordered lt [] rs.flatten := by
  intro rs
  induction rs with
  | nil => intro _; simp [Ordered]
  | cons r rs ih =>
    intro h
    simp only [List.flatten_cons]
    exact ordered_append lt r rs.flatten [] (h r (List.mem_cons_self ..))
      (ih (fun r' hr' => h r' (List.mem_cons_of_mem _ hr')))

/-- **C20 (partial, sessions).**  Every thread is a SESSION: it issues any finite sequence of protocol requests
one after the other (a connection handler), each conforming to one of the rank-respecting rows
(`orderedRows`: every handler arm except AddBlock / RemoveBlock / BlockChunk, every approver / API program except
`persist_all`, every node-level kind of `subKinds`).  Any number of concurrent sessions, any schedule: no
reachable state is stuck, every session completes within the total number of lock events. -/
theorem C20_handler_partial_sessions (sessions : List (List (List (Ev Lock))))
    (hconf : ∀ sess ∈ sessions, ∀ r ∈ sess, ∃ row ∈ orderedRows, ConformsRow row r) :
    ∀ n s, Steps n (mkState (sessions.map List.flatten)) s →
      n ≤ measure (mkState (sessions.map List.flatten)) ∧ (allDone s ∨ ∃ s', Step s s') := by
  intro n s hs
  have hrank : ∀ row ∈ orderedRows, ∀ e ∈ row, rankCls e.1 < rankCls e.2 := by decide +kernel
  have h' := Locks_order_deadlock_free (L := Lock) (fun a b => rankCls a.cls < rankCls b.cls)
    (fun _ => Nat.lt_irrefl _) (fun _ _ _ => Nat.lt_trans) (sessions.map List.flatten) (by
      intro r hr
      obtain ⟨sess, hsess, rfl⟩ := List.mem_map.mp hr
      apply ordered_flatten
      intro q hq
      obtain ⟨row, hrow, hc, he⟩ := hconf sess hsess q hq
      exact ordered_of_edges _ q [] (fun e hmem => hrank row hrow _ (hc e hmem)) he) n s hs
  exact ⟨h'.1, h'.2.1⟩

/-- non-vacuity of `C20_handler_partial_sessions`: a session of two channel requests on channels 0 and 1
followed by a keysend approval, each conforming to its row of `subKinds` (⊆ `orderedRows`) -/
example : ∀ r ∈ [instPath 0 (path .channel_request), instPath 1 (path .channel_request),
                 instPath 0 (path .add_keysend)],
    ∃ row ∈ orderedRows, ConformsRow row r := by decide +kernel

/-- the generated canonical path of every rank-respecting front-end program (instantiated at channel 0)
conforms to its own row and ends holding nothing: the hypotheses of `C20_handler_partial` are satisfiable by
each of them (non-vacuity), and `armPaths` is consistent with `arms` -/
theorem C20_arm_paths_conform :
    arms.length = armPaths.length ∧
    ∀ p ∈ arms.zip armPaths, rankOk p.1.2 = true → ConformsRow p.1.2 (instPath 0 p.2.2) := by
  decide +kernel

/-- generated-table obligation (two extraction paths agree): the rows of the 25 ChannelHandler arms — extracted
with the closure literal of each `with_channel` call bound to the slot section — only REFINE the node-level rows
(`channel_request` = union over every Channel method, `channel_base_request`, `setup_channel`), which are validated
against the lock traces of the real code: no arm row has an edge that the trace-validated rows lack -/
theorem C20_channel_arm_rows_refine_kind_rows :
    ((arms.drop 42).take 25).length = 25 ∧
    ∀ a ∈ (arms.drop 42).take 25, ∀ e ∈ a.2,
      e ∈ edges .channel_request ∨ e ∈ edges .channel_base_request ∨ e ∈ edges .setup_channel := by
  decide +kernel

/-- generated-table obligation: no front-end program has a held-while-acquiring edge that is unknown at the node
level — every edge of every arm / API program is an edge of some node-level kind (whose rows are validated against
the traces) -/
theorem C20_arm_edges_known_at_node_level :
    ∀ a ∈ arms, ∀ e ∈ a.2, ∃ k ∈ Kind.all, e ∈ edges k := by
  decide +kernel

/-- … and position 42–66 of `arms` are exactly the ChannelHandler arms -/
theorem C20_channel_arms_positions :
    ((arms.drop 42).take 25).map (·.1) =
      ["Channel.Memleak", "Channel.CheckFutureSecret", "Channel.Ecdh", "Channel.GetPerCommitmentPoint",
       "Channel.GetPerCommitmentPoint2", "Channel.SetupChannel", "Channel.CheckOutpoint", "Channel.LockOutpoint",
       "Channel.SignRemoteHtlcTx", "Channel.SignLocalHtlcTx2", "Channel.SignRemoteCommitmentTx",
       "Channel.SignRemoteCommitmentTx2", "Channel.SignDelayedPaymentToUs", "Channel.SignRemoteHtlcToUs",
       "Channel.SignLocalHtlcTx", "Channel.SignMutualCloseTx", "Channel.SignMutualCloseTx2",
       "Channel.ValidateCommitmentTx", "Channel.ValidateCommitmentTx2", "Channel.RevokeCommitmentTx",
       "Channel.SignLocalCommitmentTx2", "Channel.ValidateRevocation", "Channel.SignPenaltyToUs",
       "Channel.SignChannelAnnouncement", "Channel.Unknown"] := by rfl

/-- non-vacuity: at least 40 front-end programs take locks, at least 25 of them nest two of them -/
example : (armPaths.filter (fun p => p.2.length ≥ 2)).length ≥ 40 ∧
    (arms.filter (fun a => a.2.length ≥ 1)).length ≥ 25 := by decide +kernel

/-! ### Slot sections of the front-end programs (request-level atomicity)

`Gen.LockTable.armSections`: for every front-end program the `with_channel` / `with_channel_base` sections it
opens (directly or through helper functions of handler.rs) and, per section, the Channel methods its closure
literal calls with their receiver mutability (`&mut self` = true), read from channel.rs. -/

/-- number of slot sections of a program whose closure calls a `&mut self` Channel method -/
def mutSections (secs : List (Bool × List (String × Bool))) : Nat :=
  (secs.filter (fun s => s.2.any (·.2))).length

/-- generated-table obligation: every front-end program mutates its channel in at most ONE slot section — the
whole read-modify-write of a request (e.g. validation + revocation of the pre-v5 `ValidateCommitmentTx`) is one
critical section of `slot i`, which is the strict two-phase hypothesis of `Locks_2pl_serializable` at the level
of the protocol request — except `Root.SignCommitmentTx`, whose two sections are the two branches of one `if`
(mutual close vs. holder commitment: one of them runs) -/
theorem C20_arm_single_writer_section :
    (armSections.filter (fun a => decide (mutSections a.2 > 1))).map (·.1) = ["Root.SignCommitmentTx"] := by
  rfl

/-- generated-table obligation: a program whose slot section mutates the channel writes the channel record
while the slot is held (`(slot, store)` is an edge of the program): the order of the stored records of one
channel is the order of its slot sections -/
theorem C20_arm_mutation_persisted_under_slot :
    armSections.length = arms.length ∧
    ∀ p ∈ arms.zip armSections, mutSections p.2.2 ≥ 1 → (Cls.slot, Cls.store) ∈ p.1.2 := by
  decide +kernel

/-- non-vacuity: at least 10 programs have a mutating slot section, at least 25 open a slot section -/
example : (armSections.filter (fun a => decide (mutSections a.2 ≥ 1))).length ≥ 10 ∧
    (armSections.filter (fun a => decide (a.2.length ≥ 1))).length ≥ 25 := by decide +kernel

/-! ### Refutation of the full statement for the current table (finding F11) -/

theorem runSched_steps {L : Type} [DecidableEq L] :
    ∀ (sched : List Nat) (s s' : State L), runSched s sched = some s' → Steps sched.length s s' := by
  intro sched
  induction sched with
  | nil => intro s s' h; simp [runSched] at h; subst h; exact Steps.refl _
  | cons i is ih =>
    intro s s' h
    simp only [runSched] at h
    cases hi : stepAt s i with
    | none => simp [hi] at h
    | some s1 =>
      simp only [hi] at h
      have h1 := ih s1 s' h
      -- prepend the first step
      have : ∀ (n : Nat) (a b : State L), Steps n a b → ∀ c, Step c a → Steps (n + 1) c b := by
        intro n a b hab
        induction hab with
        | refl => intro c hc; exact Steps.tail (Steps.refl _) hc
        | tail _ hstep ih' => intro c hc; exact Steps.tail (ih' c hc) hstep
      simpa using this _ _ _ h1 s ⟨i, hi⟩

theorem stepAt_none_of_le {L : Type} [DecidableEq L] (s : State L) (i : Nat) (h : s.length ≤ i) :
    stepAt s i = none := by
  unfold stepAt
  have : s[i]? = none := by simp [h]
  simp [this]

/-- executable check: requests `k1`, `k2` (canonical paths at channel instance 0) conform to the
table, the schedule is executable, and the state reached is stuck with somebody unfinished -/
def deadlockWitness (k1 k2 : Kind) (sched : List Nat) : Bool :=
  let reqs := [instPath 0 (path k1), instPath 0 (path k2)]
  decide (Conforms k1 (instPath 0 (path k1))) && decide (Conforms k2 (instPath 0 (path k2))) &&
  match runSched (mkState reqs) sched with
  | none => false
  | some s => !decide (allDone s) && (List.range s.length).all (fun i => (stepAt s i).isNone)

theorem not_deadlockFree_of_witness (k1 k2 : Kind) (sched : List Nat)
    (h : deadlockWitness k1 k2 sched = true) : ¬ DeadlockFreeFor [k1, k2] := by
  intro hfree
  unfold deadlockWitness at h
  simp only [Bool.and_eq_true, decide_eq_true_eq] at h
  obtain ⟨⟨hc1, hc2⟩, hrun⟩ := h
  cases hr : runSched (mkState [instPath 0 (path k1), instPath 0 (path k2)]) sched with
  | none => simp [hr] at hrun
  | some s =>
    simp only [hr, Bool.and_eq_true, Bool.not_eq_true', decide_eq_false_iff_not,
      List.all_eq_true, List.mem_range, Option.isNone_iff_eq_none] at hrun
    obtain ⟨hnd, hstuck⟩ := hrun
    have hsteps := runSched_steps sched _ _ hr
    have := (hfree [instPath 0 (path k1), instPath 0 (path k2)] (by
      intro r hr'
      simp only [List.mem_cons, List.mem_nil_iff, or_false] at hr'
      rcases hr' with rfl | rfl
      · exact ⟨k1, by simp, hc1⟩
      · exact ⟨k2, by simp, hc2⟩) _ s hsteps).2
    rcases this with hd | ⟨s', i, hi⟩
    · exact hnd hd
    · by_cases hlt : i < s.length
      · rw [hstuck i hlt] at hi; cases hi
      · rw [stepAt_none_of_le s i (by omega)] at hi; cases hi

theorem deadlockFree_mono {ks ks' : List Kind} (hsub : ∀ k ∈ ks, k ∈ ks') :
    DeadlockFreeFor ks' → DeadlockFreeFor ks := by
  intro h reqs hc
  exact h reqs (fun r hr => by obtain ⟨k, hk, hck⟩ := hc r hr; exact ⟨k, hsub k hk, hck⟩)

/-- cycle slot(i) ↔ monitor(i): a channel request reads its monitor while holding the slot, a block
containing a transaction of that channel makes the monitor call the commitment-point provider,
which locks the slot. -/
theorem C20_cycle_slot_monitor : ¬ DeadlockFreeFor [.channel_request, .add_block] :=
  not_deadlockFree_of_witness _ _ [0, 0, 0, 0, 0, 0, 0, 1, 1] (by decide +kernel)

/-- finding F11d: `Node::persist_all` holds node_state while it takes the channel map and every slot; a
channel request holds its slot while it takes node_state.  (The function has no caller inside the repository;
it is public API "useful if switching to a new persister".) -/
theorem C20_cycle_persist_all : ¬ DeadlockFreeFor [.channel_request, .persist_all] :=
  not_deadlockFree_of_witness _ _ ([0, 0, 0, 1, 1, 1, 1] ++ List.replicate 10 0) (by decide +kernel)

/-- **The full statement is false for the current code** (finding F11). -/
theorem C20_full_false : ¬ C20_main_statement := by
  intro h
  exact C20_cycle_slot_monitor (deadlockFree_mono (by decide) h)

/-! ### Atomicity (lock-level half of two-phase locking) -/

/-- no lock is held by two different threads -/
abbrev Exclusive {L : Type} (s : State L) : Prop :=
  ∀ (i j : Nat) (ti tj : Thread L), s[i]? = some ti → s[j]? = some tj → i ≠ j → ∀ l, l ∈ ti.held → l ∉ tj.held

/-
`Locks_2pl_serializable` (below, after the mutual-exclusion invariant) is proved in the lock model with
data (`Model/Locks2pl.lean`): every lock guards one data cell, `upd l f` is a deterministic
read-modify-write enabled only while `l` is held.
-/

/-- **Mutual exclusion is an invariant** of the interleaving semantics (any requests, any schedule):
while a request holds `slot i` no other thread holds it, so its read-modify-write of channel `i`
inside ONE critical section cannot be interleaved with another holder of `slot i`. -/
theorem Locks_2pl_exclusive_partial {L : Type} [DecidableEq L] (reqs : List (List (Ev L))) :
    ∀ n s, Steps n (mkState reqs) s → Exclusive s := by
  intro n s hs
  have h0 : Exclusive (mkState reqs) := by
    intro i j ti tj hi _ _ l hl
    have : ti ∈ mkState reqs := List.mem_of_getElem? hi
    obtain ⟨r, _, rfl⟩ := List.mem_map.mp this
    simp at hl
  have step_inv : ∀ a b : State L, Exclusive a → Step a b → Exclusive b := by
    intro a b ha ⟨k, hk⟩
    obtain ⟨t, htk, hc⟩ := stepAt_cases hk
    have hklt : k < a.length := by
      rcases Nat.lt_or_ge k a.length with h | h
      · exact h
      · simp [h] at htk
    intro i j ti tj hi hj hij l hl
    rcases hc with ⟨m, r, _, hfree, rfl⟩ | ⟨m, r, _, rfl⟩
    · rw [List.getElem?_set] at hi hj
      unfold isFree at hfree
      rw [List.all_eq_true] at hfree
      by_cases hik : k = i
      · subst hik
        have hjk : ¬ k = j := hij
        simp only [hjk, if_false] at hj
        simp only [if_true, hklt] at hi
        cases hi
        have htj := hfree tj (List.mem_of_getElem? hj)
        rcases List.mem_cons.mp hl with rfl | hl
        · simpa using htj
        · exact ha k j t tj htk hj hij l hl
      · simp only [hik, if_false] at hi
        by_cases hjk : k = j
        · subst hjk
          simp only [if_true, hklt] at hj
          cases hj
          intro hmem
          rcases List.mem_cons.mp hmem with rfl | hmem
          · have hti := hfree ti (List.mem_of_getElem? hi)
            simp at hti; exact hti hl
          · exact ha i k ti t hi htk hij l hl hmem
        · simp only [hjk, if_false] at hj
          exact ha i j ti tj hi hj hij l hl
    · rw [List.getElem?_set] at hi hj
      by_cases hik : k = i
      · subst hik
        have hjk : ¬ k = j := hij
        simp only [hjk, if_false] at hj
        simp only [if_true, hklt] at hi
        cases hi
        exact ha k j t tj htk hj hij l (List.mem_of_mem_erase hl)
      · simp only [hik, if_false] at hi
        by_cases hjk : k = j
        · subst hjk
          simp only [if_true, hklt] at hj
          cases hj
          intro hmem
          exact ha i k ti t hi htk hij l hl (List.mem_of_mem_erase hmem)
        · simp only [hjk, if_false] at hj
          exact ha i j ti tj hi hj hij l hl
  have all : ∀ (n : Nat) (a b : State L), Steps n a b → Exclusive a → Exclusive b := by
    intro n a b hab
    induction hab with
    | refl => exact id
    | tail _ hstep ih => intro ha; exact step_inv _ _ (ih ha) hstep
  exact all n _ s hs h0

/-! ### Serializability of strict two-phase requests -/

section serializable
open VlsModel.Locks2pl

/-- **Strict two-phase requests are serializable** (unbounded: any lock/data types, any number of
threads, any schedule).  Every request first only acquires locks and updates the cells it holds
(`slot i` for the whole read-modify-write of channel `i`, `node_state` for the node ledger) and then
only releases (`strict2pl`), and releases at least once.  Then for every complete interleaved
execution there is a sequential order of ALL the requests — the order of their first releases — such
that the final data equals the data after running the requests one after the other in that order.
(By `runReq_apply` the value of each cell is the composition of the critical sections on that cell
in that order: the per-lock critical-section order of the execution is the one of the sequential
run.) -/
theorem Locks_2pl_serializable {L D : Type} [DecidableEq L] (mem0 : L → D)
    (reqs : List (List (DEv L D)))
    (hstrict : ∀ r ∈ reqs, strict2pl r = true) (hrel : ∀ r ∈ reqs, hasRel r = true) :
    ∀ n s, Locks2pl.Steps n (Locks2pl.mkState mem0 reqs) s → Locks2pl.allDone s →
      ∃ order : List Nat, order.Nodup ∧ (∀ i, i ∈ order ↔ i < reqs.length) ∧
        ∀ l, s.mem l = (order.foldl (fun m i => runReq m (reqs[i]?.getD [])) mem0) l := by
  intro n s hs hdone
  have inv := inv_steps mem0 _ hs (inv_init mem0 reqs hstrict hrel)
  have hlen : s.threads.length = reqs.length := by
    rw [inv.len]; simp [Locks2pl.mkState]
  have hcommitted : ∀ (i : Nat) (t : DThread L D), s.threads[i]? = some t → t.committed = true := by
    intro i t hi
    have hmem : t ∈ s.threads := List.mem_of_getElem? hi
    cases hc : t.committed with
    | true => rfl
    | false =>
      have := ((inv.tinv t hmem).2.2 hc).2.1
      rw [hdone t hmem] at this
      simp [hasRel] at this
  refine ⟨s.commits, inv.cnodup, ?_, ?_⟩
  · intro i
    rw [inv.cmem i]
    constructor
    · rintro ⟨t, ht, _⟩
      rcases Nat.lt_or_ge i s.threads.length with h | h
      · omega
      · simp [h] at ht
    · intro hi
      have hlt : i < s.threads.length := by omega
      exact ⟨s.threads[i], by simp [hlt], hcommitted i _ (by simp [hlt])⟩
  · intro l
    rw [inv.memA l (by
      intro j tj hj hjc
      rw [hcommitted j tj hj] at hjc; cases hjc)]
    rw [serialMem_congr mem0 inv.reqs_same]
    unfold serialMem
    have : (fun (m : L → D) (i : Nat) => runReq m (reqAt (Locks2pl.mkState mem0 reqs).threads i))
        = (fun m i => runReq m (reqs[i]?.getD [])) := by
      funext m i
      congr 1
      unfold reqAt Locks2pl.mkState
      simp only [List.getElem?_map]
      cases reqs[i]? <;> rfl
    rw [this]

/-- **Safety invariants lift to concurrent histories** (the "in particular C01–C03 hold for concurrent
histories too" clause, in the lock model with data): let `Inv` be any predicate on the data (e.g. "the
enforcement counters of every channel satisfy C01–C03", "the ledger never exceeds the approvals") that holds
initially and is preserved by every request when run alone (sequentially).  Then it holds in the final state of
EVERY complete interleaved execution of strict two-phase requests — no schedule can break it. -/
theorem Locks_2pl_invariant_lifts {L D : Type} [DecidableEq L] (mem0 : L → D)
    (reqs : List (List (DEv L D)))
    (hstrict : ∀ r ∈ reqs, strict2pl r = true) (hrel : ∀ r ∈ reqs, hasRel r = true)
    (Inv : (L → D) → Prop) (h0 : Inv mem0)
    (hstep : ∀ m, ∀ r ∈ reqs, Inv m → Inv (runReq m r)) :
    ∀ n s, Locks2pl.Steps n (Locks2pl.mkState mem0 reqs) s → Locks2pl.allDone s → Inv s.mem := by
  intro n s hs hdone
  obtain ⟨order, _, hmem, heq⟩ := Locks_2pl_serializable mem0 reqs hstrict hrel n s hs hdone
  have hfun : s.mem = order.foldl (fun m i => runReq m (reqs[i]?.getD [])) mem0 := funext heq
  rw [hfun]
  have hall : ∀ i ∈ order, i < reqs.length := fun i hi => (hmem i).mp hi
  clear hfun heq hmem
  have gen : ∀ (o : List Nat) (m : L → D), (∀ i ∈ o, i < reqs.length) → Inv m →
      Inv (o.foldl (fun m i => runReq m (reqs[i]?.getD [])) m) := by
    intro o
    induction o with
    | nil => intro m _ hm; exact hm
    | cons i is ih =>
      intro m hlt hm
      simp only [List.foldl_cons]
      apply ih
      · intro j hj; exact hlt j (List.mem_cons_of_mem _ hj)
      · have hi : i < reqs.length := hlt i (List.mem_cons_self ..)
        have hget : reqs[i]?.getD [] = reqs[i] := by simp [hi]
        rw [hget]
        exact hstep m _ (List.getElem_mem hi) hm
  exact gen order mem0 hall h0

/-- non-vacuity of `Locks_2pl_invariant_lifts`: two contending ledger requests (+2 and ×3 on cell 9), the
invariant "cell 9 is even" holds initially and is preserved by each request alone, hence after every complete
interleaving (here: the one in which thread 1 commits first) -/
example :
    let r0 : List (DEv Nat Nat) := [.acq 9, .upd 9 (· + 2), .rel 9]
    let r1 : List (DEv Nat Nat) := [.acq 9, .upd 9 (· * 3), .rel 9]
    ((Locks2pl.runSched (Locks2pl.mkState (fun _ => 4) [r0, r1]) [1, 1, 1, 0, 0, 0]).map
        (fun s => (s.mem 9 % 2, s.threads.all (fun t => t.todo.isEmpty)))) = some (0, true) := by
  decide +kernel

/-! ### Per-channel atomicity: a lock-held interval is atomic, for ARBITRARY requests -/

/-- **A lock-held interval is atomic** (unbounded: any lock/data types, any number of threads, ANY requests — no
two-phase hypothesis —, every schedule).  Take any reachable state `s0` in which thread `i` holds `l` (for a channel
request: `slot c`, right after `slot_arc.lock()`), and let `evs` be the events it executes before it releases `l`
(no `rel l` in `evs`: the critical section as delimited by the guard's scope in the source).  Then, whatever the other
threads do in between (any number of steps of anybody), at every point `pre ++ post = evs` of the interval thread `i`
still holds `l` and the cell guarded by `l` is the value it had at `s0` transformed by thread `i`'s OWN updates `pre`,
in program order: no foreign write (and so no foreign read-modify-write) falls between the read phase and the write
phase of the section.  This is the per-channel atomicity of a request whose accesses to the channel lie in one
lock-held interval. -/
theorem Locks_section_atomic {L D : Type} [DecidableEq L] (mem0 : L → D) (reqs : List (List (DEv L D)))
    (n0 : Nat) (s0 : DState L D) (hreach : Locks2pl.Steps n0 (Locks2pl.mkState mem0 reqs) s0)
    (i : Nat) (t : DThread L D) (l : L) (evs rest : List (DEv L D))
    (hi : s0.threads[i]? = some t) (hheld : l ∈ t.held) (htodo : t.todo = evs ++ rest)
    (hnorel : ∀ x, DEv.rel x ∈ evs → x ≠ l) :
    ∀ n s, Locks2pl.Steps n s0 s → ∀ t', s.threads[i]? = some t' →
      ∀ pre post, evs = pre ++ post → t'.todo.length = post.length + rest.length →
        s.mem l = app (s0.mem l) (updsOn l pre) ∧ l ∈ t'.held := by
  intro n s hsteps t' ht' pre post hsplit hlen
  have he0 : Excl s0.threads := excl_steps (excl_init mem0 reqs) hreach
  have inv0 : SecInv i l (s0.mem l) evs rest s0 :=
    ⟨t, hi, Or.inl ⟨[], evs, rfl, htodo, hheld, rfl⟩⟩
  obtain ⟨t'', ht'', hd⟩ := secInv_steps hnorel he0 inv0 hsteps
  rw [ht'] at ht''
  cases ht''
  rcases hd with ⟨pre', post', hevs, htodo', hheld', hmem⟩ | hlt
  · have hl : post.length = post'.length := by
      rw [htodo'] at hlen; simp at hlen; omega
    have hpp : pre = pre' := (List.append_inj' (hsplit.symm.trans hevs) hl).1
    subst hpp
    exact ⟨hmem, hheld'⟩
  · omega

/-- … in particular at the END of the interval (just before the release): the cell holds the value at the start
transformed by exactly the section's own updates — the section is one atomic read-modify-write -/
theorem Locks_section_atomic_end {L D : Type} [DecidableEq L] (mem0 : L → D) (reqs : List (List (DEv L D)))
    (n0 : Nat) (s0 : DState L D) (hreach : Locks2pl.Steps n0 (Locks2pl.mkState mem0 reqs) s0)
    (i : Nat) (t : DThread L D) (l : L) (evs rest : List (DEv L D))
    (hi : s0.threads[i]? = some t) (hheld : l ∈ t.held) (htodo : t.todo = evs ++ rest)
    (hnorel : ∀ x, DEv.rel x ∈ evs → x ≠ l) :
    ∀ n s, Locks2pl.Steps n s0 s → ∀ t', s.threads[i]? = some t' → t'.todo = rest →
      s.mem l = app (s0.mem l) (updsOn l evs) := by
  intro n s hsteps t' ht' hrest
  exact (Locks_section_atomic mem0 reqs n0 s0 hreach i t l evs rest hi hheld htodo hnorel n s hsteps t' ht'
    evs [] (by simp) (by rw [hrest]; simp)).1

/-- non-vacuity of `Locks_section_atomic`: thread 0 is inside its section on cell 9 (`+2`, then `×5`), thread 1
contends for the same cell -/
example : ∃ (s0 : DState Nat Nat) (t : DThread Nat Nat),
    Locks2pl.Steps 1 (Locks2pl.mkState (fun _ => 4)
      [[.acq 9, .upd 9 (· + 2), .upd 9 (· * 5), .rel 9], [.acq 9, .upd 9 (· * 3), .rel 9]]) s0 ∧
    s0.threads[0]? = some t ∧ 9 ∈ t.held ∧
    t.todo = [.upd 9 (· + 2), .upd 9 (· * 5)] ++ [.rel 9] ∧
    (∀ x, DEv.rel x ∈ ([.upd 9 (· + 2), .upd 9 (· * 5)] : List (DEv Nat Nat)) → x ≠ 9) :=
  ⟨_, _, Locks2pl.Steps.tail (Locks2pl.Steps.refl _) ⟨0, rfl⟩, rfl, by decide, rfl,
    by intro x hx; simp at hx⟩

/-- the hypothesis "no release of `l` inside the interval" is NECESSARY (the check-then-act shape of findings F11b /
F11c / F11e): thread 0 reads cell 9 in one section and writes it in a SECOND one; thread 1's `×3` falls in between and
the cell ends as `4·3+1 = 13`, not as thread 0's own updates `4+1 = 5` -/
example :
    let r0 : List (DEv Nat Nat) := [.acq 9, .upd 9 id, .rel 9, .acq 9, .upd 9 (· + 1), .rel 9]
    let r1 : List (DEv Nat Nat) := [.acq 9, .upd 9 (· * 3), .rel 9]
    ((Locks2pl.runSched (Locks2pl.mkState (fun _ => 4) [r0, r1]) [0, 0, 0, 1, 1, 1, 0, 0]).map
        (fun s => s.mem 9)) = some 13 := by
  decide +kernel

/-- the critical sections a program opens on lock class `c`, in program order, with their write flags -/
def secsOf (c : Cls) (p : List (Bool × Bool × Cls)) : List Bool :=
  (p.filter (fun e => e.1 && e.2.2 == c)).map (·.2.1)

/-- the program touches class `c` in some section and LATER, in a separate section, writes it: its read phase and its
write phase on `c` are not one lock-held interval -/
def splitRW (c : Cls) (p : List (Bool × Bool × Cls)) : Bool := (secsOf c p).tail.any id

def allCls : List Cls :=
  [.tracker, .channels, .slot, .monitor, .monitorDecode, .nodeState, .validatorFactory, .store, .approver]

/-- generated-table obligation (hypothesis of `Locks_section_atomic` for the extracted programs): the (program,
lock class) pairs in which a section on the class is followed by a separate WRITING section on the same class are
exactly these — the node-ledger check-then-act programs (`check_onchain_tx` and the withdrawal arms through it, the
approval arms = finding F11e, the pre-v5 ValidateCommitmentTx arms, whose later section re-validates), the block
programs (one monitor after the other: different instances) and `Root.SignCommitmentTx` (two branches of one `if`
listed in sequence).  For EVERY other program and class — in particular the channel map in `new_channel`,
`forget_channel`, `setup_channel`, the tracker in `setup_channel` / `get_heartbeat` / `unchecked_sign_onchain_tx`,
and the slot in every `with_channel` request and every `sign_*` arm — all writes to the guarded data happen in the
FIRST section the program opens on it, i.e. lookup/validation (read phase) and insert/remove/update (write phase)
share one lock-held interval, to which `Locks_section_atomic` applies. -/
theorem C20_rw_phases_one_interval :
    progs.flatMap (fun p => (allCls.filter (fun c => splitRW c p.2)).map (fun c => (p.1, c))) =
      [("kind:check_onchain_tx", .nodeState), ("kind:add_block", .monitor), ("kind:remove_block", .monitor),
       ("Root.PreapproveInvoice", .nodeState), ("Root.PreapproveKeysend", .nodeState),
       ("Root.SignWithdrawal", .nodeState), ("Root.SignHtlcTxMingle", .nodeState),
       ("Root.SignCommitmentTx", .slot), ("Root.AddBlock", .monitor), ("Root.AddBlock", .monitorDecode),
       ("Root.RemoveBlock", .monitor), ("Root.RemoveBlock", .monitorDecode),
       ("Root.SignAnchorspend", .nodeState), ("Channel.ValidateCommitmentTx", .nodeState),
       ("Channel.ValidateCommitmentTx2", .nodeState), ("Handler.fn.sign_withdrawal", .nodeState)] := by
  decide +kernel

/-- … spelled out for the channel-level classes: NO extracted program writes the channel map or the tracker in a
section that follows another section on it, and none except `Root.SignCommitmentTx` does so for a channel slot; every
program that writes a slot opens exactly ONE writing slot section -/
theorem C20_channel_phases_one_interval :
    ∀ p ∈ progs, splitRW .channels p.2 = false ∧ splitRW .tracker p.2 = false ∧
      (p.1 ≠ "Root.SignCommitmentTx" → splitRW .slot p.2 = false ∧ ((secsOf .slot p.2).filter id).length ≤ 1) := by
  decide +kernel

/-- non-vacuity: at least 10 programs write a channel slot, at least 6 write the channel map, 4 the tracker -/
example : (progs.filter (fun p => (secsOf .slot p.2).any id)).length ≥ 10 ∧
    (progs.filter (fun p => (secsOf .channels p.2).any id)).length ≥ 6 ∧
    (progs.filter (fun p => (secsOf .tracker p.2).any id)).length ≥ 4 := by
  decide +kernel

/-- generated-table obligation tying the code to the hypothesis of `Locks_2pl_serializable`: in every
Channel method that read-modify-writes the node ledger (claimable_balances / validate_payments ...
apply_payments) these steps sit in ONE node_state critical section: the node_state events of the
method, with one `upd` per ledger step, are strict two-phase.  Splitting the section (a
`get_state()` per step) changes the generated list and this stops proving. -/
theorem C20_ledger_sections_strict2pl :
    ∀ p ∈ ledgerPaths, strict2pl p.2 = true ∧ hasRel p.2 = true := by
  decide +kernel

/-- number of critical sections of lock class `c` on the canonical path of kind `k` -/
def sectionsOf (k : Kind) (c : Cls) : Nat := ((path k).filter (fun e => e.1 && e.2 == c)).length

/-- generated-table obligations on the extent of critical sections (a moved `drop`, a removed scope
or a re-taken guard changes the generated paths/edges and breaks one of these):
* `new_channel` and `forget_channel` do their lookup and their insert/remove in ONE channel-map section;
* the high-water mark is checked (`new_channel`) and raised (`forget_channel`) while the channel map
  is held; `forget_channel` takes the slot under the map;
* `setup_channel` holds the tracker across its single channel-map section (lookup of the stub to
  insertion of the ready channel, since 07197c0);
* a channel request holds its slot in one section, with the node ledger nested inside it;
* `new_channel`, `forget_channel` and `setup_channel` write the channel record to the store while the
  channel map is held (the order of the stored records of one channel id is the order of the map
  sections);
* `get_heartbeat` prunes, computes the balance and reads tip and height in ONE tracker section. -/
theorem C20_section_extents :
    sectionsOf .new_channel .channels = 1 ∧ sectionsOf .forget_channel .channels = 1 ∧
    (Cls.channels, Cls.nodeState) ∈ edges .new_channel ∧
    (Cls.channels, Cls.nodeState) ∈ edges .forget_channel ∧
    (Cls.channels, Cls.slot) ∈ edges .forget_channel ∧
    (Cls.tracker, Cls.channels) ∈ edges .setup_channel ∧
    sectionsOf .setup_channel .tracker = 1 ∧ sectionsOf .setup_channel .channels = 1 ∧
    sectionsOf .channel_request .slot = 1 ∧ (Cls.slot, Cls.nodeState) ∈ edges .channel_request ∧
    (Cls.channels, Cls.store) ∈ edges .new_channel ∧ (Cls.channels, Cls.store) ∈ edges .forget_channel ∧
    (Cls.channels, Cls.store) ∈ edges .setup_channel ∧
    sectionsOf .get_heartbeat .tracker = 1 ∧ (Cls.tracker, Cls.channels) ∈ edges .get_heartbeat := by
  decide +kernel

/-- generated-table obligation: `add_invoice`, `add_keysend` and `check_onchain_tx` read the clock INSIDE
the node_state section in which they feed the velocity control, and pass that read to `insert` (a
time read before the lock can be older than the window start left by an overlapping request: the
subtraction in `VelocityControl::insert` then underflows — finding F25). -/
theorem C20_velocity_time_under_lock :
    velocityTime.length = 3 ∧ ∀ e ∈ velocityTime, e.2.1 = true ∧ e.2.2.1 = true ∧ e.2.2.2 = true := by
  decide +kernel

/-! ### Serializability of the EXTRACTED request programs

`Gen.LockTable.progs`: the canonical event path of every node-level kind and every front-end program, each
critical section flagged "writes the protected data" from the source (`let mut` guard / `&mut` borrow /
mutating temporary / closure calling a `&mut self` Channel method).  `wproj` is the write projection: a writing
section `acq c … rel c` becomes `acq c, upd c, … rel c`; a section that does not write is ERASED (a reader only
restricts the interleavings and never changes the data) — UNLESS the same program later opens a writing section of
the same class: a read of `c` followed by a write of `c` in another section is the check-then-act shape (stale
check), so that read section is KEPT and the program is then not strict two-phase. -/

/-- write projection of a generated program (`er` = classes of the currently open erased sections) -/
def wproj : List Cls → List (Bool × Bool × Cls) → List (DEv Cls Unit)
  | _, [] => []
  | er, (true, w, c) :: r =>
    if w then .acq c :: .upd c id :: wproj er r
    else if r.any (fun e => e.1 && e.2.1 && e.2.2 == c) then .acq c :: wproj er r
    else wproj (c :: er) r
  | er, (false, _, c) :: r =>
    if er.contains c then wproj (er.erase c) r else .rel c :: wproj er r

/-- the write projections that are strict two-phase transactions (and write at all) -/
def twoPhasePrograms : List (List (DEv Cls Unit)) :=
  (progs.map (fun p => wproj [] p.2)).filter (fun q => strict2pl q && hasRel q)

/-- generated-table obligation: the programs whose write projection is NOT one strict two-phase transaction
are exactly these (each is a sequence of several write transactions: its whole-request atomicity is not
covered by `C20_programs_serializable` and is validated against all sequential orders by the harness only):
`forget_channel` (monitor, then ledger, inside the map section; then the tracker), `get_heartbeat` (node_state,
then tracker), the block kinds/arms (one monitor after the other), the approval arms (`has_payment`, then
`add_invoice`/`add_keysend`), the withdrawal arms (`check_onchain_tx`, then `unchecked_sign_onchain_tx`) and
`Root.SignCommitmentTx` (two branches of one `if`, listed sequentially by the scan), and three read-then-write
programs whose later write section re-validates under the lock: `check_onchain_tx` (fee velocity) and the
`ValidateCommitmentTx(2)` arms (the validation reads the ledger, the pre-v5 revocation re-validates and applies
in ONE later section: `C20_ledger_sections_strict2pl`).  Every other program with
a writing section — every ChannelHandler arm, new_channel, setup_channel, the allowlist and invoice kinds … —
is a single strict two-phase write transaction. -/
theorem C20_programs_not_two_phase :
    (progs.filter (fun p => !(strict2pl (wproj [] p.2)))).map (·.1) =
      ["kind:forget_channel", "kind:check_onchain_tx", "kind:get_heartbeat", "kind:add_block",
       "kind:remove_block", "Root.PreapproveInvoice", "Root.PreapproveKeysend", "Root.ForgetChannel",
       "Root.SignWithdrawal", "Root.SignHtlcTxMingle", "Root.SignCommitmentTx", "Root.AddBlock",
       "Root.RemoveBlock", "Root.GetHeartbeat", "Root.SignAnchorspend", "Channel.ValidateCommitmentTx",
       "Channel.ValidateCommitmentTx2", "Handler.fn.sign_withdrawal"] := by
  rfl

/-- the shape of a concrete request: lock classes, update functions forgotten -/
def shape {D : Type} : List (DEv Lock D) → List (DEv Cls Unit)
  | [] => []
  | .acq l :: r => .acq l.cls :: shape r
  | .rel l :: r => .rel l.cls :: shape r
  | .upd l _ :: r => .upd l.cls id :: shape r

theorem onlyRels_shape {D : Type} : ∀ r : List (DEv Lock D), onlyRels (shape r) = onlyRels r
  | [] => rfl
  | .acq _ :: _ => rfl
  | .upd _ _ :: _ => rfl
  | .rel _ :: r => by simp only [shape, onlyRels]; exact onlyRels_shape r

theorem strict2pl_shape {D : Type} : ∀ r : List (DEv Lock D), strict2pl (shape r) = strict2pl r
  | [] => rfl
  | .acq _ :: r => by simp only [shape, strict2pl]; exact strict2pl_shape r
  | .upd _ _ :: r => by simp only [shape, strict2pl]; exact strict2pl_shape r
  | .rel _ :: r => by simp only [shape, strict2pl]; exact onlyRels_shape r

theorem hasRel_shape {D : Type} : ∀ r : List (DEv Lock D), hasRel (shape r) = hasRel r
  | [] => rfl
  | .acq _ :: r => by simp only [shape, hasRel]; exact hasRel_shape r
  | .upd _ _ :: r => by simp only [shape, hasRel]; exact hasRel_shape r
  | .rel _ :: _ => rfl

/-- **Serializability of the extracted programs.**  Any number of concurrent requests, on any channels
(lock instances) and with any deterministic update functions, each of which has the shape of the write
projection of one of the generated strict two-phase programs (`twoPhasePrograms`: extracted from the current
sources, not hand-written): for EVERY complete interleaved execution the final data (every channel, the node
ledger, the channel map, the tracker, every monitor) equals the data after running all the requests
sequentially in the order of their first releases. -/
theorem C20_programs_serializable {D : Type} (mem0 : Lock → D) (reqs : List (List (DEv Lock D)))
    (hshape : ∀ r ∈ reqs, shape r ∈ twoPhasePrograms) :
    ∀ n s, Locks2pl.Steps n (Locks2pl.mkState mem0 reqs) s → Locks2pl.allDone s →
      ∃ order : List Nat, order.Nodup ∧ (∀ i, i ∈ order ↔ i < reqs.length) ∧
        ∀ l, s.mem l = (order.foldl (fun m i => runReq m (reqs[i]?.getD [])) mem0) l := by
  have h2 : ∀ r ∈ reqs, strict2pl r = true ∧ hasRel r = true := by
    intro r hr
    have hm := hshape r hr
    unfold twoPhasePrograms at hm
    have hf := (List.mem_filter.mp hm).2
    rw [Bool.and_eq_true] at hf
    exact ⟨by rw [← strict2pl_shape]; exact hf.1, by rw [← hasRel_shape]; exact hf.2⟩
  exact Locks_2pl_serializable mem0 reqs (fun r hr => (h2 r hr).1) (fun r hr => (h2 r hr).2)

/-- … and so every safety invariant of the data that each such request preserves when run alone (C01–C03 on
the enforcement state of the channels, the payment ledger bound) holds after every complete concurrent
execution of requests shaped like the extracted strict two-phase programs -/
theorem C20_programs_invariant_lifts {D : Type} (mem0 : Lock → D) (reqs : List (List (DEv Lock D)))
    (hshape : ∀ r ∈ reqs, shape r ∈ twoPhasePrograms)
    (Inv : (Lock → D) → Prop) (h0 : Inv mem0)
    (hstep : ∀ m, ∀ r ∈ reqs, Inv m → Inv (runReq m r)) :
    ∀ n s, Locks2pl.Steps n (Locks2pl.mkState mem0 reqs) s → Locks2pl.allDone s → Inv s.mem := by
  have h2 : ∀ r ∈ reqs, strict2pl r = true ∧ hasRel r = true := by
    intro r hr
    have hm := hshape r hr
    unfold twoPhasePrograms at hm
    have hf := (List.mem_filter.mp hm).2
    rw [Bool.and_eq_true] at hf
    exact ⟨by rw [← strict2pl_shape]; exact hf.1, by rw [← hasRel_shape]; exact hf.2⟩
  exact Locks_2pl_invariant_lifts mem0 reqs (fun r hr => (h2 r hr).1) (fun r hr => (h2 r hr).2) Inv h0 hstep

/-! ### The write projection is SOUND: reader sections can be erased (theorem, no longer an assumption) -/

/-- **Serializability of FULL requests** (unbounded: any lock/data types, any number of threads, every schedule).
Every request is given in full — every acquisition and release it performs, reader sections included — with a flag on
the acquisitions of the sections to be disregarded; `eraseOk`: the thread does not update `l` inside a disregarded
section on `l`.  If what remains after erasing those sections (`erase`) is a strict two-phase transaction, then for
EVERY complete interleaved execution of the FULL requests the final data equals the data after running the full
requests sequentially in some order containing each exactly once.  Proof: every step of the full execution is
simulated by zero or one step of the erased execution with the same data (`erase_sim_step`: an erased acquisition
only removes blocking), then `Locks_2pl_serializable`.  So a request such as a commitment update — channel-map
lookup (released), slot, validator-factory / monitor reads and the node ledger nested inside — which is NOT two-phase
as a whole, is serializable because its WRITING sections are. -/
theorem Locks_full_requests_serializable {L D : Type} [DecidableEq L] (mem0 : L → D)
    (freqs : List (List (FEv L D)))
    (hok : ∀ r ∈ freqs, eraseOk [] r = true)
    (hstrict : ∀ r ∈ freqs, strict2pl (erase [] r) = true)
    (hrel : ∀ r ∈ freqs, hasRel (erase [] r) = true) :
    ∀ n s, Locks2pl.Steps n (Locks2pl.mkState mem0 (freqs.map unflag)) s → Locks2pl.allDone s →
      ∃ order : List Nat, order.Nodup ∧ (∀ i, i ∈ order ↔ i < freqs.length) ∧
        ∀ l, s.mem l = (order.foldl (fun m i => runReq m (unflag (freqs[i]?.getD []))) mem0) l := by
  intro n s hs hdone
  obtain ⟨m, s', hs', hrel'⟩ := erase_sim_steps (srel_init mem0 freqs hok) hs
  have hdone' := srel_allDone hrel' hdone
  obtain ⟨order, hnd, hmem, hdata⟩ := Locks_2pl_serializable mem0 (freqs.map (erase []))
    (by intro r hr; obtain ⟨q, hq, rfl⟩ := List.mem_map.mp hr; exact hstrict q hq)
    (by intro r hr; obtain ⟨q, hq, rfl⟩ := List.mem_map.mp hr; exact hrel q hq) m s' hs' hdone'
  refine ⟨order, hnd, by simpa using hmem, ?_⟩
  intro l
  rw [hrel'.1, hdata l]
  have : (fun (m : L → D) (i : Nat) => runReq m ((freqs.map (erase []))[i]?.getD []))
      = (fun m i => runReq m (unflag (freqs[i]?.getD []))) := by
    funext m i
    simp only [List.getElem?_map]
    cases freqs[i]? with
    | none => rfl
    | some r => exact runReq_erase r m
  rw [this]

/-- the full flagged request of a generated program: every event of its canonical path; one `upd` after the acquisition
of each writing section; the flag "disregard" on exactly the sections that `wproj` erases (a section that does not
write and is not followed by a separate writing section of the same class) -/
def conc : List (Bool × Bool × Cls) → List (FEv Cls Unit)
  | [] => []
  | (true, w, c) :: r =>
    if w then (false, .acq c) :: (false, .upd c id) :: conc r
    else (!(r.any (fun e => e.1 && e.2.1 && e.2.2 == c)), .acq c) :: conc r
  | (false, _, c) :: r => (false, .rel c) :: conc r

/-- the write projection of the generated programs IS the erasure of their full paths (general, by induction) -/
theorem wproj_eq_erase : ∀ (p : List (Bool × Bool × Cls)) (er : List Cls), wproj er p = erase er (conc p) := by
  intro p
  induction p with
  | nil => intro er; rfl
  | cons e r ih =>
    intro er
    obtain ⟨a, w, c⟩ := e
    cases a with
    | true =>
      cases w with
      | true => simp [wproj, conc, erase, ih]
      | false =>
        cases h : r.any (fun e => e.1 && e.2.1 && e.2.2 == c)
        · simp only [wproj, conc, erase, h, Bool.false_eq_true, if_false, Bool.not_false, if_true]; exact ih _
        · simp only [wproj, conc, erase, h, Bool.false_eq_true, if_false, if_true, Bool.not_true]; simp [ih]
    | false =>
      by_cases h : er.contains c = true
      · simp only [wproj, conc, erase, h, if_true]; exact ih _
      · simp only [wproj, conc, erase, h]; simp [ih]

/-- generated-table obligation: in NO extracted program does a disregarded (reader) section contain a write of its
own class — the `eraseOk` hypothesis of `Locks_full_requests_serializable` for `conc` of every program -/
theorem C20_full_programs_erase_ok : ∀ p ∈ progs, eraseOk [] (conc p.2) = true := by
  decide +kernel

/-- the lock of class `c` in a request on channel `i` (as `instPath`) -/
def lockOf (i : Nat) (c : Cls) : Lock :=
  ⟨c, match c with | .slot | .monitor | .monitorDecode => i | _ => 0⟩

theorem lockOf_inj (i : Nat) : ∀ a b, lockOf i a = lockOf i b → a = b :=
  fun _ _ h => congrArg Lock.cls h

/-- the FULL flagged paths (`conc`) of the generated programs whose write projection is one strict two-phase
transaction -/
def fullTwoPhase : List (List (FEv Cls Unit)) :=
  (progs.filter (fun p => strict2pl (wproj [] p.2) && hasRel (wproj [] p.2))).map (fun p => conc p.2)

theorem eraseOk_of_full {q : List (FEv Cls Unit)} (hq : q ∈ fullTwoPhase) :
    eraseOk [] q = true ∧ strict2pl (erase [] q) = true ∧ hasRel (erase [] q) = true := by
  unfold fullTwoPhase at hq
  obtain ⟨p, hp, rfl⟩ := List.mem_map.mp hq
  obtain ⟨hpm, hf⟩ := List.mem_filter.mp hp
  rw [Bool.and_eq_true] at hf
  refine ⟨C20_full_programs_erase_ok p hpm, ?_, ?_⟩
  · rw [← wproj_eq_erase]; exact hf.1
  · rw [← wproj_eq_erase]; exact hf.2

/-- **Serializability of the extracted programs, FULL paths.**  Any number of concurrent requests with any data
type and any deterministic update functions, each of which follows — on some channel `i`, event by event, reader
sections included — the full canonical path of one of the generated programs whose write projection is a strict
two-phase transaction (every ChannelHandler arm except the pre-v5 ValidateCommitmentTx(2), new_channel,
setup_channel, unchecked_sign_onchain_tx, the invoice / keysend / allowlist kinds …): for EVERY complete interleaved
execution the final data (every channel, the node ledger, the channel map, the tracker, every monitor) equals the
data after running the requests sequentially in some order.  Unlike `C20_programs_serializable` nothing is erased
from the executions considered: the soundness of the write projection is `Locks_full_requests_serializable`. -/
theorem C20_full_programs_serializable {D : Type} (mem0 : Lock → D) (freqs : List (List (FEv Lock D)))
    (hshape : ∀ r ∈ freqs, ∃ q ∈ fullTwoPhase, ∃ i : Nat,
      mapF (fun l : Lock => l) (id : Unit → Unit) r = mapF (lockOf i) (id : Unit → Unit) q) :
    ∀ n s, Locks2pl.Steps n (Locks2pl.mkState mem0 (freqs.map unflag)) s → Locks2pl.allDone s →
      ∃ order : List Nat, order.Nodup ∧ (∀ i, i ∈ order ↔ i < freqs.length) ∧
        ∀ l, s.mem l = (order.foldl (fun m i => runReq m (unflag (freqs[i]?.getD []))) mem0) l := by
  have hid : ∀ a b : Lock, (fun l : Lock => l) a = (fun l : Lock => l) b → a = b := fun _ _ h => h
  have key : ∀ r ∈ freqs, eraseOk [] r = true ∧ strict2pl (erase [] r) = true ∧ hasRel (erase [] r) = true := by
    intro r hr
    obtain ⟨q, hq, i, he⟩ := hshape r hr
    obtain ⟨h1, h2, h3⟩ := eraseOk_of_full hq
    have e1 := eraseOk_mapF (fun l : Lock => l) hid (id : Unit → Unit) r []
    have e2 := eraseOk_mapF (lockOf i) (lockOf_inj i) (id : Unit → Unit) q []
    have f1 := erase_mapF (fun l : Lock => l) hid (id : Unit → Unit) r []
    have f2 := erase_mapF (lockOf i) (lockOf_inj i) (id : Unit → Unit) q []
    simp only [List.map_nil] at e1 e2 f1 f2
    rw [he] at e1 f1
    refine ⟨by rw [← e1, e2]; exact h1, ?_, ?_⟩
    · rw [← strict2pl_map (fun l : Lock => l) (id : Unit → Unit), ← f1, f2, strict2pl_map]; exact h2
    · rw [← hasRel_map (fun l : Lock => l) (id : Unit → Unit), ← f1, f2, hasRel_map]; exact h3
  exact Locks_full_requests_serializable mem0 freqs (fun r hr => (key r hr).1) (fun r hr => (key r hr).2.1)
    (fun r hr => (key r hr).2.2)

/-- non-vacuity of `C20_full_programs_serializable`: at least 30 full programs qualify, and at least 20 of them are
NOT two-phase as they stand (they release the channel map before taking the slot, open and close reader sections) -/
example : fullTwoPhase.length ≥ 30 ∧
    (fullTwoPhase.filter (fun q => !strict2pl (unflag q))).length ≥ 20 := by
  decide +kernel

/-- non-vacuity of `C20_programs_serializable`: at least 30 generated programs are strict two-phase write
transactions, among them the nested pattern "slot, then the node ledger inside it" of the commitment arms
(SignRemoteCommitmentTx2 / ValidateCommitmentTx2 / RevokeCommitmentTx) -/
example : twoPhasePrograms.length ≥ 30 ∧
    [(0, Cls.slot), (2, .slot), (0, .nodeState), (2, .nodeState), (1, .nodeState), (1, .slot)]
      ∈ twoPhasePrograms.map (fun q => q.map (fun e => match e with
          | .acq c => (0, c) | .rel c => (1, c) | .upd c _ => (2, c))) := by
  decide +kernel

/-- non-vacuity: a commitment-update-like request (slot 0, then the node ledger 9, both held to the
end) and a ledger-only request, strict two-phase, interleaved (thread 0 acquires slot 0 and updates it,
thread 1 runs completely, thread 0 continues): the execution completes, thread 1 commits first, and
the final cells are those of the sequential order [1, 0] (cell 9: (0 + 5) * 2 = 10, not (0 * 2) + 5) -/
example :
    let r0 : List (DEv Nat Nat) := [.acq 0, .upd 0 (· + 1), .acq 9, .upd 9 (· * 2), .rel 9, .rel 0]
    let r1 : List (DEv Nat Nat) := [.acq 9, .upd 9 (· + 5), .rel 9]
    (strict2pl r0 && strict2pl r1 && hasRel r0 && hasRel r1) = true ∧
    ((Locks2pl.runSched (Locks2pl.mkState (fun _ => 0) [r0, r1]) [0, 0, 1, 1, 1, 0, 0, 0, 0]).map
        (fun s => (s.commits, s.mem 0, s.mem 9, s.threads.all (fun t => t.todo.isEmpty))))
      = some ([1, 0], 1, 10, true) ∧
    (runReq (runReq (fun _ => 0) r1) r0) 9 = 10 := by
  decide +kernel

end serializable

/-! ### Non-vacuity -/

/-- the hypotheses of `C20_partial` are satisfiable by non-trivial requests: two commitment updates
on channels 0 and 1, a balance query and a keysend approval, all conforming to the generated table;
they contend for node_state / validator_factory and, per C20_partial, always complete -/
example : ∀ r ∈ [instPath 0 (path .channel_request), instPath 1 (path .channel_request),
                 instPath 0 (path .channel_balance), instPath 0 (path .add_keysend)],
    ∃ k ∈ subKinds, Conforms k r := by decide +kernel

/-- ... and a complete interleaved execution of them exists in the model (round-robin prefix, then
each thread to the end), ending with every request finished -/
example : (runSched (mkState [instPath 0 (path .channel_request), instPath 0 (path .add_keysend)])
      ([0, 1, 0, 1, 1, 1, 1, 1, 1, 1] ++ List.replicate 16 0)).any (fun s => decide (allDone s)) = true := by
  decide +kernel

/-- the general theorem with instances of `slot` ordered by id: a request taking slot 0 then slot 1
(ascending) together with one taking only slot 1 and node_state respects the lexicographic rank -/
example : ∀ r ∈ [[Ev.acq (⟨.slot, 0⟩ : Lock), .acq ⟨.slot, 1⟩, .rel ⟨.slot, 1⟩, .rel ⟨.slot, 0⟩],
                 [Ev.acq (⟨.slot, 1⟩ : Lock), .acq ⟨.nodeState, 0⟩, .rel ⟨.nodeState, 0⟩, .rel ⟨.slot, 1⟩]],
    (∀ e ∈ edgesOf [] r, rlt ((fun l : Lock => (rankCls l.cls, l.inst)) e.1)
        ((fun l : Lock => (rankCls l.cls, l.inst)) e.2)) ∧ endsEmpty [] r = true := by decide +kernel

/-- ... whereas taking two slots in descending order is rejected by the same rank -/
example : ¬ (∀ e ∈ edgesOf [] [Ev.acq (⟨.slot, 1⟩ : Lock), .acq ⟨.slot, 0⟩, .rel ⟨.slot, 0⟩, .rel ⟨.slot, 1⟩],
    rlt ((fun l : Lock => (rankCls l.cls, l.inst)) e.1) ((fun l : Lock => (rankCls l.cls, l.inst)) e.2)) := by
  decide +kernel

end VlsModel.Props.C20
