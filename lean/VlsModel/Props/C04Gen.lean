import VlsModel.Lemmas.Bolt3Parse
import VlsModel.Lemmas.Bolt3Instrs
import VlsModel.Lemmas.Bolt3Bytes
/-
C04 — the decoder of the raw entry point tied to the *current source* of `vls-core/src/tx/tx.rs` / `tx/script.rs`.

`translate/x_bolt3.py` regenerates on every run (`Gen/Bolt3.lean`): the six `parse_*` witness-script templates as token
lists, the order in which `handle_output` tries them, `MAX_DELAY`, `ANCHOR_SAT`, the dust constants, the width of the
payment-hash field, and compares the bodies of the `expect_*` helpers and the guard shapes of the `handle_*_output`
functions with the text the model was written against.  The theorems below are statements about those generated
values: a changed opcode, a dropped or reordered expectation, a changed return order, a changed attempt order or
constant in the source changes `Gen/Bolt3.lean`, and the kernel re-checks (or refuses) these theorems.

The interpreter of the templates (`Bolt3.runToks`, `expectNumber`, `readScriptInt`, `instrs`) is hand-written
(`Model/Bolt3Parse.lean`); rust-bitcoin's `Instructions` iterator and `read_scriptint` are modelled, not derived.
-/
namespace VlsModel.Props.C04Gen
open VlsModel VlsModel.Bolt3

/-- The constants of the hand-written model are the constants of the source. -/
theorem C04_gen_consts :
    Bolt3.MAX_DELAY = Gen.Bolt3.maxDelay ∧ Bolt3.ANCHOR_SAT = Gen.Bolt3.anchorSat ∧
    Bolt3.MIN_DUST_LIMIT_SATOSHIS = Gen.Bolt3.minDustLimitSat ∧
    Bolt3.MIN_CHAN_DUST_LIMIT_SATOSHIS = Gen.Bolt3.minChanDustLimitSat ∧
    Gen.Bolt3.paymentHashHashLen = 20 ∧ Gen.Bolt3.guardsAsModelled = true ∧ Gen.Bolt3.helpersAsModelled = true := by
  decide

/-- `sign_counterparty_commitment_tx(_phase2)`, `sign_htlc_tx` and the conversion functions between the request and LDK's
    builder have the call skeleton / the exact bodies `Bolt3.phase1`, `phase2`, `canon`, `signCounterpartyHtlcTx` were
    written against (textual comparison by `translate/x_bolt3.py`, fail closed: a change there removes this constant). -/
theorem C04_gen_skeletons : Gen.Bolt3.decisionSkeletonsAsModelled = true := by decide

/-- the persisted channel entry and the restore path have the shape `persistChannel / restoreChannel` model
    (`C04_restart_same_sig`, `C04_restart_amount_matters` are about that shape) -/
theorem C04_gen_persist : Gen.Bolt3.persistRestoreAsModelled = true := by decide

/-- `Htlc.le` — the order `Info2.mk'` (`CommitmentInfo2::new`) sorts the HTLC lists by — is the lexicographic order of
    `impl Ord for HTLCInfo2` over the fields the source compares, in the source's order. -/
theorem C04_gen_htlc_order (a b : Htlc) : Htlc.le a b = lexLe Gen.Bolt3.htlcInfo2Order a b := by
  simp only [Htlc.le, lexLe, htlcField, Gen.Bolt3.htlcInfo2Order, Bool.and_true]
  rw [Bool.eq_iff_iff]
  simp only [decide_eq_true_eq, Bool.or_eq_true, Bool.and_eq_true]
  omega

/-- `expect_number` (script.rs) reads back every script number `Builder::push_int` writes into a canonical script
    (`OP_0`, `OP_1..16` through `Class::PushNum`, minimal pushes through `read_scriptint`). -/
theorem C04_gen_expect_number_roundtrip (n : Int) (h0 : 0 ≤ n) (h1 : n < 2 ^ 31) :
    expectNumber (numInstr n) = some n :=
  expectNumber_numInstr n h0 h1

/-- **The generated templates, tried in the generated order, recognise every canonical witness script as what it is
    and return its parameters**; an HTLC script whose `1 CSV DROP` suffix disagrees with the channel type, a delayed
    to_remote without anchors and an unknown script are refused by every parser. -/
theorem C04_gen_parse_canon (env : BEnv) (anchors : Bool) (sc : Script) (hn : numsOk sc) :
    parseWsh anchors (scriptInstrs env sc) = expectedParse env anchors sc :=
  parseWsh_canon env anchors sc hn

/-- `parse_revokeable_redeemscript` (decoder of the second-level HTLC transaction's output) on the to_local script. -/
theorem C04_gen_parse_revokeable (env : BEnv) (a : Bool) (rev delayed : Key) (delay : Int) (h0 : 0 ≤ delay) (h1 : delay < 2 ^ 31) :
    runTpl a Gen.Bolt3.tplRevokeable (scriptInstrs env (.toLocal rev delay delayed)) =
      some [.data (env.keyBytes rev), .num delay, .data (env.keyBytes delayed)] :=
  runTpl_revokeable env a rev delayed delay h0 h1

/-- **`Bolt3.classify` (the model's `handle_output` for P2WSH outputs, on which every C04 theorem about the decoder
    rests) equals the code's pipeline built from generated data**: parse with the source's templates in the source's
    order, then apply the `handle_*_output` checks with the source's constants.  `parseKey` stands for
    `PublicKey::from_slice`: on the environment's known keys it inverts the encoding (id 0 = not a curve point). -/
theorem C04_gen_classify (env : BEnv) (parseKey : Bytes → Option Key)
    (hk : ∀ a, a < env.nKeys → parseKey (env.keyBytes a) = if Key.ok a then some a else none)
    (s : Setup) (k : Keys) (o : TxOut Nat) (sc : Script) (hn : numsOk sc) (hkn : keysKnown env k sc)
    (hw : o.spk = .p2wsh (wshB env sc)) :
    classify (wshB env) s k o (some sc) =
      (parseWsh s.ctype.isAnchors (scriptInstrs env sc)).bind (handleParsed parseKey k.bFunding k.cFunding o.value) :=
  classify_eq_parse env parseKey hk s k o sc hn hkn hw

/-- The instruction iterator (rust-bitcoin `Script::instructions`, modelled) on the real opcodes of a canonical
    script — the bytes whose SHA-256 is compared with LDK's script_pubkeys on every run — yields `scriptInstrs`. -/
theorem C04_gen_instrs_canon (env : BEnv) (hk : ∀ k, (env.keyBytes k).length = 33) (sc : Script)
    (hn : numsOk sc) (hh : hashLenOk sc) : instrs (scriptBytes env sc) = scriptInstrs env sc :=
  instrs_scriptBytes env hk sc hn hh

/-- **End to end, from witness-script bytes**: iterate the instructions of the supplied bytes, run the source's
    templates in the source's order, apply the `handle_*_output` checks with the source's constants — that is the
    model's `classify` of the output. -/
theorem C04_gen_classify_bytes (env : BEnv) (parseKey : Bytes → Option Key)
    (hk : ∀ a, a < env.nKeys → parseKey (env.keyBytes a) = if Key.ok a then some a else none)
    (hl : ∀ k, (env.keyBytes k).length = 33) (s : Setup) (k : Keys)
    (o : TxOut Nat) (sc : Script) (hn : numsOk sc) (hh : hashLenOk sc) (hkn : keysKnown env k sc)
    (hw : o.spk = .p2wsh (wshB env sc)) :
    classify (wshB env) s k o (some sc) =
      (parseWsh s.ctype.isAnchors (instrs (scriptBytes env sc))).bind
        (handleParsed parseKey k.bFunding k.cFunding o.value) := by
  rw [instrs_scriptBytes env hl sc hn hh]
  exact classify_eq_parse env parseKey hk s k o sc hn hkn hw

/-! Non-vacuity: a concrete environment, the to_local script with delay 144 and a received HTLC script with
    expiry 500000 are parsed by evaluation (the generic interpreter on the generated templates). -/
section witness
def envW : BEnv := { nKeys := 8, keyBytes := fun k => (if k = 0 then 0 else 2) :: leBytes 32 k,
                     keyHash160 := fun k => 1000 + k, payHash160 := fun h => 77 + h }
/-- a key parser for `envW`: the first byte says "curve point", the rest is the id (little-endian) -/
def parseKeyW (b : Bytes) : Option Key :=
  match b with
  | c :: rest => if c = 2 then some (leNat (rest.map UInt8.toNat)) else none
  | [] => none

/-- the hypotheses of `C04_gen_classify(_bytes)` hold for this environment -/
example : (∀ a, a < envW.nKeys → parseKeyW (envW.keyBytes a) = if Key.ok a then some a else none) ∧
    (∀ k, (envW.keyBytes k).length = 33) := by
  refine ⟨by decide, ?_⟩
  intro k; simp [envW, leBytes_length]

example : parseWsh false (scriptInstrs envW (.toLocal 1 144 2)) =
    some (.toBroadcaster (envW.keyBytes 1) 144 (envW.keyBytes 2)) := by decide
example : parseWsh true (scriptInstrs envW (.htlcReceived true 1 4 9 20 3 500000)) =
    some (.received (beBytes 20 1001) (envW.keyBytes 4) (hashPush envW 9 20) (envW.keyBytes 3) 500000) := by decide
example : parseWsh false (scriptInstrs envW (.htlcReceived true 1 4 9 20 3 500000)) = none := by decide
/-- bytes → instructions → template: the decoder on the real opcodes of the to_local script -/
example : instrs (scriptBytes envW (.toLocal 1 144 2)) = scriptInstrs envW (.toLocal 1 144 2) := by decide
example : parseWsh true (instrs (scriptBytes envW (.anchor 6))) = some (.anchor (envW.keyBytes 6)) := by decide
end witness

end VlsModel.Props.C04Gen
