import VlsModel.Model.NodeReq
import VlsModel.Props.C02
import VlsModel.Props.C13
import VlsModel.Gen.ReqShape
/-
C10 — A refused request changes nothing.

Statement (properties.jsonl): whenever a request to the signer is refused with an error, the
enforcement state of every channel, the node's payment and invoice bookkeeping, the chain-tracking
state and the contents of the persistent store are exactly what they were before the request; a
transactional store never ends a refused request with pending mutations.

The property is a frame condition per request kind.  It is proved here
  * generically, for every request written in the "validate, then mutate, then persist" discipline
    (`C10_frame_general`): a request that is a sequence of checks followed by a sequence of
    mutations/persists leaves memory, store and the pending-mutation log untouched when it fails;
  * for the executable model of the node-level requests (`Model/NodeReq.lean`: allowlist updates,
    keysend approval, new/forget channel, restart) in the exact order of checks, mutations and persist
    calls the code has (`C10_frame_node`, `C10_frame_node_run`);
  * for the channel-level requests in `Props/C01`–`C03` (enforcement model) and for the chain
    tracker in `Props/C13` (`C13_atomic`), which are the instances of the same statement for those
    components.
The tie to the code is the simulator in `harness/src/props/c10.rs`: around every refused request of
the real implementation the complete state and store are compared before/after.
-/
namespace VlsModel.Props.C10
open VlsModel VlsModel.NodeReq

/-! ### The discipline, generically -/

/-- A request as the code writes it: fallible checks and infallible effects on
    (memory, store, pending-mutation log), in program order. -/
inductive Stmt (σ : Type)
  | check (p : σ → Bool)        -- `policy_err!`, `?`, `return Err(..)`: reads only
  | effect (f : σ → σ)          -- assignment to state / persist call / log append

/-- run a request; `none` = refused at some check (the state at that point is returned) -/
def exec {σ : Type} : List (Stmt σ) → σ → σ × Bool
  | [], s => (s, true)
  | .check p :: rest, s => if p s then exec rest s else (s, false)
  | .effect f :: rest, s => exec rest (f s)

/-- "validate before mutate": no check after the first effect -/
def checksFirst {σ : Type} : List (Stmt σ) → Bool
  | [] => true
  | .check _ :: rest => checksFirst rest
  | .effect _ :: rest => rest.all (fun st => match st with | .effect _ => true | .check _ => false)

theorem exec_effects_only_succeeds {σ : Type} (prog : List (Stmt σ)) (s : σ)
    (h : prog.all (fun st => match st with | .effect _ => true | .check _ => false) = true) :
    (exec prog s).2 = true := by
  induction prog generalizing s with
  | nil => rfl
  | cons st rest ih =>
    cases st with
    | check p => simp at h
    | effect f =>
      simp only [List.all_cons, Bool.and_eq_true] at h
      exact ih (f s) h.2

/-- **C10 (general frame theorem)**: a request in the validate-then-mutate discipline that is
    refused returns exactly the state it started from — for any state type, in particular the
    triple (all in-memory state, committed store, pending-mutation log of a transactional store). -/
theorem C10_frame_general {σ : Type} (prog : List (Stmt σ)) (s : σ) (hd : checksFirst prog = true)
    (hrefused : (exec prog s).2 = false) : (exec prog s).1 = s := by
  induction prog generalizing s with
  | nil => simp [exec] at hrefused
  | cons st rest ih =>
    cases st with
    | check p =>
      simp only [exec] at hrefused ⊢
      split
      · rename_i hp
        simp only [hp, if_true] at hrefused
        exact ih s hd hrefused
      · rfl
    | effect f =>
      -- impossible: after the first effect there is no check left, so the request cannot fail
      exfalso
      have := exec_effects_only_succeeds rest (f s) hd
      simp only [exec] at hrefused
      rw [this] at hrefused
      cases hrefused

/-- The discipline is necessary, not only sufficient: a check after an effect (the shape of the
    repaired defects F3, F4, F9) admits a refused request that changed the state. -/
example : ∃ (prog : List (Stmt Nat)) (s : Nat), checksFirst prog = false ∧
    (exec prog s).2 = false ∧ (exec prog s).1 ≠ s :=
  ⟨[.effect (· + 1), .check (fun _ => false)], 0, rfl, rfl, by decide⟩

/-! ### The node-level requests -/

/-- **C10 for the node-level requests**: a refused request leaves the in-memory node state and the
    store exactly as they were (every reachable or unreachable state, every request). -/
theorem C10_frame_node (c : Cfg) (s s' : St) (op : Op)
    (h : step c s op = some (s', .err)) : s'.mem = s.mem ∧ s'.disk = s.disk := by
  cases op <;> simp only [step, allowlistOp, keysend, newChannel, forgetChannel, signInvoice, restart, heartbeat, addBlocks, removeBlock,
    Core.updateNode, Core.updateAllowlist] at h
  all_goals (repeat' split at h)
  all_goals first
    | (cases h <;> exact ⟨rfl, rfl⟩)
    | (injection h with h; injection h with h1 h2; first | cases h2 | (subst h1; exact ⟨rfl, rfl⟩))

/-- run a list of requests; returns the final state and the list of results (`none` = panic) -/
def run (c : Cfg) : St → List Op → Option (St × List Res)
  | s, [] => some (s, [])
  | s, op :: rest =>
    match step c s op with
    | none => none
    | some (s', r) => (run c s' rest).map (fun (sf, rs) => (sf, r :: rs))

/-- Over whole histories: if every request of a history is refused, nothing changed at all. -/
theorem C10_frame_node_run (c : Cfg) (ops : List Op) : ∀ (s sf : St) (rs : List Res),
    run c s ops = some (sf, rs) → (∀ r ∈ rs, r = .err) → sf.mem = s.mem ∧ sf.disk = s.disk := by
  induction ops with
  | nil => intro s sf rs h _; simp [run] at h; obtain ⟨h1, _⟩ := h; subst h1; exact ⟨rfl, rfl⟩
  | cons op rest ih =>
    intro s sf rs h hall
    simp only [run] at h
    cases hs : step c s op with
    | none => simp [hs] at h
    | some p =>
      obtain ⟨s1, r⟩ := p
      simp only [hs] at h
      cases hr : run c s1 rest with
      | none => simp [hr] at h
      | some q =>
        obtain ⟨s2, rs2⟩ := q
        simp [hr] at h
        obtain ⟨h1, h2⟩ := h
        subst h1; subst h2
        have hr1 : r = .err := hall r (by simp)
        subst hr1
        have hf := C10_frame_node c s s1 op hs
        have := ih s1 s2 rs2 hr (fun r hr' => hall r (by simp [hr']))
        exact ⟨this.1.trans hf.1, this.2.trans hf.2⟩

/-! ### The channel-level and tracker-level instances

The same frame statement for the other two stateful components, proved on their own models (which
are tied to the code by their own correspondence runs) and collected here so that C10 is visibly
covered for every component the property names. -/

/-- **C10 for channel requests** (validate / revoke / activate / get-point / get-secret / sign-holder /
    mutual close / sign-counterparty / counterparty revocation and the protocol-version composites): a
    refused request leaves the in-memory enforcement state of the channel unchanged, for every state. -/
theorem C10_frame_channel (F : Nat → Secrets.Bytes → Secrets.Bytes) (s s' : Enforcement.Sys)
    (op : Enforcement.Op) (o : Enforcement.Out)
    (hs : Enforcement.step F s op = (s', o)) (h : o.res.isErr = true) : s'.mem = s.mem :=
  C02.Enforcement_frame_mem F s s' op o hs h

/-- … and the persisted channel entry too, whenever it was up to date before the request. -/
theorem C10_frame_channel_store (F : Nat → Secrets.Bytes → Secrets.Bytes) (s s' : Enforcement.Sys)
    (op : Enforcement.Op) (o : Enforcement.Out) (hd : s.disk = s.mem)
    (hs : Enforcement.step F s op = (s', o)) (h : o.res.isErr = true) : s' = s :=
  C02.Enforcement_frame F s s' op o hd hs h

/-- **C10 for the chain tracker**: a rejected block addition or removal (any delivery type) leaves
    headers, tip, height and listeners unchanged. -/
theorem C10_frame_tracker_add (t : Tracker.Tracker) (h : Tracker.Header) (p : Tracker.Proof) (k : Tracker.ErrKind)
    (hr : (Tracker.addBlock t h p).2 = .err k) : (Tracker.addBlock t h p).1.view = t.view :=
  C13.C13_atomic_add_view t h p k hr

theorem C10_frame_tracker_remove (t : Tracker.Tracker) (p : Tracker.Proof) (v : Tracker.Headers) (k : Tracker.ErrKind)
    (hr : (Tracker.removeBlock t p v).2 = .err k) : (Tracker.removeBlock t p v).1.view = t.view :=
  C13.C13_atomic_remove_view t p v k hr


/-! ### Tie to the source: the shape of every state-changing function (translate/x_reqshape.py)

`Gen/ReqShape.lean` lists, for every function of channel.rs and node.rs that changes state or calls the
persister, its refusing statements, mutations and persist calls in program order, re-extracted from the
sources on every run.  `C10_gen_shape_table` states that no refusing statement follows an effect —
i.e. the function is in the discipline of `C10_frame_general` — except at the sites listed in
`expectedLate`, each argued below; `C10_shape_frame` is the frame theorem for any program of such a shape. -/

open VlsModel.ReqShape in
/-- a program with the extracted shape: the i-th statement's check / effect is arbitrary; a mutation made
    by a call that can itself refuse is that call's check followed by its assignment -/
def toStmts {σ : Type} (chk : Nat → σ → Bool) (eff : Nat → σ → σ) : Nat → List Ev → List (Stmt σ)
  | _, [] => []
  | i, .check :: r => .check (chk i) :: toStmts chk eff (i + 1) r
  | i, .mutate _ false :: r => .effect (eff i) :: toStmts chk eff (i + 1) r
  | i, .mutate _ true :: r => .check (chk i) :: .effect (eff i) :: toStmts chk eff (i + 1) r
  | i, .persist _ :: r => .effect (eff i) :: toStmts chk eff (i + 1) r

def allEffects {σ : Type} (l : List (Stmt σ)) : Bool :=
  l.all (fun st => match st with | .effect _ => true | .check _ => false)

open VlsModel.ReqShape in
theorem late_true_allEffects {σ : Type} (chk : Nat → σ → Bool) (eff : Nat → σ → σ) (evs : List Ev) :
    ∀ i, lateChecksAux true evs = 0 → allEffects (toStmts chk eff i evs) = true := by
  induction evs with
  | nil => intro i _; rfl
  | cons e r ih =>
    intro i h
    cases e with
    | check => simp [lateChecksAux] at h
    | mutate c f =>
      cases f with
      | false =>
        simp only [lateChecksAux, Bool.and_false, Bool.false_eq_true, if_false, Nat.zero_add] at h
        simp only [toStmts, allEffects, List.all_cons, Bool.true_and]
        exact ih (i + 1) h
      | true => simp [lateChecksAux] at h
    | persist c =>
      simp only [lateChecksAux] at h
      simp only [toStmts, allEffects, List.all_cons, Bool.true_and]
      exact ih (i + 1) h

open VlsModel.ReqShape in
theorem late_false_checksFirst {σ : Type} (chk : Nat → σ → Bool) (eff : Nat → σ → σ) (evs : List Ev) :
    ∀ i, lateChecksAux false evs = 0 → checksFirst (toStmts chk eff i evs) = true := by
  induction evs with
  | nil => intro i _; rfl
  | cons e r ih =>
    intro i h
    cases e with
    | check =>
      simp only [lateChecksAux, Bool.false_eq_true, if_false, Nat.zero_add] at h
      simp only [toStmts, checksFirst]
      exact ih (i + 1) h
    | mutate c f =>
      simp only [lateChecksAux, Bool.false_and, Bool.false_eq_true, if_false, Nat.zero_add] at h
      cases f with
      | false =>
        simp only [toStmts, checksFirst]
        exact late_true_allEffects chk eff r (i + 1) h
      | true =>
        simp only [toStmts, checksFirst]
        exact late_true_allEffects chk eff r (i + 1) h
    | persist c =>
      simp only [lateChecksAux] at h
      simp only [toStmts, checksFirst]
      exact late_true_allEffects chk eff r (i + 1) h

/-- **C10 for every function of the extracted shape**: if no refusing statement follows an effect
    (`lateChecks = 0`), a refused run of *any* program with that shape — whatever its checks test and
    its effects do to (memory, store, pending log) — returns the state it started from. -/
theorem C10_shape_frame {σ : Type} (evs : List ReqShape.Ev) (chk : Nat → σ → Bool) (eff : Nat → σ → σ) (s : σ)
    (h : ReqShape.lateChecks evs = 0) (hr : (exec (toStmts chk eff 0 evs) s).2 = false) :
    (exec (toStmts chk eff 0 evs) s).1 = s :=
  C10_frame_general _ s (late_false_checksFirst chk eff evs 0 h) hr

/-- The functions with a refusing statement after an effect, and how many.  Each entry is a site the
    simulator watches dynamically; the argument why it is harmless (or the finding it is):

* `revoke_previous_holder_commitment` (1): `next_holder_commit_info = None`, then
  `advance_holder_commitment_state(..)?`.  The callee's guards (`num = next + 1`, the point and secret
  range checks of `release_commitment_secret`) hold whenever the caller reaches it
  (`new_current_commitment_number = next_holder_commit_num` was tested at the top): proved on the
  enforcement model (`C10_frame_channel`, revoke branch).
* `sign_holder_commitment_tx_for_recovery` (2): `channel_closed = true`, then
  `derive_public_revocation_key(..)?` (fails only for an invalid per-commitment point, which the channel
  derived itself) and `get_unilateral_close_key(&Some(..), &Some(..))?` (its error branches need a `None`).
* `activate_initial_commitment` (1): the `return Err` of the `else` branch of
  `if let Some(..) = next_holder_commit_info.take()` — taken exactly when nothing was taken.
* `check_onchain_tx` (1): the fee is counted before `policy_err!("policy-onchain-fee-range")` — and
  before the signing step of the caller can refuse: the listed known finding of C10. -/
def expectedLate : List (Gen.ReqShape.Fn × Nat) :=
  [(.revoke_previous_holder_commitment, 1), (.sign_holder_commitment_tx_for_recovery, 2),
   (.activate_initial_commitment, 1), (.check_onchain_tx, 1)]

/-- **C10_gen_shape_table** (generated obligation): in the current sources the functions with a
    refusing statement after an effect are exactly the listed ones. -/
theorem C10_gen_shape_table :
    (Gen.ReqShape.Fn.all.filterMap (fun f =>
      if ReqShape.lateChecks (Gen.ReqShape.evs f) = 0 then none
      else some (f, ReqShape.lateChecks (Gen.ReqShape.evs f)))) = expectedLate := by
  decide +kernel

/-- … hence every other state-changing function is in the discipline, and `C10_shape_frame` applies. -/
theorem C10_gen_shape_frame {σ : Type} (f : Gen.ReqShape.Fn) (hf : f ∉ expectedLate.map (·.1))
    (chk : Nat → σ → Bool) (eff : Nat → σ → σ) (s : σ)
    (hr : (exec (toStmts chk eff 0 (Gen.ReqShape.evs f)) s).2 = false) :
    (exec (toStmts chk eff 0 (Gen.ReqShape.evs f)) s).1 = s := by
  apply C10_shape_frame _ _ _ _ _ hr
  revert hf
  cases f <;> decide +kernel

/-- `Fn.all` really lists every constructor (so the table theorem quantifies over all functions found) -/
theorem C10_gen_shape_all (f : Gen.ReqShape.Fn) : f ∈ Gen.ReqShape.Fn.all := by
  cases f <;> decide +kernel

/-- non-vacuity: the shape of `validate_counterparty_revocation` (checks, a refusing setter, an
    assignment, persist) with a concrete interpretation: refused at the setter's check, state unchanged;
    the F9 shape (assignment moved before the setter) is not in the discipline -/
example : ReqShape.lateChecks [.check, .mutate .chan true, .mutate .chan false, .persist .chan] = 0 ∧
    ReqShape.lateChecks [.check, .mutate .chan false, .mutate .chan true, .persist .chan] = 1 ∧
    exec (toStmts (fun i (_ : Nat) => i != 1) (fun _ s => s + 1) 0
      [.check, .mutate .chan true, .mutate .chan false, .persist .chan]) 7 = (7, false) := by
  decide

/-! #### Callees inlined, and the arms of the protocol handler

`evs` lists each function's own statements.  `evsFull` replaces every call of another state-changing function
of channel.rs / node.rs by the callee's events (so a mutation or a persist made *through a call* in front of a
check is seen: e.g. a garbage collection of the channel map in front of the high-water-mark check of
`find_or_create_channel`), and `armEvs` does the same for every arm of `do_handle` of the root and the channel
handler (vls-protocol-signer/src/handler.rs) that reaches a state-changing function or touches the tracker /
persister itself — the requests as the property counts them.  Alternatives of one `if/else` are listed one after
the other (an over-approximation of "follows"). -/

/-- functions with a refusing statement after an effect once callees are inlined: the four of `expectedLate`
    and the helper `advance_holder_commitment_state`, whose tail call `release_commitment_secret` can refuse
    after the setter assigned (the caller's entry, first item of `expectedLate`, argues why it does not) -/
def expectedLateFull : List (Gen.ReqShape.Fn × Nat) :=
  [(.advance_holder_commitment_state, 1), (.revoke_previous_holder_commitment, 1),
   (.sign_holder_commitment_tx_for_recovery, 2), (.activate_initial_commitment, 1), (.check_onchain_tx, 1)]

/-- **C10_gen_shape_table_full** (generated obligation) -/
theorem C10_gen_shape_table_full :
    (Gen.ReqShape.Fn.all.filterMap (fun f =>
      if ReqShape.lateChecks (Gen.ReqShape.evsFull f) = 0 then none
      else some (f, ReqShape.lateChecks (Gen.ReqShape.evsFull f)))) = expectedLateFull := by
  decide +kernel

/-- The handler arms with a refusing statement after an effect, and how many:

* `root_SignCommitmentTx` (4): the two alternatives of one `if/else` (c-lightning's mutual-close workaround →
  `sign_mutual_close_tx`, otherwise `sign_holder_commitment_tx_phase2`) are listed one after the other; the four
  are the checks of the second alternative, no execution passes through both.
* `chan_ValidateCommitmentTx`, `chan_ValidateCommitmentTx2` (9 each): the composite requests.  After the
  validation (assign + persist) the same request goes on, depending on the protocol version, with
  `revoke_previous_holder_commitment(commit_num)` (5 checks + the refusing setter), or
  `get_per_commitment_point(commit_num + 1)?` (1), or `activate_initial_commitment()?` (2).  Their guards are
  implied by the validation that just succeeded (`commit_num = next_holder_commit_num`, a counter-signed
  successor is recorded): proved on the enforcement model for its composite operations (`C10_frame_channel`),
  and watched by the simulator (`hvh*` through vls-core, `HVH` / `HVHO` through the real `ChannelHandler` at
  protocol versions 6 and 4; that world found F24).
* `chan_RevokeCommitmentTx` (2): the refusing setter inside `revoke_previous_holder_commitment` (first item of
  `expectedLate`) and `old_secret.ok_or_else(..)?` after the revocation was made and persisted:
  `release_commitment_secret(n)` returns no secret only for `n = 0`; the arm passes `commit_num + 1`.
* `root_SignAnchorspend` (4): `sign_withdrawal` (→ `unchecked_sign_onchain_tx`, which records and persists the
  funding inputs of channels the transaction funds) comes before the anchor lookup and
  `sign_holder_anchor_input`, which can refuse ("anchor not found in psbt").  For a transaction that funds no
  channel — what an anchor spend is — `unchecked_sign_onchain_tx` changes nothing; a request that both funds a
  channel and lacks the anchor input would be refused after the monitor was updated.  Not produced by the
  simulator (recorded in notes/C10.md as an observation, not as a finding). -/
def expectedLateArm : List (Gen.ReqShape.Arm × Nat) :=
  [(.root_SignCommitmentTx, 4), (.root_SignAnchorspend, 4), (.chan_ValidateCommitmentTx, 9),
   (.chan_ValidateCommitmentTx2, 9), (.chan_RevokeCommitmentTx, 2)]

/-- **C10_gen_arm_table** (generated obligation): in the current handler sources the arms with a refusing
    statement after an effect are exactly the listed ones. -/
theorem C10_gen_arm_table :
    (Gen.ReqShape.Arm.all.filterMap (fun a =>
      if ReqShape.lateChecks (Gen.ReqShape.armEvs a) = 0 then none
      else some (a, ReqShape.lateChecks (Gen.ReqShape.armEvs a)))) = expectedLateArm := by
  decide +kernel

/-- … hence every other state-changing arm of the protocol handler — NewChannel, ForgetChannel, SignWithdrawal,
    SignInvoice, SignHtlcTxMingle, AddBlock, RemoveBlock, GetHeartbeat, SetupChannel, SignRemoteCommitmentTx(2),
    SignMutualCloseTx(2), SignLocalCommitmentTx2, ValidateRevocation — is in the discipline: whatever its checks
    test and its effects do, a refused run returns the state it started from. -/
theorem C10_gen_arm_frame {σ : Type} (a : Gen.ReqShape.Arm) (ha : a ∉ expectedLateArm.map (·.1))
    (chk : Nat → σ → Bool) (eff : Nat → σ → σ) (s : σ)
    (hr : (exec (toStmts chk eff 0 (Gen.ReqShape.armEvs a)) s).2 = false) :
    (exec (toStmts chk eff 0 (Gen.ReqShape.armEvs a)) s).1 = s := by
  apply C10_shape_frame _ _ _ _ _ hr
  revert ha
  cases a <;> decide +kernel

theorem C10_gen_arm_all (a : Gen.ReqShape.Arm) : a ∈ Gen.ReqShape.Arm.all := by
  cases a <;> decide +kernel

/-- non-vacuity: the `AddBlock` arm as extracted (a check, the tracker mutation, the tracker write) is in the
    discipline; moving work in front of the check — the shape of a collection pass in front of the
    high-water-mark check — is not -/
example : ReqShape.lateChecks (Gen.ReqShape.armEvs .root_AddBlock) = 0 ∧
    ReqShape.lateChecks [.mutate .map false, .mutate .tracker false, .persist .chan, .persist .tracker, .check, .check,
      .mutate .map false, .persist .chan] = 2 := by decide

/-! #### The node-request model has the extracted order

The hand-written model functions of `Model/NodeReq.lean` are *instances* of the extracted shapes: running the
shape of the Rust function (`Gen.ReqShape.evs`, read from the current source) with the model's own check and
effects, statement by statement, is the model function.  So the order "parse all entries — mutate — persist" of
the allowlist requests and "high-water mark — map limit — insert — persist" of `find_or_create_channel` in the
model is the order the source has now: moving a mutation in front of the check in the source (the F3 shape)
changes `evs` and breaks these equalities. -/

/-- the one check of the allowlist requests: every entry parses -/
def alChk (entries : List (Option Nat)) : Nat → St → Bool := fun _ _ => (parseAll entries).isSome

def alNew (s : St) (op : AlOp) (entries : List (Option Nat)) : List Nat :=
  let xs := (parseAll entries).getD []
  match op with
  | .add => xs.foldl (fun acc x => insertSorted x acc) s.mem.allow
  | .set => xs.foldl (fun acc x => insertSorted x acc) []
  | .rm  => s.mem.allow.filter (fun y => !xs.contains y)

/-- effects of `add_allowlist` / `remove_allowlist` by statement index: 1 = the in-memory update,
    2 = `update_node_allowlist` -/
def alEff (op : AlOp) (entries : List (Option Nat)) : Nat → St → St := fun i s =>
  if i = 1 then { s with mem := { s.mem with allow := alNew s op entries } }
  else { s with disk := s.disk.updateAllowlist s.mem }

/-- effects of `set_allowlist`: 1 = `clear()`, 2 = the inserts, 3 = `update_node_allowlist` -/
def alSetEff (entries : List (Option Nat)) : Nat → St → St := fun i s =>
  if i = 1 then { s with mem := { s.mem with allow := [] } }
  else if i = 2 then { s with mem := { s.mem with allow := alNew s .add entries } }
  else { s with disk := s.disk.updateAllowlist s.mem }

def resOf (b : Bool) : Res := if b then .ok else .err

/-- **C10_gen_model_allowlist** (generated obligation): the model's allowlist requests are the extracted shapes
    of `add_allowlist`, `remove_allowlist` and `set_allowlist` run with the model's check and effects -/
theorem C10_gen_model_allowlist (s : St) (entries : List (Option Nat)) :
    (let r := exec (toStmts (alChk entries) (alEff .add entries) 0 (Gen.ReqShape.evs .add_allowlist)) s
     (r.1, resOf r.2)) = allowlistOp s .add entries ∧
    (let r := exec (toStmts (alChk entries) (alEff .rm entries) 0 (Gen.ReqShape.evs .remove_allowlist)) s
     (r.1, resOf r.2)) = allowlistOp s .rm entries ∧
    (let r := exec (toStmts (alChk entries) (alSetEff entries) 0 (Gen.ReqShape.evs .set_allowlist)) s
     (r.1, resOf r.2)) = allowlistOp s .set entries := by
  refine ⟨?_, ?_, ?_⟩ <;>
    cases h : parseAll entries <;>
    simp [Gen.ReqShape.evs, toStmts, exec, alChk, alEff, alSetEff, alNew, resOf, allowlistOp, h,
      Core.updateAllowlist]

/-- checks of `find_or_create_channel` by statement index: 0 = the high-water mark, 1 = the map limit -/
def ncChk (c : Cfg) (dbid : Nat) : Nat → St → Bool := fun i s =>
  if i = 0 then !decide (dbid ≤ s.mem.hwm) else !decide (c.maxChannels ≤ s.mem.stubs.length + 1)

/-- effects: 2 = the insert into the channel map, 3 = `Persist::new_channel` -/
def ncEff (dbid : Nat) : Nat → St → St := fun i s =>
  if i = 2 then
    { s with mem := { s.mem with stubs := s.mem.stubs ++ [dbid] },
             created := if s.created.contains dbid then s.created else s.created ++ [dbid],
             births := (dbid, s.height) :: s.births.filter (fun b => b.1 != dbid) }
  else { s with disk := { s.disk with stubs := s.disk.stubs ++ [dbid] } }

/-- **C10_gen_model_new_channel** (generated obligation): for an id that has no slot yet, the model's `newChannel`
    is the extracted shape of `find_or_create_channel` run with the model's checks and effects (an existing slot
    is returned without any effect, before the insert) -/
theorem C10_gen_model_new_channel (c : Cfg) (s : St) (dbid : Nat) (hfresh : s.mem.stubs.contains dbid = false) :
    (let r := exec (toStmts (ncChk c dbid) (ncEff dbid) 0 (Gen.ReqShape.evs .find_or_create_channel)) s
     (r.1, resOf r.2)) = newChannel c s dbid := by
  by_cases h1 : dbid ≤ s.mem.hwm
  · simp [Gen.ReqShape.evs, toStmts, exec, ncChk, resOf, newChannel, h1]
  · by_cases h2 : c.maxChannels ≤ s.mem.stubs.length + 1
    · simp [Gen.ReqShape.evs, toStmts, exec, ncChk, resOf, newChannel, h1, h2]
    · have hf : dbid ∉ s.mem.stubs := by simpa using hfresh
      simp [Gen.ReqShape.evs, toStmts, exec, ncChk, ncEff, resOf, newChannel, h1, h2, hf]

/-! ### Non-vacuity -/

def cfg0 : Cfg := { maxInvoices := 4, maxChannels := 3, readyOid := 1, now := 1600000000 }
def s0 : St := St.init (Velocity.VC.ofSpec ⟨10000000, .hourly⟩)

/-- a refused allowlist update after an accepted one (the F3 shape) -/
example : ∃ s1 s2, step cfg0 s0 (.al .add [some 1]) = some (s1, .ok) ∧ s1.mem.allow = [1]
    ∧ step cfg0 s1 (.al .set [some 2, none]) = some (s2, .err) ∧ s2.mem.allow = [1] :=
  ⟨_, _, rfl, rfl, rfl, rfl⟩

/-- an issued invoice: the same one again is answered, a different invoice for the same hash is refused
    (and changes nothing) -/
example : ((run cfg0 s0 [.sinv 0 100000, .sinv 0 100000, .sinv 0 1000, .sinv 1 0, .sinv 1 5000, .sinv 1 0]).map
    (fun r => (r.2, r.1.mem.issued))) = some ([.ok, .ok, .err, .ok, .ok, .err], [(0, 100000), (1, 5000)]) := by
  decide

/-- a refused channel creation after its id was retired -/
example : ((run cfg0 s0 [.newch 3, .forget 1, .newch 3, .newch 2]).map (·.2)) = some [.ok, .ok, .err, .err] := by
  decide

end VlsModel.Props.C10
