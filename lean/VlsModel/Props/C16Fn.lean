import VlsModel.Lemmas.KVV
import VlsModel.Gen.FnKvv
import VlsModel.Gen.FnCloud
import VlsModel.Gen.FnRedbVv
import VlsModel.Gen.FnRedbKv
import VlsModel.Gen.FnKvvMemNew
import VlsModel.Gen.FnKvvMemPfx
import VlsModel.Gen.FnRedbSid
import VlsModel.Props.C16Gen
import VlsModel.Gen.FnKvvMem
import VlsModel.Gen.FnKvvTrait
import VlsModel.Gen.FnPersistMod
import VlsModel.Lemmas.FnGen
import VlsModel.Lemmas.SmapSorted
/-
C16 — the in-memory store of the model (`KVV.Mem.putV`, `KVV.Mem.put`, `KVV.nextVer`) tied to the bodies of
`MemoryKVVStore::{put_with_version, get_version, put, get}` that `translate/rs2lean.py` regenerates from
`vls-persist/src/kvv/memory.rs` (`Gen/FnKvv.lean`).

The model indexes entries by abstract keys (`Nat`), the code by strings, so the tie is a simulation rather than an
equality of terms: for any injective naming `f` of the model's keys, `Sim f` (every model key looks up the same
record in both maps) is preserved by every operation, and the outcomes (`ok` / `Err(VersionMismatch)` / overflow of
`v + 1`) coincide.  `self.data.lock().unwrap()` is translated as the identity on the protected map (trusted).
-/
namespace VlsModel.Props.C16Fn
open VlsModel VlsModel.KVV
open VlsModel.Gen.FnKvv (MemoryKVVStore)

/-- the code's map agrees with the model's table on every key the model knows -/
def Sim (f : Key → String) (s : MemoryKVVStore) (t : Tab) : Prop :=
  ∀ k, Rs.smapGet s.data (f k) = lookup t k

/-- outcome of a mutating call of the code against the model's `Tab × Res` -/
def Agree (f : Key → String) (r : Rs.M MemoryKVVStore) (m : Tab × Res) : Prop :=
  match r, m.2 with
  | .ok s', .ok => Sim f s' m.1
  | .error (.err tag), .mismatch => tag = "Error::VersionMismatch"
  | .error .overflow, .panic => True
  | _, _ => False

theorem C16_fn_get (f : Key → String) (s : MemoryKVVStore) (t : Tab) (h : Sim f s t) (k : Key) :
    s.get (f k) = .ok (lookup t k) := by
  simp [MemoryKVVStore.get, h k]

theorem C16_fn_get_version (f : Key → String) (s : MemoryKVVStore) (t : Tab) (h : Sim f s t) (k : Key) :
    s.get_version (f k) = .ok ((lookup t k).map (·.1)) := by
  simp only [MemoryKVVStore.get_version, h k, Rs.pure_eq]

/-- `put_with_version`: same decision (not lower; at the same version the same bytes), and an accepted write
    keeps the two maps in agreement; a refused one changes nothing (`m.1 = t` by `Mem.putV`) -/
theorem C16_fn_put_with_version (f : Key → String) (hf : ∀ a b, f a = f b → a = b)
    (s : MemoryKVVStore) (t : Tab) (h : Sim f s t) (k : Key) (v : Nat) (x : Val) :
    Agree f (s.put_with_version (f k) v x) (Mem.putV t k v x) := by
  have hins : Sim f { s with data := Rs.smapInsert s.data (f k) (v, x) } (insert t k (v, x)) := by
    intro k'
    simp only [Rs.smapGet_insert, lookup_insert, h k']
    by_cases e : k = k'
    · simp [e]
    · have : ¬ f k = f k' := fun he => e (hf _ _ he)
      simp [e, this]
  unfold MemoryKVVStore.put_with_version Mem.putV
  rw [h k]
  cases hl : lookup t k with
  | none => simpa [Agree] using hins
  | some r =>
    obtain ⟨v0, x0⟩ := r
    by_cases h1 : v < v0
    · simp [Agree, h1, Rs.fail]
    · by_cases h2 : v = v0
      · by_cases h3 : x0 = x
        · simp [Agree, h1, h2, h3]; subst h2; exact h
        · simp [Agree, h2, h3, Rs.fail]
      · simp only [h1, h2, decide_false, if_false, Bool.false_eq_true, beq_iff_eq, Rs.pure_eq]
        simpa [Agree] using hins

/-- `put`: the next version is `get_version + 1` (plain `+`: overflow at `u64::MAX`), `0` for a new key, then
    `put_with_version` -/
theorem C16_fn_put (f : Key → String) (hf : ∀ a b, f a = f b → a = b)
    (s : MemoryKVVStore) (t : Tab) (h : Sim f s t) (k : Key) (x : Val) :
    Agree f (s.put (f k) x) (Mem.put t k x) := by
  unfold MemoryKVVStore.put Mem.put
  rw [C16_fn_get_version f s t h k]
  simp only [Rs.bind_ok]
  cases hl : lookup t k with
  | none =>
    simp only [Option.map, nextVer, Rs.pure_eq, Rs.bind_ok, Option.getD]
    exact C16_fn_put_with_version f hf s t h k 0 x
  | some r =>
    obtain ⟨v0, x0⟩ := r
    simp only [Option.map, nextVer, Rs.uadd, U64MAX, Rs.U64_MAX]
    by_cases hv : v0 < 18446744073709551615
    · have hv' : v0 + 1 ≤ 18446744073709551615 := hv
      simp only [hv, hv', if_true, Rs.pure_eq, Rs.bind_ok, Option.getD]
      exact C16_fn_put_with_version f hf s t h k (v0 + 1) x
    · have hv' : ¬ v0 + 1 ≤ 18446744073709551615 := by omega
      simp [hv, hv', Agree, Rs.overflow, bind, Except.bind]

/-! ### `put_batch` (check loop over a staged map, then the inserts) and `delete` (round 8)

The generated body runs the check loop as `Rs.loopM` (early `return Err(VersionMismatch)`, `continue` for an equal
entry) over a *staged* string-keyed map and, only if the loop ends normally, folds the inserts over `self.data`.
The model (`Mem.batch`) folds `Mem.checkStep` over `Option Tab` and then applies `insertAll`.  `SimSt` relates the
two staged maps; the batch handed to the code is the model's batch with every key renamed by `f`. -/

/-- the staged map of the code agrees with the model's staged table on every model key -/
def SimSt (f : Key → String) (staged : List (String × Rec)) (st : Tab) : Prop :=
  ∀ k, Rs.smapGet staged (f k) = lookup st k

/-- one iteration of the code's check loop against `Mem.checkStep` -/
def StepRel (f : Key → String) : Rs.M (Rs.Flow (List (String × Rec)) MemoryKVVStore) → Option Tab → Prop
  | .ok (.next staged'), some st' => SimSt f staged' st'
  | .error (.err tag), none => tag = "Error::VersionMismatch"
  | _, _ => False

/-- the whole check loop against the fold of `Mem.checkStep` -/
def LoopRel (f : Key → String) : Rs.M ((List (String × Rec)) ⊕ MemoryKVVStore) → Option Tab → Prop
  | .ok (.inl staged'), some st' => SimSt f staged' st'
  | .error (.err tag), none => tag = "Error::VersionMismatch"
  | _, _ => False

theorem check_loop (f : Key → String) (t : Tab)
    (b : List (String × Rec) → String × Rec → Rs.M (Rs.Flow (List (String × Rec)) MemoryKVVStore))
    (hb : ∀ staged st e, SimSt f staged st → StepRel f (b staged (f e.1, e.2)) (Mem.checkStep t (some st) e)) :
    ∀ (es : List (Key × Rec)) (staged : List (String × Rec)) (st : Tab), SimSt f staged st →
      LoopRel f (Rs.loopM (es.map (fun e => (f e.1, e.2))) staged b) (es.foldl (Mem.checkStep t) (some st)) := by
  intro es
  induction es with
  | nil => intro staged st h; exact h
  | cons e es ih =>
    intro staged st h
    have hs := hb staged st e h
    simp only [List.map_cons, List.foldl_cons, Rs.loopM]
    cases hr : b staged (f e.1, e.2) with
    | error err =>
      rw [hr] at hs
      cases hc : Mem.checkStep t (some st) e with
      | none =>
        rw [hc] at hs
        rw [Mem.foldl_checkStep_none]
        cases err <;> simp_all [StepRel, LoopRel, bind, Except.bind]
      | some st' => rw [hc] at hs; cases err <;> simp [StepRel] at hs
    | ok fl =>
      rw [hr] at hs
      cases hc : Mem.checkStep t (some st) e with
      | none => rw [hc] at hs; cases fl <;> simp [StepRel] at hs
      | some st' =>
        rw [hc] at hs
        cases fl with
        | next staged' =>
          have h' : SimSt f staged' st' := hs
          simpa [bind, Except.bind] using ih staged' st' h'
        | brk _ => simp [StepRel] at hs
        | ret _ => simp [StepRel] at hs

/-- the insert loop of `put_batch` keeps the two maps in agreement -/
theorem insert_loop (f : Key → String) (hf : ∀ a b, f a = f b → a = b) :
    ∀ (es : List (Key × Rec)) (s : MemoryKVVStore) (t : Tab), Sim f s t →
      Sim f (List.foldl (fun (self : MemoryKVVStore) (kvv : String × Rec) =>
               { self with data := Rs.smapInsert self.data kvv.1 kvv.2 }) s (es.map (fun e => (f e.1, e.2))))
            (insertAll t es) := by
  intro es
  induction es with
  | nil => intro s t h; exact h
  | cons e es ih =>
    intro s t h
    simp only [List.map_cons, List.foldl_cons, insertAll_cons]
    apply ih
    intro k'
    simp only [Rs.smapGet_insert, lookup_insert, h k']
    by_cases e' : e.1 = k'
    · simp [e']
    · have : ¬ f e.1 = f k' := fun he => e' (hf _ _ he)
      simp [e', this]

/-- the two loops of `put_batch` for any loop body that simulates `Mem.checkStep` -/
theorem batch_core (f : Key → String) (hf : ∀ a b, f a = f b → a = b)
    (s : MemoryKVVStore) (t : Tab) (h : Sim f s t) (es : List (Key × Rec))
    (b : List (String × Rec) → String × Rec → Rs.M (Rs.Flow (List (String × Rec)) MemoryKVVStore))
    (hb : ∀ staged st e, SimSt f staged st → StepRel f (b staged (f e.1, e.2)) (Mem.checkStep t (some st) e)) :
    Agree f
      (Rs.loopM (es.map (fun e => (f e.1, e.2))) [] b >>= fun lr =>
        match lr with
        | .inl _ => pure (List.foldl (fun (self : MemoryKVVStore) (kvv : String × Rec) =>
                      { self with data := Rs.smapInsert self.data kvv.1 kvv.2 }) s (es.map (fun e => (f e.1, e.2))))
        | .inr rv => pure rv)
      (match es.foldl (Mem.checkStep t) (some []) with
       | some _ => (insertAll t es, .ok)
       | none => (t, .mismatch)) := by
  have hloop := check_loop f t b hb es [] [] (fun _ => rfl)
  revert hloop
  generalize Rs.loopM _ _ _ = r
  cases hc : es.foldl (Mem.checkStep t) (some []) with
  | none =>
    intro hloop
    match r, hloop with
    | .error (.err tag), hl => simp [LoopRel] at hl; simp [Agree, hl, bind, Except.bind]
  | some st' =>
    intro hloop
    match r, hloop with
    | .ok (.inl staged'), _ =>
      simp only [Rs.bind_ok, Rs.pure_eq, Agree]
      exact insert_loop f hf es s t h

/-- `put_batch`: the same batches are refused (`Err(VersionMismatch)`, nothing written: `Mem.batch` returns `t`), and an
    accepted batch leaves the two maps in agreement -/
theorem C16_fn_put_batch (f : Key → String) (hf : ∀ a b, f a = f b → a = b)
    (s : MemoryKVVStore) (t : Tab) (h : Sim f s t) (es : List (Key × Rec)) :
    Agree f (s.put_batch (es.map (fun e => (f e.1, e.2)))) (Mem.batch t es) := by
  unfold MemoryKVVStore.put_batch Mem.batch
  refine batch_core f hf s t h es _ ?_
  intro staged st e hst
  have ho : Option.or (Rs.smapGet staged (f e.1)) (Rs.smapGet s.data (f e.1)) = olookup st t e.1 := by
    rw [hst e.1, h e.1]; unfold olookup; cases lookup st e.1 <;> rfl
  have hins : SimSt f (Rs.smapInsert staged (f e.1) e.2) (insert st e.1 e.2) := by
    intro k'
    simp only [Rs.smapGet_insert, lookup_insert, hst k']
    by_cases e' : e.1 = k'
    · simp [e']
    · have : ¬ f e.1 = f k' := fun he => e' (hf _ _ he)
      simp [e', this]
  simp only [Mem.checkStep, ho]
  cases hl : olookup st t e.1 with
  | none => simpa [StepRel] using hins
  | some r =>
    obtain ⟨v0, x0⟩ := r
    by_cases h1 : e.2.1 < v0
    · simp [StepRel, h1, Rs.fail, bind, Except.bind]
    · by_cases h2 : e.2.1 = v0
      · by_cases h3 : x0 = e.2.2
        · simpa [StepRel, h1, h2, h3] using hst
        · simp [StepRel, h2, h3, Rs.fail, bind, Except.bind]
      · simpa [StepRel, h1, h2] using hins

/-- `delete(key)` is `put(key, [])` (an empty value at the next version): same outcome as the model's `put` -/
theorem C16_fn_delete (f : Key → String) (hf : ∀ a b, f a = f b → a = b)
    (s : MemoryKVVStore) (t : Tab) (h : Sim f s t) (k : Key) :
    Agree f (s.delete (f k)) (Mem.put t k []) := by
  unfold MemoryKVVStore.delete
  exact C16_fn_put f hf s t h k []

/-! ## CloudKVVStore over a MemoryKVVStore: the read side (`do_get_version`, `do_get`, `get`, `get_version`)

`vls-persist/src/kvv/cloud.rs` is generic over the local store; the methods of the field `local` are explicit function
parameters of the generated definitions (`Gen/FnCloud.lean`).  They are instantiated here with the *generated*
`MemoryKVVStore::get` / `get_version`, so the statement reaches the memory store's source too. -/

open VlsModel.Gen.FnCloud (CloudKVVStore)

/-- the code's cloud store against the model's (outside the poisoned state): local stores in agreement, the commit
    logs both absent or in agreement on every key -/
structure SimC (f : Key → String) (cs : CloudKVVStore MemoryKVVStore) (c : Cloud) : Prop where
  np : c.poisoned = false
  loc : Sim f cs.«local» c.loc
  log : match cs.commit_log, c.log with
        | none, none => True
        | some cl, some lg => ∀ k, Rs.smapGet cl (f k) = lookup lg k
        | _, _ => False

/-- `do_get_version`: the pending version of the transaction if the key is in the log, else the local store's -/
theorem C16_fn_cloud_do_get_version (f : Key → String) (cs : CloudKVVStore MemoryKVVStore) (t : Tab)
    (h : Sim f cs.«local» t) (cl : List (String × (Nat × List Nat))) (lg : Tab)
    (hl : ∀ k, Rs.smapGet cl (f k) = lookup lg k) (k : Key) :
    cs.do_get_version (fun l key => l.get_version key) cl (f k)
      = .ok (Option.map (fun (r : Rec) => r.1) (match lookup lg k with | some r => some r | none => lookup t k)) := by
  unfold CloudKVVStore.do_get_version
  rw [hl k]
  cases hk : lookup lg k with
  | none => simp [C16_fn_get_version f cs.«local» t h k]
  | some r => obtain ⟨v, x⟩ := r; simp

/-- `do_get`: log first, then the local store (read-your-writes by key) -/
theorem C16_fn_cloud_do_get (f : Key → String) (cs : CloudKVVStore MemoryKVVStore) (t : Tab)
    (h : Sim f cs.«local» t) (cl : List (String × (Nat × List Nat))) (lg : Tab)
    (hl : ∀ k, Rs.smapGet cl (f k) = lookup lg k) (k : Key) :
    cs.do_get (fun l key => l.get key) cl (f k)
      = .ok (match lookup lg k with | some r => some r | none => lookup t k) := by
  unfold CloudKVVStore.do_get
  rw [hl k]
  cases hk : lookup lg k with
  | none => simp [C16_fn_get f cs.«local» t h k]
  | some r => obtain ⟨v, x⟩ := r; simp

/-- `get`: panics outside a transaction (`expect("not in transaction")`), else the model's `Cloud.get` -/
theorem C16_fn_cloud_get (f : Key → String) (cs : CloudKVVStore MemoryKVVStore) (c : Cloud) (h : SimC f cs c) (k : Key) :
    cs.get (fun l key => l.get key) (f k)
      = (match (Cloud.get c k).2 with | some r => .ok r | none => .error .panic) := by
  unfold CloudKVVStore.get Cloud.get
  have hlog := h.log
  simp only [h.np, Bool.false_eq_true, if_false]
  cases hc : cs.commit_log with
  | none =>
    cases hg : c.log with
    | none => simp [Rs.unwrap, Rs.panic, bind, Except.bind]
    | some lg => rw [hc, hg] at hlog; exact hlog.elim
  | some cl =>
    cases hg : c.log with
    | none => rw [hc, hg] at hlog; exact hlog.elim
    | some lg =>
      rw [hc, hg] at hlog
      simp only [Rs.unwrap, Rs.pure_eq, Rs.bind_ok]
      rw [C16_fn_cloud_do_get f cs c.loc h.loc cl lg hlog k]
      cases lookup lg k <;> rfl

/-- `get_version`: the version of what `get` returns -/
theorem C16_fn_cloud_get_version (f : Key → String) (cs : CloudKVVStore MemoryKVVStore) (c : Cloud) (h : SimC f cs c) (k : Key) :
    cs.get_version (fun l key => l.get_version key) (f k)
      = (match (Cloud.get c k).2 with | some r => .ok (Option.map (fun (r : Rec) => r.1) r) | none => .error .panic) := by
  unfold CloudKVVStore.get_version Cloud.get
  have hlog := h.log
  simp only [h.np, Bool.false_eq_true, if_false]
  cases hc : cs.commit_log with
  | none =>
    cases hg : c.log with
    | none => simp [Rs.unwrap, Rs.panic, bind, Except.bind]
    | some lg => rw [hc, hg] at hlog; exact hlog.elim
  | some cl =>
    cases hg : c.log with
    | none => rw [hc, hg] at hlog; exact hlog.elim
    | some lg =>
      rw [hc, hg] at hlog
      simp only [Rs.unwrap, Rs.pure_eq, Rs.bind_ok]
      rw [C16_fn_cloud_do_get_version f cs c.loc h.loc cl lg hlog k]
      cases lookup lg k <;> rfl

/-! ## CloudKVVStore: the write side (`put_with_version`, `put`, `delete`, `put_batch`, `prepare`, `commit`)

The commit log is an ordered map and `prepare` / `commit` expose its order, so the relation is equality of the code's
log with the image of the model's log, for a key naming `f` that is strictly monotone (`"_WRITER" < "k1" < …` in the
harness).  The externals of the generic local store are pure functions of the field value: what a method *hands* to the
local store (`commit`: the exact list passed to `put_batch`) is stated, the local store's own reaction is the memory
store's theorem (`C16_fn_put_batch`). -/

def toCodeL (f : Key → String) (lg : Tab) : List (String × (Nat × List Nat)) := lg.map (fun e => (f e.1, e.2))

theorem mono_inj (f : Key → String) (hm : ∀ a b, a < b → f a < f b) : ∀ a b, f a = f b → a = b := by
  intro a b h
  rcases Nat.lt_trichotomy a b with h1 | h1 | h1
  · exact absurd (h ▸ hm a b h1) (String.lt_irrefl _)
  · exact h1
  · exact absurd (h ▸ hm b a h1) (String.lt_irrefl _)

theorem smapGet_toCodeL (f : Key → String) (hf : ∀ a b, f a = f b → a = b) (lg : Tab) (k : Key) :
    Rs.smapGet (toCodeL f lg) (f k) = lookup lg k := by
  induction lg with
  | nil => rfl
  | cons e lg ih =>
    obtain ⟨k0, r0⟩ := e
    simp only [toCodeL, List.map_cons, Rs.smapGet, lookup]
    by_cases h : k0 = k
    · simp [h]
    · have : ¬ f k0 = f k := fun he => h (hf _ _ he)
      simp only [h, this, if_false]
      exact ih

/-- inserting into the code's log is inserting into the model's log (the two orders agree because `f` is monotone) -/
theorem toCodeL_insert (f : Key → String) (hm : ∀ a b, a < b → f a < f b) (lg : Tab) (k : Key) (r : Rec) :
    Rs.smapInsert (toCodeL f lg) (f k) r = toCodeL f (KVV.insert lg k r) := by
  induction lg with
  | nil => rfl
  | cons e lg ih =>
    obtain ⟨k0, r0⟩ := e
    rcases Nat.lt_trichotomy k k0 with h | h | h
    · have h1 : f k < f k0 := hm _ _ h
      have h2 : ¬ f k0 = f k := fun he => absurd (he ▸ h1) (String.lt_irrefl _)
      simp [toCodeL, Rs.smapInsert, KVV.insert, h, h1, h2]
    · subst h
      simp [toCodeL, Rs.smapInsert, KVV.insert, Nat.lt_irrefl]
    · have h1 : f k0 < f k := hm _ _ h
      have h2 : ¬ f k0 = f k := fun he => absurd (he ▸ h1) (String.lt_irrefl _)
      have h3 : ¬ f k < f k0 := String.lt_asymm h1
      have h4 : ¬ k < k0 := Nat.lt_asymm h
      have h5 : ¬ k = k0 := Nat.ne_of_gt h
      have ih' : Rs.smapInsert (List.map (fun e => (f e.1, e.2)) lg) (f k) r
          = List.map (fun e => (f e.1, e.2)) (KVV.insert lg k r) := ih
      simp [toCodeL, Rs.smapInsert, KVV.insert, h2, h3, h4, h5, ih']

/-- list-level relation (implies `SimC`) -/
structure SimL (f : Key → String) (cs : CloudKVVStore MemoryKVVStore) (c : Cloud) : Prop where
  np : c.poisoned = false
  loc : Sim f cs.«local» c.loc
  log : cs.commit_log = c.log.map (toCodeL f)

theorem SimL.toSimC {f : Key → String} (hf : ∀ a b, f a = f b → a = b) {cs : CloudKVVStore MemoryKVVStore} {c : Cloud}
    (h : SimL f cs c) : SimC f cs c := by
  refine ⟨h.np, h.loc, ?_⟩
  rw [h.log]
  cases c.log with
  | none => trivial
  | some lg => exact fun k => smapGet_toCodeL f hf lg k

/-- outcome of a mutating cloud call: the model's `panic` covers the code's `expect`/`assert` panics and the overflow of
    `v + 1`; a refusal (`Err`) loses the state in the functional translation, so only the class is compared there -/
def AgreeC (f : Key → String) (r : Rs.M (CloudKVVStore MemoryKVVStore)) (m : Cloud × Res) : Prop :=
  match r, m.2 with
  | .ok cs', .ok => SimL f cs' m.1
  | .error (.err tag), .mismatch => tag = "Error::VersionMismatch"
  | .error .panic, .panic => True
  | .error .overflow, .panic => True
  | _, _ => False

abbrev getV : MemoryKVVStore → String → Rs.M (Option Nat) := fun l key => l.get_version key
abbrev getR : MemoryKVVStore → String → Rs.M (Option (Nat × List Nat)) := fun l key => l.get key

/-- `put_with_version` inside / outside a transaction: panic without a transaction; a version below the one the
    transaction already wrote for the key is refused; then the local store's version decides (lower refused, equal
    needs equal content and logs nothing, higher or new key is logged) -/
theorem C16_fn_cloud_put_with_version (f : Key → String) (hm : ∀ a b, a < b → f a < f b)
    (cs : CloudKVVStore MemoryKVVStore) (c : Cloud) (h : SimL f cs c) (k : Key) (v : Nat) (x : Val) :
    AgreeC f (cs.put_with_version getV getR (f k) v x) (Cloud.putV c k v x) := by
  have hf := mono_inj f hm
  unfold CloudKVVStore.put_with_version Cloud.putV
  simp only [h.np, Bool.false_eq_true, if_false, h.log]
  cases hg : c.log with
  | none => simp [AgreeC, Rs.unwrap, Rs.panic, bind, Except.bind]
  | some lg =>
    have hins : SimL f { cs with commit_log := some (Rs.smapInsert (toCodeL f lg) (f k) (v, x)) }
        { c with log := some (insert lg k (v, x)) } :=
      ⟨h.np, h.loc, by simp [toCodeL_insert f hm]⟩
    have hsg := smapGet_toCodeL f hf lg k
    have hgv := C16_fn_get_version f cs.«local» c.loc h.loc k
    have hgr := C16_fn_get f cs.«local» c.loc h.loc k
    have hsame : SimL f cs c := h
    cases hp : lookup lg k with
    | none =>
      rw [hp] at hsg
      simp only [Option.map, Rs.unwrap, Rs.pure_eq, Rs.bind_ok, hsg, Cloud.pendingLower, hp, getV, getR, hgv, hgr]
      cases hl : lookup c.loc k with
      | none => simpa [AgreeC, h.np] using hins
      | some r =>
        obtain ⟨v0, x0⟩ := r
        by_cases h1 : v < v0
        · simp [AgreeC, h1, Rs.fail]
        · by_cases h2 : v = v0
          · by_cases h3 : x0 = x
            · simp [AgreeC, h1, h2, h3]
              subst h2
              exact ⟨h.np, h.loc, by rw [h.log, hg]⟩
            · simp [AgreeC, h2, h3, Rs.fail]
          · simp only [h1, h2, decide_false, if_false, Bool.false_eq_true, beq_iff_eq, Option.map]
            simpa [AgreeC, h.np] using hins
    | some pr =>
      obtain ⟨pv, px⟩ := pr
      rw [hp] at hsg
      simp only [Option.map, Rs.unwrap, Rs.pure_eq, Rs.bind_ok, hsg, Cloud.pendingLower, hp, getV, getR, hgv, hgr]
      by_cases h0 : v < pv
      · simp [AgreeC, h0, Rs.fail]
      · simp only [h0, decide_false, Bool.false_eq_true, if_false]
        cases hl : lookup c.loc k with
        | none => simpa [AgreeC, h.np] using hins
        | some r =>
          obtain ⟨v0, x0⟩ := r
          by_cases h1 : v < v0
          · simp [AgreeC, h1, Rs.fail]
          · by_cases h2 : v = v0
            · by_cases h3 : x0 = x
              · simp [AgreeC, h1, h2, h3]
                subst h2
                exact ⟨h.np, h.loc, by rw [h.log, hg]⟩
              · simp [AgreeC, h2, h3, Rs.fail]
            · simp only [h1, h2, decide_false, if_false, Bool.false_eq_true, beq_iff_eq, Option.map]
              simpa [AgreeC, h.np] using hins

/-- `put`: the next version comes from the **local** store (`get_version + 1`, overflow at `u64::MAX`, `0` for a new
    key), not from the log; then `put_with_version` -/
theorem C16_fn_cloud_put (f : Key → String) (hm : ∀ a b, a < b → f a < f b)
    (cs : CloudKVVStore MemoryKVVStore) (c : Cloud) (h : SimL f cs c) (k : Key) (x : Val) :
    AgreeC f (cs.put getV getR (f k) x) (Cloud.put c k x) := by
  unfold CloudKVVStore.put Cloud.put
  simp only [getV, C16_fn_get_version f cs.«local» c.loc h.loc k, Rs.bind_ok]
  cases hl : lookup c.loc k with
  | none =>
    simp only [Option.map, nextVer, Rs.pure_eq, Rs.bind_ok, Option.getD]
    exact C16_fn_cloud_put_with_version f hm cs c h k 0 x
  | some r =>
    obtain ⟨v0, x0⟩ := r
    simp only [Option.map, nextVer, Rs.uadd, U64MAX, Rs.U64_MAX]
    by_cases hv : v0 < 18446744073709551615
    · have hv' : v0 + 1 ≤ 18446744073709551615 := hv
      simp only [hv, hv', if_true, Rs.pure_eq, Rs.bind_ok, Option.getD]
      exact C16_fn_cloud_put_with_version f hm cs c h k (v0 + 1) x
    · have hv' : ¬ v0 + 1 ≤ 18446744073709551615 := by omega
      simp [hv, hv', AgreeC, Rs.overflow, bind, Except.bind]

/-- `delete` = `put(key, [])` -/
theorem C16_fn_cloud_delete (f : Key → String) (hm : ∀ a b, a < b → f a < f b)
    (cs : CloudKVVStore MemoryKVVStore) (c : Cloud) (h : SimL f cs c) (k : Key) :
    AgreeC f (cs.delete getV getR (f k)) (Cloud.put c k []) := by
  unfold CloudKVVStore.delete
  exact C16_fn_cloud_put f hm cs c h k []

/-- `put_batch` = the entries as `put_with_version` calls in order, stopping at the first refusal (the entries logged
    before a refusal stay logged in the real store; the functional translation has no state on `Err`, so for a refused
    batch only the outcome class is tied — the residual log is covered by the harness) -/
theorem C16_fn_cloud_put_batch (f : Key → String) (hm : ∀ a b, a < b → f a < f b) (es : List (Key × Rec)) :
    ∀ (cs : CloudKVVStore MemoryKVVStore) (c : Cloud), SimL f cs c →
      AgreeC f (cs.put_batch getV getR (es.map (fun e => (f e.1, e.2)))) (Cloud.batch c es) := by
  induction es with
  | nil =>
    intro cs c h
    simpa [CloudKVVStore.put_batch, Cloud.batch, AgreeC] using h
  | cons e es ih =>
    intro cs c h
    have hstep := C16_fn_cloud_put_with_version f hm cs c h e.1 e.2.1 e.2.2
    unfold CloudKVVStore.put_batch at ih ⊢
    simp only [List.map_cons, List.foldlM_cons, Cloud.batch, bind_assoc] at ih ⊢
    cases hr : cs.put_with_version getV getR (f e.1) e.2.1 e.2.2 with
    | error err =>
      rw [hr] at hstep
      cases hm2 : Cloud.putV c e.1 e.2.1 e.2.2 with
      | mk c' res =>
        rw [hm2] at hstep
        cases res <;> cases err <;> simp_all [AgreeC, bind, Except.bind]
    | ok cs' =>
      rw [hr] at hstep
      cases hm2 : Cloud.putV c e.1 e.2.1 e.2.2 with
      | mk c' res =>
        rw [hm2] at hstep
        cases res with
        | ok =>
          simp only [AgreeC] at hstep
          simp only [Rs.bind_ok, Rs.pure_eq]
          exact ih cs' c' hstep
        | mismatch => simp [AgreeC] at hstep
        | panic => simp [AgreeC] at hstep

theorem foldl_push {α : Type} (l acc : List α) :
    List.foldl (fun kvvs x => kvvs ++ [x]) acc l = acc ++ l := by
  induction l generalizing acc with
  | nil => simp
  | cons x l ih => simp [List.foldl_cons, ih, List.append_assoc]

/-- `commit`: panics outside a transaction; else the log is taken (the transaction ends whatever the local store
    answers) and **exactly the logged entries, in key order**, are handed to the local store's `put_batch`, whose
    result is the result — for every local store -/
theorem C16_fn_cloud_commit (f : Key → String) (cs : CloudKVVStore MemoryKVVStore) (c : Cloud) (h : SimL f cs c)
    (ext : MemoryKVVStore → List (String × (Nat × List Nat)) → Rs.M Unit) :
    cs.commit ext = (match c.log with
      | none => .error .panic
      | some lg => (ext cs.«local» (toCodeL f lg)) >>= fun _ => pure { cs with commit_log := none }) := by
  unfold CloudKVVStore.commit
  rw [h.log]
  cases c.log with
  | none => simp [Rs.unwrap, Rs.panic, bind, Except.bind]
  | some lg =>
    simp only [Option.map, Rs.unwrap, Rs.pure_eq, Rs.bind_ok]
    have : List.foldl (fun (kvvs : List (String × (Nat × List Nat))) (x : String × (Nat × List Nat)) =>
        match x with | (key, (version, vv)) => kvvs ++ [(key, (version, vv))]) [] (toCodeL f lg) = toCodeL f lg := by
      have h2 := foldl_push (toCodeL f lg) []
      simpa using h2
    rw [this]

/-- with the memory store as local store: `commit` is accepted exactly when the model's `Mem.batch` of the log is, and
    then the local store is the model's local store after the batch and the log is gone (= `Cloud.commit`) -/
theorem C16_fn_cloud_commit_applied (f : Key → String) (hm : ∀ a b, a < b → f a < f b)
    (cs : CloudKVVStore MemoryKVVStore) (c : Cloud) (h : SimL f cs c) (lg : Tab) (hlg : c.log = some lg) :
    match cs.«local».put_batch (toCodeL f lg), (Cloud.commit c).2 with
    | .ok l', .ok => SimL f { «local» := l', commit_log := none } (Cloud.commit c).1
    | .error (.err tag), .mismatch => tag = "Error::VersionMismatch"
    | _, _ => False := by
  have hb : Agree f (cs.«local».put_batch (toCodeL f lg)) (Mem.batch c.loc lg) :=
    C16_fn_put_batch f (mono_inj f hm) cs.«local» c.loc h.loc lg
  unfold Cloud.commit
  simp only [h.np, Bool.false_eq_true, if_false, hlg]
  unfold Agree at hb
  cases hres : Mem.batch c.loc lg with
  | mk t' res =>
    rw [hres] at hb
    cases hr : cs.«local».put_batch (toCodeL f lg) with
    | error err =>
      rw [hr] at hb
      cases res <;> cases err <;> simp_all
      · unfold Mem.batch at hres; split at hres <;> simp at hres
    | ok l' =>
      rw [hr] at hb
      cases res <;> simp_all
      exact ⟨rfl, hb, rfl⟩

/-- `prepare`: panics outside a transaction; a log holding only the last-writer record is cleared and nothing is
    reported (the `assert_eq!` on its key panics for any other single entry); otherwise exactly the log, in key order,
    is reported and the store is unchanged -/
theorem C16_fn_cloud_prepare (f : Key → String) (hf : ∀ a b, f a = f b → a = b) (hw : f 0 = "_WRITER")
    (cs : CloudKVVStore MemoryKVVStore) (c : Cloud) (h : SimL f cs c) :
    match cs.prepare (Mutations := List (String × (Nat × List Nat))) [] (fun v => v), Cloud.prepare c with
    | .ok (cs', m), (c', some rep) => SimL f cs' c' ∧ m = toCodeL f rep
    | .error .panic, (_, none) => True
    | _, _ => False := by
  unfold CloudKVVStore.prepare Cloud.prepare
  simp only [h.np, Bool.false_eq_true, if_false, h.log]
  cases hg : c.log with
  | none => simp [Rs.unwrap, Rs.panic, bind, Except.bind]
  | some lg =>
    have hmap : List.map (fun (x : String × (Nat × List Nat)) => match x with | (k, (v, vv)) => (k, (v, vv))) (toCodeL f lg)
        = toCodeL f lg := by
      have : (fun (x : String × (Nat × List Nat)) => match x with | (k, (v, vv)) => (k, (v, vv))) = id := by
        funext ⟨a, b, c⟩; rfl
      rw [this, List.map_id]
    simp only [Option.map, Rs.unwrap, Rs.pure_eq, Rs.bind_ok, hmap]
    match lg with
    | [] => simp [toCodeL]; exact ⟨h.np, h.loc, h.log⟩
    | [(k, r)] =>
      by_cases hk : k = 0
      · subst hk
        simp [toCodeL, Rs.index, Rs.assert, hw, bind, Except.bind, pure, Except.pure]
        exact ⟨rfl, h.loc, rfl⟩
      · have : ¬ f k = "_WRITER" := fun he => hk (hf _ _ (he.trans hw.symm))
        simp [toCodeL, Rs.index, Rs.assert, this, hk, Rs.panic, bind, Except.bind, pure, Except.pure]
    | e1 :: e2 :: rest =>
      simp [toCodeL]
      exact ⟨h.np, h.loc, h.log⟩

/-! ## Round 9: the rest of `cloud.rs` (`enter`, `put_batch_unlogged`, `clear_database`, the delegations)

`enter` was the last transaction method tied only by the harness (the un-annotated `BTreeMap::new()` is given its type
by a declared normalisation rule, see the header of `Gen/FnCloud.lean`).  The signer id is opaque in the generated
text: `sidOf` (= `local.signer_id()`) and `toVec` (= `SignerId::to_vec`) are explicit parameters, related to the model's
`sid` by `hsid`. -/

/-- `enter`: the next last-writer version comes from the **local** store's `_WRITER` record (`v + 1`, overflow at
    `u64::MAX`, `0` when absent); entering twice panics; otherwise the fresh log holds exactly the last-writer record
    with the signer id, and the local store is untouched -/
theorem C16_fn_cloud_enter (f : Key → String) (hm : ∀ a b, a < b → f a < f b) (hw : f 0 = "_WRITER")
    (cs : CloudKVVStore MemoryKVVStore) (c : Cloud) (h : SimL f cs c)
    {SignerId : Type} (sidOf : MemoryKVVStore → SignerId) (toVec : SignerId → List Nat)
    (hsid : toVec (sidOf cs.«local») = c.sid) :
    AgreeC f (cs.enter getR sidOf toVec) (Cloud.enter c) := by
  unfold CloudKVVStore.enter Cloud.enter CloudKVVStore.signer_id
  have hg := C16_fn_get f cs.«local» c.loc h.loc 0
  rw [hw] at hg
  simp only [getR, hg, Rs.bind_ok, h.np, h.log, hsid]
  cases hl : lookup c.loc 0 with
  | none =>
    simp only [Option.map, nextVer, Rs.pure_eq, Rs.bind_ok, Option.getD]
    cases hc : c.log with
    | none =>
      simp only [Option.map, Option.isNone, Rs.assert, if_true, Rs.bind_ok, Bool.false_eq_true, if_false, AgreeC]
      exact ⟨rfl, h.loc, by simp [toCodeL, Rs.smapInsert, hw]⟩
    | some lg => simp [AgreeC, Rs.assert, Rs.panic, bind, Except.bind]
  | some r =>
    obtain ⟨v0, x0⟩ := r
    simp only [Option.map, nextVer, Rs.uadd, U64MAX, Rs.U64_MAX]
    by_cases hv : v0 < 18446744073709551615
    · have hv' : v0 + 1 ≤ 18446744073709551615 := hv
      simp only [hv, hv', if_true, Rs.pure_eq, Rs.bind_ok, Option.getD]
      cases hc : c.log with
      | none =>
        simp only [Option.map, Option.isNone, Rs.assert, if_true, Rs.bind_ok, Bool.false_eq_true, if_false, AgreeC]
        exact ⟨rfl, h.loc, by simp [toCodeL, Rs.smapInsert, hw]⟩
      | some lg => simp [AgreeC, Rs.assert, Rs.panic, bind, Except.bind]
    · have hv' : ¬ v0 + 1 ≤ 18446744073709551615 := by omega
      simp [hv, hv', AgreeC, Rs.overflow, bind, Except.bind]

/-- `put_batch_unlogged` (cloud → local replication): panics inside a transaction; outside one exactly the given list is
    handed to the local store's `put_batch` (for **every** local store), whose result is the result; the log is not touched
    (the function returns no new `self`) -/
theorem C16_fn_cloud_put_batch_unlogged {L : Type} (cs : CloudKVVStore L)
    (ext : L → List (String × (Nat × List Nat)) → Rs.M Unit) (kvvs : List (String × (Nat × List Nat))) :
    cs.put_batch_unlogged ext kvvs
      = if cs.commit_log.isSome then .error .panic else ext cs.«local» kvvs := by
  unfold CloudKVVStore.put_batch_unlogged
  cases cs.commit_log <;> simp [Rs.panic, bind, Except.bind, pure, Except.pure]

/-- `clear_database`: only inside a transaction whose log is empty (`expect` / `assert!` panic otherwise); then the
    local store's `clear_database` decides -/
theorem C16_fn_cloud_clear_database {L : Type} (cs : CloudKVVStore L) (ext : L → Rs.M Unit) :
    cs.clear_database ext
      = (match cs.commit_log with
         | some [] => ext cs.«local»
         | _ => .error .panic) := by
  unfold CloudKVVStore.clear_database
  cases h : cs.commit_log with
  | none => simp [Rs.unwrap, Rs.panic, bind, Except.bind]
  | some lg => cases lg <;> simp [Rs.unwrap, Rs.assert, Rs.panic, bind, Except.bind, pure, Except.pure]

/-- `get_local`, `get_prefix`, `signer_id` are the local store's (the pending log is **not** consulted: the `TODO merge
    with commit log` of `get_prefix` is visible in the generated text) -/
theorem C16_fn_cloud_get_local {L : Type} (cs : CloudKVVStore L)
    (ext : L → String → Rs.M (Option (Nat × List Nat))) (key : String) :
    cs.get_local ext key = ext cs.«local» key := rfl

theorem C16_fn_cloud_get_prefix {L It : Type} (cs : CloudKVVStore L) (ext : L → String → Rs.M It) (p : String) :
    cs.get_prefix ext p = ext cs.«local» p := rfl

theorem C16_fn_cloud_signer_id {L S : Type} (cs : CloudKVVStore L) (ext : L → S) :
    cs.signer_id ext = ext cs.«local» := rfl

/-- a whole transaction through the generated code: `enter`, then `prepare` reports nothing for an untouched log
    (non-vacuity of `C16_fn_cloud_enter`: the hypotheses hold for the empty store) -/
example : (({ «local» := ⟨[]⟩, commit_log := none } : CloudKVVStore MemoryKVVStore).enter getR (fun _ => (7 : Nat)) (fun n => [n]))
    = .ok { «local» := ⟨[]⟩, commit_log := some [("_WRITER", (0, [7]))] } := by
  simp [CloudKVVStore.enter, CloudKVVStore.signer_id, getR, MemoryKVVStore.get, Rs.smapGet, Rs.smapInsert, Rs.assert,
    bind, Except.bind, pure, Except.pure]

/-! ## Round 9: the record format of the redb store through rs2lean (`Gen/FnRedbVv.lean`)

`decode_vv` / `encode_vv` were so far generated by the byte-assembly translator `x_hmac.py` (`Props/C16Gen.lean`); here
the same two functions come from `rs2lean.py` (bytes as `Nat`s below 256, as in `Gen/FnRedb.lean`, whose external
`ext_encode_vv` this instantiates), and are run against the real functions by the translator differential. -/

open VlsModel.Gen.FnRedbVv (RedbKVVStore)

theorem C16_fn_redb_encode_vv (v : Nat) (x : List Nat) (h : x.length + 8 ≤ Rs.USIZE_MAX) :
    RedbKVVStore.encode_vv v x = .ok (Rs.toBeBytes 8 v ++ x) := by
  simp [RedbKVVStore.encode_vv, Rs.uadd, h, bind, Except.bind, pure, Except.pure]

theorem C16_fn_redb_decode_vv (b : List Nat) :
    RedbKVVStore.decode_vv b
      = if 8 ≤ b.length then .ok (Rs.fromBeBytes (b.take 8), b.drop 8) else .error .panic := by
  unfold RedbKVVStore.decode_vv
  by_cases h : 8 ≤ b.length
  · have h8 : (List.take 8 b).length = 8 := by simp [List.length_take]; omega
    have hd : List.take (b.length - 8) (List.drop 8 b) = List.drop 8 b :=
      List.take_of_length_le (by simp [List.length_drop])
    simp [Rs.slice, Rs.arrayOfSlice, h, h8, hd, bind, Except.bind, pure, Except.pure]
  · simp [Rs.slice, h, bind, Except.bind, Rs.panic]

theorem toBeBytes8_length (v : Nat) : (Rs.toBeBytes 8 v).length = 8 := by simp [Rs.toBeBytes]

theorem fromBe_toBe8 (v : Nat) (hv : v ≤ U64MAX) : Rs.fromBeBytes (Rs.toBeBytes 8 v) = v := by
  have h' : v < 18446744073709551616 := by unfold U64MAX at hv; omega
  simp only [Rs.toBeBytes, Rs.fromBeBytes, List.range, List.range.loop, List.map_cons, List.map_nil, List.foldl_cons,
    List.foldl_nil, Nat.shiftRight_eq_div_pow]
  omega

/-- a record written by `encode_vv` reads back as exactly the version and value written (reads and the version cache
    rebuilt on reopen see what was written) -/
theorem C16_fn_redb_decode_encode (v : Nat) (x : List Nat) (hv : v ≤ U64MAX) :
    RedbKVVStore.decode_vv (Rs.toBeBytes 8 v ++ x) = .ok (v, x) := by
  rw [C16_fn_redb_decode_vv]
  have hl : 8 ≤ (Rs.toBeBytes 8 v ++ x).length := by simp [toBeBytes8_length]
  have ht : List.take 8 (Rs.toBeBytes 8 v ++ x) = Rs.toBeBytes 8 v := by
    rw [List.take_append_of_le_length (by simp [toBeBytes8_length])]
    exact List.take_of_length_le (by simp [toBeBytes8_length])
  have hd : List.drop 8 (Rs.toBeBytes 8 v ++ x) = x := by
    have := List.drop_append (l₁ := Rs.toBeBytes 8 v) (l₂ := x) (i := 0)
    simpa [toBeBytes8_length] using this
  simp only [hl, if_true, ht, hd, fromBe_toBe8 v hv]

/-- hence the comparison of encodings (`existing.value() != &vv` in `put_with_version` / `put_batch`) is the comparison
    of `(version, value)`: the hypothesis `EncInj` of the `C16_gen_redb_*` simulation theorems holds for the generated
    encoder -/
theorem C16_fn_redb_encode_inj (v v' : Nat) (x x' : List Nat) (hv : v ≤ U64MAX) (hv' : v' ≤ U64MAX)
    (h : Rs.toBeBytes 8 v ++ x = Rs.toBeBytes 8 v' ++ x') : v = v' ∧ x = x' := by
  have h1 := C16_fn_redb_decode_encode v x hv
  rw [h, C16_fn_redb_decode_encode v' x' hv'] at h1
  injection h1 with h2
  injection h2 with h3 h4
  exact ⟨h3.symm, h4.symm⟩

/-- `get_version` answers from the version **cache** (never from the table) -/
theorem C16_fn_redb_get_version (f : Key → String) (c : RedbKVVStore) (cache : AL Nat)
    (h : ∀ k, Rs.smapGet c.versions (f k) = lookup cache k) (k : Key) :
    c.get_version (f k) = .ok (lookup cache k) := by
  simp [RedbKVVStore.get_version, h k]

example : RedbKVVStore.decode_vv [0, 0, 0, 0, 0, 0, 1, 2, 9, 8] = .ok (258, [9, 8]) := by
  rw [C16_fn_redb_decode_vv]; simp [Rs.fromBeBytes]

/-! ## Round 9: the defaults of the `KVVStore` / `Persist` traits and `KVV::into_inner`

A store that does not override the transaction methods (`MemoryKVVStore`, `RedbKVVStore`) has no staging: `enter` and
`commit` succeed without effect and `prepare` reports **no** mutations — the cloud clauses of the statement are about
`CloudKVVStore` only. -/

theorem C16_fn_kvv_into_inner (e : String × (Nat × List Nat)) : Gen.FnKvvTrait.KVV.into_inner e = e := rfl

theorem C16_fn_kvvstore_default_enter {S : Type} (s : S) : Gen.FnKvvTrait.KVVStore.enter s = .ok () := rfl
theorem C16_fn_kvvstore_default_prepare {S : Type} (s : S) : Gen.FnKvvTrait.KVVStore.prepare s = [] := rfl
theorem C16_fn_kvvstore_default_commit {S : Type} (s : S) : Gen.FnKvvTrait.KVVStore.commit s = .ok () := rfl

theorem C16_fn_persist_default_enter {S : Type} (s : S) : Gen.FnPersistMod.Persist.enter s = .ok () := rfl
theorem C16_fn_persist_default_prepare {S : Type} (s : S) : Gen.FnPersistMod.Persist.prepare s = [] := rfl
theorem C16_fn_persist_default_commit {S : Type} (s : S) : Gen.FnPersistMod.Persist.commit s = .ok () := rfl

/-! ### `KVVPersister` (the adapter `Persist for KVVPersister<S, F>`): the transaction methods are the store's

`put_batch_unlogged` (cloud → local replication) hands the store exactly the received mutation list, entry by entry, in
order (`Mutations` → `Vec<KVV>` is the identity on the records); `enter` / `prepare` / `commit` / `clear_database` /
`signer_id` are the store's own.  The store `S` is opaque: its methods are the explicit parameters. -/

theorem C16_fn_kvvpersister_put_batch_unlogged {S F : Type} (ext : S → List (String × (Nat × List Nat)) → Rs.M Unit)
    (self : S × F) (muts : List (String × (Nat × List Nat))) :
    Gen.FnKvvTrait.KVVPersister.put_batch_unlogged ext self muts = ext self.1 muts := by
  simp only [Gen.FnKvvTrait.KVVPersister.put_batch_unlogged]
  congr 1
  induction muts with
  | nil => rfl
  | cons r rs ih => obtain ⟨k, v, x⟩ := r; simp [List.map_cons] at ih ⊢

theorem C16_fn_kvvpersister_enter {S F : Type} (ext : S → Rs.M Unit) (self : S × F) :
    Gen.FnKvvTrait.KVVPersister.enter ext self = ext self.1 := rfl
theorem C16_fn_kvvpersister_prepare {S F : Type} (ext : S → List (String × (Nat × List Nat))) (self : S × F) :
    Gen.FnKvvTrait.KVVPersister.prepare ext self = ext self.1 := rfl
theorem C16_fn_kvvpersister_commit {S F : Type} (ext : S → Rs.M Unit) (self : S × F) :
    Gen.FnKvvTrait.KVVPersister.commit ext self = ext self.1 := rfl
theorem C16_fn_kvvpersister_clear_database {S F : Type} (ext : S → Rs.M Unit) (self : S × F) :
    Gen.FnKvvTrait.KVVPersister.clear_database ext self = ext self.1 := rfl
theorem C16_fn_kvvpersister_signer_id {S F Sid : Type} (ext : S → Sid) (self : S × F) :
    Gen.FnKvvTrait.KVVPersister.signer_id ext self = ext self.1 := rfl

/-- `MemoryKVVStore::clear_database`: never fails and leaves the empty map — every key, whatever its version was, reads
    as absent afterwards (the only operation of the store that lowers versions; outside the request alphabet of the
    property, like `reset_versions`) -/
theorem C16_fn_mem_clear_database (s : Gen.FnKvvMem.MemoryKVVStore) :
    s.clear_database = .ok { s with data := [] } ∧ ∀ k, Rs.smapGet ({ s with data := [] } : Gen.FnKvvMem.MemoryKVVStore).data k = none := by
  exact ⟨rfl, fun k => rfl⟩

/-- `is_in_sync`: true exactly when the local store's last-writer record can be read and equals the given one (`g` = the
    local store's `get` with `Err` read as `none`: declared rule `b1617_in_sync_match`) -/
theorem C16_fn_cloud_is_in_sync {L : Type} (cs : CloudKVVStore L) (g : L → String → Option (Option (Nat × List Nat)))
    (vv : Option (Nat × List Nat)) :
    cs.is_in_sync g vv = (match g cs.«local» "_WRITER" with | some r => vv == r | none => false) := by
  unfold CloudKVVStore.is_in_sync
  cases g cs.«local» "_WRITER" <;> rfl

/-- `reset_versions` (the one operation that lowers versions, for initialising a replica): refused with a panic as soon as
    the local store carries a last-writer record — i.e. once it is linked to cloud storage no version is ever lowered
    through the cloud store — and when the record cannot be read; otherwise the local store's `reset_versions` decides -/
theorem C16_fn_cloud_reset_versions {L : Type} (cs : CloudKVVStore L) (g : L → String → Option (Option (Nat × List Nat)))
    (ext : L → Rs.M Unit) :
    cs.reset_versions g ext = (match g cs.«local» "_WRITER" with | some none => ext cs.«local» | _ => .error .panic) := by
  unfold CloudKVVStore.reset_versions
  cases h : g cs.«local» "_WRITER" with
  | none => simp [Rs.unwrap, Rs.panic, bind, Except.bind]
  | some r => cases r <;> simp [Rs.unwrap, Rs.panic, bind, Except.bind, pure, Except.pure]

/-- `MemoryKVVStore::reset_versions`: never fails; every key keeps its value and reads at version 0 afterwards, no key
    appears or disappears (for the sorted map a `BTreeMap` is; the `iter_mut` loop is read as rebuilding the map entry
    by entry: declared rule `b1617_reset_loop`, run against the real store by the translator differential) -/
theorem C16_fn_mem_reset_versions (s : Gen.FnKvvMem.MemoryKVVStore) (hs : Rs.SSorted s.data) :
    ∃ s', s.reset_versions = .ok s' ∧ ∀ k, Rs.smapGet s'.data k = (Rs.smapGet s.data k).map (fun r => (0, r.2)) := by
  refine ⟨_, rfl, ?_⟩
  intro k
  have h := Rs.smapGet_insertAll_map_sorted (fun (r : Nat × List Nat) => ((0 : Nat), r.2)) s.data [] k hs
  have hf : (fun (fresh : List (String × (Nat × List Nat))) (x : String × (Nat × List Nat)) =>
        match x with
        | (k, (_ver, value)) => (let fresh := (Rs.smapInsert fresh k (0, value)); fresh))
      = (fun m e => Rs.smapInsert m e.1 ((fun (r : Nat × List Nat) => ((0 : Nat), r.2)) e.2)) := by
    funext m ⟨a, b, c⟩; rfl
  simp only [hf]
  rw [h]
  cases Rs.smapGet s.data k <;> simp [Rs.smapGet]


/-! ## Round 10 (b7): the redb store's `put` / `put_with_version` / `put_batch` / `get` / `delete` / `clear_database`
through `x_fn` (`Gen/FnRedbKv.lean`, target `translate/fn_targets/RedbKv.b7.json`)

The redb transaction idioms are normalised by the declared rules `b7_*` (write transaction = private working copy of the
committed table, commit = the copy becomes the table, abort/drop = discarded) and the **table operations are declared
externals** (`Database.table_get / table_insert / table_clear`, `Database` an opaque type): the generated definitions are
parametric in the table implementation.  Theorems below either hold for *every* implementation (`…_lower_refused`,
`…_higher_written`, `…_get`, `…_delete`, `…_clear_database`) or instantiate the table with the sorted map and show the
result to be the `x_redb.py` definition (`Gen/FnRedb.lean`) that `Props/C16Gen.lean` ties to the hand-written model
`KVV.Redb` (`…_put_with_version`, `…_put`, `…_put_batch`, and `…_model` down to `Redb.putV` / `Redb.batch`).  Here
`encode_vv` is the generated function of the same unit (not an external), so `EncInj` is discharged. -/

open VlsModel.Props.C16Gen (SimR AgreeR EncInj toCodeR)

abbrev KvTbl := List (String × List Nat)
abbrev KvStore := Gen.FnRedbKv.RedbKVVStore KvTbl
abbrev GStore := Gen.FnRedb.RedbKVVStore

/-- the record encoder of the source (`encode_vv`, generated in the same unit) as a pure function -/
def kvEnc (v : Nat) (x : List Nat) : List Nat := Rs.toBeBytes 8 v ++ x

/-- forget nothing: the x_fn structure over the table-as-map *is* the x_redb structure -/
def kvToG (c : KvStore) : GStore := ⟨c.db, c.versions⟩

theorem kv_encode_vv (v : Nat) (x : List Nat) (h : x.length + 8 ≤ Rs.USIZE_MAX) :
    Gen.FnRedbKv.RedbKVVStore.encode_vv v x = .ok (kvEnc v x) := by
  simp [Gen.FnRedbKv.RedbKVVStore.encode_vv, kvEnc, Rs.uadd, h, bind, Except.bind, pure, Except.pure]

theorem loopM_congr {α σ ρ : Type} (l : List α) (f g : σ → α → Rs.M (Rs.Flow σ ρ))
    (h : ∀ x ∈ l, ∀ s, f s x = g s x) : ∀ s, Rs.loopM l s f = Rs.loopM l s g := by
  induction l with
  | nil => intro s; rfl
  | cons x xs ih =>
    intro s
    have ih' := ih (fun y hy => h y (List.mem_cons_of_mem _ hy))
    simp only [Rs.loopM, h x List.mem_cons_self s]
    cases g s x with
    | error e => rfl
    | ok fl => cases fl <;> simp [bind, Except.bind, ih']

theorem loopB_congr {α σ : Type} (l : List α) (f g : σ → α → Rs.M (Rs.Flow σ Empty))
    (h : ∀ x ∈ l, ∀ s, f s x = g s x) (s : σ) : Rs.loopB l s f = Rs.loopB l s g := by
  unfold Rs.loopB; rw [loopM_congr l f g h s]

/-- **`RedbKVVStore::put_with_version`** (x_fn, the table operations declared externals) instantiated with the
    table-as-sorted-map is the x_redb definition that `C16_gen_redb_put_with_version` ties to the model -/
theorem C16_fn_redbkv_put_with_version (c : KvStore) (k : String) (v : Nat) (x : List Nat)
    (h : x.length + 8 ≤ Rs.USIZE_MAX) :
    (Gen.FnRedbKv.RedbKVVStore.put_with_version Rs.smapGet Rs.smapInsert c k v x).map kvToG
      = Gen.FnRedb.RedbKVVStore.put_with_version kvEnc (kvToG c) k v x := by
  unfold Gen.FnRedbKv.RedbKVVStore.put_with_version Gen.FnRedb.RedbKVVStore.put_with_version
  rw [kv_encode_vv v x h]
  simp only [kvToG, bind, Except.bind, pure, Except.pure]
  cases hv : Rs.smapGet c.versions k with
  | none => rfl
  | some w =>
    simp only []
    split
    · rfl
    · split
      · cases hg : Rs.smapGet c.db k with
        | none => rfl
        | some e =>
          simp only [Rs.unwrap, bind, Except.bind, pure, Except.pure]
          split <;> rfl
      · rfl

/-- **`RedbKVVStore::put`**: the next version comes from the cache, then `put_with_version` (same bridge) -/
theorem C16_fn_redbkv_put (c : KvStore) (k : String) (x : List Nat) (h : x.length + 8 ≤ Rs.USIZE_MAX) :
    (Gen.FnRedbKv.RedbKVVStore.put Rs.smapGet Rs.smapInsert c k x).map kvToG
      = Gen.FnRedb.RedbKVVStore.put kvEnc (kvToG c) k x := by
  unfold Gen.FnRedbKv.RedbKVVStore.put Gen.FnRedb.RedbKVVStore.put
  have hv : (kvToG c).versions = c.versions := rfl
  rw [hv]
  cases Rs.smapGet c.versions k with
  | none => exact C16_fn_redbkv_put_with_version c k _ x h
  | some w =>
    cases hu : Rs.uadd Rs.U64_MAX w 1 with
    | error e => simp [hu, bind, Except.bind, Except.map]
    | ok n =>
      simp only [hu, bind, Except.bind, pure, Except.pure]
      exact C16_fn_redbkv_put_with_version c k _ x h

/-- **`RedbKVVStore::delete`** is `put(key, empty)` (a tombstone with the next version), for every table implementation -/
theorem C16_fn_redbkv_delete {D : Type} (tg : D → String → Option (List Nat)) (ti : D → String → List Nat → D)
    (c : Gen.FnRedbKv.RedbKVVStore D) (k : String) :
    Gen.FnRedbKv.RedbKVVStore.delete tg ti c k = Gen.FnRedbKv.RedbKVVStore.put tg ti c k [] := rfl

theorem kv_decode_vv (b : List Nat) :
    Gen.FnRedbKv.RedbKVVStore.decode_vv b
      = if 8 ≤ b.length then .ok (Rs.fromBeBytes (b.take 8), b.drop 8) else .error .panic := by
  unfold Gen.FnRedbKv.RedbKVVStore.decode_vv
  by_cases h : 8 ≤ b.length
  · have h8 : (List.take 8 b).length = 8 := by simp [List.length_take]; omega
    have hd : List.take (b.length - 8) (List.drop 8 b) = List.drop 8 b :=
      List.take_of_length_le (by simp [List.length_drop])
    simp [Rs.slice, Rs.arrayOfSlice, h, h8, hd, bind, Except.bind, pure, Except.pure]
  · simp [Rs.slice, h, bind, Except.bind, Rs.panic]

/-- **`RedbKVVStore::get`**, for every table implementation: the answer is the decoding of exactly the record the
    table holds under this key (absent → `None`; a record shorter than 8 bytes panics); the version cache is not
    consulted and nothing is written -/
theorem C16_fn_redbkv_get {D : Type} (tg : D → String → Option (List Nat)) (c : Gen.FnRedbKv.RedbKVVStore D) (k : String) :
    Gen.FnRedbKv.RedbKVVStore.get tg c k
      = match tg c.db k with
        | none => .ok none
        | some b => if 8 ≤ b.length then .ok (some (Rs.fromBeBytes (b.take 8), b.drop 8)) else .error .panic := by
  unfold Gen.FnRedbKv.RedbKVVStore.get
  cases h : tg c.db k with
  | none => simp [h, pure, Except.pure]
  | some b =>
    by_cases h8 : 8 ≤ b.length <;> simp [h, kv_decode_vv, h8, bind, Except.bind, pure, Except.pure]

/-- **`RedbKVVStore::clear_database`**, for every table implementation: the table is replaced by the cleared one
    and the version cache is left as it is (a key written before keeps its version floor) -/
theorem C16_fn_redbkv_clear_database {D : Type} (tc : D → D) (c : Gen.FnRedbKv.RedbKVVStore D) :
    Gen.FnRedbKv.RedbKVVStore.clear_database tc c = .ok { c with db := tc c.db } := rfl

theorem foldl_toG (sv : List (String × Nat)) (c : KvStore) :
    kvToG (List.foldl (fun (self : KvStore) (x : String × Nat) =>
        { self with versions := Rs.smapInsert self.versions x.1 x.2 }) c sv)
      = List.foldl (fun (self : GStore) (x : String × Nat) =>
        { self with versions := Rs.smapInsert self.versions x.1 x.2 }) (kvToG c) sv := by
  induction sv generalizing c with
  | nil => rfl
  | cons a t ih => simp only [List.foldl_cons]; rw [ih]; rfl

/-- the body of the loop of the x_fn `put_batch` (table operations = the sorted map) -/
def bodyK (self : KvStore) :
    C16Gen.AccC → String × (Nat × List Nat) → Rs.M (Rs.Flow C16Gen.AccC Empty) :=
  fun (found_version_mismatch, tx, staged_versions) kvv => do
        let (key, (version, value)) := (kvv.1, (kvv.2.1, kvv.2.2))
        let vv ← Gen.FnRedbKv.RedbKVVStore.encode_vv version value
        match (Option.or (Rs.smapGet staged_versions key) (Rs.smapGet self.versions key)) with
        | some v =>
            if (decide (version < v)) then
              let found_version_mismatch := true
              let tx := (Rs.smapInsert tx key vv)
              let staged_versions := (Rs.smapInsert staged_versions key version)
              pure (.next (found_version_mismatch, tx, staged_versions))
            else
              if (version == v) then
                let existing ← Rs.unwrap (Rs.smapGet tx key)
                let found_version_mismatch := (if (existing != vv) then (let found_version_mismatch := true; found_version_mismatch) else found_version_mismatch)
                pure (.next (found_version_mismatch, tx, staged_versions))
              else
                let tx := (Rs.smapInsert tx key vv)
                let staged_versions := (Rs.smapInsert staged_versions key version)
                pure (.next (found_version_mismatch, tx, staged_versions))
        | _ =>
            let tx := (Rs.smapInsert tx key vv)
            let staged_versions := (Rs.smapInsert staged_versions key version)
            pure (.next (found_version_mismatch, tx, staged_versions))

theorem bodyK_eq (c : KvStore) (e : String × (Nat × List Nat)) (h : e.2.2.length + 8 ≤ Rs.USIZE_MAX) (s : C16Gen.AccC) :
    bodyK c s e = C16Gen.batchBody kvEnc (kvToG c) s e := by
  obtain ⟨m, tx, sv⟩ := s
  simp only [bodyK, C16Gen.batchBody, kv_encode_vv e.2.1 e.2.2 h, bind, Except.bind]
  rfl

/-- **`RedbKVVStore::put_batch`** (x_fn) on the table-as-sorted-map is the x_redb definition that
    `C16_gen_redb_put_batch` ties to the model (`Redb.batch`: all or nothing, staged versions, the cache written
    only after the commit) -/
theorem C16_fn_redbkv_put_batch (c : KvStore) (es : List (String × (Nat × List Nat)))
    (h : ∀ e ∈ es, e.2.2.length + 8 ≤ Rs.USIZE_MAX) :
    (Gen.FnRedbKv.RedbKVVStore.put_batch Rs.smapInsert Rs.smapGet c es).map kvToG
      = Gen.FnRedb.RedbKVVStore.put_batch kvEnc (kvToG c) es := by
  have hK : Gen.FnRedbKv.RedbKVVStore.put_batch Rs.smapInsert Rs.smapGet c es = (do
      let r ← Rs.loopB es (false, c.db, []) (bodyK c)
      if r.1 then Rs.fail "Error::VersionMismatch"
      else pure (List.foldl (fun (self : KvStore) (x : String × Nat) =>
        { self with versions := Rs.smapInsert self.versions x.1 x.2 }) { c with db := r.2.1 } r.2.2)) := rfl
  have hG : Gen.FnRedb.RedbKVVStore.put_batch kvEnc (kvToG c) es = (do
      let r ← Rs.loopB es (false, c.db, []) (C16Gen.batchBody kvEnc (kvToG c))
      if r.1 then Rs.fail "Error::VersionMismatch"
      else pure (List.foldl (fun (self : GStore) (x : String × Nat) =>
        { self with versions := Rs.smapInsert self.versions x.1 x.2 }) { (kvToG c) with db := r.2.1 } r.2.2)) := rfl
  rw [hK, hG, loopB_congr es (bodyK c) (C16Gen.batchBody kvEnc (kvToG c)) (fun e he s => bodyK_eq c e (h e he) s)]
  cases Rs.loopB es (false, c.db, []) (C16Gen.batchBody kvEnc (kvToG c)) with
  | error e => rfl
  | ok r =>
    obtain ⟨m, tx, sv⟩ := r
    cases m
    · simp only [bind, Except.bind, Except.map, pure, Except.pure, Bool.false_eq_true, if_false]
      congr 1
      exact foldl_toG sv _
    · rfl

/-! ### down to the hand-written model `KVV.Redb` (composition with `Props/C16Gen.lean`) -/

theorem encInj_enc : EncInj kvEnc := fun v x v' x' hv hv' h => C16_fn_redb_encode_inj v v' x x' hv hv' h

/-- the x_fn `put_with_version` simulates the model's `Redb.putV`: lower version → `mismatch`, same version → the
    content must be equal and nothing is written, higher / new → table and cache written -/
theorem C16_fn_redbkv_put_with_version_model (f : Key → String) (hf : ∀ a b, f a = f b → a = b)
    (c : KvStore) (s : Redb) (h : SimR f kvEnc (kvToG c) s) (k : Key) (v : Nat) (x : Val) (hv : v ≤ U64MAX)
    (hx : x.length + 8 ≤ Rs.USIZE_MAX) :
    AgreeR f kvEnc ((Gen.FnRedbKv.RedbKVVStore.put_with_version Rs.smapGet Rs.smapInsert c (f k) v x).map kvToG)
      (Redb.putV s k v x) := by
  rw [C16_fn_redbkv_put_with_version c (f k) v x hx]
  exact C16Gen.C16_gen_redb_put_with_version f hf kvEnc encInj_enc (kvToG c) s h k v x hv

/-- the x_fn `put_batch` simulates the model's `Redb.batch` (all or nothing) -/
theorem C16_fn_redbkv_put_batch_model (f : Key → String) (hf : ∀ a b, f a = f b → a = b)
    (c : KvStore) (s : Redb) (h : SimR f kvEnc (kvToG c) s) (es : List (Key × Rec)) (hv : ∀ e ∈ es, e.2.1 ≤ U64MAX)
    (hx : ∀ e ∈ toCodeR f es, e.2.2.length + 8 ≤ Rs.USIZE_MAX) :
    AgreeR f kvEnc ((Gen.FnRedbKv.RedbKVVStore.put_batch Rs.smapInsert Rs.smapGet c (toCodeR f es)).map kvToG)
      (Redb.batch s es) := by
  rw [C16_fn_redbkv_put_batch c (toCodeR f es) hx]
  exact C16Gen.C16_gen_redb_put_batch f hf kvEnc encInj_enc (kvToG c) s h es hv

/-- for EVERY implementation of the table operations: a version below the cached one is refused before the table is
    touched (no external is consulted) -/
theorem C16_fn_redbkv_lower_refused {D : Type} (tg : D → String → Option (List Nat)) (ti : D → String → List Nat → D)
    (c : Gen.FnRedbKv.RedbKVVStore D) (k : String) (v w : Nat) (x : List Nat)
    (hc : Rs.smapGet c.versions k = some w) (hlt : v < w) (hx : x.length + 8 ≤ Rs.USIZE_MAX) :
    Gen.FnRedbKv.RedbKVVStore.put_with_version tg ti c k v x = .error (.err "Error::VersionMismatch") := by
  unfold Gen.FnRedbKv.RedbKVVStore.put_with_version
  rw [kv_encode_vv v x hx]
  simp [bind, Except.bind, hc, hlt, Rs.fail]

/-- for EVERY implementation of the table operations: an accepted write (new key or higher version) inserts exactly
    `encode_vv(version, value)` under the key and records the version in the cache -/
theorem C16_fn_redbkv_higher_written {D : Type} (tg : D → String → Option (List Nat)) (ti : D → String → List Nat → D)
    (c : Gen.FnRedbKv.RedbKVVStore D) (k : String) (v : Nat) (x : List Nat)
    (hc : ∀ w, Rs.smapGet c.versions k = some w → w < v) (hx : x.length + 8 ≤ Rs.USIZE_MAX) :
    Gen.FnRedbKv.RedbKVVStore.put_with_version tg ti c k v x
      = .ok { db := ti c.db k (kvEnc v x), versions := Rs.smapInsert c.versions k v } := by
  unfold Gen.FnRedbKv.RedbKVVStore.put_with_version
  rw [kv_encode_vv v x hx]
  cases hg : Rs.smapGet c.versions k with
  | none => simp [bind, Except.bind, pure, Except.pure]
  | some w =>
    have hw := hc w hg
    have h1 : ¬ v < w := by omega
    have h2 : (v == w) = false := by simp; omega
    simp [bind, Except.bind, pure, Except.pure, h1, h2]

example : Gen.FnRedbKv.RedbKVVStore.put_with_version (Database := KvTbl) Rs.smapGet Rs.smapInsert ⟨[], [("a", 3)]⟩ "a" 2 [1]
    = .error (.err "Error::VersionMismatch") :=
  C16_fn_redbkv_lower_refused _ _ _ "a" 2 3 [1] (by simp [Rs.smapGet]) (by omega) (by simp [Rs.USIZE_MAX])

example : Gen.FnRedbKv.RedbKVVStore.get (Database := KvTbl) Rs.smapGet ⟨[("a", [0, 0, 0, 0, 0, 0, 1, 2, 9, 8])], []⟩ "a"
    = .ok (some (258, [9, 8])) := by
  rw [C16_fn_redbkv_get]; simp [Rs.smapGet, Rs.fromBeBytes]

/-- one step of the loop of `reset_versions`: the record of a cached key is read (absent → panic), decoded
    (shorter than 8 bytes → panic) and written back with version 0 and the same value -/
def kvResetStep {D : Type} (tg : D → String → Option (List Nat)) (ti : D → String → List Nat → D)
    (tx : D) (key : String) : Rs.M D := do
  let vv ← Rs.unwrap (tg tx key)
  let t ← Gen.FnRedbKv.RedbKVVStore.decode_vv vv
  let vv ← Gen.FnRedbKv.RedbKVVStore.encode_vv 0 t.2
  pure (ti tx key vv)

/-- the version cache after `reset_versions`: the same keys, every version 0 -/
def kvZeroed (vs : List (String × Nat)) : List (String × Nat) :=
  List.foldl (fun fresh k => Rs.smapInsert fresh k 0) [] (vs.map (fun kv => kv.1))

/-- **`RedbKVVStore::reset_versions`**, for every table implementation: exactly the cached keys are rewritten, in key
    order, each with version 0 and its old value, inside one write transaction (a panic on the way publishes nothing:
    the result is the error, no store), and the cache becomes `kvZeroed` -/
theorem C16_fn_redbkv_reset_versions {D : Type} (tg : D → String → Option (List Nat)) (ti : D → String → List Nat → D)
    (c : Gen.FnRedbKv.RedbKVVStore D) :
    Gen.FnRedbKv.RedbKVVStore.reset_versions tg ti c
      = (List.foldlM (kvResetStep tg ti) c.db (c.versions.map (fun kv => kv.1))).map
          (fun tx => { db := tx, versions := kvZeroed c.versions }) := by
  have h : Gen.FnRedbKv.RedbKVVStore.reset_versions tg ti c = (do
      let tx ← List.foldlM (kvResetStep tg ti) c.db (c.versions.map (fun kv => kv.1))
      pure { db := tx, versions := kvZeroed c.versions }) := rfl
  rw [h]
  cases List.foldlM (kvResetStep tg ti) c.db (c.versions.map (fun kv => kv.1)) with
  | error e => rfl
  | ok tx => rfl

/-- every version in the cache after `reset_versions` is 0 -/
theorem kvZeroed_zero (vs : List (String × Nat)) (k : String) (v : Nat)
    (h : Rs.smapGet (kvZeroed vs) k = some v) : v = 0 := by
  unfold kvZeroed at h
  generalize hks : vs.map (fun kv => kv.1) = ks at h
  have key : ∀ (ks : List String) (m : List (String × Nat)), (∀ k v, Rs.smapGet m k = some v → v = 0) →
      ∀ k v, Rs.smapGet (List.foldl (fun fresh k => Rs.smapInsert fresh k 0) m ks) k = some v → v = 0 := by
    intro ks
    induction ks with
    | nil => intro m hm; simpa using hm
    | cons a t ih =>
      intro m hm
      simp only [List.foldl_cons]
      apply ih
      intro k v hk
      rw [Rs.smapGet_insert] at hk
      split at hk
      · injection hk with hk; exact hk.symm
      · exact hm k v hk
  exact key ks [] (by intro k v hk; simp [Rs.smapGet] at hk) k v h

/-! ### Round 10 (b7): `get_prefix` of both stores (`BTreeMap::range(p..)` / `table.range(p..)` as declared externals)

For **every** implementation `rf` of "the entries from `p` on, in key order": the answer is the longest initial run of
`rf data p` whose keys start with `p` (the loop `break`s at the first other key), for redb with every record decoded
(a record shorter than 8 bytes panics).  With `rf` = the entries with key ≥ `p` of a sorted table this is the model's
`dump` (all entries whose key starts with `p`: they are contiguous in key order) — that last step is validated by the
harness dumps, not proved here. -/

theorem loopB_nil0 {α σ : Type} (s : σ) (f : σ → α → Rs.M (Rs.Flow σ Empty)) : Rs.loopB [] s f = .ok s := rfl

/-- the loop body of the generated `MemoryKVVStore::get_prefix` -/
def kvPfxBodyMem (p : String) (result : List (String × (Nat × List Nat))) (x : String × (Nat × List Nat)) :
    Rs.M (Rs.Flow (List (String × (Nat × List Nat))) Empty) :=
  match x with
  | (k, (ver, value)) =>
    if (String.isPrefixOf p k) then pure (.next (result ++ [(k, (ver, value))])) else pure (.brk result)

theorem kvPfxLoopMem (p : String) : ∀ (l acc : List (String × (Nat × List Nat))),
    Rs.loopB l acc (kvPfxBodyMem p) = .ok (acc ++ l.takeWhile (fun e => String.isPrefixOf p e.1)) := by
  intro l
  induction l with
  | nil => intro acc; simp [loopB_nil0]
  | cons x xs ih =>
    intro acc
    obtain ⟨k, ver, value⟩ := x
    have hb : kvPfxBodyMem p acc (k, ver, value)
        = if (String.isPrefixOf p k) then pure (.next (acc ++ [(k, (ver, value))])) else pure (.brk acc) := rfl
    rw [C16Gen.loopB_cons, hb]
    by_cases h : String.isPrefixOf p k = true
    · simp only [h, if_true, bind, Except.bind, pure, Except.pure]
      rw [ih]
      simp [List.takeWhile, h]
    · simp [h, bind, Except.bind, pure, Except.pure, List.takeWhile]

/-- **`MemoryKVVStore::get_prefix`** -/
theorem C16_fn_mem_get_prefix (rf : List (String × (Nat × List Nat)) → String → List (String × (Nat × List Nat)))
    (s : Gen.FnKvvMemPfx.MemoryKVVStore) (p : String) :
    Gen.FnKvvMemPfx.MemoryKVVStore.get_prefix rf s p
      = .ok ((rf s.data p).takeWhile (fun e => String.isPrefixOf p e.1)) := by
  have h0 : Gen.FnKvvMemPfx.MemoryKVVStore.get_prefix rf s p
      = (do let r ← Rs.loopB (rf s.data p) [] (kvPfxBodyMem p); pure r) := rfl
  rw [h0, kvPfxLoopMem p (rf s.data p) []]
  rfl

/-- decoding of one table entry as `get_prefix` does it -/
def kvDecodeEntry (e : String × List Nat) : Rs.M (String × (Nat × List Nat)) := do
  let t ← Gen.FnRedbKv.RedbKVVStore.decode_vv e.2
  pure (e.1, (t.1, t.2))

/-- the loop body of the generated `RedbKVVStore::get_prefix` -/
def kvPfxBodyRedb (p : String) (result : List (String × (Nat × List Nat))) (item : String × List Nat) :
    Rs.M (Rs.Flow (List (String × (Nat × List Nat))) Empty) := do
  let (key, vv) := item
  if (String.isPrefixOf p key) then
    let t_1 ← Gen.FnRedbKv.RedbKVVStore.decode_vv vv
    let (version, value) := t_1
    let result := (result ++ [(key, (version, value))])
    pure (.next result)
  else
    pure (.brk result)

theorem kvPfxLoopRedb (p : String) : ∀ (l : List (String × List Nat)) (acc : List (String × (Nat × List Nat))),
    Rs.loopB l acc (kvPfxBodyRedb p)
      = (do let r ← (l.takeWhile (fun e => String.isPrefixOf p e.1)).mapM kvDecodeEntry; pure (acc ++ r)) := by
  intro l
  induction l with
  | nil => intro acc; simp [loopB_nil0, pure, Except.pure, bind, Except.bind]
  | cons x xs ih =>
    intro acc
    obtain ⟨k, vv⟩ := x
    have hb : kvPfxBodyRedb p acc (k, vv)
        = if (String.isPrefixOf p k) then
            (Gen.FnRedbKv.RedbKVVStore.decode_vv vv >>= fun t => pure (.next (acc ++ [(k, (t.1, t.2))])))
          else pure (.brk acc) := rfl
    rw [C16Gen.loopB_cons, hb]
    by_cases h : String.isPrefixOf p k = true
    · have htw : List.takeWhile (fun e : String × List Nat => String.isPrefixOf p e.1) ((k, vv) :: xs)
          = (k, vv) :: List.takeWhile (fun e => String.isPrefixOf p e.1) xs := by simp [List.takeWhile, h]
      rw [htw, List.mapM_cons]
      cases hd : Gen.FnRedbKv.RedbKVVStore.decode_vv vv with
      | error e => simp [h, hd, kvDecodeEntry, bind, Except.bind]
      | ok t =>
        simp only [h, hd, if_true, bind, Except.bind, pure, Except.pure, kvDecodeEntry]
        rw [ih]
        simp only [bind, Except.bind, pure, Except.pure]
        cases List.mapM kvDecodeEntry (List.takeWhile (fun e => String.isPrefixOf p e.1) xs) with
        | error e => rfl
        | ok r => simp
    · simp [h, bind, Except.bind, pure, Except.pure, List.takeWhile]

/-- **`RedbKVVStore::get_prefix`**, for every table implementation -/
theorem C16_fn_redbkv_get_prefix {D : Type} (rf : D → String → List (String × List Nat))
    (c : Gen.FnRedbKv.RedbKVVStore D) (p : String) :
    Gen.FnRedbKv.RedbKVVStore.get_prefix rf c p
      = ((rf c.db p).takeWhile (fun e => String.isPrefixOf p e.1)).mapM kvDecodeEntry := by
  have h0 : Gen.FnRedbKv.RedbKVVStore.get_prefix rf c p
      = (do let r ← Rs.loopB (rf c.db p) [] (kvPfxBodyRedb p); pure r) := rfl
  rw [h0, kvPfxLoopRedb p (rf c.db p) []]
  cases List.mapM kvDecodeEntry (List.takeWhile (fun e => String.isPrefixOf p e.1) (rf c.db p)) with
  | error e => rfl
  | ok r => simp [bind, Except.bind, pure, Except.pure]

example (p k k' : String) (h : String.isPrefixOf p k = true) (h' : String.isPrefixOf p k' = false) :
    Gen.FnKvvMemPfx.MemoryKVVStore.get_prefix (fun d _ => d) ⟨[(k, (1, [7])), (k', (0, [])), (k, (2, [9]))]⟩ p
      = .ok [(k, (1, [7]))] := by
  rw [C16_fn_mem_get_prefix]; simp [List.takeWhile, h, h']

/-! ### Round 10 (b7): constructors / identity accessors (`Gen/FnKvvMemNew.lean`, `Gen/FnRedbSid.lean`)

A fresh memory store is empty — every key reads `None` (`get` of the same unit), there is no version floor — and
keeps the signer id it was given; `signer_id()` of both stores is the stored field. -/
theorem C16_fn_mem_new {I : Type} (sid : I) :
    Gen.FnKvvMemNew.MemoryKVVStore.new sid = { data := [], signer_id := sid } := rfl
theorem C16_fn_mem_new_empty {I : Type} (sid : I) (k : String) :
    Rs.smapGet (Gen.FnKvvMemNew.MemoryKVVStore.new sid).data k = none := rfl
theorem C16_fn_mem_signer_id {I : Type} (s : Gen.FnKvvMemNew.MemoryKVVStore I) :
    s.signer_id_fn = s.signer_id := rfl
theorem C16_fn_mem_new_signer_id {I : Type} (sid : I) :
    (Gen.FnKvvMemNew.MemoryKVVStore.new sid).signer_id_fn = sid := rfl
theorem C16_fn_redb_signer_id {I : Type} (s : Gen.FnRedbSid.RedbKVVStore I) :
    s.signer_id_fn = s.signer_id := rfl

end VlsModel.Props.C16Fn
