import VlsModel.Lemmas.KVV
import VlsModel.Gen.FnKvv
import VlsModel.Gen.FnCloud
import VlsModel.Lemmas.FnGen
/-
C16 — the in-memory store of the model (`KVV.Mem.putV`, `KVV.Mem.put`, `KVV.nextVer`) tied to the bodies of
`MemoryKVVStore::{put_with_version, get_version, put, get}` that `translate/rs2lean.py` regenerates from
`vls-persist/src/kvv/memory.rs` (`Gen/FnKvv.lean`).

The model indexes entries by abstract keys (`Nat`), the code by strings, so the tie is a simulation rather than an
equality of terms: for any injective naming `f` of the model's keys, `Sim f` (every model key looks up the same
record in both maps) is preserved by every operation, and the outcomes (`ok` / `Err(VersionMismatch)` / overflow of
`v + 1`) coincide.  `self.data.lock().unwrap()` is translated as the identity on the protected map (trusted).
-/
namespace VlsModel.Props.C16Fn
open VlsModel VlsModel.KVV
open VlsModel.Gen.FnKvv (MemoryKVVStore)

/-- the code's map agrees with the model's table on every key the model knows -/
def Sim (f : Key → String) (s : MemoryKVVStore) (t : Tab) : Prop :=
  ∀ k, Rs.smapGet s.data (f k) = lookup t k

/-- outcome of a mutating call of the code against the model's `Tab × Res` -/
def Agree (f : Key → String) (r : Rs.M MemoryKVVStore) (m : Tab × Res) : Prop :=
  match r, m.2 with
  | .ok s', .ok => Sim f s' m.1
  | .error (.err tag), .mismatch => tag = "Error::VersionMismatch"
  | .error .overflow, .panic => True
  | _, _ => False

theorem C16_fn_get (f : Key → String) (s : MemoryKVVStore) (t : Tab) (h : Sim f s t) (k : Key) :
    s.get (f k) = .ok (lookup t k) := by
  simp [MemoryKVVStore.get, h k]

theorem C16_fn_get_version (f : Key → String) (s : MemoryKVVStore) (t : Tab) (h : Sim f s t) (k : Key) :
    s.get_version (f k) = .ok ((lookup t k).map (·.1)) := by
  simp only [MemoryKVVStore.get_version, h k, Rs.pure_eq]

/-- `put_with_version`: same decision (not lower; at the same version the same bytes), and an accepted write
    keeps the two maps in agreement; a refused one changes nothing (`m.1 = t` by `Mem.putV`) -/
theorem C16_fn_put_with_version (f : Key → String) (hf : ∀ a b, f a = f b → a = b)
    (s : MemoryKVVStore) (t : Tab) (h : Sim f s t) (k : Key) (v : Nat) (x : Val) :
    Agree f (s.put_with_version (f k) v x) (Mem.putV t k v x) := by
  have hins : Sim f { s with data := Rs.smapInsert s.data (f k) (v, x) } (insert t k (v, x)) := by
    intro k'
    simp only [Rs.smapGet_insert, lookup_insert, h k']
    by_cases e : k = k'
    · simp [e]
    · have : ¬ f k = f k' := fun he => e (hf _ _ he)
      simp [e, this]
  unfold MemoryKVVStore.put_with_version Mem.putV
  rw [h k]
  cases hl : lookup t k with
  | none => simpa [Agree] using hins
  | some r =>
    obtain ⟨v0, x0⟩ := r
    by_cases h1 : v < v0
    · simp [Agree, h1, Rs.fail]
    · by_cases h2 : v = v0
      · by_cases h3 : x0 = x
        · simp [Agree, h1, h2, h3]; subst h2; exact h
        · simp [Agree, h2, h3, Rs.fail]
      · simp only [h1, h2, decide_false, if_false, Bool.false_eq_true, beq_iff_eq, Rs.pure_eq]
        simpa [Agree] using hins

/-- `put`: the next version is `get_version + 1` (plain `+`: overflow at `u64::MAX`), `0` for a new key, then
    `put_with_version` -/
theorem C16_fn_put (f : Key → String) (hf : ∀ a b, f a = f b → a = b)
    (s : MemoryKVVStore) (t : Tab) (h : Sim f s t) (k : Key) (x : Val) :
    Agree f (s.put (f k) x) (Mem.put t k x) := by
  unfold MemoryKVVStore.put Mem.put
  rw [C16_fn_get_version f s t h k]
  simp only [Rs.bind_ok]
  cases hl : lookup t k with
  | none =>
    simp only [Option.map, nextVer, Rs.pure_eq, Rs.bind_ok, Option.getD]
    exact C16_fn_put_with_version f hf s t h k 0 x
  | some r =>
    obtain ⟨v0, x0⟩ := r
    simp only [Option.map, nextVer, Rs.uadd, U64MAX, Rs.U64_MAX]
    by_cases hv : v0 < 18446744073709551615
    · have hv' : v0 + 1 ≤ 18446744073709551615 := hv
      simp only [hv, hv', if_true, Rs.pure_eq, Rs.bind_ok, Option.getD]
      exact C16_fn_put_with_version f hf s t h k (v0 + 1) x
    · have hv' : ¬ v0 + 1 ≤ 18446744073709551615 := by omega
      simp [hv, hv', Agree, Rs.overflow, bind, Except.bind]

/-! ### `put_batch` (check loop over a staged map, then the inserts) and `delete` (round 8)

The generated body runs the check loop as `Rs.loopM` (early `return Err(VersionMismatch)`, `continue` for an equal
entry) over a *staged* string-keyed map and, only if the loop ends normally, folds the inserts over `self.data`.
The model (`Mem.batch`) folds `Mem.checkStep` over `Option Tab` and then applies `insertAll`.  `SimSt` relates the
two staged maps; the batch handed to the code is the model's batch with every key renamed by `f`. -/

/-- the staged map of the code agrees with the model's staged table on every model key -/
def SimSt (f : Key → String) (staged : List (String × Rec)) (st : Tab) : Prop :=
  ∀ k, Rs.smapGet staged (f k) = lookup st k

/-- one iteration of the code's check loop against `Mem.checkStep` -/
def StepRel (f : Key → String) : Rs.M (Rs.Flow (List (String × Rec)) MemoryKVVStore) → Option Tab → Prop
  | .ok (.next staged'), some st' => SimSt f staged' st'
  | .error (.err tag), none => tag = "Error::VersionMismatch"
  | _, _ => False

/-- the whole check loop against the fold of `Mem.checkStep` -/
def LoopRel (f : Key → String) : Rs.M ((List (String × Rec)) ⊕ MemoryKVVStore) → Option Tab → Prop
  | .ok (.inl staged'), some st' => SimSt f staged' st'
  | .error (.err tag), none => tag = "Error::VersionMismatch"
  | _, _ => False

theorem check_loop (f : Key → String) (t : Tab)
    (b : List (String × Rec) → String × Rec → Rs.M (Rs.Flow (List (String × Rec)) MemoryKVVStore))
    (hb : ∀ staged st e, SimSt f staged st → StepRel f (b staged (f e.1, e.2)) (Mem.checkStep t (some st) e)) :
    ∀ (es : List (Key × Rec)) (staged : List (String × Rec)) (st : Tab), SimSt f staged st →
      LoopRel f (Rs.loopM (es.map (fun e => (f e.1, e.2))) staged b) (es.foldl (Mem.checkStep t) (some st)) := by
  intro es
  induction es with
  | nil => intro staged st h; exact h
  | cons e es ih =>
    intro staged st h
    have hs := hb staged st e h
    simp only [List.map_cons, List.foldl_cons, Rs.loopM]
    cases hr : b staged (f e.1, e.2) with
    | error err =>
      rw [hr] at hs
      cases hc : Mem.checkStep t (some st) e with
      | none =>
        rw [hc] at hs
        rw [Mem.foldl_checkStep_none]
        cases err <;> simp_all [StepRel, LoopRel, bind, Except.bind]
      | some st' => rw [hc] at hs; cases err <;> simp [StepRel] at hs
    | ok fl =>
      rw [hr] at hs
      cases hc : Mem.checkStep t (some st) e with
      | none => rw [hc] at hs; cases fl <;> simp [StepRel] at hs
      | some st' =>
        rw [hc] at hs
        cases fl with
        | next staged' =>
          have h' : SimSt f staged' st' := hs
          simpa [bind, Except.bind] using ih staged' st' h'
        | brk _ => simp [StepRel] at hs
        | ret _ => simp [StepRel] at hs

/-- the insert loop of `put_batch` keeps the two maps in agreement -/
theorem insert_loop (f : Key → String) (hf : ∀ a b, f a = f b → a = b) :
    ∀ (es : List (Key × Rec)) (s : MemoryKVVStore) (t : Tab), Sim f s t →
      Sim f (List.foldl (fun (self : MemoryKVVStore) (kvv : String × Rec) =>
               { self with data := Rs.smapInsert self.data kvv.1 kvv.2 }) s (es.map (fun e => (f e.1, e.2))))
            (insertAll t es) := by
  intro es
  induction es with
  | nil => intro s t h; exact h
  | cons e es ih =>
    intro s t h
    simp only [List.map_cons, List.foldl_cons, insertAll_cons]
    apply ih
    intro k'
    simp only [Rs.smapGet_insert, lookup_insert, h k']
    by_cases e' : e.1 = k'
    · simp [e']
    · have : ¬ f e.1 = f k' := fun he => e' (hf _ _ he)
      simp [e', this]

/-- the two loops of `put_batch` for any loop body that simulates `Mem.checkStep` -/
theorem batch_core (f : Key → String) (hf : ∀ a b, f a = f b → a = b)
    (s : MemoryKVVStore) (t : Tab) (h : Sim f s t) (es : List (Key × Rec))
    (b : List (String × Rec) → String × Rec → Rs.M (Rs.Flow (List (String × Rec)) MemoryKVVStore))
    (hb : ∀ staged st e, SimSt f staged st → StepRel f (b staged (f e.1, e.2)) (Mem.checkStep t (some st) e)) :
    Agree f
      (Rs.loopM (es.map (fun e => (f e.1, e.2))) [] b >>= fun lr =>
        match lr with
        | .inl _ => pure (List.foldl (fun (self : MemoryKVVStore) (kvv : String × Rec) =>
                      { self with data := Rs.smapInsert self.data kvv.1 kvv.2 }) s (es.map (fun e => (f e.1, e.2))))
        | .inr rv => pure rv)
      (match es.foldl (Mem.checkStep t) (some []) with
       | some _ => (insertAll t es, .ok)
       | none => (t, .mismatch)) := by
  have hloop := check_loop f t b hb es [] [] (fun _ => rfl)
  revert hloop
  generalize Rs.loopM _ _ _ = r
  cases hc : es.foldl (Mem.checkStep t) (some []) with
  | none =>
    intro hloop
    match r, hloop with
    | .error (.err tag), hl => simp [LoopRel] at hl; simp [Agree, hl, bind, Except.bind]
  | some st' =>
    intro hloop
    match r, hloop with
    | .ok (.inl staged'), _ =>
      simp only [Rs.bind_ok, Rs.pure_eq, Agree]
      exact insert_loop f hf es s t h

/-- `put_batch`: the same batches are refused (`Err(VersionMismatch)`, nothing written: `Mem.batch` returns `t`), and an
    accepted batch leaves the two maps in agreement -/
theorem C16_fn_put_batch (f : Key → String) (hf : ∀ a b, f a = f b → a = b)
    (s : MemoryKVVStore) (t : Tab) (h : Sim f s t) (es : List (Key × Rec)) :
    Agree f (s.put_batch (es.map (fun e => (f e.1, e.2)))) (Mem.batch t es) := by
  unfold MemoryKVVStore.put_batch Mem.batch
  refine batch_core f hf s t h es _ ?_
  intro staged st e hst
  have ho : Option.or (Rs.smapGet staged (f e.1)) (Rs.smapGet s.data (f e.1)) = olookup st t e.1 := by
    rw [hst e.1, h e.1]; unfold olookup; cases lookup st e.1 <;> rfl
  have hins : SimSt f (Rs.smapInsert staged (f e.1) e.2) (insert st e.1 e.2) := by
    intro k'
    simp only [Rs.smapGet_insert, lookup_insert, hst k']
    by_cases e' : e.1 = k'
    · simp [e']
    · have : ¬ f e.1 = f k' := fun he => e' (hf _ _ he)
      simp [e', this]
  simp only [Mem.checkStep, ho]
  cases hl : olookup st t e.1 with
  | none => simpa [StepRel] using hins
  | some r =>
    obtain ⟨v0, x0⟩ := r
    by_cases h1 : e.2.1 < v0
    · simp [StepRel, h1, Rs.fail, bind, Except.bind]
    · by_cases h2 : e.2.1 = v0
      · by_cases h3 : x0 = e.2.2
        · simpa [StepRel, h1, h2, h3] using hst
        · simp [StepRel, h2, h3, Rs.fail, bind, Except.bind]
      · simpa [StepRel, h1, h2] using hins

/-- `delete(key)` is `put(key, [])` (an empty value at the next version): same outcome as the model's `put` -/
theorem C16_fn_delete (f : Key → String) (hf : ∀ a b, f a = f b → a = b)
    (s : MemoryKVVStore) (t : Tab) (h : Sim f s t) (k : Key) :
    Agree f (s.delete (f k)) (Mem.put t k []) := by
  unfold MemoryKVVStore.delete
  exact C16_fn_put f hf s t h k []

/-! ## CloudKVVStore over a MemoryKVVStore: the read side (`do_get_version`, `do_get`, `get`, `get_version`)

`vls-persist/src/kvv/cloud.rs` is generic over the local store; the methods of the field `local` are explicit function
parameters of the generated definitions (`Gen/FnCloud.lean`).  They are instantiated here with the *generated*
`MemoryKVVStore::get` / `get_version`, so the statement reaches the memory store's source too. -/

open VlsModel.Gen.FnCloud (CloudKVVStore)

/-- the code's cloud store against the model's (outside the poisoned state): local stores in agreement, the commit
    logs both absent or in agreement on every key -/
structure SimC (f : Key → String) (cs : CloudKVVStore MemoryKVVStore) (c : Cloud) : Prop where
  np : c.poisoned = false
  loc : Sim f cs.«local» c.loc
  log : match cs.commit_log, c.log with
        | none, none => True
        | some cl, some lg => ∀ k, Rs.smapGet cl (f k) = lookup lg k
        | _, _ => False

/-- `do_get_version`: the pending version of the transaction if the key is in the log, else the local store's -/
theorem C16_fn_cloud_do_get_version (f : Key → String) (cs : CloudKVVStore MemoryKVVStore) (t : Tab)
    (h : Sim f cs.«local» t) (cl : List (String × (Nat × List Nat))) (lg : Tab)
    (hl : ∀ k, Rs.smapGet cl (f k) = lookup lg k) (k : Key) :
    cs.do_get_version (fun l key => l.get_version key) cl (f k)
      = .ok (Option.map (fun (r : Rec) => r.1) (match lookup lg k with | some r => some r | none => lookup t k)) := by
  unfold CloudKVVStore.do_get_version
  rw [hl k]
  cases hk : lookup lg k with
  | none => simp [C16_fn_get_version f cs.«local» t h k]
  | some r => obtain ⟨v, x⟩ := r; simp

/-- `do_get`: log first, then the local store (read-your-writes by key) -/
theorem C16_fn_cloud_do_get (f : Key → String) (cs : CloudKVVStore MemoryKVVStore) (t : Tab)
    (h : Sim f cs.«local» t) (cl : List (String × (Nat × List Nat))) (lg : Tab)
    (hl : ∀ k, Rs.smapGet cl (f k) = lookup lg k) (k : Key) :
    cs.do_get (fun l key => l.get key) cl (f k)
      = .ok (match lookup lg k with | some r => some r | none => lookup t k) := by
  unfold CloudKVVStore.do_get
  rw [hl k]
  cases hk : lookup lg k with
  | none => simp [C16_fn_get f cs.«local» t h k]
  | some r => obtain ⟨v, x⟩ := r; simp

/-- `get`: panics outside a transaction (`expect("not in transaction")`), else the model's `Cloud.get` -/
theorem C16_fn_cloud_get (f : Key → String) (cs : CloudKVVStore MemoryKVVStore) (c : Cloud) (h : SimC f cs c) (k : Key) :
    cs.get (fun l key => l.get key) (f k)
      = (match (Cloud.get c k).2 with | some r => .ok r | none => .error .panic) := by
  unfold CloudKVVStore.get Cloud.get
  have hlog := h.log
  simp only [h.np, Bool.false_eq_true, if_false]
  cases hc : cs.commit_log with
  | none =>
    cases hg : c.log with
    | none => simp [Rs.unwrap, Rs.panic, bind, Except.bind]
    | some lg => rw [hc, hg] at hlog; exact hlog.elim
  | some cl =>
    cases hg : c.log with
    | none => rw [hc, hg] at hlog; exact hlog.elim
    | some lg =>
      rw [hc, hg] at hlog
      simp only [Rs.unwrap, Rs.pure_eq, Rs.bind_ok]
      rw [C16_fn_cloud_do_get f cs c.loc h.loc cl lg hlog k]
      cases lookup lg k <;> rfl

/-- `get_version`: the version of what `get` returns -/
theorem C16_fn_cloud_get_version (f : Key → String) (cs : CloudKVVStore MemoryKVVStore) (c : Cloud) (h : SimC f cs c) (k : Key) :
    cs.get_version (fun l key => l.get_version key) (f k)
      = (match (Cloud.get c k).2 with | some r => .ok (Option.map (fun (r : Rec) => r.1) r) | none => .error .panic) := by
  unfold CloudKVVStore.get_version Cloud.get
  have hlog := h.log
  simp only [h.np, Bool.false_eq_true, if_false]
  cases hc : cs.commit_log with
  | none =>
    cases hg : c.log with
    | none => simp [Rs.unwrap, Rs.panic, bind, Except.bind]
    | some lg => rw [hc, hg] at hlog; exact hlog.elim
  | some cl =>
    cases hg : c.log with
    | none => rw [hc, hg] at hlog; exact hlog.elim
    | some lg =>
      rw [hc, hg] at hlog
      simp only [Rs.unwrap, Rs.pure_eq, Rs.bind_ok]
      rw [C16_fn_cloud_do_get_version f cs c.loc h.loc cl lg hlog k]
      cases lookup lg k <;> rfl

end VlsModel.Props.C16Fn
