import VlsModel.Lemmas.KVV
import VlsModel.Gen.FnKvv
import VlsModel.Lemmas.FnGen
/-
C16 — the in-memory store of the model (`KVV.Mem.putV`, `KVV.Mem.put`, `KVV.nextVer`) tied to the bodies of
`MemoryKVVStore::{put_with_version, get_version, put, get}` that `translate/rs2lean.py` regenerates from
`vls-persist/src/kvv/memory.rs` (`Gen/FnKvv.lean`).

The model indexes entries by abstract keys (`Nat`), the code by strings, so the tie is a simulation rather than an
equality of terms: for any injective naming `f` of the model's keys, `Sim f` (every model key looks up the same
record in both maps) is preserved by every operation, and the outcomes (`ok` / `Err(VersionMismatch)` / overflow of
`v + 1`) coincide.  `self.data.lock().unwrap()` is translated as the identity on the protected map (trusted).
-/
namespace VlsModel.Props.C16Fn
open VlsModel VlsModel.KVV
open VlsModel.Gen.FnKvv (MemoryKVVStore)

/-- the code's map agrees with the model's table on every key the model knows -/
def Sim (f : Key → String) (s : MemoryKVVStore) (t : Tab) : Prop :=
  ∀ k, Rs.smapGet s.data (f k) = lookup t k

/-- outcome of a mutating call of the code against the model's `Tab × Res` -/
def Agree (f : Key → String) (r : Rs.M MemoryKVVStore) (m : Tab × Res) : Prop :=
  match r, m.2 with
  | .ok s', .ok => Sim f s' m.1
  | .error (.err tag), .mismatch => tag = "Error::VersionMismatch"
  | .error .overflow, .panic => True
  | _, _ => False

theorem C16_fn_get (f : Key → String) (s : MemoryKVVStore) (t : Tab) (h : Sim f s t) (k : Key) :
    s.get (f k) = .ok (lookup t k) := by
  simp [MemoryKVVStore.get, h k]

theorem C16_fn_get_version (f : Key → String) (s : MemoryKVVStore) (t : Tab) (h : Sim f s t) (k : Key) :
    s.get_version (f k) = .ok ((lookup t k).map (·.1)) := by
  simp only [MemoryKVVStore.get_version, h k, Rs.pure_eq]

/-- `put_with_version`: same decision (not lower; at the same version the same bytes), and an accepted write
    keeps the two maps in agreement; a refused one changes nothing (`m.1 = t` by `Mem.putV`) -/
theorem C16_fn_put_with_version (f : Key → String) (hf : ∀ a b, f a = f b → a = b)
    (s : MemoryKVVStore) (t : Tab) (h : Sim f s t) (k : Key) (v : Nat) (x : Val) :
    Agree f (s.put_with_version (f k) v x) (Mem.putV t k v x) := by
  have hins : Sim f { s with data := Rs.smapInsert s.data (f k) (v, x) } (insert t k (v, x)) := by
    intro k'
    simp only [Rs.smapGet_insert, lookup_insert, h k']
    by_cases e : k = k'
    · simp [e]
    · have : ¬ f k = f k' := fun he => e (hf _ _ he)
      simp [e, this]
  unfold MemoryKVVStore.put_with_version Mem.putV
  rw [h k]
  cases hl : lookup t k with
  | none => simpa [Agree] using hins
  | some r =>
    obtain ⟨v0, x0⟩ := r
    by_cases h1 : v < v0
    · simp [Agree, h1, Rs.fail]
    · by_cases h2 : v = v0
      · by_cases h3 : x0 = x
        · simp [Agree, h1, h2, h3]; subst h2; exact h
        · simp [Agree, h2, h3, Rs.fail]
      · simp only [h1, h2, decide_false, if_false, Bool.false_eq_true, beq_iff_eq, Rs.pure_eq]
        simpa [Agree] using hins

/-- `put`: the next version is `get_version + 1` (plain `+`: overflow at `u64::MAX`), `0` for a new key, then
    `put_with_version` -/
theorem C16_fn_put (f : Key → String) (hf : ∀ a b, f a = f b → a = b)
    (s : MemoryKVVStore) (t : Tab) (h : Sim f s t) (k : Key) (x : Val) :
    Agree f (s.put (f k) x) (Mem.put t k x) := by
  unfold MemoryKVVStore.put Mem.put
  rw [C16_fn_get_version f s t h k]
  simp only [Rs.bind_ok]
  cases hl : lookup t k with
  | none =>
    simp only [Option.map, nextVer, Rs.pure_eq, Rs.bind_ok, Option.getD]
    exact C16_fn_put_with_version f hf s t h k 0 x
  | some r =>
    obtain ⟨v0, x0⟩ := r
    simp only [Option.map, nextVer, Rs.uadd, U64MAX, Rs.U64_MAX]
    by_cases hv : v0 < 18446744073709551615
    · have hv' : v0 + 1 ≤ 18446744073709551615 := hv
      simp only [hv, hv', if_true, Rs.pure_eq, Rs.bind_ok, Option.getD]
      exact C16_fn_put_with_version f hf s t h k (v0 + 1) x
    · have hv' : ¬ v0 + 1 ≤ 18446744073709551615 := by omega
      simp [hv, hv', Agree, Rs.overflow, bind, Except.bind]

end VlsModel.Props.C16Fn
